package main

// Projections of the implementation state.
//   modelDump: the canonical text of exactly the fields the Coq model has (raw index maps and
//              back links through the overlay hooks, entity ids replaced by handles); compared
//              with the dump the OCaml driver prints from the model state after every step.
//   snapshot:  every observable property of every entity of the pool through the public getters
//              (plus the raw maps); compared before/after each failing call (C06: a rejected
//              operation changes nothing).

import (
	"fmt"
	"sort"
	"strconv"
	"strings"

	acme "github.com/squadracorsepolito/acmelib"
)

func joinSorted(xs []string, numeric bool) string {
	if numeric {
		sort.Slice(xs, func(i, j int) bool {
			a, e1 := strconv.ParseInt(xs[i], 10, 64)
			b, e2 := strconv.ParseInt(xs[j], 10, 64)
			if e1 != nil || e2 != nil {
				return xs[i] < xs[j]
			}
			return a < b
		})
	} else {
		sort.Strings(xs)
	}
	return strings.Join(xs, ",")
}

type kv struct {
	k int64
	s string
}

func joinKV(xs []kv) string {
	sort.Slice(xs, func(i, j int) bool { return xs[i].k < xs[j].k })
	out := make([]string, len(xs))
	for i, x := range xs {
		out[i] = x.s
	}
	return strings.Join(out, ",")
}

func nameKey(s string) int64 {
	v, err := strconv.ParseInt(nameNum(s), 10, 64)
	if err != nil {
		return -1
	}
	return v
}

func mapNameID(p *Pool, m map[string]acme.EntityID) string {
	var xs []kv
	for k, v := range m {
		xs = append(xs, kv{nameKey(k), nameNum(k) + ">" + p.hid(v)})
	}
	return joinKV(xs)
}

func optNet(p *Pool, n *acme.Network) string {
	if n == nil {
		return "-"
	}
	return p.hid(n.EntityID())
}
func optBus(p *Pool, b *acme.Bus) string {
	if b == nil {
		return "-"
	}
	return p.hid(b.EntityID())
}
func optEnum(p *Pool, e *acme.SignalEnum) string {
	if e == nil {
		return "-"
	}
	return p.hid(e.EntityID())
}

func b01(b bool) string {
	if b {
		return "1"
	}
	return "0"
}

func modelDump(p *Pool) string {
	var items []string
	for _, e := range p.ents {
		h := strconv.Itoa(e.H)
		switch e.K {
		case KNet:
			var bs []string
			for id := range e.Net.VerifBuses() {
				bs = append(bs, p.hid(id))
			}
			items = append(items, fmt.Sprintf("N%s:b=%s;bn=%s", h, joinSorted(bs, true), mapNameID(p, e.Net.VerifBusNames())))
		case KBus:
			b := e.Bus
			var ni, id, st []kv
			for k, v := range b.VerifNodeInts() {
				kh, _ := strconv.ParseInt(p.hid(k), 10, 64)
				ni = append(ni, kv{kh, p.hid(k) + ">" + p.hif(v)})
			}
			for k, v := range b.VerifNodeIDs() {
				id = append(id, kv{int64(k), strconv.FormatInt(int64(k), 10) + ">" + p.hid(v)})
			}
			for k, v := range b.VerifStaticCANIDs() {
				st = append(st, kv{int64(k), strconv.FormatInt(int64(k), 10) + ">" + p.hid(v)})
			}
			items = append(items, fmt.Sprintf("B%s:n=%s;p=%s;ni=%s;nn=%s;id=%s;st=%s;ty=%d", h, nameNum(b.Name()), optNet(p, b.ParentNetwork()),
				joinKV(ni), mapNameID(p, b.VerifNodeNames()), joinKV(id), joinKV(st), int(b.Type())))
		case KNode:
			n := e.Node
			var ifs []string
			for _, ni := range n.Interfaces() {
				ifs = append(ifs, p.hif(ni))
			}
			items = append(items, fmt.Sprintf("O%s:n=%s;id=%d;if=%s;c=%d", h, nameNum(n.Name()), n.ID(), strings.Join(ifs, ","), n.VerifInterfaceCount()))
		case KIface:
			i := e.Iface
			var s, r []string
			var si, ss []kv
			for id := range i.VerifSent() {
				s = append(s, p.hid(id))
			}
			for id := range i.VerifReceived() {
				r = append(r, p.hid(id))
			}
			for k, v := range i.VerifSentIDs() {
				si = append(si, kv{int64(k), strconv.FormatInt(int64(k), 10) + ">" + p.hid(v)})
			}
			for k, v := range i.VerifSentStatic() {
				ss = append(ss, kv{int64(k), strconv.FormatInt(int64(k), 10) + ">" + p.hid(v)})
			}
			items = append(items, fmt.Sprintf("I%s:nd=%s;k=%d;p=%s;s=%s;sn=%s;si=%s;ss=%s;r=%s", h, p.hid(i.Node().EntityID()), i.Number(),
				optBus(p, i.ParentBus()), joinSorted(s, true), mapNameID(p, i.VerifSentNames()), joinKV(si), joinKV(ss), joinSorted(r, true)))
		case KMsg:
			m := e.Msg
			var rc []kv
			for k, v := range m.VerifReceivers() {
				kh, _ := strconv.ParseInt(p.hid(k), 10, 64)
				rc = append(rc, kv{kh, p.hid(k) + ">" + p.hif(v)})
			}
			items = append(items, fmt.Sprintf("M%s:n=%s;id=%d;st=%d;hs=%s;sz=%d;sd=%s;rc=%s", h, nameNum(m.Name()), m.ID(), m.VerifStaticCANID(),
				b01(m.HasStaticCANID()), m.SizeByte(), p.hif(m.SenderNodeInterface()), joinKV(rc)))
		case KEnum:
			en := e.Enum
			var vs []string
			var vi []kv
			for id := range en.VerifValues() {
				vs = append(vs, p.hid(id))
			}
			for k, v := range en.VerifValueIndexes() {
				vi = append(vi, kv{int64(k), strconv.Itoa(k) + ">" + p.hid(v)})
			}
			items = append(items, fmt.Sprintf("E%s:v=%s;vn=%s;vi=%s;mx=%d", h, joinSorted(vs, true), mapNameID(p, en.VerifValueNames()), joinKV(vi), en.MaxIndex()))
		case KEval:
			v := e.Eval
			items = append(items, fmt.Sprintf("V%s:n=%s;ix=%d;p=%s", h, nameNum(v.Name()), v.Index(), optEnum(p, v.ParentEnum())))
		}
	}
	// layer 3: signals with their shared definitions, reference sets, assignments, custom builders
	var gItems, xItems, tItems []string
	sigOpt := func(sg acme.Signal) string {
		if sg == nil {
			return "-"
		}
		return p.hid(sg.EntityID())
	}
	for _, e := range p.ents {
		switch e.K {
		case KSig:
			pm, px := "-", "-"
			if m := e.Sig.ParentMessage(); m != nil {
				pm = p.hid(m.EntityID())
			}
			if mx := e.Sig.ParentMultiplexerSignal(); mx != nil {
				px = p.hid(mx.EntityID())
			}
			gItems = append(gItems, fmt.Sprintf("G%d:n=%s;pm=%s;px=%s", e.H, nameNum(e.Sig.Name()), pm, px))
			if e.Sig.Kind() == acme.SignalKindMultiplexer {
				mx, _ := e.Sig.ToMultiplexer()
				var ss, fx []string
				for id := range mx.VerifSignals() {
					ss = append(ss, p.hid(id))
				}
				for id := range mx.VerifFixedSignals() {
					fx = append(fx, p.hid(id))
				}
				var gi []kv
				for id, ids := range mx.VerifSignalGroupIDs() {
					var xs []string
					for _, g := range ids {
						xs = append(xs, strconv.Itoa(g))
					}
					kh, _ := strconv.ParseInt(p.hid(id), 10, 64)
					gi = append(gi, kv{kh, p.hid(id) + ":" + strings.Join(xs, "+")})
				}
				xItems = append(xItems, fmt.Sprintf("X%d:c=%d;g=%d;s=%s;sn=%s;f=%s;gi=%s", e.H, mx.GroupCount(), mx.GroupSize(),
					joinSorted(ss, true), mapNameID(p, mx.VerifSignalNames()), joinSorted(fx, true), joinKV(gi)))
			}
		case KMsg:
			var top, reg []string
			for _, sg := range e.Msg.Signals() {
				top = append(top, sigOpt(sg))
			}
			for id := range e.Msg.VerifSignals() {
				reg = append(reg, p.hid(id))
			}
			t, r, rn := joinSorted(top, true), joinSorted(reg, true), mapNameID(p, e.Msg.VerifSignalNames())
			if t != "" || r != "" || rn != "" {
				tItems = append(tItems, fmt.Sprintf("T%d:t=%s;r=%s;rn=%s", e.H, t, r, rn))
			}
		}
	}
	refs := map[string][]string{}
	addRef := func(tag string, h int, xs []string) {
		if len(xs) > 0 {
			refs[tag] = append(refs[tag], fmt.Sprintf("%s%d:%s", tag, h, joinSorted(xs, true)))
		}
	}
	for _, e := range p.ents {
		switch e.K {
		case KSig:
			t, u, en, k := "-", "-", "-", "2"
			switch e.Sig.Kind() {
			case acme.SignalKindStandard:
				k = "0"
				ss, _ := e.Sig.ToStandard()
				t = p.hid(ss.Type().EntityID())
				if ss.Unit() != nil {
					u = p.hid(ss.Unit().EntityID())
				}
			case acme.SignalKindEnum:
				k = "1"
				es, _ := e.Sig.ToEnum()
				en = p.hid(es.Enum().EntityID())
			}
			if k != "2" {
				items = append(items, fmt.Sprintf("S%d:k=%s;t=%s;u=%s;e=%s", e.H, k, t, u, en))
			}
			addRef("As", e.H, assignedAttrs(p, e.Sig.AttributeAssignments()))
		case KType:
			addRef("Rt", e.H, idsOf(p, e.Type.VerifRefs()))
		case KUnit:
			addRef("Ru", e.H, idsOf(p, e.Unit.VerifRefs()))
		case KEnum:
			addRef("Re", e.H, idsOf(p, e.Enum.VerifRefs()))
		case KAttr:
			var xs []string
			for _, r := range e.Attr.References() {
				xs = append(xs, entRef(p, r.Entity()))
			}
			addRef("Ra", e.H, xs)
			refs["Ak"] = append(refs["Ak"], fmt.Sprintf("Ak%d:%s", e.H, attrKind(e.Attr)))
		case KBuilder:
			addRef("Rc", e.H, idsOf(p, e.Bld.VerifRefs()))
		case KBus:
			addRef("As", e.H, assignedAttrs(p, e.Bus.AttributeAssignments()))
			if !e.Bus.VerifIsDefCANIDBuilder() && e.Bus.CANIDBuilder() != nil {
				refs["Bb"] = append(refs["Bb"], fmt.Sprintf("Bb%d:%s", e.H, p.hid(e.Bus.CANIDBuilder().EntityID())))
			}
		case KNode:
			addRef("As", e.H, assignedAttrs(p, e.Node.AttributeAssignments()))
		case KMsg:
			addRef("As", e.H, assignedAttrs(p, e.Msg.AttributeAssignments()))
		}
	}
	// entity items in handle order (the first character is the kind letter, then the handle)
	sort.SliceStable(items, func(i, j int) bool { return itemHandle(items[i]) < itemHandle(items[j]) })
	out := strings.Join(items, "|")
	for _, grp := range [][]string{gItems, xItems, tItems} {
		for _, x := range grp {
			out += "|" + x
		}
	}
	for _, tag := range []string{"Rt", "Ru", "Re", "Ra", "As", "Rc", "Bb", "Ak"} {
		for _, x := range refs[tag] {
			out += "|" + x
		}
	}
	return out
}

// attrKind: kind and range of an attribute definition as the model has it (floats in thousandths,
// strings by code)
func attrKind(at acme.Attribute) string {
	milli := func(x float64) int64 {
		if x < 0 {
			return int64(x*1000 - 0.5)
		}
		return int64(x*1000 + 0.5)
	}
	switch at.Type() {
	case acme.AttributeTypeInteger:
		ia, _ := at.ToInteger()
		return fmt.Sprintf("i,%d,%d", ia.Min(), ia.Max())
	case acme.AttributeTypeFloat:
		fa, _ := at.ToFloat()
		return fmt.Sprintf("f,%d,%d", milli(fa.Min()), milli(fa.Max()))
	case acme.AttributeTypeEnum:
		ea, _ := at.ToEnum()
		var xs []string
		for _, v := range ea.Values() {
			xs = append(xs, strconv.FormatInt(attrCode(v), 10))
		}
		return "e," + strings.Join(xs, "+")
	}
	return "s"
}

func attrCode(s string) int64 {
	switch s {
	case "a":
		return 5
	case "zz":
		return 6
	case "b":
		return 7
	}
	var n int64
	fmt.Sscanf(s, "s%d", &n)
	return n
}

func itemHandle(s string) int {
	n := 0
	for i := 1; i < len(s) && s[i] >= '0' && s[i] <= '9'; i++ {
		n = n*10 + int(s[i]-'0')
	}
	return n
}

func idsOf[R any](p *Pool, m map[acme.EntityID]R) []string {
	var xs []string
	for id := range m {
		xs = append(xs, p.hid(id))
	}
	return xs
}

func assignedAttrs(p *Pool, as []*acme.AttributeAssignment) []string {
	var xs []string
	for _, a := range as {
		xs = append(xs, p.hid(a.Attribute().EntityID()))
	}
	return xs
}

// ---- whole-pool snapshot through the public getters --------------------------------------------

func snapshot(p *Pool) string {
	var sb strings.Builder
	w := func(format string, a ...any) { fmt.Fprintf(&sb, format, a...) }
	for _, e := range p.ents {
		w("#%d %s ", e.H, kindName[e.K])
		switch e.K {
		case KNet:
			n := e.Net
			w("name=%q desc=%q buses=[", n.Name(), n.Desc())
			for _, b := range n.Buses() {
				w("%s ", p.hid(b.EntityID()))
			}
			w("]")
		case KBus:
			b := e.Bus
			w("name=%q desc=%q net=%s baud=%d type=%d builder=%s def=%v nodes=[", b.Name(), b.Desc(), optNet(p, b.ParentNetwork()), b.Baudrate(), b.Type(), builderID(p, b.CANIDBuilder()), b.VerifIsDefCANIDBuilder())
			var xs []string
			for _, ni := range b.NodeInterfaces() {
				xs = append(xs, p.hif(ni))
			}
			w("%s] att=%s", joinSorted(xs, true), attSnap(p, b.AttributeAssignments()))
			for _, nm := range []int64{0, 1, 2, 3, 4, 5} {
				w(" byname%d=%s", nm, guardStr(func() string {
					ni, err := b.GetNodeInterfaceByNodeName(nameStr(nm))
					return fmt.Sprintf("%s/%v", p.hif(ni), err != nil)
				}))
			}
		case KNode:
			n := e.Node
			w("name=%q desc=%q id=%d count=%d errnum=%d ifs=[", n.Name(), n.Desc(), n.ID(), n.VerifInterfaceCount(), n.VerifIntErrNum())
			for _, ni := range n.Interfaces() {
				w("%s:%d ", p.hif(ni), ni.Number())
			}
			w("] att=%s", attSnap(p, n.AttributeAssignments()))
		case KIface:
			i := e.Iface
			var s, r []string
			for _, m := range i.SentMessages() {
				s = append(s, p.hid(m.EntityID()))
			}
			for _, m := range i.ReceivedMessages() {
				r = append(r, p.hid(m.EntityID()))
			}
			w("node=%s num=%d bus=%s sent=[%s] recv=[%s]", p.hid(i.Node().EntityID()), i.Number(), optBus(p, i.ParentBus()), joinSorted(s, true), joinSorted(r, true))
			for _, nm := range []int64{0, 1, 2, 3, 4, 5} {
				w(" byname%d=%s", nm, guardStr(func() string {
					m, err := i.GetSentMessageByName(nameStr(nm))
					if m != nil {
						return p.hid(m.EntityID())
					}
					return fmt.Sprintf("-/%v", err != nil)
				}))
			}
		case KMsg:
			m := e.Msg
			var rc []string
			for _, r := range m.Receivers() {
				rc = append(rc, p.hif(r))
			}
			w("name=%q desc=%q id=%d static=%v canid=%s size=%d prio=%d order=%d cycle=%d send=%d delay=%d sdelay=%d sender=%s recv=[%s] att=%s",
				m.Name(), m.Desc(), m.ID(), m.HasStaticCANID(), canID(m), m.SizeByte(), m.Priority(), m.ByteOrder(), m.CycleTime(), m.SendType(), m.DelayTime(),
				m.StartDelayTime(), p.hif(m.SenderNodeInterface()), joinSorted(rc, true), attSnap(p, m.AttributeAssignments()))
			w(" %s", msgSignalsSnap(p, m))
		case KEnum:
			en := e.Enum
			w("name=%q desc=%q max=%d min=%d size=%d refs=%d parerr=%q vals=[", en.Name(), en.Desc(), en.MaxIndex(), en.MinSize(), en.GetSize(), en.ReferenceCount(), en.VerifParErrID())
			for _, v := range en.Values() {
				w("%s ", p.hid(v.EntityID()))
			}
			w("] refs=%s", refsSnap(p, en.VerifRefs()))
		case KEval:
			v := e.Eval
			w("name=%q desc=%q idx=%d enum=%s", v.Name(), v.Desc(), v.Index(), optEnum(p, v.ParentEnum()))
		default:
			w("%s", extraSnap(p, e))
		}
		// raw side of the modelled kinds
		w("\n")
	}
	sb.WriteString(modelDump(p))
	return sb.String()
}

func guardStr(f func() string) (s string) {
	defer func() {
		if r := recover(); r != nil {
			s = "PANIC"
		}
	}()
	return f()
}

// GetCANID panics on a bus without builder (D19); the snapshot must not die on it
func canID(m *acme.Message) (s string) {
	defer func() {
		if r := recover(); r != nil {
			s = "PANIC"
		}
	}()
	return strconv.FormatUint(uint64(m.GetCANID()), 10)
}

func builderID(p *Pool, b *acme.CANIDBuilder) string {
	if b == nil {
		return "-"
	}
	if h, ok := p.byID[b.EntityID()]; ok {
		return strconv.Itoa(h)
	}
	return "default"
}

func attSnap(p *Pool, as []*acme.AttributeAssignment) string {
	var xs []string
	for _, a := range as {
		xs = append(xs, fmt.Sprintf("%s=%v", p.hid(a.Attribute().EntityID()), a.Value()))
	}
	sort.Strings(xs)
	return "{" + strings.Join(xs, ",") + "}"
}

func refsSnap[R interface{ EntityID() acme.EntityID }](p *Pool, m map[acme.EntityID]R) string {
	var xs []string
	for id := range m {
		xs = append(xs, p.hid(id))
	}
	return "{" + joinSorted(xs, true) + "}"
}

// firstDiff describes where two snapshots differ (line level)
func firstDiff(a, b string) string {
	la, lb := strings.Split(a, "\n"), strings.Split(b, "\n")
	for i := 0; i < len(la) && i < len(lb); i++ {
		if la[i] != lb[i] {
			return fmt.Sprintf("before: %s\nafter:  %s", trunc(la[i], 400), trunc(lb[i], 400))
		}
	}
	return fmt.Sprintf("snapshots differ in length (%d vs %d lines)", len(la), len(lb))
}

func trunc(s string, n int) string {
	if len(s) > n {
		return s[:n] + "…"
	}
	return s
}
