package main

// Operations: text form (shared with the OCaml driver and the replay files), execution on the
// implementation inside recover(), and classification of the returned error.

import (
	"errors"
	"fmt"
	"strconv"
	"strings"

	acme "github.com/squadracorsepolito/acmelib"
)

type Op struct {
	Name string
	A    []int64
}

func (o Op) String() string {
	parts := []string{o.Name}
	for _, a := range o.A {
		parts = append(parts, strconv.FormatInt(a, 10))
	}
	return strings.Join(parts, " ")
}

func parseOp(s string) (Op, error) {
	f := strings.Fields(s)
	if len(f) == 0 {
		return Op{}, fmt.Errorf("empty op")
	}
	o := Op{Name: f[0]}
	for _, x := range f[1:] {
		v, err := strconv.ParseInt(x, 10, 64)
		if err != nil {
			return Op{}, err
		}
		o.A = append(o.A, v)
	}
	return o, nil
}

// modelled reports whether the Coq model has this operation (others are executed and checked
// on the Go side only and written as X lines, which the OCaml driver skips)
func modelled(name string) bool {
	_, ok := modelledOps[name]
	return ok
}

var modelledOps = map[string]bool{
	"NewNetwork": true, "NewBus": true, "NewNode": true, "NewMessage": true, "NewEnum": true, "NewEnumValue": true,
	"NetAddBus": true, "NetRemoveBus": true, "NetRemoveAllBuses": true,
	"BusUpdateName": true, "BusAddNodeInterface": true, "BusRemoveNodeInterface": true, "BusRemoveAllNodeInterfaces": true,
	"NodeUpdateName": true, "NodeUpdateID": true, "NodeAddInterface": true, "NodeRemoveInterface": true,
	"IfAddSent": true, "IfRemoveSent": true, "IfRemoveAllSent": true,
	"IfAddReceived": true, "IfRemoveReceived": true, "IfRemoveAllReceived": true,
	"MsgUpdateName": true, "MsgUpdateID": true, "MsgSetStatic": true, "MsgAddReceiver": true, "MsgRemoveReceiver": true,
	"EnumAddValue": true, "EnumRemoveValue": true, "EnumRemoveAllValues": true, "EvalUpdateName": true, "EvalUpdateIndex": true,
	// layer 3 (references)
	"NewStdSignal": true, "NewEnumSignal": true, "StdSetType": true, "StdSetUnit": true, "EnumSetEnum": true,
	"Assign": true, "RemoveAssign": true, "RemoveAllAssign": true, "BusSetBuilder": true,
	// layer 2 (signals by name in messages and multiplexers)
	"NewMuxSignal": true, "MsgAppendSignal": true, "MsgInsertSignal": true, "MsgRemoveSignal": true, "MsgRemoveAllSignals": true,
	"SigUpdateName": true, "MuxInsertSignal": true, "MuxRemoveSignal": true, "MuxClearGroup": true, "MuxClearAll": true,
	// Clone of an enum (with its values) and of an enum value are model operations (EnumClone / EvalClone)
	"CloneEnum": true, "CloneEval": true,
	// size of a message, type of a bus (MsgResize / BusSetType)
	"MsgUpdateSize": true, "BusSetType": true,
	// attribute definitions with their kind and range (NewAttr / AttrClone): the value check of Assign is derived in the model
	"NewAttrString": true, "NewAttrInt": true, "NewAttrFloat": true, "NewAttrEnum": true, "CloneAttr": true,
}

// goName: the Go method an operation stands for (call site in signatures and messages)
var goName = map[string]string{
	"NetAddBus": "Network.AddBus", "NetRemoveBus": "Network.RemoveBus", "NetRemoveAllBuses": "Network.RemoveAllBuses",
	"BusUpdateName": "Bus.UpdateName", "BusAddNodeInterface": "Bus.AddNodeInterface",
	"BusRemoveNodeInterface": "Bus.RemoveNodeInterface", "BusRemoveAllNodeInterfaces": "Bus.RemoveAllNodeInterfaces",
	"NodeUpdateName": "Node.UpdateName", "NodeUpdateID": "Node.UpdateID", "NodeAddInterface": "Node.AddInterface",
	"NodeRemoveInterface": "Node.RemoveInterface",
	"IfAddSent":           "NodeInterface.AddSentMessage", "IfRemoveSent": "NodeInterface.RemoveSentMessage",
	"IfRemoveAllSent": "NodeInterface.RemoveAllSentMessages", "IfAddReceived": "NodeInterface.AddReceivedMessage",
	"IfRemoveReceived": "NodeInterface.RemoveReceivedMessage", "IfRemoveAllReceived": "NodeInterface.RemoveAllReceivedMessages",
	"MsgUpdateName": "Message.UpdateName", "MsgUpdateID": "Message.UpdateID", "MsgSetStatic": "Message.SetStaticCANID",
	"MsgAddReceiver": "Message.AddReceiver", "MsgRemoveReceiver": "Message.RemoveReceiver",
	"EnumAddValue": "SignalEnum.AddValue", "EnumRemoveValue": "SignalEnum.RemoveValue",
	"EnumRemoveAllValues": "SignalEnum.RemoveAllValues", "EvalUpdateName": "SignalEnumValue.UpdateName",
	"EvalUpdateIndex": "SignalEnumValue.UpdateIndex",
}

func site(o Op) string {
	if g, ok := goName[o.Name]; ok {
		return g
	}
	return o.Name
}

type Outcome struct {
	Err      error
	Panicked bool
	PanicMsg string
}

// exec runs one operation on the implementation. The receiver of a method is always a live
// object of the right kind (the generator guarantees it; a replay file that breaks this is
// rejected with errBadReplay).
var errBadReplay = errors.New("replay: receiver handle does not denote an entity of the right kind")

func exec(p *Pool, o Op) (out Outcome, bad error) {
	defer func() {
		if r := recover(); r != nil {
			out.Panicked = true
			out.PanicMsg = fmt.Sprint(r)
		}
	}()
	a := func(i int) int64 {
		if i < len(o.A) {
			return o.A[i]
		}
		return 0
	}
	need := func(ok bool) bool {
		if !ok {
			bad = errBadReplay
		}
		return ok
	}
	switch o.Name {
	case "NewNetwork":
		p.newNetwork()
	case "NewBus":
		p.newBus(a(0))
	case "NewNode":
		p.newNode(a(0), a(1), a(2))
	case "NewMessage":
		p.newMessage(a(0), a(1), a(2))
	case "NewEnum":
		p.newEnum()
	case "NewEnumValue":
		p.newEnumValue(a(0), a(1))

	case "NetAddBus":
		if n := p.net(a(0)); need(n != nil) {
			out.Err = n.AddBus(p.bus(a(1)))
		}
	case "NetRemoveBus":
		if n := p.net(a(0)); need(n != nil) {
			out.Err = n.RemoveBus(p.eid(a(1)))
		}
	case "NetRemoveAllBuses":
		if n := p.net(a(0)); need(n != nil) {
			n.RemoveAllBuses()
		}

	case "BusUpdateName":
		if b := p.bus(a(0)); need(b != nil) {
			out.Err = b.UpdateName(nameStr(a(1)))
		}
	case "BusAddNodeInterface":
		if b := p.bus(a(0)); need(b != nil) {
			out.Err = b.AddNodeInterface(p.iface(a(1)))
		}
	case "BusRemoveNodeInterface":
		if b := p.bus(a(0)); need(b != nil) {
			out.Err = b.RemoveNodeInterface(p.eid(a(1)))
		}
	case "BusRemoveAllNodeInterfaces":
		if b := p.bus(a(0)); need(b != nil) {
			b.RemoveAllNodeInterfaces()
		}

	case "NodeUpdateName":
		if n := p.node(a(0)); need(n != nil) {
			out.Err = n.UpdateName(nameStr(a(1)))
		}
	case "NodeUpdateID":
		if n := p.node(a(0)); need(n != nil) {
			out.Err = n.UpdateID(acme.NodeID(a(1)))
		}
	case "NodeAddInterface":
		if n := p.node(a(0)); need(n != nil) {
			n.AddInterface()
			ints := n.Interfaces()
			ni := ints[len(ints)-1]
			ih := p.add(&Ent{K: KIface, Iface: ni})
			p.byIface[ni] = ih
		}
	case "NodeRemoveInterface":
		if n := p.node(a(0)); need(n != nil) {
			before := append([]*acme.NodeInterface{}, n.Interfaces()...)
			out.Err = n.RemoveInterface(int(a(1)))
			if out.Err == nil {
				left := map[*acme.NodeInterface]bool{}
				for _, ni := range n.Interfaces() {
					left[ni] = true
				}
				for _, ni := range before {
					if !left[ni] {
						if e := p.get(int64(p.byIface[ni])); e != nil {
							e.Dead = true
						}
					}
				}
			}
		}

	case "IfAddSent":
		if i := p.iface(a(0)); need(i != nil) {
			out.Err = i.AddSentMessage(p.msg(a(1)))
		}
	case "IfRemoveSent":
		if i := p.iface(a(0)); need(i != nil) {
			out.Err = i.RemoveSentMessage(p.eid(a(1)))
		}
	case "IfRemoveAllSent":
		if i := p.iface(a(0)); need(i != nil) {
			i.RemoveAllSentMessages()
		}
	case "IfAddReceived":
		if i := p.iface(a(0)); need(i != nil) {
			out.Err = i.AddReceivedMessage(p.msg(a(1)))
		}
	case "IfRemoveReceived":
		if i := p.iface(a(0)); need(i != nil) {
			out.Err = i.RemoveReceivedMessage(p.eid(a(1)))
		}
	case "IfRemoveAllReceived":
		if i := p.iface(a(0)); need(i != nil) {
			i.RemoveAllReceivedMessages()
		}

	case "MsgUpdateName":
		if m := p.msg(a(0)); need(m != nil) {
			out.Err = m.UpdateName(nameStr(a(1)))
		}
	case "MsgUpdateID":
		if m := p.msg(a(0)); need(m != nil) {
			out.Err = m.UpdateID(acme.MessageID(a(1)))
		}
	case "MsgSetStatic":
		if m := p.msg(a(0)); need(m != nil) {
			out.Err = m.SetStaticCANID(acme.CANID(a(1)))
		}
	case "MsgAddReceiver":
		if m := p.msg(a(0)); need(m != nil) {
			out.Err = m.AddReceiver(p.iface(a(1)))
		}
	case "MsgRemoveReceiver":
		if m := p.msg(a(0)); need(m != nil) {
			out.Err = m.RemoveReceiver(p.eid(a(1)))
		}

	case "EnumAddValue":
		if e := p.enum(a(0)); need(e != nil) {
			out.Err = e.AddValue(p.eval(a(1)))
		}
	case "EnumRemoveValue":
		if e := p.enum(a(0)); need(e != nil) {
			out.Err = e.RemoveValue(p.eid(a(1)))
		}
	case "EnumRemoveAllValues":
		if e := p.enum(a(0)); need(e != nil) {
			e.RemoveAllValues()
		}
	case "EvalUpdateName":
		if v := p.eval(a(0)); need(v != nil) {
			out.Err = v.UpdateName(nameStr(a(1)))
		}
	case "EvalUpdateIndex":
		if v := p.eval(a(0)); need(v != nil) {
			out.Err = v.UpdateIndex(int(a(1)))
		}
	default:
		if h, b := execPlain(p, o, &out); h {
			bad = b
			return
		}
		handled, b := execExtra(p, o, &out)
		if b != nil {
			bad = b
		} else if !handled {
			bad = fmt.Errorf("unknown operation %q", o.Name)
		}
	}
	return
}

// ---- error classification ---------------------------------------------------------------------

var sentinels = []struct {
	name string
	err  error
}{
	{"Duplicated", acme.ErrIsDuplicated}, {"NotFound", acme.ErrNotFound}, {"Negative", acme.ErrIsNegative},
	{"OutOfBounds", acme.ErrOutOfBounds}, {"Zero", acme.ErrIsZero}, {"Nil", acme.ErrIsNil},
	{"NoSpaceLeft", acme.ErrNoSpaceLeft}, {"Intersect", acme.ErrIntersect}, {"InvalidType", acme.ErrInvalidType},
	{"ReceiverIsSender", acme.ErrReceiverIsSender}, {"TooSmall", acme.ErrTooSmall}, {"TooBig", acme.ErrTooBig},
}

func wrapperName(e error) string {
	switch e.(type) {
	case *acme.ArgumentError:
		return "Argument"
	case *acme.NameError:
		return "Name"
	case *acme.NodeIDError:
		return "NodeID"
	case *acme.CANIDError:
		return "CANID"
	case *acme.MessageIDError:
		return "MessageID"
	case *acme.MessageSizeError:
		return "MessageSize"
	case *acme.AddEntityError:
		return "AddEntity"
	case *acme.RemoveEntityError:
		return "RemoveEntity"
	case *acme.UpdateNameError:
		return "UpdateName"
	case *acme.UpdateIndexError:
		return "UpdateIndex"
	case *acme.ValueIndexError:
		return "ValueIndex"
	case *acme.GroupIDError:
		return "GroupID"
	case *acme.AttributeValueError:
		return "AttributeValue"
	case *acme.SignalSizeError:
		return "SignalSize"
	case *acme.StartBitError:
		return "StartBit"
	case *acme.InsertSignalError:
		return "InsertSignal"
	case *acme.AppendSignalError:
		return "AppendSignal"
	case *acme.GetEntityError:
		return "GetEntity"
	}
	return ""
}

// classify: the sentinel exposed through errors.Is (exactly one is expected) and the innermost
// typed wrapper around it, found by walking the Unwrap chain (errors.As semantics). A refusal
// decided by payload geometry (a SignalSizeError / StartBitError / ValueIndexError in the chain)
// is reported as cause "Layout": which geometric sentinel applies is the C01/C07 stream's subject.
func classify(err error) (cause, wrap string, problems []string) {
	var hits []string
	for _, s := range sentinels {
		if errors.Is(err, s.err) {
			hits = append(hits, s.name)
		}
	}
	if len(hits) == 0 {
		problems = append(problems, "error exposes no sentinel through errors.Is: "+err.Error())
		cause = "NoSentinel"
	} else {
		cause = hits[0]
		if len(hits) > 1 {
			problems = append(problems, "error matches several sentinels "+strings.Join(hits, ","))
		}
	}
	layout := false
	valueIndex := false
	for e := err; e != nil; e = errors.Unwrap(e) {
		if w := wrapperName(e); w != "" {
			switch w {
			case "SignalSize", "StartBit":
				layout = true
			case "ValueIndex":
				valueIndex = true
				layout = true
			}
			wrap = w
		}
	}
	if wrap == "" {
		wrap = "None"
	}
	if layout {
		cause = "Layout"
		if valueIndex {
			wrap = "ValueIndex"
		}
	}
	return
}
