package main

// Declarative preconditions, written from the doc comments of the Go methods and evaluated on the
// *contents* reported by the public getters (never on the uniqueness indexes): expect returns the
// admissible refusals of a call as "Cause Wrap" strings; an empty result means the call must be
// accepted. This is the decidable form of `pre` / `doc_cause` of coq/C04 (C06 refused_iff_pre,
// cause_spec; C04 used_key_refused, released_key_reusable) evaluated directly on the
// implementation, independently of the Coq model.
// "Layout *" stands for a refusal that only payload geometry can decide (C01/C07 stream); it is
// admitted where the documentation allows one and decided by the observed result.

import (
	"strings"

	acme "github.com/squadracorsepolito/acmelib"
)

type Expect struct {
	Refusals    []string // admissible refusals; empty = must succeed
	LayoutMaybe bool     // a geometric refusal is admissible in addition
}

func one(s string) Expect { return Expect{Refusals: []string{s}} }

func expect(p *Pool, o Op) Expect {
	a := func(i int) int64 {
		if i < len(o.A) {
			return o.A[i]
		}
		return 0
	}
	switch o.Name {
	case "NetAddBus":
		n, b := p.net(a(0)), p.bus(a(1))
		if b == nil {
			return one("Nil Argument")
		}
		for _, x := range n.Buses() {
			if x.Name() == b.Name() {
				return one("Duplicated Name")
			}
		}
	case "NetRemoveBus":
		n, id := p.net(a(0)), p.eid(a(1))
		for _, x := range n.Buses() {
			if x.EntityID() == id {
				return Expect{}
			}
		}
		return one("NotFound RemoveEntity")
	case "BusUpdateName":
		b, nm := p.bus(a(0)), nameStr(a(1))
		if b.Name() == nm {
			return Expect{}
		}
		if n := b.ParentNetwork(); n != nil {
			for _, x := range n.Buses() {
				if x != b && x.Name() == nm {
					return one("Duplicated UpdateName")
				}
			}
		}
	case "BusAddNodeInterface":
		b, i := p.bus(a(0)), p.iface(a(1))
		if i == nil {
			return one("Nil Argument")
		}
		for _, x := range b.NodeInterfaces() {
			if x.Node().Name() == i.Node().Name() {
				return one("Duplicated Name")
			}
		}
		for _, x := range b.NodeInterfaces() {
			if x.Node().ID() == i.Node().ID() {
				return one("Duplicated NodeID")
			}
		}
		var ex Expect
		for _, m := range i.SentMessages() {
			if b.Type() != acme.BusTypeCAN2A || m.SizeByte() > 8 { // the real limit of the bus: CAN 2.0A takes 8 bytes, any other type nothing
				ex.Refusals = append(ex.Refusals, "TooBig MessageSize")
			} else if m.HasStaticCANID() && busHasStatic(b, m.GetCANID(), nil) {
				ex.Refusals = append(ex.Refusals, "Duplicated CANID")
			}
		}
		return ex
	case "BusRemoveNodeInterface":
		b, id := p.bus(a(0)), p.eid(a(1))
		for _, x := range b.NodeInterfaces() {
			if x.Node().EntityID() == id {
				return Expect{}
			}
		}
		return one("NotFound RemoveEntity")
	case "NodeUpdateName":
		n, nm := p.node(a(0)), nameStr(a(1))
		if n.Name() == nm {
			return Expect{}
		}
		for _, i := range n.Interfaces() {
			if b := i.ParentBus(); b != nil {
				for _, x := range b.NodeInterfaces() {
					if x.Node() != n && x.Node().Name() == nm {
						return one("Duplicated Name")
					}
				}
			}
		}
	case "NodeUpdateID":
		n, id := p.node(a(0)), acme.NodeID(a(1))
		if n.ID() == id {
			return Expect{}
		}
		for _, i := range n.Interfaces() {
			if b := i.ParentBus(); b != nil {
				for _, x := range b.NodeInterfaces() {
					if x.Node() != n && x.Node().ID() == id {
						return one("Duplicated NodeID")
					}
				}
			}
		}
	case "NodeRemoveInterface":
		n, k := p.node(a(0)), a(1)
		if k < 0 {
			return one("Negative Argument")
		}
		if k >= int64(len(n.Interfaces())) {
			return one("OutOfBounds Argument")
		}
	case "IfAddSent":
		i, m := p.iface(a(0)), p.msg(a(1))
		if m == nil {
			return one("Nil Argument")
		}
		for _, x := range i.SentMessages() {
			if x.Name() == m.Name() {
				return one("Duplicated Name")
			}
		}
		if pb := i.ParentBus(); pb != nil && (pb.Type() != acme.BusTypeCAN2A || m.SizeByte() > 8) {
			return one("TooBig MessageSize")
		}
		if m.HasStaticCANID() {
			for _, x := range i.SentMessages() {
				if x.HasStaticCANID() && x.GetCANID() == m.GetCANID() {
					return one("Duplicated CANID")
				}
			}
			if b := i.ParentBus(); b != nil && busHasStatic(b, m.GetCANID(), nil) {
				return one("Duplicated CANID")
			}
		} else {
			for _, x := range i.SentMessages() {
				if !x.HasStaticCANID() && x.ID() == m.ID() {
					return one("Duplicated MessageID")
				}
			}
		}
	case "IfRemoveSent":
		i, id := p.iface(a(0)), p.eid(a(1))
		for _, x := range i.SentMessages() {
			if x.EntityID() == id {
				return Expect{}
			}
		}
		return one("NotFound RemoveEntity")
	case "IfAddReceived", "MsgAddReceiver":
		var i *acme.NodeInterface
		var m *acme.Message
		if o.Name == "IfAddReceived" {
			i, m = p.iface(a(0)), p.msg(a(1))
			if m == nil {
				return one("Nil Argument")
			}
		} else {
			m, i = p.msg(a(0)), p.iface(a(1))
			if i == nil {
				return one("Nil Argument")
			}
		}
		// on the contents: the interface lists the message among those it sends (not the back pointer of
		// the message, which names only the last interface after a re-attach)
		for _, sm := range i.SentMessages() {
			if sm == m {
				return one("ReceiverIsSender AddEntity")
			}
		}
	case "IfRemoveReceived":
		i, id := p.iface(a(0)), p.eid(a(1))
		for _, x := range i.ReceivedMessages() {
			if x.EntityID() == id {
				return Expect{}
			}
		}
		return one("NotFound RemoveEntity")
	case "MsgRemoveReceiver":
		m, id := p.msg(a(0)), p.eid(a(1))
		for _, x := range m.Receivers() {
			if x.Node().EntityID() == id {
				return Expect{}
			}
		}
		return one("NotFound RemoveEntity")
	case "MsgUpdateName":
		m, nm := p.msg(a(0)), nameStr(a(1))
		if m.Name() == nm {
			return Expect{}
		}
		if i := m.SenderNodeInterface(); i != nil {
			for _, x := range i.SentMessages() {
				if x != m && x.Name() == nm {
					return one("Duplicated Name")
				}
			}
		}
	case "MsgUpdateID":
		m, id := p.msg(a(0)), acme.MessageID(a(1))
		if m.ID() == id && !m.HasStaticCANID() {
			return Expect{}
		}
		if i := m.SenderNodeInterface(); i != nil {
			for _, x := range i.SentMessages() {
				if x != m && !x.HasStaticCANID() && x.ID() == id {
					return one("Duplicated MessageID")
				}
			}
		}
	case "MsgSetStatic":
		m, c := p.msg(a(0)), acme.CANID(a(1))
		if i := m.SenderNodeInterface(); i != nil {
			// "already used" includes the message itself: setting the static CAN-ID a sent
			// message already has is refused
			for _, x := range i.SentMessages() {
				if x.HasStaticCANID() && x.GetCANID() == c {
					return one("Duplicated CANID")
				}
			}
			if b := i.ParentBus(); b != nil && busHasStatic(b, c, nil) {
				return one("Duplicated CANID")
			}
		}
	case "EnumAddValue":
		e, v := p.enum(a(0)), p.eval(a(1))
		if v == nil {
			return one("Nil Argument")
		}
		for _, x := range e.Values() {
			if x.Index() == v.Index() {
				return one("Duplicated AddEntity")
			}
		}
		for _, x := range e.Values() {
			if x.Name() == v.Name() {
				if v.Index() > e.MaxIndex() {
					// the geometric check of the index comes first
					return Expect{Refusals: []string{"Duplicated Name"}, LayoutMaybe: true}
				}
				return one("Duplicated Name")
			}
		}
		return enumGrowExpect(e, v.Index())
	case "EnumRemoveValue":
		e, id := p.enum(a(0)), p.eid(a(1))
		for _, x := range e.Values() {
			if x.EntityID() == id {
				return Expect{}
			}
		}
		return one("NotFound RemoveEntity")
	case "EvalUpdateName":
		v, nm := p.eval(a(0)), nameStr(a(1))
		if v.Name() == nm {
			return Expect{}
		}
		if e := v.ParentEnum(); e != nil {
			for _, x := range e.Values() {
				if x != v && x.Name() == nm {
					return one("Duplicated Name")
				}
			}
		}
	case "EvalUpdateIndex":
		v, idx := p.eval(a(0)), int(a(1))
		if v.Index() == idx {
			return Expect{}
		}
		if e := v.ParentEnum(); e != nil {
			for _, x := range e.Values() {
				if x != v && x.Index() == idx {
					return one("Duplicated UpdateIndex")
				}
			}
			newMax := idx
			for _, x := range e.Values() {
				if x != v && x.Index() > newMax {
					newMax = x.Index()
				}
			}
			if idx < 0 {
				return Expect{LayoutMaybe: idx > e.MaxIndex()}
			}
			return enumGrowExpect(e, newMax)
		}
	default:
		return expectExtra(p, o)
	}
	return Expect{}
}

// enumGrowExpect: the enum gets the maximum index newMax.  Its size is max(minimum size, bit length of
// the maximum index); when the size does not change nothing may be refused for lack of space (and
// nothing may move); when it grows by d, every referencing signal grows by d in its own layout, judged
// by the brute-force free-space predicate (two references in one layout: finding D36, not generated)
func enumGrowExpect(e *acme.SignalEnum, newMax int) Expect {
	if newMax <= e.MaxIndex() {
		return Expect{}
	}
	if newMax < 0 {
		return Expect{LayoutMaybe: true}
	}
	d := enumSizeFor(e, newMax) - e.GetSize()
	if d <= 0 {
		return Expect{}
	}
	for _, r := range e.References() {
		if ex := growExpect(r, d); len(ex.Refusals) > 0 {
			return ex
		}
	}
	return Expect{}
}

func enumSizeFor(e *acme.SignalEnum, maxIdx int) int {
	n := 0
	for v := maxIdx; v > 0; v >>= 1 {
		n++
	}
	if n == 0 {
		n = 1
	}
	if e.MinSize() > n {
		n = e.MinSize()
	}
	return n
}

// busHasStatic: some message sent on the bus (other than `except`) has the static CAN-ID c
func busHasStatic(b *acme.Bus, c acme.CANID, except *acme.Message) bool {
	for _, ni := range b.NodeInterfaces() {
		for _, m := range ni.SentMessages() {
			if m != except && m.HasStaticCANID() && m.GetCANID() == c {
				return true
			}
		}
	}
	return false
}

// verdict compares the observed outcome of a call with the expectation.
func (ex Expect) verdict(failed bool, got string) string {
	if !failed {
		if len(ex.Refusals) > 0 {
			return "accepted although the documented precondition is violated (expected " + ex.Refusals[0] + ")"
		}
		return ""
	}
	for _, r := range ex.Refusals {
		if r == got || (strings.HasPrefix(r, "Layout") && strings.HasPrefix(got, "Layout")) {
			return ""
		}
	}
	if ex.LayoutMaybe && len(got) >= 6 && got[:6] == "Layout" {
		return ""
	}
	if len(ex.Refusals) == 0 {
		return "refused (" + got + ") although the documented precondition holds"
	}
	return "refused for " + got + ", documented cause " + ex.Refusals[0]
}
