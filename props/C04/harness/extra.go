package main

// Layers 2 and 3: signals (standard, enum, multiplexer with nesting), signal types, units,
// attributes and their assignments, CAN-ID builders. The Coq model does not have these
// operations yet (they are written as X lines and as NewOther allocations); the property
// predicates, the declarative preconditions, the snapshots and the panic / no-op checks are all
// evaluated on the implementation here.

import (
	"fmt"
	"sort"
	"strconv"
	"strings"

	acme "github.com/squadracorsepolito/acmelib"
	"verif/vinv"
)

// ---- pool accessors -----------------------------------------------------------------------------

func (p *Pool) sig(h int64) acme.Signal {
	if e := p.get(h); e != nil && e.Sig != nil {
		return e.Sig
	}
	return nil // untyped nil: the interface value the API receives for a nil argument
}
func (p *Pool) mux(h int64) *acme.MultiplexerSignal {
	if e := p.get(h); e != nil && e.Sig != nil && e.Sig.Kind() == acme.SignalKindMultiplexer {
		m, _ := e.Sig.ToMultiplexer()
		return m
	}
	return nil
}
func (p *Pool) std(h int64) *acme.StandardSignal {
	if e := p.get(h); e != nil && e.Sig != nil && e.Sig.Kind() == acme.SignalKindStandard {
		s, _ := e.Sig.ToStandard()
		return s
	}
	return nil
}
func (p *Pool) esig(h int64) *acme.EnumSignal {
	if e := p.get(h); e != nil && e.Sig != nil && e.Sig.Kind() == acme.SignalKindEnum {
		s, _ := e.Sig.ToEnum()
		return s
	}
	return nil
}
func (p *Pool) typ(h int64) *acme.SignalType {
	if e := p.get(h); e != nil {
		return e.Type
	}
	return nil
}
func (p *Pool) unit(h int64) *acme.SignalUnit {
	if e := p.get(h); e != nil {
		return e.Unit
	}
	return nil
}
func (p *Pool) attr(h int64) acme.Attribute {
	if e := p.get(h); e != nil && e.Attr != nil {
		return e.Attr
	}
	return nil
}
func (p *Pool) bld(h int64) *acme.CANIDBuilder {
	if e := p.get(h); e != nil {
		return e.Bld
	}
	return nil
}

func (p *Pool) addSig(s acme.Signal) {
	h := p.add(&Ent{K: KSig, Sig: s})
	p.register(s.EntityID(), h)
}

func sigsOfKind(p *Pool, k acme.SignalKind) []int {
	var out []int
	for _, h := range p.of(KSig) {
		if p.ents[h-1].Sig.Kind() == k {
			out = append(out, h)
		}
	}
	return out
}

// attributable entities: bus, node, message, signal
type attributable interface {
	AssignAttribute(attribute acme.Attribute, value any) error
	RemoveAttributeAssignment(attributeEntityID acme.EntityID) error
	RemoveAllAttributeAssignments()
	AttributeAssignments() []*acme.AttributeAssignment
}

func (p *Pool) attributable(h int64) attributable {
	e := p.get(h)
	if e == nil {
		return nil
	}
	switch e.K {
	case KBus:
		return e.Bus
	case KNode:
		return e.Node
	case KMsg:
		return e.Msg
	case KSig:
		return e.Sig
	}
	return nil
}

func attributables(p *Pool) []int {
	var out []int
	out = append(out, p.of(KBus)...)
	out = append(out, p.of(KNode)...)
	out = append(out, p.of(KMsg)...)
	out = append(out, p.of(KSig)...)
	return out
}

// attribute values by code
// attrString: the strings of attribute values by code (the model sees the code)
func attrString(code int64) string {
	switch code {
	case 5:
		return "a"
	case 6:
		return "zz"
	case 7:
		return "b"
	}
	return fmt.Sprintf("s%d", code)
}

func attrValue(code int64) any {
	switch code {
	case 0:
		return 5
	case 1:
		return -1
	case 2:
		return 11
	case 3:
		return 0.5
	case 4:
		return 2.0
	case 5:
		return "a"
	case 6:
		return "zz"
	}
	return true
}

// ---- execution ----------------------------------------------------------------------------------

func execExtra(p *Pool, o Op, out *Outcome) (handled bool, bad error) {
	a := func(i int) int64 {
		if i < len(o.A) {
			return o.A[i]
		}
		return 0
	}
	need := func(ok bool) bool {
		if !ok {
			bad = errBadReplay
		}
		return ok
	}
	handled = true
	switch o.Name {
	case "NewType": // size signed [kind: 0 integer, 1 decimal, 2 flag (size ignored), 3 custom]
		var t *acme.SignalType
		var err error
		switch a(2) {
		case 1:
			t, err = acme.NewDecimalSignalType("t", int(a(0)), a(1) == 1)
		case 2:
			t = acme.NewFlagSignalType("t")
		case 3:
			t, err = acme.NewCustomSignalType("t", int(a(0)), a(1) == 1, 0, 100, 0.5, 1)
		default:
			t, err = acme.NewIntegerSignalType("t", int(a(0)), a(1) == 1)
		}
		out.Err = err
		if err == nil {
			h := p.add(&Ent{K: KType, Type: t})
			p.register(t.EntityID(), h)
		}
	case "NewUnit":
		u := acme.NewSignalUnit("u", acme.SignalUnitKindCustom, "x")
		h := p.add(&Ent{K: KUnit, Unit: u})
		p.register(u.EntityID(), h)
	case "NewStdSignal": // name type
		s, err := acme.NewStandardSignal(nameStr(a(0)), p.typ(a(1)))
		out.Err = err
		if err == nil {
			p.addSig(s)
		}
	case "NewEnumSignal": // name enum
		s, err := acme.NewEnumSignal(nameStr(a(0)), p.enum(a(1)))
		out.Err = err
		if err == nil {
			p.addSig(s)
		}
	case "NewMuxSignal": // name count size
		s, err := acme.NewMultiplexerSignal(nameStr(a(0)), int(a(1)), int(a(2)))
		out.Err = err
		if err == nil {
			p.addSig(s)
		}
	case "NewAttrString":
		at := acme.NewStringAttribute("as", "d")
		h := p.add(&Ent{K: KAttr, Attr: at})
		p.register(at.EntityID(), h)
	case "NewAttrInt":
		at, err := acme.NewIntegerAttribute("ai", int(a(0)), int(a(0)), int(a(1))) // default = min, min, max
		out.Err = err
		if err == nil {
			h := p.add(&Ent{K: KAttr, Attr: at})
			p.register(at.EntityID(), h)
		}
	case "NewAttrFloat":
		at, err := acme.NewFloatAttribute("af", float64(a(0))/1000, float64(a(0))/1000, float64(a(1))/1000) // thousandths
		out.Err = err
		if err == nil {
			h := p.add(&Ent{K: KAttr, Attr: at})
			p.register(at.EntityID(), h)
		}
	case "NewAttrEnum":
		var vals []string
		for _, c := range o.A {
			vals = append(vals, attrString(c))
		}
		at, err := acme.NewEnumAttribute("ae", vals...)
		out.Err = err
		if err == nil {
			h := p.add(&Ent{K: KAttr, Attr: at})
			p.register(at.EntityID(), h)
		}
	case "NewBuilder":
		b := acme.NewCANIDBuilder("cb").UseMessageID(0, 11)
		h := p.add(&Ent{K: KBuilder, Bld: b})
		p.register(b.EntityID(), h)

	case "CloneType":
		if t := p.typ(a(0)); need(t != nil) {
			c := t.Clone()
			h := p.add(&Ent{K: KType, Type: c})
			p.register(c.EntityID(), h)
		}
	case "CloneUnit":
		if u := p.unit(a(0)); need(u != nil) {
			c := u.Clone()
			h := p.add(&Ent{K: KUnit, Unit: c})
			p.register(c.EntityID(), h)
		}
	case "CloneAttr":
		if at := p.attr(a(0)); need(at != nil) {
			c, err := at.Clone()
			out.Err = err
			if err == nil {
				h := p.add(&Ent{K: KAttr, Attr: c})
				p.register(c.EntityID(), h)
			}
		}

	case "MsgUpdateSize":
		if m := p.msg(a(0)); need(m != nil) {
			out.Err = m.UpdateSizeByte(int(a(1)))
		}
	case "BusSetType":
		if b := p.bus(a(0)); need(b != nil) {
			b.SetType(acme.BusType(a(1)))
		}
	case "CloneEval":
		// model operation EvalClone: a new value with the same name and index
		if v := p.eval(a(0)); need(v != nil) {
			c := v.Clone()
			p.cloneShared = p.knownObject(c.EntityID())
			h := p.add(&Ent{K: KEval, Eval: c})
			p.register(c.EntityID(), h)
			p.cloneLines = []string{fmt.Sprintf("NewEnumValue %d %d", nameKey(c.Name()), c.Index())}
		}
	case "CloneEnum":
		// model operation EnumClone: a new enum, then per value (ascending index) a new value added to it;
		// the pool registers the clone's values in the order of Values(), as the model numbers them
		if e := p.enum(a(0)); need(e != nil) {
			c, err := e.Clone()
			out.Err = err
			if err == nil {
				p.cloneShared = p.knownObject(c.EntityID())
				eh := p.add(&Ent{K: KEnum, Enum: c})
				p.register(c.EntityID(), eh)
				lines := []string{"NewEnum"}
				for _, v := range c.Values() {
					if p.knownObject(v.EntityID()) {
						p.cloneShared = true
					}
					vh := p.add(&Ent{K: KEval, Eval: v})
					p.register(v.EntityID(), vh)
					lines = append(lines, fmt.Sprintf("NewEnumValue %d %d", nameKey(v.Name()), v.Index()), fmt.Sprintf("EnumAddValue %d %d 1", eh, vh))
				}
				p.cloneLines = lines
			}
		}

	case "MsgAppendSignal":
		if m := p.msg(a(0)); need(m != nil) {
			out.Err = m.AppendSignal(p.sig(a(1)))
		}
	case "MsgInsertSignal":
		if m := p.msg(a(0)); need(m != nil) {
			out.Err = m.InsertSignal(p.sig(a(1)), int(a(2)))
		}
	case "MsgRemoveSignal":
		if m := p.msg(a(0)); need(m != nil) {
			out.Err = m.RemoveSignal(p.eid(a(1)))
		}
	case "MsgRemoveAllSignals":
		if m := p.msg(a(0)); need(m != nil) {
			m.RemoveAllSignals()
		}
	case "SigUpdateName":
		if s := p.sig(a(0)); need(s != nil) {
			out.Err = s.UpdateName(nameStr(a(1)))
		}
	case "MuxInsertSignal": // mux sig start g...
		if m := p.mux(a(0)); need(m != nil) {
			var gs []int
			for _, g := range o.A[min(3, len(o.A)):] {
				gs = append(gs, int(g))
			}
			out.Err = m.InsertSignal(p.sig(a(1)), int(a(2)), gs...)
		}
	case "MuxRemoveSignal":
		if m := p.mux(a(0)); need(m != nil) {
			out.Err = m.RemoveSignal(p.eid(a(1)))
		}
	case "MuxClearGroup":
		if m := p.mux(a(0)); need(m != nil) {
			out.Err = m.ClearSignalGroup(int(a(1)))
		}
	case "MuxClearAll":
		if m := p.mux(a(0)); need(m != nil) {
			m.ClearAllSignalGroups()
		}

	case "StdSetType":
		if s := p.std(a(0)); need(s != nil) {
			out.Err = s.SetType(p.typ(a(1)))
		}
	case "StdSetUnit":
		if s := p.std(a(0)); need(s != nil) {
			s.SetUnit(p.unit(a(1)))
		}
	case "EnumSetEnum":
		if s := p.esig(a(0)); need(s != nil) {
			out.Err = s.SetEnum(p.enum(a(1)))
		}
	case "Assign": // entity attribute valuecode
		if e := p.attributable(a(0)); need(e != nil) {
			out.Err = e.AssignAttribute(p.attr(a(1)), attrValue(a(2)))
		}
	case "RemoveAssign":
		if e := p.attributable(a(0)); need(e != nil) {
			out.Err = e.RemoveAttributeAssignment(p.eid(a(1)))
		}
	case "RemoveAllAssign":
		if e := p.attributable(a(0)); need(e != nil) {
			e.RemoveAllAttributeAssignments()
		}
	case "BusSetBuilder":
		if b := p.bus(a(0)); need(b != nil) {
			b.SetCANIDBuilder(p.bld(a(1)))
			p.holdDefault(b)
		}
	default:
		handled = false
	}
	return
}

func init() {
	for k, v := range map[string]string{
		"MsgAppendSignal": "Message.AppendSignal", "MsgInsertSignal": "Message.InsertSignal", "MsgRemoveSignal": "Message.RemoveSignal",
		"MsgRemoveAllSignals": "Message.RemoveAllSignals", "SigUpdateName": "Signal.UpdateName",
		"MuxInsertSignal": "MultiplexerSignal.InsertSignal", "MuxRemoveSignal": "MultiplexerSignal.RemoveSignal",
		"MuxClearGroup": "MultiplexerSignal.ClearSignalGroup", "MuxClearAll": "MultiplexerSignal.ClearAllSignalGroups",
		"StdSetType": "StandardSignal.SetType", "StdSetUnit": "StandardSignal.SetUnit", "EnumSetEnum": "EnumSignal.SetEnum",
		"Assign": "AssignAttribute", "RemoveAssign": "RemoveAttributeAssignment", "RemoveAllAssign": "RemoveAllAttributeAssignments",
		"BusSetBuilder": "Bus.SetCANIDBuilder", "NewStdSignal": "NewStandardSignal", "NewEnumSignal": "NewEnumSignal",
		"NewMuxSignal": "NewMultiplexerSignal", "NewType": "NewSignalType",
		"MsgUpdateSize": "Message.UpdateSizeByte", "BusSetType": "Bus.SetType", "CloneEnum": "SignalEnum.Clone", "CloneEval": "SignalEnumValue.Clone", "CloneType": "SignalType.Clone", "CloneUnit": "SignalUnit.Clone",
		"CloneAttr": "Attribute.Clone",
	} {
		goName[k] = v
	}
}

// ---- signal trees -------------------------------------------------------------------------------

// children of a multiplexer through its groups (what the public API shows)
func muxChildren(m *acme.MultiplexerSignal) []acme.Signal {
	seen := map[acme.EntityID]bool{}
	var out []acme.Signal
	for _, g := range m.GetSignalGroups() {
		for _, s := range g {
			if !seen[s.EntityID()] {
				seen[s.EntityID()] = true
				out = append(out, s)
			}
		}
	}
	return out
}

// reach: the signals reachable from the roots through multiplexer groups, at any depth
func reach(roots []acme.Signal) []acme.Signal {
	var out []acme.Signal
	seen := map[acme.EntityID]bool{}
	var walk func(s acme.Signal, depth int)
	walk = func(s acme.Signal, depth int) {
		if s == nil || seen[s.EntityID()] || depth > 16 {
			return
		}
		seen[s.EntityID()] = true
		out = append(out, s)
		if s.Kind() == acme.SignalKindMultiplexer {
			m, _ := s.ToMultiplexer()
			for _, c := range muxChildren(m) {
				walk(c, depth+1)
			}
		}
	}
	for _, r := range roots {
		walk(r, 0)
	}
	return out
}

// ---- snapshots ----------------------------------------------------------------------------------

func sigRef(p *Pool, s acme.Signal) string {
	if s == nil {
		return "-"
	}
	return p.hid(s.EntityID())
}

func msgSignalsSnap(p *Pool, m *acme.Message) string {
	var sb strings.Builder
	sb.WriteString("signals=[")
	for _, s := range m.Signals() {
		fmt.Fprintf(&sb, "%s@%d+%d ", sigRef(p, s), s.GetStartBit(), s.GetSize())
	}
	sb.WriteString("] names=")
	names := m.SignalNames()
	sort.Strings(names)
	sb.WriteString(strings.Join(names, ","))
	var raw []string
	for id := range m.VerifSignals() {
		raw = append(raw, p.hid(id))
	}
	sb.WriteString(" reg=" + joinSorted(raw, true) + " regnames=" + mapNameID(p, m.VerifSignalNames()))
	return sb.String()
}

func extraSnap(p *Pool, e *Ent) string {
	var sb strings.Builder
	w := func(format string, a ...any) { fmt.Fprintf(&sb, format, a...) }
	switch e.K {
	case KSig:
		s := e.Sig
		pm, pmx := "-", "-"
		if s.ParentMessage() != nil {
			pm = p.hid(s.ParentMessage().EntityID())
		}
		if s.ParentMultiplexerSignal() != nil {
			pmx = p.hid(s.ParentMultiplexerSignal().EntityID())
		}
		w("name=%q desc=%q kind=%d msg=%s mux=%s rel=%d size=%d end=%d send=%d startv=%v att=%s", s.Name(), s.Desc(), s.Kind(), pm, pmx,
			s.GetRelativeStartPos(), s.GetSize(), s.Endianness(), s.SendType(), s.StartValue(), attSnap(p, s.AttributeAssignments()))
		switch s.Kind() {
		case acme.SignalKindStandard:
			ss, _ := s.ToStandard()
			u := "-"
			if ss.Unit() != nil {
				u = p.hid(ss.Unit().EntityID())
			}
			w(" type=%s unit=%s", p.hid(ss.Type().EntityID()), u)
		case acme.SignalKindEnum:
			es, _ := s.ToEnum()
			w(" enum=%s", p.hid(es.Enum().EntityID()))
		case acme.SignalKindMultiplexer:
			m, _ := s.ToMultiplexer()
			w(" count=%d gsize=%d groups=", m.GroupCount(), m.GroupSize())
			for gi, g := range m.GetSignalGroups() {
				w("%d[", gi)
				for _, c := range g {
					w("%s@%d ", sigRef(p, c), c.GetRelativeStartPos())
				}
				w("]")
			}
			var raw []string
			for id := range m.VerifSignals() {
				raw = append(raw, p.hid(id))
			}
			var gids []string
			for id, gs := range m.VerifSignalGroupIDs() {
				gids = append(gids, fmt.Sprintf("%s:%v", p.hid(id), gs))
			}
			sort.Strings(gids)
			var fixed []string
			for id := range m.VerifFixedSignals() {
				fixed = append(fixed, p.hid(id))
			}
			w(" reg=%s regnames=%s gids=%s fixed=%s", joinSorted(raw, true), mapNameID(p, m.VerifSignalNames()), strings.Join(gids, ";"), joinSorted(fixed, true))
		}
	case KType:
		t := e.Type
		w("name=%q size=%d signed=%v min=%v max=%v scale=%v off=%v refs=%s", t.Name(), t.Size(), t.Signed(), t.Min(), t.Max(), t.Scale(), t.Offset(), refsSnap(p, t.VerifRefs()))
	case KUnit:
		u := e.Unit
		w("name=%q kind=%d sym=%q refs=%s", u.Name(), u.Kind(), u.Symbol(), refsSnap(p, u.VerifRefs()))
	case KAttr:
		at := e.Attr
		var xs []string
		for _, r := range at.References() {
			xs = append(xs, entRef(p, r.Entity()))
		}
		sort.Strings(xs)
		w("name=%q type=%d refs=%d{%s}", at.Name(), at.Type(), len(at.References()), strings.Join(xs, ","))
	case KBuilder:
		b := e.Bld
		w("name=%q ops=%d refs=%s", b.Name(), len(b.Operations()), refsSnap(p, b.VerifRefs()))
	}
	return sb.String()
}

func entRef(p *Pool, e acme.AttributableEntity) string {
	if e == nil {
		return "-"
	}
	return p.hid(e.EntityID())
}

// ---- property predicates --------------------------------------------------------------------------

func extraCheck(p *Pool, e *Ent) []string {
	var out []string
	owner := p.describe(e.H)
	switch e.K {
	case KSig:
		out = append(out, vinv.CheckSignalUp(e.Sig)...)
		if m, err := e.Sig.ToMultiplexer(); err == nil && e.Sig.Kind() == acme.SignalKindMultiplexer {
			out = append(out, vinv.CheckMultiplexerLinks(m)...)
			// raw registry of the multiplexer = the signals its groups hold
			want := map[string]acme.EntityID{}
			ids := map[acme.EntityID]bool{}
			for _, c := range muxChildren(m) {
				want[c.Name()] = c.EntityID()
				ids[c.EntityID()] = true
			}
			rawClause(&out, p, "c04-raw-mux-signalNames", owner, m.VerifSignalNames(), want)
			for id := range m.VerifSignals() {
				if !ids[id] {
					out = append(out, fmt.Sprintf("c05-raw-mux-signals: %s: registry holds %s which no group holds", owner, p.hid(id)))
				}
			}
			if len(m.VerifSignals()) != len(ids) {
				out = append(out, fmt.Sprintf("c05-raw-mux-signals: %s: registry has %d signals, the groups hold %d", owner, len(m.VerifSignals()), len(ids)))
			}
		}
		out = append(out, vinv.CheckAttributeAssignments(e.Sig)...)
		switch e.Sig.Kind() {
		case acme.SignalKindStandard:
			ss, _ := e.Sig.ToStandard()
			if _, ok := ss.Type().VerifRefs()[ss.EntityID()]; !ok {
				out = append(out, fmt.Sprintf("c05-refs-type: %s: uses a type that does not list it as reference", owner))
			}
			if u := ss.Unit(); u != nil {
				if _, ok := u.VerifRefs()[ss.EntityID()]; !ok {
					out = append(out, fmt.Sprintf("c05-refs-unit: %s: uses a unit that does not list it as reference", owner))
				}
			}
		case acme.SignalKindEnum:
			es, _ := e.Sig.ToEnum()
			if _, ok := es.Enum().VerifRefs()[es.EntityID()]; !ok {
				out = append(out, fmt.Sprintf("c05-refs-enum: %s: uses an enum that does not list it as reference", owner))
			}
		}
	case KType:
		for _, r := range e.Type.References() {
			if r.Type() != e.Type {
				out = append(out, fmt.Sprintf("c05-refs-type: %s: lists signal %s which uses another type", owner, p.hid(r.EntityID())))
			}
		}
		if e.Type.ReferenceCount() != len(e.Type.References()) {
			out = append(out, fmt.Sprintf("c05-refs-type: %s: ReferenceCount disagrees with References", owner))
		}
	case KUnit:
		for _, r := range e.Unit.References() {
			if r.Unit() != e.Unit {
				out = append(out, fmt.Sprintf("c05-refs-unit: %s: lists signal %s which uses another unit", owner, p.hid(r.EntityID())))
			}
		}
	case KAttr:
		for _, r := range e.Attr.References() {
			found := false
			if ent := r.Entity(); ent != nil {
				for _, a := range ent.AttributeAssignments() {
					if a == r {
						found = true
					}
				}
			}
			if !found {
				out = append(out, fmt.Sprintf("c05-refs-attribute: %s: lists an assignment that its entity %s no longer holds", owner, entRef(p, r.Entity())))
			}
		}
	case KBuilder:
		for _, b := range e.Bld.References() {
			if b.CANIDBuilder() != e.Bld {
				out = append(out, fmt.Sprintf("c05-refs-builder: %s: lists bus %s which uses another builder", owner, p.hid(b.EntityID())))
			}
		}
	}
	return out
}

// extra clauses for the kinds of layer 1 that depend on layers 2/3
func extraCheckL1(p *Pool, e *Ent) []string {
	var out []string
	owner := p.describe(e.H)
	switch e.K {
	case KBus:
		b := e.Bus
		out = append(out, vinv.CheckAttributeAssignments(b)...)
		if cb := b.CANIDBuilder(); cb == nil {
			out = append(out, fmt.Sprintf("c05-refs-builder: %s: has no CAN-ID builder", owner))
		} else if _, ok := cb.VerifRefs()[b.EntityID()]; !ok {
			out = append(out, fmt.Sprintf("c05-refs-builder: %s: uses a builder that does not list it as reference", owner))
		}
	case KNode:
		out = append(out, vinv.CheckAttributeAssignments(e.Node)...)
	case KMsg:
		m := e.Msg
		out = append(out, vinv.CheckAttributeAssignments(m)...)
		// raw registries of the message = the signals reachable from its layout
		want := map[string]acme.EntityID{}
		ids := map[acme.EntityID]bool{}
		for _, s := range reach(m.Signals()) {
			want[s.Name()] = s.EntityID()
			ids[s.EntityID()] = true
		}
		rawClause(&out, p, "c04-raw-message-signalNames", owner, m.VerifSignalNames(), want)
		for id := range m.VerifSignals() {
			if !ids[id] {
				out = append(out, fmt.Sprintf("c05-raw-message-signals: %s: registry holds %s which is not reachable from the payload", owner, p.hid(id)))
			}
		}
		if len(m.VerifSignals()) != len(ids) {
			out = append(out, fmt.Sprintf("c05-raw-message-signals: %s: registry has %d signals, %d reachable from the payload", owner, len(m.VerifSignals()), len(ids)))
		}
	case KEnum:
		for _, r := range e.Enum.References() {
			if r.Enum() != e.Enum {
				out = append(out, fmt.Sprintf("c05-refs-enum: %s: lists signal %s which uses another enum", owner, p.hid(r.EntityID())))
			}
		}
	}
	return out
}

// ---- generator ------------------------------------------------------------------------------------

func infallibleExtra(name string) bool {
	switch name {
	case "NewUnit", "NewAttrString", "NewBuilder", "CloneType", "CloneUnit", "MsgRemoveAllSignals", "MuxClearAll", "StdSetUnit",
		"RemoveAllAssign", "BusSetBuilder", "NewAttrInt", "NewAttrFloat", "NewAttrEnum", "CloneAttr", "CloneEval", "BusSetType":
		return true
	}
	return false
}

func (g *Gen) prefixExtra() []Op {
	var ops []Op
	add := func(name string, a ...int64) { ops = append(ops, Op{Name: name, A: a}) }
	// handles continue after the layer-1 prefix (2 nets, 3 buses, 4 nodes + interfaces, 6 messages,
	// 3 enums, 8 values); they are computed by the executor, the generator only needs kinds
	for _, sz := range []int64{1, 4, 8, 12, 16, 33} {
		add("NewType", sz, int64(g.r.below(2)))
	}
	add("NewUnit")
	add("NewUnit")
	add("NewAttrString")
	add("NewAttrInt", 0, 10)
	add("NewAttrFloat", 0, 1000)
	add("NewAttrEnum", 5, 7)
	add("NewBuilder")
	add("NewBuilder")
	return ops
}

// signalsPrefix is drawn once the types and enums exist (needs their handles)
func (g *Gen) signalOps(p *Pool) []Op {
	var ops []Op
	add := func(name string, a ...int64) { ops = append(ops, Op{Name: name, A: a}) }
	for i := 0; i < 6; i++ {
		add("NewStdSignal", g.name(), g.r.pick(p.of(KType)))
	}
	for i := 0; i < 3; i++ {
		add("NewEnumSignal", g.name(), g.r.pick(p.of(KEnum)))
	}
	counts := []int64{1, 2, 4}
	add("NewMuxSignal", g.name(), counts[g.r.below(2)], 8)
	add("NewMuxSignal", g.name(), counts[1+g.r.below(2)], 16)
	add("NewMuxSignal", g.name(), counts[g.r.below(3)], 32)
	return ops
}

func (g *Gen) sigPtr(p *Pool) int64 {
	if g.r.chance(5) {
		return 0
	}
	return g.r.pick(p.of(KSig))
}

func extraTemplates() []template {
	return []template{
		{"MsgAppendSignal", 10, func(g *Gen, p *Pool) (Op, bool) { return mk("MsgAppendSignal", g.r.pick(p.of(KMsg)), g.sigPtr(p)) }},
		{"MsgInsertSignal", 8, func(g *Gen, p *Pool) (Op, bool) {
			start := int64([]int{0, 0, 4, 8, 16, 32, 60, -1, 64}[g.r.below(9)])
			if g.r.chance(8) {
				start = g.extremeInt()
			}
			return mk("MsgInsertSignal", g.r.pick(p.of(KMsg)), g.sigPtr(p), start)
		}},
		{"MsgRemoveSignal", 5, func(g *Gen, p *Pool) (Op, bool) {
			m := g.r.pick(p.of(KMsg))
			if all := reach(p.msg(m).Signals()); len(all) > 0 && g.r.chance(75) {
				return mk("MsgRemoveSignal", m, int64(p.byID[all[g.r.below(len(all))].EntityID()]))
			}
			return mk("MsgRemoveSignal", m, g.anyHandle(p))
		}},
		{"MsgRemoveAllSignals", 2, func(g *Gen, p *Pool) (Op, bool) { return mk("MsgRemoveAllSignals", g.r.pick(p.of(KMsg))) }},
		{"SigUpdateName", 9, func(g *Gen, p *Pool) (Op, bool) { return mk("SigUpdateName", g.r.pick(p.of(KSig)), g.name()) }},
		{"MuxInsertSignal", 16, func(g *Gen, p *Pool) (Op, bool) {
			muxes := sigsOfKind(p, acme.SignalKindMultiplexer)
			if len(muxes) == 0 {
				return none, false
			}
			mx := g.r.pick(muxes)
			m := p.mux(mx)
			if g.r.chance(70) {
				// plausible call: a signal that fits a group, a free position, group ids in range
				var fit []int
				for _, h := range p.of(KSig) {
					if int64(h) != mx && p.ents[h-1].Sig.GetSize() <= m.GroupSize() {
						fit = append(fit, h)
					}
				}
				if len(fit) == 0 {
					return none, false
				}
				sg := g.r.pick(fit)
				room := m.GroupSize() - p.sig(sg).GetSize()
				start := 0
				if room > 0 {
					start = []int{0, 0, room, room / 2, 4, 8}[g.r.below(6)]
					if start > room {
						start = 0
					}
				}
				args := []int64{mx, sg, int64(start)}
				if !g.r.chance(25) {
					args = append(args, int64(g.r.below(m.GroupCount())))
					if m.GroupCount() > 1 && g.r.chance(30) {
						args = append(args, int64(g.r.below(m.GroupCount())))
					}
				}
				return mk("MuxInsertSignal", args...)
			}
			args := []int64{mx, g.sigPtr(p), int64([]int{0, 0, 4, 8, 12, -1}[g.r.below(6)])}
			if g.r.chance(12) {
				args[2] = g.extremeInt()
			}
			if !g.r.chance(30) {
				n := 1 + g.r.below(2)
				for i := 0; i < n; i++ {
					args = append(args, int64(g.r.below(m.GroupCount()+2)-1))
				}
				if g.r.chance(8) {
					args[len(args)-1] = g.extremeInt()
				}
			}
			return mk("MuxInsertSignal", args...)
		}},
		{"MuxRemoveSignal", 5, func(g *Gen, p *Pool) (Op, bool) {
			muxes := sigsOfKind(p, acme.SignalKindMultiplexer)
			if len(muxes) == 0 {
				return none, false
			}
			mx := g.r.pick(muxes)
			if cs := muxChildren(p.mux(mx)); len(cs) > 0 && g.r.chance(75) {
				return mk("MuxRemoveSignal", mx, int64(p.byID[cs[g.r.below(len(cs))].EntityID()]))
			}
			return mk("MuxRemoveSignal", mx, g.anyHandle(p))
		}},
		{"MuxClearGroup", 2, func(g *Gen, p *Pool) (Op, bool) {
			muxes := sigsOfKind(p, acme.SignalKindMultiplexer)
			if len(muxes) == 0 {
				return none, false
			}
			mx := g.r.pick(muxes)
			if g.r.chance(10) {
				return mk("MuxClearGroup", mx, g.extremeInt())
			}
			return mk("MuxClearGroup", mx, int64(g.r.below(p.mux(mx).GroupCount()+2)-1))
		}},
		{"MuxClearAll", 1, func(g *Gen, p *Pool) (Op, bool) {
			muxes := sigsOfKind(p, acme.SignalKindMultiplexer)
			if len(muxes) == 0 {
				return none, false
			}
			return mk("MuxClearAll", g.r.pick(muxes))
		}},
		{"StdSetType", 5, func(g *Gen, p *Pool) (Op, bool) {
			ss := sigsOfKind(p, acme.SignalKindStandard)
			if len(ss) == 0 {
				return none, false
			}
			return mk("StdSetType", g.r.pick(ss), g.ptr(p.of(KType)))
		}},
		{"StdSetUnit", 4, func(g *Gen, p *Pool) (Op, bool) {
			ss := sigsOfKind(p, acme.SignalKindStandard)
			if len(ss) == 0 {
				return none, false
			}
			u := g.r.pick(p.of(KUnit))
			if g.r.chance(25) {
				u = 0
			}
			return mk("StdSetUnit", g.r.pick(ss), u)
		}},
		{"EnumSetEnum", 4, func(g *Gen, p *Pool) (Op, bool) {
			ss := sigsOfKind(p, acme.SignalKindEnum)
			if len(ss) == 0 {
				return none, false
			}
			return mk("EnumSetEnum", g.r.pick(ss), g.ptr(p.of(KEnum)))
		}},
		{"Assign", 8, func(g *Gen, p *Pool) (Op, bool) {
			return mk("Assign", g.r.pick(attributables(p)), g.ptr(p.of(KAttr)), int64(g.r.below(8)))
		}},
		{"RemoveAssign", 4, func(g *Gen, p *Pool) (Op, bool) {
			e := g.r.pick(attributables(p))
			if as := p.attributable(e).AttributeAssignments(); len(as) > 0 && g.r.chance(70) {
				return mk("RemoveAssign", e, int64(p.byID[as[g.r.below(len(as))].Attribute().EntityID()]))
			}
			return mk("RemoveAssign", e, g.anyHandle(p))
		}},
		{"RemoveAllAssign", 2, func(g *Gen, p *Pool) (Op, bool) { return mk("RemoveAllAssign", g.r.pick(attributables(p))) }},
		{"BusSetBuilder", 3, func(g *Gen, p *Pool) (Op, bool) {
			b := g.r.pick(p.of(KBuilder))
			if g.r.chance(25) {
				b = 0
			}
			return mk("BusSetBuilder", g.r.pick(p.of(KBus)), b)
		}},
		{"MsgUpdateSize", 4, func(g *Gen, p *Pool) (Op, bool) {
			sizes := []int64{-1, 0, 1, 2, 4, 8, 8, 9, 12, 64, 1 << 61}
			return mk("MsgUpdateSize", g.r.pick(p.of(KMsg)), sizes[g.r.below(len(sizes))])
		}},
		{"BusSetType", 2, func(g *Gen, p *Pool) (Op, bool) {
			t := int64(0)
			if g.r.chance(35) {
				t = int64(1 + g.r.below(2))
			}
			return mk("BusSetType", g.r.pick(p.of(KBus)), t)
		}},
		{"NewType", 2, func(g *Gen, p *Pool) (Op, bool) {
			if len(p.of(KType)) >= 10 && !g.r.chance(30) {
				return none, false
			}
			sizes := []int64{-3, -1, 0, 0, 1, 2, 8, 16, 64}
			sz := sizes[g.r.below(len(sizes))]
			if len(p.of(KType)) >= 10 && sz > 0 {
				sz = 0 // the pool is full: only the refused constructor calls
			}
			k := int64(g.r.below(4))
			if k == 2 && len(p.of(KType)) >= 10 {
				k = 0
			}
			return mk("NewType", sz, int64(g.r.below(2)), k)
		}},
		{"CloneEnum", 6, func(g *Gen, p *Pool) (Op, bool) {
			if len(p.of(KEnum)) >= 6 || len(p.of(KEval)) >= 26 {
				return none, false
			}
			// prefer an enum that has values
			es := p.of(KEnum)
			for tries := 0; tries < 4; tries++ {
				e := g.r.pick(es)
				if len(p.enum(e).Values()) > 0 {
					return mk("CloneEnum", e)
				}
			}
			return mk("CloneEnum", g.r.pick(es))
		}},
		{"CloneEval", 1, func(g *Gen, p *Pool) (Op, bool) {
			if len(p.of(KEval)) >= 26 {
				return none, false
			}
			return mk("CloneEval", g.r.pick(p.of(KEval)))
		}},
		{"CloneType", 1, func(g *Gen, p *Pool) (Op, bool) {
			if len(p.of(KType)) >= 8 {
				return none, false
			}
			return mk("CloneType", g.r.pick(p.of(KType)))
		}},
		{"CloneUnit", 1, func(g *Gen, p *Pool) (Op, bool) {
			if len(p.of(KUnit)) >= 4 {
				return none, false
			}
			return mk("CloneUnit", g.r.pick(p.of(KUnit)))
		}},
		{"CloneAttr", 1, func(g *Gen, p *Pool) (Op, bool) {
			if len(p.of(KAttr)) >= 7 {
				return none, false
			}
			return mk("CloneAttr", g.r.pick(p.of(KAttr)))
		}},
		{"NewStdSignal", 1, func(g *Gen, p *Pool) (Op, bool) {
			if len(p.of(KSig)) >= 16 {
				return mk("NewStdSignal", g.name(), 0)
			}
			return mk("NewStdSignal", g.name(), g.ptr(p.of(KType)))
		}},
		{"NewMuxSignal", 1, func(g *Gen, p *Pool) (Op, bool) {
			if len(p.of(KSig)) >= 16 {
				return mk("NewMuxSignal", g.name(), int64(g.r.below(2)-1), 8)
			}
			return mk("NewMuxSignal", g.name(), int64(g.r.below(4)-1), int64([]int{8, 0, -1, 16}[g.r.below(4)]))
		}},
		{"NewEnumSignal", 1, func(g *Gen, p *Pool) (Op, bool) {
			if len(p.of(KSig)) >= 16 {
				return mk("NewEnumSignal", g.name(), 0)
			}
			return mk("NewEnumSignal", g.name(), g.ptr(p.of(KEnum)))
		}},
	}
}

// ---- taints (open findings) -------------------------------------------------------------------------

func taintExtra(p *Pool, o Op) string {
	a := func(i int) int64 {
		if i < len(o.A) {
			return o.A[i]
		}
		return 0
	}
	switch o.Name {
	case "MsgAppendSignal", "MsgInsertSignal":
		if s := p.sig(a(1)); s != nil && (s.ParentMessage() != nil || s.ParentMultiplexerSignal() != nil) {
			if s.ParentMessage() == p.msg(a(0)) && s.ParentMultiplexerSignal() == nil {
				return "" // refused: its own name is registered in the message
			}
			return "reattach Message." + map[string]string{"MsgAppendSignal": "AppendSignal", "MsgInsertSignal": "InsertSignal"}[o.Name]
		}
	case "MuxInsertSignal":
		if s := p.sig(a(1)); s != nil {
			mx := p.mux(a(0))
			if s.ParentMultiplexerSignal() != nil && s.ParentMultiplexerSignal() != mx {
				return "reattach MultiplexerSignal.InsertSignal"
			}
			if s.ParentMultiplexerSignal() == nil && s.ParentMessage() != nil {
				return "reattach MultiplexerSignal.InsertSignal"
			}
			// a multiplexer inserted into itself or into one of its descendants
			if mx != nil {
				for _, d := range reach([]acme.Signal{s}) {
					if d.EntityID() == mx.EntityID() {
						return "reattach MultiplexerSignal.InsertSignal"
					}
				}
			}
		}
	}
	return ""
}

// ---- declarative preconditions ------------------------------------------------------------------------

// names used in the message a signal / multiplexer belongs to (contents, any depth)
func msgNameOwner(m *acme.Message, name string) acme.Signal {
	for _, s := range reach(m.Signals()) {
		if s.Name() == name {
			return s
		}
	}
	return nil
}

// nestedNameClash: an incoming multiplexer whose descendants collide with the message or among
// themselves (DESIGN D15, fixed)
func nestedNameClash(m *acme.Message, s acme.Signal) bool {
	if s.Kind() != acme.SignalKindMultiplexer {
		return false
	}
	seen := map[string]acme.EntityID{s.Name(): s.EntityID()}
	for _, d := range reach([]acme.Signal{s})[1:] {
		if id, ok := seen[d.Name()]; ok && id != d.EntityID() {
			return true
		}
		if o := msgNameOwner(m, d.Name()); o != nil && o.EntityID() != d.EntityID() {
			return true
		}
		seen[d.Name()] = d.EntityID()
	}
	return false
}

func expectExtra(p *Pool, o Op) Expect {
	a := func(i int) int64 {
		if i < len(o.A) {
			return o.A[i]
		}
		return 0
	}
	switch o.Name {
	case "MsgUpdateSize":
		m := p.msg(a(0))
		n := a(1)
		switch {
		case n < 0:
			return one("Negative MessageSize")
		case int64(m.SizeByte()) == n:
			return Expect{}
		case n > (1<<60)-1:
			return one("TooBig MessageSize")
		}
		if ni := m.SenderNodeInterface(); ni != nil && ni.ParentBus() != nil {
			if b := ni.ParentBus(); b.Type() != acme.BusTypeCAN2A || n > 8 {
				return one("TooBig MessageSize")
			}
		}
		// the payload must keep its last signal: judged on the contents
		last := 0
		for _, sg := range m.Signals() {
			if e := sg.GetRelativeStartPos() + sg.GetSize(); e > last {
				last = e
			}
		}
		if n*8 < int64(m.SizeByte()*8) && int64(last) > n*8 {
			return one("TooSmall MessageSize")
		}
	case "BuilderInsertOperation": // builder kind from length index
		if b := p.bld(a(0)); b != nil {
			from, l, idx := a(2), a(3), a(4)
			if from < 0 || from > 31 || l < 0 || l > 32-from || idx < 0 || idx > int64(len(b.Operations())) {
				return one("OutOfBounds Argument")
			}
		}
	case "BuilderRemoveOperation":
		if b := p.bld(a(0)); b != nil {
			if a(1) < 0 || a(1) >= int64(len(b.Operations())) {
				return one("OutOfBounds Argument")
			}
		}
	case "NewType":
		if a(2) != 2 && a(0) < 0 {
			return one("Negative Argument")
		}
		if a(2) != 2 && a(0) == 0 {
			return one("Zero Argument")
		}
	case "NewStdSignal":
		if p.typ(a(1)) == nil {
			return one("Nil Argument")
		}
	case "NewEnumSignal":
		if p.enum(a(1)) == nil {
			return one("Nil Argument")
		}
	case "NewMuxSignal":
		switch {
		case a(1) == 0:
			return one("Zero Argument")
		case a(1) < 0:
			return one("Negative Argument")
		case a(2) == 0:
			return one("Zero Argument")
		case a(2) < 0:
			return one("Negative Argument")
		}
	case "MsgAppendSignal", "MsgInsertSignal":
		m, s := p.msg(a(0)), p.sig(a(1))
		if s == nil {
			return one("Nil Argument")
		}
		if msgNameOwner(m, s.Name()) != nil {
			return one("Duplicated Name")
		}
		if nestedNameClash(m, s) {
			return one("Duplicated Name")
		}
		// a start bit outside [0, payload bits - signal size] can never be inside the payload (judged
		// without computing start + size, which overflows at the top of the int range)
		if o.Name == "MsgInsertSignal" && (a(2) < 0 || a(2) > int64(m.SizeByte()*8)-int64(s.GetSize())) {
			return one("Layout outside-the-payload")
		}
		return Expect{LayoutMaybe: true}
	case "MsgRemoveSignal":
		m, id := p.msg(a(0)), p.eid(a(1))
		for _, s := range reach(m.Signals()) {
			if s.EntityID() == id {
				return Expect{}
			}
		}
		return one("NotFound RemoveEntity")
	case "SigUpdateName":
		s, nm := p.sig(a(0)), nameStr(a(1))
		if s.Name() == nm {
			return Expect{}
		}
		if mx := s.ParentMultiplexerSignal(); mx != nil {
			for _, c := range muxChildren(mx) {
				if c.EntityID() != s.EntityID() && c.Name() == nm {
					return one("Duplicated Name")
				}
			}
			if mm := mx.ParentMessage(); mm != nil && msgNameOwner(mm, nm) != nil {
				return one("Duplicated Name")
			}
		}
		if m := s.ParentMessage(); m != nil && msgNameOwner(m, nm) != nil {
			return one("Duplicated Name")
		}
	case "MuxInsertSignal":
		mx, s := p.mux(a(0)), p.sig(a(1))
		if s == nil {
			return one("Nil Argument")
		}
		for _, c := range muxChildren(mx) {
			if c.EntityID() != s.EntityID() && c.Name() == s.Name() {
				return one("Duplicated Name")
			}
		}
		already := false
		for _, c := range muxChildren(mx) {
			if c.EntityID() == s.EntityID() {
				already = true
			}
		}
		if mm := mx.ParentMessage(); mm != nil {
			if !already && msgNameOwner(mm, s.Name()) != nil {
				// also when the owner of the name is the signal itself, sitting elsewhere in the message
				return one("Duplicated Name")
			}
			if nestedNameClash(mm, s) {
				return one("Duplicated Name")
			}
		}
		// group ids and geometry: C07's subject; any GroupID / layout refusal is admitted when a
		// group id is out of range, repeated for this signal, or mixes fixed and grouped insertion
		ex := Expect{LayoutMaybe: true}
		if a(2) < 0 || a(2) > int64(mx.GroupSize())-int64(s.GetSize()) {
			// outside every group, whatever the group ids are: some refusal is documented (a layout
			// refusal, or the refusal of a group id checked earlier)
			ex.Refusals = append(ex.Refusals, "Layout outside-the-group")
		}
		gids := o.A[min(3, len(o.A)):]
		if len(gids) == 0 {
			if already {
				ex.Refusals = append(ex.Refusals, "Duplicated GroupID")
				ex.LayoutMaybe = false
			}
			return ex
		}
		fixed := mx.VerifFixedSignals()[s.EntityID()]
		prev := mx.VerifSignalGroupIDs()[s.EntityID()]
		seen := map[int64]bool{}
		for _, gid := range gids {
			if seen[gid] {
				continue
			}
			seen[gid] = true
			switch {
			case gid < 0:
				ex.Refusals = append(ex.Refusals, "Negative GroupID")
			case gid >= int64(mx.GroupCount()):
				ex.Refusals = append(ex.Refusals, "OutOfBounds GroupID")
			default:
				dup := fixed
				for _, x := range prev {
					if int64(x) == gid {
						dup = true
					}
				}
				if dup {
					ex.Refusals = append(ex.Refusals, "Duplicated GroupID")
				}
			}
			if n := len(ex.Refusals); n > 0 && !strings.HasPrefix(ex.Refusals[n-1], "Layout") {
				break
			}
		}
		return ex
	case "MuxRemoveSignal":
		mx, id := p.mux(a(0)), p.eid(a(1))
		for _, c := range muxChildren(mx) {
			if c.EntityID() == id {
				return Expect{}
			}
		}
		return one("NotFound RemoveEntity")
	case "MuxClearGroup":
		mx, gid := p.mux(a(0)), a(1)
		if gid < 0 {
			return one("Negative GroupID")
		}
		if gid >= int64(mx.GroupCount()) {
			return one("OutOfBounds GroupID")
		}
	case "StdSetType":
		t := p.typ(a(1))
		if t == nil {
			return one("Nil Argument")
		}
		s := p.sig(a(0))
		return growExpect(s, t.Size()-s.GetSize())
	case "EnumSetEnum":
		e := p.enum(a(1))
		if e == nil {
			return one("Nil Argument")
		}
		s := p.sig(a(0))
		return growExpect(s, e.GetSize()-s.GetSize())
	case "Assign":
		at := p.attr(a(1))
		if at == nil {
			return one("Nil Argument")
		}
		switch v := attrValue(a(2)).(type) {
		case int:
			if at.Type() != acme.AttributeTypeInteger {
				return one("InvalidType AttributeValue")
			}
			ia, _ := at.ToInteger()
			if v < ia.Min() || v > ia.Max() {
				return one("OutOfBounds AttributeValue")
			}
		case float64:
			if at.Type() != acme.AttributeTypeFloat {
				return one("InvalidType AttributeValue")
			}
			fa, _ := at.ToFloat()
			if v < fa.Min() || v > fa.Max() {
				return one("OutOfBounds AttributeValue")
			}
		case string:
			switch at.Type() {
			case acme.AttributeTypeString:
			case acme.AttributeTypeEnum:
				ea, _ := at.ToEnum()
				ok := false
				for _, x := range ea.Values() {
					if x == v {
						ok = true
					}
				}
				if !ok {
					return one("NotFound AttributeValue")
				}
			default:
				return one("InvalidType AttributeValue")
			}
		default:
			return one("InvalidType AttributeValue")
		}
	case "RemoveAssign":
		e, id := p.attributable(a(0)), p.eid(a(1))
		for _, x := range e.AttributeAssignments() {
			if x.Attribute().EntityID() == id {
				return Expect{}
			}
		}
		return one("NotFound None")
	}
	return Expect{}
}

// growExpect: the documented precondition of a size change of one placed signal, by brute force on
// the public getters: the signal may grow by d bits iff in every layout that holds it (the message
// payload, or each group of its multiplexer) the free bits behind it are at least d; the signals
// behind it are pushed, nothing in front of it moves. A shrink is always possible.
func growExpect(s acme.Signal, d int) Expect {
	if d <= 0 {
		return Expect{}
	}
	room := func(size int, items []acme.Signal) bool {
		used, seen := 0, false
		for _, x := range items {
			if x.EntityID() == s.EntityID() {
				seen = true
				used = x.GetRelativeStartPos()
			}
			if seen {
				used += x.GetSize()
			}
		}
		return !seen || size-used >= d
	}
	if mx := s.ParentMultiplexerSignal(); mx != nil {
		for _, g := range mx.GetSignalGroups() {
			if !room(mx.GroupSize(), g) {
				return one("Layout SignalSize")
			}
		}
		return Expect{}
	}
	if m := s.ParentMessage(); m != nil {
		if !room(m.SizeByte()*8, m.Signals()) {
			return one("Layout SignalSize")
		}
	}
	return Expect{}
}

// fitsOracle: extra token appended to the O line of operations whose model takes the layout oracle
func fitsOracle(o Op, cause string) (int64, bool) {
	switch o.Name {
	case "EnumAddValue", "EvalUpdateIndex", "StdSetType", "EnumSetEnum", "MsgAppendSignal", "MsgInsertSignal", "MuxInsertSignal":
		if cause == "Layout" {
			return 0, true
		}
		return 1, true
	case "MsgUpdateSize": // layout.resize refuses with ErrTooSmall: the last signal would no longer fit
		if cause == "TooSmall" {
			return 0, true
		}
		return 1, true
	}
	return 0, false
}

var _ = strconv.Itoa
