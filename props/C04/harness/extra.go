package main

// Kinds of layers 2 and 3 (signals, types, units, attributes, builders): snapshot and checks.

import (
	acme "github.com/squadracorsepolito/acmelib"
)

func extraSnap(p *Pool, e *Ent) string { return "" }

func msgSignalsSnap(p *Pool, m *acme.Message) string { return "" }

func extraCheck(p *Pool, e *Ent) []string { return nil }

func extraTemplates() []template { return nil }

func infallibleExtra(name string) bool { return false }

func (g *Gen) prefixExtra() []Op { return nil }

func taintExtra(p *Pool, o Op) string { return "" }

func expectExtra(p *Pool, o Op) Expect { return Expect{} }

// fitsOracle: extra token appended to the O line of operations whose model takes the layout oracle
func fitsOracle(o Op, cause string) (int64, bool) {
	switch o.Name {
	case "EnumAddValue", "EvalUpdateIndex":
		if cause == "Layout" {
			return 0, true
		}
		return 1, true
	}
	return 0, false
}
