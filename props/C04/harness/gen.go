package main

// Generator of operation histories. Every choice derives from one SplitMix64 stream. Keys come
// from small alphabets (names n0..n4, node ids 0..3, message ids / static CAN-IDs 0..4, enum
// indexes -1..6) so that collisions and re-use of released keys are frequent. For each step an
// intent (provoke a refusal / expect success) is drawn first and candidates are sampled until the
// declarative expectation (expect.go) matches the intent.

import (
	acme "github.com/squadracorsepolito/acmelib"
)

type RNG struct{ s uint64 }

func (r *RNG) next() uint64 {
	r.s += 0x9E3779B97F4A7C15
	z := r.s
	z = (z ^ (z >> 30)) * 0xBF58476D1CE4E5B9
	z = (z ^ (z >> 27)) * 0x94D049BB133111EB
	return z ^ (z >> 31)
}
func (r *RNG) below(n int) int {
	if n <= 0 {
		return 0
	}
	return int(r.next() % uint64(n))
}
func (r *RNG) chance(pct int) bool { return r.below(100) < pct }
func (r *RNG) pick(xs []int) int64 {
	if len(xs) == 0 {
		return 0
	}
	return int64(xs[r.below(len(xs))])
}

type Gen struct {
	r             *RNG
	allowReattach bool // D20: this history may re-attach an entity that already has a parent
	allowTwoIface bool // D22: this history may make two interfaces of one node receive a message
	invalidPct    int
	taint         string // the finding this history has triggered (set by the runner)
	pending       string
	buildSteps    int // first steps after the prefix: build nested signal structures
	// the open-finding stream: only histories with taintWant != "" may trigger a finding, only the
	// one named here, and only after taintFrom random calls (the history ends at the trigger)
	taintWant string
	taintFrom int
	calls     int
}

const nNames = 5

// extremeInt: the top of the int range (overflow of start + size, of index arithmetic) and its bottom
func (g *Gen) extremeInt() int64 {
	const maxInt = int64(^uint64(0) >> 1)
	switch g.r.below(6) {
	case 0:
		return maxInt
	case 1:
		return maxInt - int64(g.r.below(8))
	case 2:
		return maxInt - int64(8+g.r.below(60))
	case 3:
		return -maxInt - 1
	case 4:
		return -maxInt + int64(g.r.below(8))
	}
	return int64(1) << uint(31+g.r.below(32))
}

func (g *Gen) name() int64 {
	if g.r.chance(4) {
		return 5
	}
	return int64(g.r.below(nNames))
}

// live interfaces (not removed from their node)
func liveIfaces(p *Pool) []int {
	var out []int
	for _, h := range p.of(KIface) {
		if !p.ents[h-1].Dead {
			out = append(out, h)
		}
	}
	return out
}

// anyHandle: an id argument that does not denote a member: another entity of the pool (any
// kind) or an id that nothing carries
func (g *Gen) anyHandle(p *Pool) int64 {
	if g.r.chance(25) {
		return 9999
	}
	return int64(1 + g.r.below(len(p.ents)))
}

func (g *Gen) ptr(xs []int) int64 {
	if g.r.chance(6) {
		return 0 // nil
	}
	return g.r.pick(xs)
}

type template struct {
	name   string
	weight int
	make   func(g *Gen, p *Pool) (Op, bool)
}

func mk(name string, a ...int64) (Op, bool) { return Op{Name: name, A: a}, true }

var none = Op{}

var templates []template

func init() {
	templates = []template{
		{"NetAddBus", 8, func(g *Gen, p *Pool) (Op, bool) { return mk("NetAddBus", g.r.pick(p.of(KNet)), g.ptr(p.of(KBus))) }},
		{"NetRemoveBus", 4, func(g *Gen, p *Pool) (Op, bool) {
			n := g.r.pick(p.of(KNet))
			if bs := p.net(n).Buses(); len(bs) > 0 && g.r.chance(55) {
				return mk("NetRemoveBus", n, int64(p.byID[bs[g.r.below(len(bs))].EntityID()]))
			}
			return mk("NetRemoveBus", n, g.anyHandle(p))
		}},
		{"NetRemoveAllBuses", 2, func(g *Gen, p *Pool) (Op, bool) { return mk("NetRemoveAllBuses", g.r.pick(p.of(KNet))) }},
		{"BusUpdateName", 5, func(g *Gen, p *Pool) (Op, bool) { return mk("BusUpdateName", g.r.pick(p.of(KBus)), g.name()) }},
		{"BusAddNodeInterface", 10, func(g *Gen, p *Pool) (Op, bool) {
			return mk("BusAddNodeInterface", g.r.pick(p.of(KBus)), g.ptr(liveIfaces(p)))
		}},
		{"BusRemoveNodeInterface", 4, func(g *Gen, p *Pool) (Op, bool) {
			b := g.r.pick(p.of(KBus))
			if is := p.bus(b).NodeInterfaces(); len(is) > 0 && g.r.chance(55) {
				return mk("BusRemoveNodeInterface", b, int64(p.byID[is[g.r.below(len(is))].Node().EntityID()]))
			}
			return mk("BusRemoveNodeInterface", b, g.anyHandle(p))
		}},
		{"BusRemoveAllNodeInterfaces", 2, func(g *Gen, p *Pool) (Op, bool) { return mk("BusRemoveAllNodeInterfaces", g.r.pick(p.of(KBus))) }},
		{"NodeUpdateName", 5, func(g *Gen, p *Pool) (Op, bool) { return mk("NodeUpdateName", g.r.pick(p.of(KNode)), g.name()) }},
		{"NodeUpdateID", 5, func(g *Gen, p *Pool) (Op, bool) { return mk("NodeUpdateID", g.r.pick(p.of(KNode)), int64(g.r.below(4))) }},
		{"NodeAddInterface", 2, func(g *Gen, p *Pool) (Op, bool) {
			n := g.r.pick(p.of(KNode))
			if len(p.node(n).Interfaces()) >= 4 {
				return none, false
			}
			return mk("NodeAddInterface", n)
		}},
		{"NodeRemoveInterface", 3, func(g *Gen, p *Pool) (Op, bool) {
			n := g.r.pick(p.of(KNode))
			if g.r.chance(6) {
				return mk("NodeRemoveInterface", n, g.extremeInt())
			}
			return mk("NodeRemoveInterface", n, int64(g.r.below(len(p.node(n).Interfaces())+3)-1))
		}},
		{"IfAddSent", 12, func(g *Gen, p *Pool) (Op, bool) { return mk("IfAddSent", g.r.pick(liveIfaces(p)), g.ptr(p.of(KMsg))) }},
		{"IfRemoveSent", 4, func(g *Gen, p *Pool) (Op, bool) {
			i := g.r.pick(liveIfaces(p))
			if ms := p.iface(i).SentMessages(); len(ms) > 0 && g.r.chance(55) {
				return mk("IfRemoveSent", i, int64(p.byID[ms[g.r.below(len(ms))].EntityID()]))
			}
			return mk("IfRemoveSent", i, g.anyHandle(p))
		}},
		{"IfRemoveAllSent", 3, func(g *Gen, p *Pool) (Op, bool) { return mk("IfRemoveAllSent", g.r.pick(liveIfaces(p))) }},
		{"IfAddReceived", 5, func(g *Gen, p *Pool) (Op, bool) { return mk("IfAddReceived", g.r.pick(liveIfaces(p)), g.ptr(p.of(KMsg))) }},
		{"IfRemoveReceived", 3, func(g *Gen, p *Pool) (Op, bool) {
			i := g.r.pick(liveIfaces(p))
			if ms := p.iface(i).ReceivedMessages(); len(ms) > 0 && g.r.chance(55) {
				return mk("IfRemoveReceived", i, int64(p.byID[ms[g.r.below(len(ms))].EntityID()]))
			}
			return mk("IfRemoveReceived", i, g.anyHandle(p))
		}},
		{"IfRemoveAllReceived", 2, func(g *Gen, p *Pool) (Op, bool) { return mk("IfRemoveAllReceived", g.r.pick(liveIfaces(p))) }},
		{"MsgUpdateName", 6, func(g *Gen, p *Pool) (Op, bool) { return mk("MsgUpdateName", g.r.pick(p.of(KMsg)), g.name()) }},
		{"MsgUpdateID", 8, func(g *Gen, p *Pool) (Op, bool) { return mk("MsgUpdateID", g.r.pick(p.of(KMsg)), int64(g.r.below(5))) }},
		{"MsgSetStatic", 8, func(g *Gen, p *Pool) (Op, bool) { return mk("MsgSetStatic", g.r.pick(p.of(KMsg)), int64(g.r.below(5))) }},
		{"MsgAddReceiver", 5, func(g *Gen, p *Pool) (Op, bool) { return mk("MsgAddReceiver", g.r.pick(p.of(KMsg)), g.ptr(liveIfaces(p))) }},
		{"MsgRemoveReceiver", 3, func(g *Gen, p *Pool) (Op, bool) {
			m := g.r.pick(p.of(KMsg))
			if rs := p.msg(m).Receivers(); len(rs) > 0 && g.r.chance(55) {
				return mk("MsgRemoveReceiver", m, int64(p.byID[rs[g.r.below(len(rs))].Node().EntityID()]))
			}
			return mk("MsgRemoveReceiver", m, g.anyHandle(p))
		}},
		{"EnumAddValue", 9, func(g *Gen, p *Pool) (Op, bool) { return mk("EnumAddValue", g.r.pick(p.of(KEnum)), g.ptr(p.of(KEval))) }},
		{"EnumRemoveValue", 3, func(g *Gen, p *Pool) (Op, bool) {
			e := g.r.pick(p.of(KEnum))
			if vs := p.enum(e).Values(); len(vs) > 0 && g.r.chance(55) {
				return mk("EnumRemoveValue", e, int64(p.byID[vs[g.r.below(len(vs))].EntityID()]))
			}
			return mk("EnumRemoveValue", e, g.anyHandle(p))
		}},
		{"EnumRemoveAllValues", 2, func(g *Gen, p *Pool) (Op, bool) { return mk("EnumRemoveAllValues", g.r.pick(p.of(KEnum))) }},
		{"EvalUpdateName", 4, func(g *Gen, p *Pool) (Op, bool) { return mk("EvalUpdateName", g.r.pick(p.of(KEval)), g.name()) }},
		{"EvalUpdateIndex", 5, func(g *Gen, p *Pool) (Op, bool) {
			if g.r.chance(3) {
				// the top of the int range only: with an index near the bottom the comparator of
				// SignalEnum.Values() (a.index - b.index) overflows and the order of Values() is no longer
				// stable between two calls (observed with seed 7; reported, not generated)
				x := g.extremeInt()
				if x < 0 {
					x = -(x + 1)
				}
				return mk("EvalUpdateIndex", g.r.pick(p.of(KEval)), x)
			}
			return mk("EvalUpdateIndex", g.r.pick(p.of(KEval)), int64(g.r.below(8)-1))
		}},
		{"NewEnumValue", 1, func(g *Gen, p *Pool) (Op, bool) {
			if len(p.of(KEval)) >= 12 {
				return none, false
			}
			return mk("NewEnumValue", g.name(), int64(g.r.below(8)-1))
		}},
		{"NewMessage", 1, func(g *Gen, p *Pool) (Op, bool) {
			if len(p.of(KMsg)) >= 8 {
				return none, false
			}
			return mk("NewMessage", g.name(), int64(g.r.below(5)), g.msgSize())
		}},
	}
	templates = append(templates, extraTemplates()...)
	templates = append(templates, plainTemplates()...)
}

func (g *Gen) msgSize() int64 {
	switch g.r.below(8) {
	case 0:
		return 9
	case 1:
		return 2
	case 2:
		return 4
	}
	return 8
}

// fallible: the operation has an error result
func fallible(name string) bool {
	switch name {
	case "NetRemoveAllBuses", "BusRemoveAllNodeInterfaces", "NodeAddInterface", "IfRemoveAllSent", "IfRemoveAllReceived",
		"EnumRemoveAllValues", "NewNetwork", "NewBus", "NewNode", "NewMessage", "NewEnum", "NewEnumValue":
		return false
	}
	if isPlain(name) {
		return name == "BuilderUpdateName" || name == "BuilderInsertOperation" || name == "BuilderRemoveOperation"
	}
	return !infallibleExtra(name)
}

// prefix: the constructors that build the pool
func (g *Gen) prefix() []Op {
	var ops []Op
	add := func(name string, a ...int64) { ops = append(ops, Op{Name: name, A: a}) }
	add("NewNetwork")
	add("NewNetwork")
	for i := 0; i < 3; i++ {
		add("NewBus", g.name())
	}
	for i := 0; i < 4; i++ {
		add("NewNode", g.name(), int64(g.r.below(4)), int64(1+g.r.below(3)))
	}
	for i := 0; i < 6; i++ {
		add("NewMessage", g.name(), int64(g.r.below(5)), g.msgSize())
	}
	for i := 0; i < 3; i++ {
		add("NewEnum")
	}
	for i := 0; i < 8; i++ {
		add("NewEnumValue", g.name(), int64(g.r.below(8)-1))
	}
	ops = append(ops, g.prefixExtra()...)
	return ops
}

// nextOp draws the next operation
func (g *Gen) nextOp(p *Pool) Op {
	g.calls++
	if g.taintWant != "" && g.calls >= g.taintFrom {
		if o, ok := g.triggerOp(p); ok {
			return o
		}
	}
	total := 0
	for _, t := range templates {
		total += t.weight
	}
	for tries := 0; ; tries++ {
		k := g.r.below(total)
		var t template
		for _, x := range templates {
			if k < x.weight {
				t = x
				break
			}
			k -= x.weight
		}
		wantRefusal := g.r.chance(g.invalidPct)
		if g.buildSteps > 0 {
			// nested multiplexers first, then into messages
			names := []string{"MuxInsertSignal", "MuxInsertSignal", "MsgAppendSignal", "MsgInsertSignal"}
			want := names[g.r.below(len(names))]
			for _, x := range templates {
				if x.name == want {
					t = x
				}
			}
			wantRefusal = false
			if tries > 6 {
				g.buildSteps = 0
			}
		}
		var fallback *Op
		for c := 0; c < 10; c++ {
			o, ok := t.make(g, p)
			if !ok {
				break
			}
			if tn := taintOf(p, o); tn != "" {
				continue // findings are triggered by triggerOp only
			}
			if !fallible(o.Name) {
				return o
			}
			ex := expect(p, o)
			if (len(ex.Refusals) > 0) == wantRefusal {
				if g.buildSteps > 0 {
					g.buildSteps--
				}
				return o
			}
			oc := o
			fallback = &oc
		}
		if fallback != nil && tries > 3 {
			return *fallback
		}
	}
}

// taintOf: does the operation, applied to the current state, fall under a recorded open finding
// (so that the invariant may legitimately break afterwards)? Returns the finding's trigger or "".
func taintOf(p *Pool, o Op) string {
	a := func(i int) int64 {
		if i < len(o.A) {
			return o.A[i]
		}
		return 0
	}
	dead := func(h int64) bool { e := p.get(h); return e != nil && e.K == KIface && e.Dead }
	if d36Zone(p, o) {
		return "enum-grows-under-two-signals-of-one-layout"
	}
	switch o.Name {
	case "NetAddBus":
		if b := p.bus(a(1)); b != nil && b.ParentNetwork() != nil && b.ParentNetwork() != p.net(a(0)) {
			return "reattach Network.AddBus"
		}
	case "BusAddNodeInterface":
		if dead(a(1)) {
			return "removed-interface-used"
		}
		if i := p.iface(a(1)); i != nil && i.ParentBus() != nil && i.ParentBus() != p.bus(a(0)) {
			return "reattach Bus.AddNodeInterface"
		}
	case "IfAddSent":
		if dead(a(0)) {
			return "removed-interface-used"
		}
		if m := p.msg(a(1)); m != nil && m.SenderNodeInterface() != nil && m.SenderNodeInterface() != p.iface(a(0)) {
			return "reattach NodeInterface.AddSentMessage"
		}
	case "EnumAddValue":
		if v := p.eval(a(1)); v != nil && v.ParentEnum() != nil && v.ParentEnum() != p.enum(a(0)) {
			return "reattach SignalEnum.AddValue"
		}
	case "IfAddReceived", "MsgAddReceiver":
		var i *acme.NodeInterface
		var m *acme.Message
		if o.Name == "IfAddReceived" {
			if dead(a(0)) {
				return "removed-interface-used"
			}
			i, m = p.iface(a(0)), p.msg(a(1))
		} else {
			if dead(a(1)) {
				return "removed-interface-used"
			}
			m, i = p.msg(a(0)), p.iface(a(1))
		}
		if i != nil && m != nil {
			for _, r := range m.Receivers() {
				if r != i && r.Node() == i.Node() {
					return "two-interfaces-of-a-node-receive"
				}
			}
			// the other direction of the broken relation: another interface of the node still
			// lists the message although the message no longer lists it
			for _, x := range i.Node().Interfaces() {
				if x != i {
					for _, rm := range x.ReceivedMessages() {
						if rm == m {
							return "two-interfaces-of-a-node-receive"
						}
					}
				}
			}
		}
	default:
		if len(o.A) > 0 && dead(a(0)) {
			return "removed-interface-used"
		}
		return taintExtra(p, o)
	}
	return ""
}

// d36Zone: open finding D36 of the C01/C07 stream — an enum referenced by two signals of one layout
// (one message payload or one multiplexer) grows: SignalEnum verifies every signal alone and pushes
// in map order (overlap, or an error / a panic after a partial update). Decided on the state before
// the call; such calls are not generated here (the C01/C07 checks exercise the zone).
func d36Zone(p *Pool, o Op) bool {
	var e *acme.SignalEnum
	newMax := 0
	switch o.Name {
	case "EnumAddValue":
		if len(o.A) < 2 {
			return false
		}
		e = p.enum(o.A[0])
		if v := p.eval(o.A[1]); v != nil {
			newMax = v.Index()
		}
	case "EvalUpdateIndex":
		if len(o.A) < 2 {
			return false
		}
		if v := p.eval(o.A[0]); v != nil {
			e = v.ParentEnum()
		}
		if o.A[1] > int64(^uint32(0)) {
			newMax = int(^uint32(0))
		} else if o.A[1] > 0 {
			newMax = int(o.A[1])
		}
	default:
		return false
	}
	if e == nil || newMax <= e.MaxIndex() {
		return false
	}
	bits := 0
	for x := newMax; x > 0; x >>= 1 {
		bits++
	}
	if bits <= e.GetSize() {
		return false
	}
	seen := map[acme.EntityID]bool{}
	for _, r := range e.References() {
		var key acme.EntityID
		if mx := r.ParentMultiplexerSignal(); mx != nil {
			key = mx.EntityID()
		} else if m := r.ParentMessage(); m != nil {
			key = m.EntityID()
		} else {
			continue
		}
		if seen[key] {
			return true
		}
		seen[key] = true
	}
	return false
}

func isReattach(t string) bool { return len(t) >= 8 && t[:8] == "reattach" }

// triggerOp: a call that falls under the open finding this history is meant to exhibit
func (g *Gen) triggerOp(p *Pool) (Op, bool) {
	for tries := 0; tries < 200; tries++ {
		var o Op
		switch g.taintWant {
		case "reattach Network.AddBus":
			o = op("NetAddBus", g.r.pick(p.of(KNet)), g.r.pick(p.of(KBus)))
		case "reattach Bus.AddNodeInterface":
			o = op("BusAddNodeInterface", g.r.pick(p.of(KBus)), g.r.pick(liveIfaces(p)))
		case "reattach NodeInterface.AddSentMessage":
			o = op("IfAddSent", g.r.pick(liveIfaces(p)), g.r.pick(p.of(KMsg)))
		case "reattach SignalEnum.AddValue":
			o = op("EnumAddValue", g.r.pick(p.of(KEnum)), g.r.pick(p.of(KEval)))
		case "reattach Message.AppendSignal":
			o = op("MsgAppendSignal", g.r.pick(p.of(KMsg)), g.r.pick(p.of(KSig)))
		case "reattach Message.InsertSignal":
			o = op("MsgInsertSignal", g.r.pick(p.of(KMsg)), g.r.pick(p.of(KSig)), int64(g.r.below(40)))
		case "reattach MultiplexerSignal.InsertSignal":
			muxes := sigsOfKind(p, acme.SignalKindMultiplexer)
			mx := g.r.pick(muxes)
			if mx == 0 {
				return Op{}, false
			}
			o = op("MuxInsertSignal", mx, g.r.pick(p.of(KSig)), int64(g.r.below(9)), int64(g.r.below(p.mux(mx).GroupCount())))
		case "two-interfaces-of-a-node-receive":
			if g.r.chance(50) {
				o = op("MsgAddReceiver", g.r.pick(p.of(KMsg)), g.r.pick(liveIfaces(p)))
			} else {
				o = op("IfAddReceived", g.r.pick(liveIfaces(p)), g.r.pick(p.of(KMsg)))
			}
		case "removed-interface-used":
			var dead []int
			for _, h := range p.of(KIface) {
				if p.ents[h-1].Dead {
					dead = append(dead, h)
				}
			}
			if len(dead) == 0 {
				// remove an interface first
				for _, h := range p.of(KNode) {
					if n := p.node(int64(h)); len(n.Interfaces()) >= 2 {
						return op("NodeRemoveInterface", int64(h), int64(g.r.below(len(n.Interfaces())))), true
					}
				}
				return Op{}, false
			}
			o = op("BusAddNodeInterface", g.r.pick(p.of(KBus)), g.r.pick(dead))
		default:
			return Op{}, false
		}
		if taintOf(p, o) == g.taintWant && len(expect(p, o).Refusals) == 0 {
			return o, true
		}
	}
	return Op{}, false
}

var taintKinds = []string{
	"reattach Network.AddBus", "reattach Bus.AddNodeInterface", "reattach NodeInterface.AddSentMessage",
	"reattach SignalEnum.AddValue", "reattach Message.AppendSignal", "reattach Message.InsertSignal",
	"reattach MultiplexerSignal.InsertSignal", "two-interfaces-of-a-node-receive", "removed-interface-used",
}
