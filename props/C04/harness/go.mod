module verif/c04

go 1.24.0

require (
	github.com/squadracorsepolito/acmelib v0.0.0
	verif/vinv v0.0.0
)

replace github.com/squadracorsepolito/acmelib => /repo

replace verif/vinv => /verif/props/common/vinv
