package main

// The property predicates evaluated on the implementation after every step:
//   - the public-API evaluators of the shared package vinv (containment links, uniqueness,
//     lookups), applied to every entity of the pool, not only to those reachable from a network;
//   - the raw-index clauses: every uniqueness index is exactly the map derived from the contents
//     (hooks), which is the decidable form of the conjuncts I3-I7 of the Coq invariant.
// Each broken clause is "clause-id: detail"; the prefix c04-/c05- names the property.

import (
	"fmt"
	"sort"
	"strings"

	acme "github.com/squadracorsepolito/acmelib"
	"verif/vinv"
)

func sameMap[K comparable](got, want map[K]acme.EntityID) bool {
	if len(got) != len(want) {
		return false
	}
	for k, v := range want {
		if g, ok := got[k]; !ok || g != v {
			return false
		}
	}
	return true
}

func showMap[K comparable](p *Pool, m map[K]acme.EntityID) string {
	var xs []string
	for k, v := range m {
		xs = append(xs, fmt.Sprintf("%v>%s", k, p.hid(v)))
	}
	sort.Strings(xs)
	return "{" + strings.Join(xs, ",") + "}"
}

func rawClause[K comparable](out *[]string, p *Pool, clause, owner string, got, want map[K]acme.EntityID) {
	if !sameMap(got, want) {
		*out = append(*out, fmt.Sprintf("%s: %s: index %s, derived from the contents %s", clause, owner, showMap(p, got), showMap(p, want)))
	}
}

// Finding: one broken clause; Key = clause id + the pool entity the evaluator was applied to (a
// breakage that persists over several calls keeps its key although its text may change)
type Finding struct{ Key, Msg string }

func checkAll(p *Pool) []Finding {
	var out []Finding
	add := func(owner string, msgs ...string) {
		for _, m := range msgs {
			out = append(out, Finding{clauseID(m) + "#" + owner, m})
		}
	}
	// C06: a call that was accepted must leave every payload layout valid (otherwise it should have
	// been refused for lack of space); evaluators of the C01/C07 stream
	for _, e := range p.ents {
		e := e
		owner := fmt.Sprint(e.H)
		switch e.K {
		case KMsg:
			for _, b := range vinv.Guard("c06-layout-invalid", func() []string { return vinv.CheckMessageLayout(e.Msg) }) {
				add(owner, "c06-layout-invalid."+subCheck(b)+": "+p.describe(e.H)+": "+b)
			}
		case KSig:
			if e.Sig.Kind() == acme.SignalKindMultiplexer && e.Sig.ParentMessage() == nil {
				mx, _ := e.Sig.ToMultiplexer()
				for _, b := range vinv.Guard("c06-layout-invalid", func() []string { return vinv.CheckMultiplexer(mx) }) {
					add(owner, "c06-layout-invalid."+subCheck(b)+": "+p.describe(e.H)+": "+b)
				}
			}
		}
	}
	for i, d := range p.defBuilders {
		add(fmt.Sprintf("def%d", i), vinv.CheckBuilderRefs(d, fmt.Sprintf("default builder #%d held from Bus.CANIDBuilder()", i))...)
	}
	for _, e := range p.ents {
		e := e
		// a read-only evaluator that panics has evaluated nothing: it fails all three properties
		for _, b := range vinv.Guard("evaluator-panics", func() []string { return checkEnt(p, e) }) {
			if strings.HasPrefix(b, "evaluator-panics:") {
				for _, pr := range []string{"c04", "c05", "c06"} {
					add(fmt.Sprint(e.H), pr+"-"+b)
				}
			} else {
				add(fmt.Sprint(e.H), b)
			}
		}
	}
	return out
}

func checkEnt(p *Pool, e *Ent) []string {
	out := extraCheckL1(p, e)
	{
		owner := p.describe(e.H)
		switch e.K {
		case KNet:
			out = append(out, vinv.CheckNetwork(e.Net)...)
			want := map[string]acme.EntityID{}
			for id, b := range e.Net.VerifBuses() {
				if b.EntityID() != id {
					out = append(out, fmt.Sprintf("c05-raw-network-buses: %s: key %s holds bus %s", owner, p.hid(id), p.hid(b.EntityID())))
				}
				want[b.Name()] = b.EntityID()
			}
			rawClause(&out, p, "c04-raw-network-busNames", owner, e.Net.VerifBusNames(), want)
		case KBus:
			b := e.Bus
			out = append(out, vinv.CheckBus(b)...)
			out = append(out, vinv.CheckBusUp(b)...)
			for _, nm := range []int64{0, 1, 2, 3, 4, 5} {
				out = append(out, vinv.LookupAbsentNodeName(b, nameStr(nm))...)
			}
			names := map[string]acme.EntityID{}
			ids := map[acme.NodeID]acme.EntityID{}
			static := map[acme.CANID]acme.EntityID{}
			for id, ni := range b.VerifNodeInts() {
				nd := ni.Node()
				if nd.EntityID() != id {
					out = append(out, fmt.Sprintf("c05-raw-bus-nodeInts: %s: key %s holds an interface of node %s", owner, p.hid(id), p.hid(nd.EntityID())))
				}
				names[nd.Name()] = nd.EntityID()
				ids[nd.ID()] = nd.EntityID()
				for _, m := range ni.VerifSent() {
					if m.HasStaticCANID() {
						static[m.VerifStaticCANID()] = m.EntityID()
					}
				}
			}
			rawClause(&out, p, "c04-raw-bus-nodeNames", owner, b.VerifNodeNames(), names)
			rawClause(&out, p, "c04-raw-bus-nodeIDs", owner, b.VerifNodeIDs(), ids)
			rawClause(&out, p, "c04-raw-bus-staticCANIDs", owner, b.VerifStaticCANIDs(), static)
		case KNode:
			out = append(out, vinv.CheckNode(e.Node)...)
			if c := e.Node.VerifInterfaceCount(); c != len(e.Node.Interfaces()) {
				out = append(out, fmt.Sprintf("c05-node-interfaces: %s: interfaceCount %d, %d interfaces", owner, c, len(e.Node.Interfaces())))
			}
		case KIface:
			i := e.Iface
			out = append(out, vinv.CheckInterface(i)...)
			out = append(out, vinv.CheckInterfaceUp(i)...)
			for _, nm := range []int64{0, 1, 2, 3, 4, 5} {
				out = append(out, vinv.LookupAbsentMessageName(i, nameStr(nm))...)
			}
			names := map[string]acme.EntityID{}
			ids := map[acme.MessageID]acme.EntityID{}
			static := map[acme.CANID]acme.EntityID{}
			for id, m := range i.VerifSent() {
				if m.EntityID() != id {
					out = append(out, fmt.Sprintf("c05-raw-iface-sent: %s: key %s holds message %s", owner, p.hid(id), p.hid(m.EntityID())))
				}
				names[m.Name()] = m.EntityID()
				if m.HasStaticCANID() {
					static[m.VerifStaticCANID()] = m.EntityID()
				} else {
					ids[m.ID()] = m.EntityID()
				}
			}
			rawClause(&out, p, "c04-raw-iface-sentNames", owner, i.VerifSentNames(), names)
			rawClause(&out, p, "c04-raw-iface-sentIDs", owner, i.VerifSentIDs(), ids)
			rawClause(&out, p, "c04-raw-iface-sentStaticCANIDs", owner, i.VerifSentStatic(), static)
			if !e.Dead {
				// a live interface is listed by its node at its number
				ints := i.Node().Interfaces()
				if k := i.Number(); k < 0 || k >= len(ints) || ints[k] != i {
					out = append(out, fmt.Sprintf("c05-node-interfaces: %s: not listed by its node at its number %d", owner, k))
				}
			}
		case KMsg:
			m := e.Msg
			out = append(out, vinv.CheckMessageUp(m)...)
			out = append(out, vinv.CheckReceivers(m)...)
			out = append(out, vinv.CheckMessageRegistry(m)...)
			for id, ni := range m.VerifReceivers() {
				if ni.Node().EntityID() != id {
					out = append(out, fmt.Sprintf("c05-raw-message-receivers: %s: key %s holds an interface of node %s", owner, p.hid(id), p.hid(ni.Node().EntityID())))
				}
			}
		case KEnum:
			en := e.Enum
			out = append(out, vinv.CheckEnum(en)...)
			names := map[string]acme.EntityID{}
			idx := map[int]acme.EntityID{}
			for id, v := range en.VerifValues() {
				if v.EntityID() != id {
					out = append(out, fmt.Sprintf("c05-raw-enum-values: %s: key %s holds value %s", owner, p.hid(id), p.hid(v.EntityID())))
				}
				names[v.Name()] = v.EntityID()
				idx[v.Index()] = v.EntityID()
			}
			rawClause(&out, p, "c04-raw-enum-valueNames", owner, en.VerifValueNames(), names)
			rawClause(&out, p, "c04-raw-enum-valueIndexes", owner, en.VerifValueIndexes(), idx)
		case KEval:
			out = append(out, vinv.CheckEnumValueUp(e.Eval)...)
		default:
			out = append(out, extraCheck(p, e)...)
		}
	}
	return out
}

// clauseID: the part before the first ':'
// subCheck: which layout check failed (the word before the first colon of the evaluator's message)
func subCheck(b string) string {
	if i := strings.Index(b, ":"); i > 0 && i < 24 {
		return strings.ReplaceAll(strings.ReplaceAll(b[:i], "/", "-"), " ", "-")
	}
	return "other"
}

func clauseID(s string) string {
	if i := strings.Index(s, ":"); i > 0 {
		return s[:i]
	}
	return s
}
