package main

// Harness of the C04/C05/C06 checks. Generates operation histories (or replays one), runs them on
// the implementation, and writes
//   $VERIF_OUT          the trace for the OCaml model driver (H/O/X/R/D lines)
//   $VERIF_OUT.summary  counts, histograms and property-level failures (FAIL lines)
// Environment: VERIF_SEED, VERIF_TIER (quick|thorough), VERIF_REPLAY (file with one op per line),
// VERIF_HISTORIES / VERIF_STEPS (override sizes).

import (
	"bufio"

	acme "github.com/squadracorsepolito/acmelib"
	"fmt"
	"hash/fnv"
	"os"
	"sort"
	"strconv"
	"strings"
)

type Failure struct {
	Prop, Sig, Detail string
	Ops               []string
}

type Run struct {
	trace     *bufio.Writer
	fails     map[string]*Failure
	hist      map[string]int
	cases     int
	steps     int
	fallible  int
	refused   int
	tainted   int
	nontriv   map[uint64]bool
	verbose   bool
	checksRun int
	allocated int // entities created by the current call
	// lines written to the trace: the driver must have processed exactly these (END line)
	oLines, rLines, dLines, cLines int
	cloneLines             []string
}

func (r *Run) fail(prop, sig, detail string, ops []string) {
	key := prop + " " + sig
	if f, ok := r.fails[key]; ok && len(f.Ops) <= len(ops) {
		return
	}
	r.fails[key] = &Failure{prop, sig, detail, append([]string{}, ops...)}
}

func shapeOf(taint string) string {
	switch {
	case isReattach(taint):
		return "argument-already-has-a-parent"
	case taint == "two-interfaces-of-a-node-receive":
		return "second-interface-of-the-node"
	case taint == "enum-grows-under-two-signals-of-one-layout":
		return "two-signals-of-the-enum-in-one-layout"
	}
	return "interface-removed-from-its-node"
}

// editedEnum: the enum whose maximum index the call may change
func editedEnum(p *Pool, o Op) *acme.SignalEnum {
	switch o.Name {
	case "EnumAddValue", "EnumRemoveValue", "EnumRemoveAllValues":
		if len(o.A) > 0 {
			return p.enum(o.A[0])
		}
	case "EvalUpdateIndex":
		if len(o.A) > 0 {
			if v := p.eval(o.A[0]); v != nil {
				return v.ParentEnum()
			}
		}
	}
	return nil
}

func positions(p *Pool) map[int]int {
	out := map[int]int{}
	for _, h := range p.of(KSig) {
		out[h] = p.ents[h-1].Sig.GetRelativeStartPos()
	}
	return out
}

func dash(s string) string { return strings.ReplaceAll(s, " ", "-") }

// panicClass: the text of a panic without the numbers, as part of the signature
func panicClass(msg string) string {
	msg = strings.TrimPrefix(msg, "runtime error: ")
	var sb strings.Builder
	lastDash := true
	for _, c := range strings.ToLower(msg) {
		switch {
		case c >= 'a' && c <= 'z':
			sb.WriteRune(c)
			lastDash = false
		case !lastDash:
			sb.WriteByte('-')
			lastDash = true
		}
		if sb.Len() >= 48 {
			break
		}
	}
	return strings.Trim(sb.String(), "-")
}

// renamesNodeOfAttachedDeadInterface: Node.UpdateName / UpdateID of a node one of whose removed
// interfaces is still listed by a bus (state before the call)
func renamesNodeOfAttachedDeadInterface(p *Pool, o Op) bool {
	if (o.Name != "NodeUpdateName" && o.Name != "NodeUpdateID") || len(o.A) == 0 {
		return false
	}
	nd := p.node(o.A[0])
	if nd == nil {
		return false
	}
	for _, h := range p.of(KIface) {
		e := p.ents[h-1]
		if e.Dead && e.Iface != nil && e.Iface.Node() == nd && e.Iface.ParentBus() != nil {
			return true
		}
	}
	return false
}

func propOf(clause string) string {
	if len(clause) >= 3 {
		return clause[:3]
	}
	return "c04"
}

// runHistory executes one history. next returns the next operation given the pool, or false.
func (r *Run) runHistory(idx int, next func(p *Pool, step int) (Op, bool), onTaint func(string)) {
	p := newPool()
	r.cases++
	fmt.Fprintf(r.trace, "H %d\n", idx)
	var done []string
	taint := ""
	kinds := map[string]bool{}
	prevBroken := map[string]bool{}
	sawRefusal, sawRekey := false, false
	h := fnv.New64a()
	var epilogue []Op // scripted calls after the trigger of the removed-interface finding
	for step := 0; ; step++ {
		var o Op
		ok := true
		if taint != "" {
			if len(epilogue) == 0 {
				break
			}
			o, epilogue = epilogue[0], epilogue[1:]
		} else {
			o, ok = next(p, step)
		}
		if !ok {
			break
		}
		r.steps++
		tn := taintOf(p, o)
		fall := fallible(o.Name)
		var ex Expect
		var before string
		if fall {
			ex = expect(p, o)
			before = snapshot(p)
			r.fallible++
		} else if po, isP := plainOps[o.Name]; isP && po.frame {
			before = snapshot(p)
		}
		shared := sharedFollower(p, o)
		c01pre := c01Before(p, o)
		var relBefore map[int]int // enum edits: positions of all signals and the size of the enum before the call
		enumSizeBefore := -1
		if en := editedEnum(p, o); en != nil {
			relBefore, enumSizeBefore = positions(p), en.GetSize()
		}
		var oldSender int64 // IfAddSent: the interface that sent the message before the call
		if o.Name == "IfAddSent" && len(o.A) > 1 {
			if m := p.msg(o.A[1]); m != nil && m.SenderNodeInterface() != nil {
				oldSender = int64(p.byIface[m.SenderNodeInterface()])
			}
		}
		deadAttached := renamesNodeOfAttachedDeadInterface(p, o)
		nBefore := len(p.ents)
		out, bad := exec(p, o)
		if bad != nil {
			fmt.Fprintf(os.Stderr, "harness: %v: %s\n", bad, o)
			os.Exit(3)
		}
		r.allocated = len(p.ents) - nBefore
		r.cloneLines, p.cloneLines = p.cloneLines, nil
		cloneShared := p.cloneShared
		p.cloneShared = false
		done = append(done, o.String())
		h.Write([]byte(o.String() + ";"))
		st := site(o)
		d35hit := false
		failOn := func(prop, sig, detail string) {
			if tn != "" && out.Err == nil && !out.Panicked && !strings.HasPrefix(sig, "c06-panic") && !strings.HasPrefix(sig, "c06-error-mutates") {
				// the failing call is itself an instance of an open finding: the signature names the
				// clause, the call site and the shape of the argument
				sig += "+" + shapeOf(tn)
			} else if deadAttached && out.Err == nil && !out.Panicked && !strings.HasPrefix(sig, "c06-panic") && !strings.HasPrefix(sig, "c06-error-mutates") {
				// decided on the state before the call: a rename / id change of a node one of whose removed
				// interfaces is still listed by a bus (the consequence of the removed-interface finding)
				sig += "+interface-removed-from-its-node"
			} else if shared && (strings.HasPrefix(sig, "c06-panic@") || strings.HasPrefix(sig, "c06-layout-invalid.")) {
				// size change of a multiplexed signal whose follower is shared by several groups
				sig += "+follower-shared-by-groups"
				d35hit = true
			}
			r.fail(prop, sig, detail, done)
		}
		cause, wrap := "", ""
		res := "ok"
		if out.Panicked {
			line := o.String()
			if f, okf := fitsOracle(o, ""); okf {
				line += " " + strconv.FormatInt(f, 10)
			}
			// the panic is reported as a property failure of its own (c06-panic@…); the history ends
			// here and the model is not compared on this call
			fmt.Fprintf(r.trace, "# panic in %s\n", line)
			failOn("c06", "c06-panic@"+st+":"+panicClass(out.PanicMsg), fmt.Sprintf("%s panicked: %s", st, trunc(out.PanicMsg, 200)))
			r.hist[o.Name+".panic"]++
			p.c01.off = true
			if r.verbose {
				fmt.Printf("%-40s PANIC %s\n", o, out.PanicMsg)
			}
			break
		}
		if out.Err != nil {
			var probs []string
			cause, wrap, probs = classify(out.Err)
			res = "err " + cause + " " + wrap
			r.refused++
			sawRefusal = true
			for _, pr := range probs {
				failOn("c06", "c06-no-sentinel@"+st, st+": "+pr)
			}
			if after := snapshot(p); after != before {
				failOn("c06", "c06-error-mutates@"+st, fmt.Sprintf("%s returned %q but changed the model: %s", st, trunc(out.Err.Error(), 160), firstDiff(before, after)))
			}
		} else if tn != "" && taint == "" {
			taint = tn
			r.tainted++
			if onTaint != nil {
				onTaint(tn)
			}
			if tn == "reattach NodeInterface.AddSentMessage" && o.Name == "IfAddSent" && oldSender != 0 {
				// the first interface still lists the message as sent: what the finding does not excuse is
				// still judged — the first interface must be refused as a receiver of the message
				epilogue = []Op{{Name: "MsgAddReceiver", A: []int64{o.A[1], oldSender}}, {Name: "IfAddReceived", A: []int64{oldSender, o.A[1]}}}
			}
			if tn == "removed-interface-used" && o.Name == "BusAddNodeInterface" {
				// the consequence for the name / id indexes shows when the node is renamed
				if ni := p.iface(o.A[1]); ni != nil {
					nd := int64(p.byID[ni.Node().EntityID()])
					epilogue = []Op{{Name: "NodeUpdateName", A: []int64{nd, 5}}, {Name: "NodeUpdateID", A: []int64{nd, 3}}}
				}
			}
		}
		if fall {
			if v := ex.verdict(out.Err != nil, cause+" "+wrap); v != "" {
				kind := "c06-wrong-cause@"
				switch {
				case out.Err == nil:
					kind = "c06-accepted-invalid@"
					if len(ex.Refusals) > 0 && strings.HasPrefix(ex.Refusals[0], "Duplicated") {
						failOn("c04", "c04-used-key-accepted@"+st, st+" "+v)
					}
				case len(ex.Refusals) == 0:
					kind = "c06-refused-valid@"
					if cause == "Duplicated" {
						failOn("c04", "c04-free-key-refused@"+st, st+" "+v)
					}
				}
				failOn("c06", kind+st, st+" "+v)
			}
		}
		if en := editedEnum(p, o); en != nil && relBefore != nil && out.Err == nil && !out.Panicked && en.GetSize() == enumSizeBefore {
			// the size of the enum did not change: no signal may move
			for h, r := range positions(p) {
				if old, ok := relBefore[h]; ok && old != r {
					failOn("c06", "c06-moved-without-size-change@"+st, fmt.Sprintf("%s kept the size of the enum (%d bits) but %s moved from %d to %d", st, enumSizeBefore, p.describe(h), old, r))
					break
				}
			}
		}
		if po, isP := plainOps[o.Name]; isP && po.frame && out.Err == nil {
			// a plain setter may only change its own receiver
			if d := frameBroken(before, snapshot(p), o.A[0]); d != "" {
				failOn("c06", "c06-setter-frame@"+st, st+" changed something else than its receiver: "+d)
			}
		}
		line := o.String()
		if f, okf := fitsOracle(o, cause); okf {
			line += " " + strconv.FormatInt(f, 10)
		}
		r.emitOp(o, line)
		if modelled(o.Name) {
			fmt.Fprintf(r.trace, "R %s\n", res)
			r.rLines++
		}
		// the geometry decision of this call in the vocabulary of the C01 layout model
		c01class := ""
		if out.Err == nil {
			c01class = "ok"
		} else if cause == "Layout" {
			c01class = "layout"
		} else if o.Name == "MsgUpdateSize" && cause == "TooSmall" {
			c01class = "toosmall"
		} else if o.Name == "MsgUpdateSize" && cause == "TooBig" {
			c01class = "toobig"
		}
		for _, l := range c01Lines(p, o, c01pre, c01class, nBefore) {
			fmt.Fprintf(r.trace, "C %s\n", l)
			r.cLines++
		}
		fmt.Fprintf(r.trace, "D %s\n", modelDump(p))
		r.dLines++
		key := o.Name + ".ok"
		if out.Err != nil {
			key = o.Name + "." + cause
		} else if !strings.HasPrefix(o.Name, "New") {
			kinds[o.Name] = true
			switch o.Name {
			case "BusUpdateName", "NodeUpdateName", "NodeUpdateID", "MsgUpdateName", "MsgUpdateID", "MsgSetStatic", "EvalUpdateName", "EvalUpdateIndex", "SigUpdateName":
				sawRekey = true
			}
		}
		r.hist[key]++
		if r.verbose {
			fmt.Printf("%-40s %s\n", o, res)
		}
		// property predicates on the implementation
		r.checksRun++
		nowBroken := map[string]bool{}
		for _, f := range checkAll(p) {
			c := f.Msg
			id := clauseID(c)
			nowBroken[f.Key] = true
			// a finding (clause + entity) that was already there before this call is attributed to the
			// call after which it first appeared; the same clause broken at another entity is new
			if !prevBroken[f.Key] {
				failOn(propOf(id), id+"@"+st, c)
			}
			if r.verbose {
				fmt.Printf("    BROKEN %s\n", c)
			}
		}
		prevBroken = nowBroken
		if d35hit {
			// the call fell under the open finding D35 and left a corrupted layout behind: like every
			// other finding trigger it ends the history, so that nothing later is attributed to it
			break
		}
		if cloneShared {
			// the clone, or one of its children, is an object that already existed: the pool (and the
			// model, which created new entities) no longer describe the implementation; the history ends
			failOn("c05", "c05-clone-shares-objects@"+st, st+": the clone or one of its children is an object the original still holds")
			break
		}
		// once a call fell under an open finding (re-attach, second receiving interface of a node,
		// removed interface used) its immediate symptom has been evaluated under the clause's own
		// signature; nothing else is attributed to it: the history ends (top of the loop)
	}
	if len(kinds) >= 3 && sawRefusal && sawRekey {
		r.nontriv[h.Sum64()] = true
	}
}

func (r *Run) emitOp(o Op, line string) {
	if modelled(o.Name) {
		fmt.Fprintf(r.trace, "O %s\n", line)
		r.oLines++
	} else {
		fmt.Fprintf(r.trace, "X %s\n", line)
		// entities of kinds the model does not have still consume handles
		for i := 0; i < r.allocated; i++ {
			fmt.Fprintf(r.trace, "O NewOther\nR ok\n")
			r.oLines++
			r.rLines++
		}
	}
}

func envInt(name string, def int) int {
	if v, err := strconv.Atoi(os.Getenv(name)); err == nil {
		return v
	}
	return def
}

func main() {
	outPath := os.Getenv("VERIF_OUT")
	if outPath == "" {
		outPath = "c04_trace.txt"
	}
	f, err := os.Create(outPath)
	if err != nil {
		panic(err)
	}
	r := &Run{trace: bufio.NewWriterSize(f, 1<<20), fails: map[string]*Failure{}, hist: map[string]int{}, nontriv: map[uint64]bool{}}
	seed := uint64(envInt("VERIF_SEED", 20260930))
	tier := os.Getenv("VERIF_TIER")

	if rp := os.Getenv("VERIF_REPLAY"); rp != "" {
		r.verbose = os.Getenv("VERIF_QUIET") == ""
		data, err := os.ReadFile(rp)
		if err != nil {
			panic(err)
		}
		var ops []Op
		for _, ln := range strings.FieldsFunc(string(data), func(c rune) bool { return c == '\n' || c == ';' }) {
			ln = strings.TrimSpace(ln)
			if ln == "" || ln[0] == '#' {
				continue
			}
			if len(ln) > 2 && (ln[:2] == "O " || ln[:2] == "X ") {
				ln = ln[2:]
			}
			o, err := parseOp(ln)
			if err != nil {
				fmt.Fprintf(os.Stderr, "bad replay line %q: %v\n", ln, err)
				os.Exit(3)
			}
			// a trace line carries the oracle token, which is recomputed from the observed result
			if _, has := fitsOracle(o, ""); has {
				// fixed-arity operations only; a MuxInsertSignal line must come without token
				want := map[string]int{"EnumAddValue": 2, "EvalUpdateIndex": 2, "StdSetType": 2, "EnumSetEnum": 2, "MsgAppendSignal": 2, "MsgInsertSignal": 3}
				if n, ok := want[o.Name]; ok && len(o.A) == n+1 {
					o.A = o.A[:n]
				}
			}
			if o.Name == "Assign" && len(o.A) > 3 { // traces written before the value check was modelled carry a fourth token
				o.A = o.A[:3]
			}
			ops = append(ops, o)
		}
		r.runHistory(0, func(p *Pool, step int) (Op, bool) {
			if step < len(ops) {
				return ops[step], true
			}
			return Op{}, false
		}, nil)
	} else {
		if tier == "thorough" {
			r.exhaustive()
		}
		nHist, nSteps := 360, 150
		if tier == "thorough" {
			nHist, nSteps = 9000, 150
		}
		nHist = envInt("VERIF_HISTORIES", nHist)
		nSteps = envInt("VERIF_STEPS", nSteps)
		for hI := 0; hI < nHist; hI++ {
			g := &Gen{r: &RNG{s: seed*0x9E3779B97F4A7C15 + uint64(hI)*0xD1B54A32D192ED03 + 1}, invalidPct: 96, buildSteps: 10}
			if hI%5 == 4 {
				// the open-finding stream: one designated trigger per history, late in the history
				g.taintWant = taintKinds[(hI/5)%len(taintKinds)]
				g.taintFrom = 15 + g.r.below(55)
			}
			pre := g.prefix()
			var queue, pending []Op
			queued := false
			r.runHistory(hI+1, func(p *Pool, step int) (Op, bool) {
				if step < len(pre) {
					return pre[step], true
				}
				if !queued {
					queue, queued = g.signalOps(p), true
					pre = append(pre, queue...)
					return pre[step], true
				}
				if step < len(pre) {
					return pre[step], true
				}
				if step >= len(pre)+nSteps {
					return Op{}, false
				}
				// directed scenarios after the structure-building phase and in the middle
				rel := step - len(pre)
				if rel == 0 && hI%3 != 2 {
					pending = g.buildL1(p) // two histories of three start from a populated structure
				}
				if (rel == 45 || rel == 80 || rel == 115) && len(pending) == 0 {
					pending = g.scenario(p)
				}
				for len(pending) > 0 {
					o := pending[0]
					pending = pending[1:]
					if tn := taintOf(p, o); tn != "" {
						continue // never trigger an open finding from a script
					}
					if badArgs(p, o) {
						continue
					}
					return o, true
				}
				return g.nextOp(p), true
			}, func(t string) { g.taint = t })
		}
	}
	// the END line lets the check tell a complete trace from a truncated one
	fmt.Fprintf(r.trace, "END %d %d %d %d %d\n", r.cases, r.oLines, r.rLines, r.dLines, r.cLines)
	if err := r.trace.Flush(); err != nil {
		fmt.Fprintf(os.Stderr, "harness: writing the trace failed: %v\n", err)
		os.Exit(3)
	}
	if err := f.Close(); err != nil {
		fmt.Fprintf(os.Stderr, "harness: closing the trace failed: %v\n", err)
		os.Exit(3)
	}

	sf, err := os.Create(outPath + ".summary")
	if err != nil {
		panic(err)
	}
	w := bufio.NewWriter(sf)
	fmt.Fprintf(w, "cases %d\nsteps %d\nfallible %d\nrefused %d\ntainted %d\nnontrivial %d\nchecks %d\nolines %d\nrlines %d\ndlines %d\nclines %d\n", r.cases, r.steps, r.fallible, r.refused, r.tainted, len(r.nontriv), r.checksRun, r.oLines, r.rLines, r.dLines, r.cLines)
	var keys []string
	for k := range r.hist {
		keys = append(keys, k)
	}
	sort.Strings(keys)
	for _, k := range keys {
		fmt.Fprintf(w, "hist %s %d\n", k, r.hist[k])
	}
	keys = keys[:0]
	for k := range r.fails {
		keys = append(keys, k)
	}
	sort.Strings(keys)
	for _, k := range keys {
		fl := r.fails[k]
		fmt.Fprintf(w, "FAIL %s\t%s\t%s\t%s\n", fl.Prop, fl.Sig, strings.ReplaceAll(fl.Detail, "\n", " // "), strings.Join(fl.Ops, ";"))
	}
	w.Flush()
	sf.Close()
	if r.verbose {
		for _, k := range keys {
			fmt.Printf("FAIL %s %s: %s\n", r.fails[k].Prop, r.fails[k].Sig, r.fails[k].Detail)
		}
	}
}

// exhaustive: every history of length <= 3 over a small universe (1 network, 1 bus, 2 nodes with one
// interface each, 2 messages, 1 enum with 2 values) and a fixed alphabet of concrete calls with
// colliding keys. Thorough tier only.
func (r *Run) exhaustive() {
	prefix := []Op{
		op("NewNetwork"), op("NewBus", 0), op("NewNode", 0, 0, 1), op("NewNode", 1, 1, 1), // 1 net, 2 bus, 3 node,4 if, 5 node,6 if
		op("NewMessage", 0, 0, 8), op("NewMessage", 0, 0, 8), // 7, 8: same name and id
		op("NewEnum"), op("NewEnumValue", 0, 0), op("NewEnumValue", 0, 0), // 9, 10, 11
		op("NetAddBus", 1, 2), op("BusAddNodeInterface", 2, 4), op("IfAddSent", 4, 7), op("EnumAddValue", 9, 10),
	}
	alphabet := []Op{
		op("BusAddNodeInterface", 2, 6), op("BusRemoveNodeInterface", 2, 3), op("BusRemoveNodeInterface", 2, 5),
		op("NodeUpdateName", 5, 0), op("NodeUpdateID", 5, 0), op("NodeUpdateName", 3, 1), op("NodeUpdateID", 3, 1),
		op("IfAddSent", 4, 8), op("IfAddSent", 6, 8), op("IfRemoveSent", 4, 7), op("IfRemoveAllSent", 4),
		op("MsgUpdateName", 8, 1), op("MsgUpdateName", 7, 1), op("MsgUpdateID", 8, 1), op("MsgUpdateID", 7, 1),
		op("MsgSetStatic", 7, 5), op("MsgSetStatic", 8, 5), op("MsgAddReceiver", 7, 6), op("MsgAddReceiver", 7, 4),
		op("MsgRemoveReceiver", 7, 5), op("EnumAddValue", 9, 11), op("EnumRemoveValue", 9, 10),
		op("EvalUpdateName", 11, 1), op("EvalUpdateIndex", 11, 1), op("EvalUpdateName", 10, 1), op("EvalUpdateIndex", 10, 1),
		op("NodeRemoveInterface", 3, 0), op("BusRemoveAllNodeInterfaces", 2), op("NetRemoveAllBuses", 1),
	}
	idx := 1000000
	var rec func(seq []Op, depth int)
	rec = func(seq []Op, depth int) {
		if depth > 0 {
			idx++
			all := append(append([]Op{}, prefix...), seq...)
			r.runHistory(idx, func(p *Pool, step int) (Op, bool) {
				for step < len(all) {
					o := all[step]
					if taintOf(p, o) != "" { // never trigger an open finding here: stop the history
						return Op{}, false
					}
					return o, true
				}
				return Op{}, false
			}, nil)
		}
		if depth == 3 {
			return
		}
		for _, o := range alphabet {
			rec(append(append([]Op{}, seq...), o), depth+1)
		}
	}
	rec(nil, 0)
}
