package main

// The public mutators that are not operations of the Coq model (props/C04/alphabet.json lists every
// public method of the entity layer with its class).  They are called like every other operation:
// inside recover(), with the whole-pool snapshot before / after a failing call, with every clause of
// checkAll afterwards — and, since the model does not step, the state comparison after the call says
// that nothing the model describes (names, ids, indexes, registries, links, references) changed.
//
//   plain setters   (descriptions, names without an index, timing, byte order, type / unit fields …):
//                   additionally the FRAME check — the snapshot lines of all other entities are unchanged
//                   (c06-setter-frame@<site>)
//   builder ops     CANIDBuilder.Use* / InsertOperation / RemoveOperation / RemoveAllOperations /
//                   UpdateName: they change the CAN-IDs of the messages of the buses that use the
//                   builder, hence no frame check; refusals (out-of-range arguments) must change nothing
//   geometry        Message / MultiplexerSignal.ShiftSignalLeft / Right, Message.CompactSignals,
//                   SignalEnum.SetMinSize (on an enum without references: with references it is finding
//                   D03 of the C01/C07 stream): every layout must stay valid, and the call is also
//                   replayed on the layout model of the C01/C07 stream (c01bridge.go)
//
// Message.UpdateSizeByte and Bus.SetType are operations of the model (MsgResize, BusSetType).

import (
	"fmt"
	"strings"

	acme "github.com/squadracorsepolito/acmelib"
)

type plainOp struct {
	site  string
	kind  Kind // receiver kind; KNet with any=true: every entity
	any   bool
	frame bool
	call  func(p *Pool, e *Ent, o Op) (error, bool) // returns (error, applicable)
}

type descSetter interface{ SetDesc(string) }

func entObject(e *Ent) any {
	switch e.K {
	case KNet:
		return e.Net
	case KBus:
		return e.Bus
	case KNode:
		return e.Node
	case KMsg:
		return e.Msg
	case KEnum:
		return e.Enum
	case KEval:
		return e.Eval
	case KSig:
		return e.Sig
	case KType:
		return e.Type
	case KUnit:
		return e.Unit
	case KAttr:
		return e.Attr
	case KBuilder:
		return e.Bld
	}
	return nil
}

func arg(o Op, i int) int64 {
	if i < len(o.A) {
		return o.A[i]
	}
	return 0
}

var plainOps = map[string]plainOp{
	"SetDesc": {site: "SetDesc", any: true, frame: true, call: func(p *Pool, e *Ent, o Op) (error, bool) {
		if d, ok := entObject(e).(descSetter); ok {
			d.SetDesc(fmt.Sprintf("d%d", arg(o, 1)))
			return nil, true
		}
		return nil, false
	}},
	"NetUpdateName": {site: "Network.UpdateName", kind: KNet, frame: true, call: func(p *Pool, e *Ent, o Op) (error, bool) {
		e.Net.UpdateName(nameStr(arg(o, 1)))
		return nil, true
	}},
	"BusSetBaudrate": {site: "Bus.SetBaudrate", kind: KBus, frame: true, call: func(p *Pool, e *Ent, o Op) (error, bool) {
		e.Bus.SetBaudrate(int(arg(o, 1)) * 125000)
		return nil, true
	}},
	"MsgSetByteOrder": {site: "Message.SetByteOrder", kind: KMsg, frame: false, // also sets the byte order of the signals of the message
		 call: func(p *Pool, e *Ent, o Op) (error, bool) {
		e.Msg.SetByteOrder(acme.MessageByteOrder(arg(o, 1) % 2))
		return nil, true
	}},
	"MsgSetCycleTime": {site: "Message.SetCycleTime", kind: KMsg, frame: true, call: func(p *Pool, e *Ent, o Op) (error, bool) {
		e.Msg.SetCycleTime(int(arg(o, 1)) * 10)
		return nil, true
	}},
	"MsgSetDelayTime": {site: "Message.SetDelayTime", kind: KMsg, frame: true, call: func(p *Pool, e *Ent, o Op) (error, bool) {
		e.Msg.SetDelayTime(int(arg(o, 1)))
		return nil, true
	}},
	"MsgSetStartDelayTime": {site: "Message.SetStartDelayTime", kind: KMsg, frame: true, call: func(p *Pool, e *Ent, o Op) (error, bool) {
		e.Msg.SetStartDelayTime(int(arg(o, 1)))
		return nil, true
	}},
	"MsgSetPriority": {site: "Message.SetPriority", kind: KMsg, frame: true, call: func(p *Pool, e *Ent, o Op) (error, bool) {
		e.Msg.SetPriority(acme.MessagePriority(arg(o, 1) % 4))
		return nil, true
	}},
	"MsgSetSendType": {site: "Message.SetSendType", kind: KMsg, frame: true, call: func(p *Pool, e *Ent, o Op) (error, bool) {
		e.Msg.SetSendType(acme.MessageSendType(arg(o, 1) % 5))
		return nil, true
	}},
	"SigSetSendType": {site: "Signal.SetSendType", kind: KSig, frame: true, call: func(p *Pool, e *Ent, o Op) (error, bool) {
		e.Sig.SetSendType(acme.SignalSendType(arg(o, 1) % 5))
		return nil, true
	}},
	"SigSetStartValue": {site: "Signal.SetStartValue", kind: KSig, frame: true, call: func(p *Pool, e *Ent, o Op) (error, bool) {
		e.Sig.SetStartValue(float64(arg(o, 1)))
		return nil, true
	}},
	"EnumUpdateName": {site: "SignalEnum.UpdateName", kind: KEnum, frame: true, call: func(p *Pool, e *Ent, o Op) (error, bool) {
		e.Enum.UpdateName(nameStr(arg(o, 1)))
		return nil, true
	}},
	"TypeSetMin": {site: "SignalType.SetMin", kind: KType, frame: true, call: func(p *Pool, e *Ent, o Op) (error, bool) {
		e.Type.SetMin(float64(arg(o, 1)) - 2)
		return nil, true
	}},
	"TypeSetMax": {site: "SignalType.SetMax", kind: KType, frame: true, call: func(p *Pool, e *Ent, o Op) (error, bool) {
		e.Type.SetMax(float64(arg(o, 1)) * 10)
		return nil, true
	}},
	"TypeSetName": {site: "SignalType.SetName", kind: KType, frame: true, call: func(p *Pool, e *Ent, o Op) (error, bool) {
		e.Type.SetName(nameStr(arg(o, 1)))
		return nil, true
	}},
	"TypeSetOffset": {site: "SignalType.SetOffset", kind: KType, frame: true, call: func(p *Pool, e *Ent, o Op) (error, bool) {
		e.Type.SetOffset(float64(arg(o, 1)))
		return nil, true
	}},
	"TypeSetScale": {site: "SignalType.SetScale", kind: KType, frame: true, call: func(p *Pool, e *Ent, o Op) (error, bool) {
		e.Type.SetScale(float64(arg(o, 1)) + 0.5)
		return nil, true
	}},
	"TypeUpdateSigned": {site: "SignalType.UpdateSigned", kind: KType, frame: true, call: func(p *Pool, e *Ent, o Op) (error, bool) {
		e.Type.UpdateSigned(arg(o, 1)%2 == 1)
		return nil, true
	}},
	"UnitSetKind": {site: "SignalUnit.SetKind", kind: KUnit, frame: true, call: func(p *Pool, e *Ent, o Op) (error, bool) {
		e.Unit.SetKind(acme.SignalUnitKind(arg(o, 1) % 4))
		return nil, true
	}},
	"UnitSetName": {site: "SignalUnit.SetName", kind: KUnit, frame: true, call: func(p *Pool, e *Ent, o Op) (error, bool) {
		e.Unit.SetName(nameStr(arg(o, 1)))
		return nil, true
	}},
	"UnitSetSymbol": {site: "SignalUnit.SetSymbol", kind: KUnit, frame: true, call: func(p *Pool, e *Ent, o Op) (error, bool) {
		e.Unit.SetSymbol(nameStr(arg(o, 1)))
		return nil, true
	}},
	"AttrSetFormatHex": {site: "IntegerAttribute.SetFormatHex", kind: KAttr, frame: true, call: func(p *Pool, e *Ent, o Op) (error, bool) {
		if ia, ok := e.Attr.(*acme.IntegerAttribute); ok {
			ia.SetFormatHex()
			return nil, true
		}
		return nil, false
	}},
	// ---- CAN-ID builder operations
	"BuilderUpdateName": {site: "CANIDBuilder.UpdateName", kind: KBuilder, call: func(p *Pool, e *Ent, o Op) (error, bool) {
		return e.Bld.UpdateName(nameStr(arg(o, 1))), true
	}},
	"BuilderUse": {site: "CANIDBuilder.Use", kind: KBuilder, call: func(p *Pool, e *Ent, o Op) (error, bool) {
		from, l := int(arg(o, 2)), int(arg(o, 3))
		switch arg(o, 1) % 5 {
		case 0:
			e.Bld.UseBitMask(from, l)
		case 1:
			e.Bld.UseCAN2A()
		case 2:
			e.Bld.UseMessageID(from, l)
		case 3:
			e.Bld.UseMessagePriority(from)
		default:
			e.Bld.UseNodeID(from, l)
		}
		return nil, true
	}},
	"BuilderInsertOperation": {site: "CANIDBuilder.InsertOperation", kind: KBuilder, call: func(p *Pool, e *Ent, o Op) (error, bool) {
		return e.Bld.InsertOperation(acme.CANIDBuilderOpKind(arg(o, 1)%4), int(arg(o, 2)), int(arg(o, 3)), int(arg(o, 4))), true
	}},
	"BuilderRemoveOperation": {site: "CANIDBuilder.RemoveOperation", kind: KBuilder, call: func(p *Pool, e *Ent, o Op) (error, bool) {
		return e.Bld.RemoveOperation(int(arg(o, 1))), true
	}},
	"BuilderRemoveAllOperations": {site: "CANIDBuilder.RemoveAllOperations", kind: KBuilder, call: func(p *Pool, e *Ent, o Op) (error, bool) {
		e.Bld.RemoveAllOperations()
		return nil, true
	}},
	// ---- geometry mutators of the C01/C07 stream
	"MsgShiftLeft": {site: "Message.ShiftSignalLeft", kind: KMsg, call: func(p *Pool, e *Ent, o Op) (error, bool) {
		p.shiftResult = e.Msg.ShiftSignalLeft(p.eid(arg(o, 1)), int(arg(o, 2)))
		return nil, true
	}},
	"MsgShiftRight": {site: "Message.ShiftSignalRight", kind: KMsg, call: func(p *Pool, e *Ent, o Op) (error, bool) {
		p.shiftResult = e.Msg.ShiftSignalRight(p.eid(arg(o, 1)), int(arg(o, 2)))
		return nil, true
	}},
	"MsgCompact": {site: "Message.CompactSignals", kind: KMsg, call: func(p *Pool, e *Ent, o Op) (error, bool) {
		e.Msg.CompactSignals()
		return nil, true
	}},
	"MuxShiftLeft": {site: "MultiplexerSignal.ShiftSignalLeft", kind: KSig, call: func(p *Pool, e *Ent, o Op) (error, bool) {
		if mx := p.mux(int64(e.H)); mx != nil {
			p.shiftResult = mx.ShiftSignalLeft(p.eid(arg(o, 1)), int(arg(o, 2)))
			return nil, true
		}
		return nil, false
	}},
	"MuxShiftRight": {site: "MultiplexerSignal.ShiftSignalRight", kind: KSig, call: func(p *Pool, e *Ent, o Op) (error, bool) {
		if mx := p.mux(int64(e.H)); mx != nil {
			p.shiftResult = mx.ShiftSignalRight(p.eid(arg(o, 1)), int(arg(o, 2)))
			return nil, true
		}
		return nil, false
	}},
	"EnumSetMinSize": {site: "SignalEnum.SetMinSize", kind: KEnum, call: func(p *Pool, e *Ent, o Op) (error, bool) {
		if len(e.Enum.References()) > 0 {
			return nil, false // finding D03 of the C01/C07 stream: not generated here
		}
		e.Enum.SetMinSize(int(arg(o, 1)))
		return nil, true
	}},
}

func init() {
	for k, v := range plainOps {
		goName[k] = v.site
	}
}

func isPlain(name string) bool { _, ok := plainOps[name]; return ok }

// execPlain runs a plain operation; not applicable (wrong kind of receiver) is a bad replay line
func execPlain(p *Pool, o Op, out *Outcome) (handled bool, bad error) {
	po, ok := plainOps[o.Name]
	if !ok {
		return false, nil
	}
	e := p.get(arg(o, 0))
	if e == nil || (!po.any && e.K != po.kind) {
		return true, errBadReplay
	}
	err, applicable := po.call(p, e, o)
	if !applicable {
		return true, errBadReplay
	}
	out.Err = err
	return true, nil
}

// applicablePlain: can the operation be called on that entity (generator side)
func applicablePlain(p *Pool, o Op) bool {
	po := plainOps[o.Name]
	e := p.get(arg(o, 0))
	if e == nil || (!po.any && e.K != po.kind) {
		return false
	}
	switch o.Name {
	case "SetDesc":
		_, ok := entObject(e).(descSetter)
		return ok
	case "AttrSetFormatHex":
		_, ok := e.Attr.(*acme.IntegerAttribute)
		return ok
	case "MuxShiftLeft", "MuxShiftRight":
		return p.mux(int64(e.H)) != nil
	case "EnumSetMinSize":
		return len(e.Enum.References()) == 0
	}
	return true
}

// frameBroken: the snapshot lines that changed and do not belong to the receiver
func frameBroken(before, after string, h int64) string {
	lb, la := strings.Split(before, "\n"), strings.Split(after, "\n")
	if len(lb) != len(la) {
		return fmt.Sprintf("the snapshot has %d lines instead of %d", len(la), len(lb))
	}
	own := fmt.Sprintf("#%d ", h)
	for i := range lb {
		if lb[i] != la[i] && !strings.HasPrefix(lb[i], own) {
			return "changed: " + trunc(firstDiff(lb[i], la[i]), 200) + " in " + trunc(lb[i], 60)
		}
	}
	return ""
}

func plainTemplates() []template {
	pickKind := func(g *Gen, p *Pool, k Kind) int64 { return g.r.pick(p.of(k)) }
	simple := func(name string, k Kind, w int, nv int) template {
		return template{name, w, func(g *Gen, p *Pool) (Op, bool) {
			o := Op{Name: name, A: []int64{pickKind(g, p, k), int64(g.r.below(nv))}}
			if !applicablePlain(p, o) {
				return none, false
			}
			return o, true
		}}
	}
	ts := []template{
		{"SetDesc", 2, func(g *Gen, p *Pool) (Op, bool) {
			o := Op{Name: "SetDesc", A: []int64{int64(1 + g.r.below(len(p.ents))), int64(g.r.below(3))}}
			if !applicablePlain(p, o) {
				return none, false
			}
			return o, true
		}},
		simple("NetUpdateName", KNet, 1, 6), simple("BusSetBaudrate", KBus, 1, 5),
		simple("MsgSetByteOrder", KMsg, 1, 2), simple("MsgSetCycleTime", KMsg, 1, 5), simple("MsgSetDelayTime", KMsg, 1, 5),
		simple("MsgSetStartDelayTime", KMsg, 1, 5), simple("MsgSetPriority", KMsg, 1, 4), simple("MsgSetSendType", KMsg, 1, 5),
		simple("SigSetSendType", KSig, 1, 5), simple("SigSetStartValue", KSig, 1, 5), simple("EnumUpdateName", KEnum, 1, 6),
		simple("TypeSetMin", KType, 1, 5), simple("TypeSetMax", KType, 1, 5), simple("TypeSetName", KType, 1, 6),
		simple("TypeSetOffset", KType, 1, 5), simple("TypeSetScale", KType, 1, 5), simple("TypeUpdateSigned", KType, 1, 2),
		simple("UnitSetKind", KUnit, 1, 4), simple("UnitSetName", KUnit, 1, 6), simple("UnitSetSymbol", KUnit, 1, 6),
		simple("AttrSetFormatHex", KAttr, 1, 1), simple("BuilderUpdateName", KBuilder, 1, 6),
		simple("BuilderRemoveAllOperations", KBuilder, 1, 1), simple("MsgCompact", KMsg, 2, 1),
		simple("EnumSetMinSize", KEnum, 1, 5),
		{"BuilderUse", 2, func(g *Gen, p *Pool) (Op, bool) {
			return mk("BuilderUse", pickKind(g, p, KBuilder), int64(g.r.below(5)), int64(g.r.below(24)), int64(1+g.r.below(11)))
		}},
		{"BuilderInsertOperation", 2, func(g *Gen, p *Pool) (Op, bool) {
			vals := []int64{-1, 0, 3, 11, 20, 31, 32, 40}
			return mk("BuilderInsertOperation", pickKind(g, p, KBuilder), int64(g.r.below(4)), vals[g.r.below(len(vals))], vals[g.r.below(len(vals))], int64(g.r.below(5)-1))
		}},
		{"BuilderRemoveOperation", 1, func(g *Gen, p *Pool) (Op, bool) {
			return mk("BuilderRemoveOperation", pickKind(g, p, KBuilder), int64(g.r.below(5)-1))
		}},
	}
	shift := func(name string, mux bool) template {
		return template{name, 2, func(g *Gen, p *Pool) (Op, bool) {
			amounts := []int64{-1, 0, 1, 2, 4, 8, 64}
			if mux {
				mx := g.r.pick(sigsOfKind(p, acme.SignalKindMultiplexer))
				if mx == 0 {
					return none, false
				}
				cs := muxChildren(p.mux(mx))
				x := g.anyHandle(p)
				if len(cs) > 0 && g.r.chance(80) {
					x = int64(p.byID[cs[g.r.below(len(cs))].EntityID()])
				}
				return mk(name, mx, x, amounts[g.r.below(len(amounts))])
			}
			m := g.r.pick(p.of(KMsg))
			ss := p.msg(m).Signals()
			x := g.anyHandle(p)
			if len(ss) > 0 && g.r.chance(80) {
				x = int64(p.byID[ss[g.r.below(len(ss))].EntityID()])
			}
			return mk(name, m, x, amounts[g.r.below(len(amounts))])
		}}
	}
	ts = append(ts, shift("MsgShiftLeft", false), shift("MsgShiftRight", false), shift("MuxShiftLeft", true), shift("MuxShiftRight", true))
	return ts
}
