package main

// Pool of entities under test and the handle table. A handle is the creation index, one global
// counter over all kinds the Coq model knows (it mirrors `next` of coq/C04/State.v); a
// NodeInterface has no EntityID in Go but gets a handle too.

import (
	"fmt"
	"strconv"

	acme "github.com/squadracorsepolito/acmelib"
)

type Kind int

const (
	KNet Kind = iota
	KBus
	KNode
	KIface
	KMsg
	KEnum
	KEval
	KSig
	KType
	KUnit
	KAttr
	KBuilder
)

var kindName = []string{"net", "bus", "node", "iface", "msg", "enum", "eval", "sig", "type", "unit", "attr", "builder"}

type Ent struct {
	H     int
	K     Kind
	Net   *acme.Network
	Bus   *acme.Bus
	Node  *acme.Node
	Iface *acme.NodeInterface
	Msg   *acme.Message
	Enum  *acme.SignalEnum
	Eval  *acme.SignalEnumValue
	Sig   acme.Signal
	Type  *acme.SignalType
	Unit  *acme.SignalUnit
	Attr  acme.Attribute
	Bld   *acme.CANIDBuilder
	Dead  bool // interface removed from its node
}

type Pool struct {
	ents    []*Ent // index = handle-1
	byID    map[acme.EntityID]int
	byIface map[*acme.NodeInterface]int
	kinds   map[Kind][]int
	// default CAN-ID builders obtained from Bus.CANIDBuilder() (at construction and after
	// SetCANIDBuilder(nil)) and held by the caller while the buses move to other builders
	defBuilders []*acme.CANIDBuilder
	// set by a Clone call: the model operations that replay it, and whether the clone (or one of its
	// children) is an object the pool already holds (a clone must consist of new objects)
	cloneLines  []string
	cloneShared bool
	c01         *c01map // bridge to the layout model of the C01/C07 stream
	shiftResult int     // the amount returned by the last Shift* call
}

func (p *Pool) knownObject(id acme.EntityID) bool { _, ok := p.byID[id]; return ok }

func newPool() *Pool {
	return &Pool{byID: map[acme.EntityID]int{}, byIface: map[*acme.NodeInterface]int{}, kinds: map[Kind][]int{}, c01: newC01()}
}

func (p *Pool) add(e *Ent) int {
	e.H = len(p.ents) + 1
	p.ents = append(p.ents, e)
	p.kinds[e.K] = append(p.kinds[e.K], e.H)
	return e.H
}

func (p *Pool) get(h int64) *Ent {
	if h <= 0 || int(h) > len(p.ents) {
		return nil
	}
	return p.ents[h-1]
}

func (p *Pool) of(k Kind) []int { return p.kinds[k] }

// typed accessors; 0 (nil pointer argument) and handles of another kind give nil
func (p *Pool) net(h int64) *acme.Network {
	if e := p.get(h); e != nil {
		return e.Net
	}
	return nil
}
func (p *Pool) bus(h int64) *acme.Bus {
	if e := p.get(h); e != nil {
		return e.Bus
	}
	return nil
}
func (p *Pool) node(h int64) *acme.Node {
	if e := p.get(h); e != nil {
		return e.Node
	}
	return nil
}
func (p *Pool) iface(h int64) *acme.NodeInterface {
	if e := p.get(h); e != nil {
		return e.Iface
	}
	return nil
}
func (p *Pool) msg(h int64) *acme.Message {
	if e := p.get(h); e != nil {
		return e.Msg
	}
	return nil
}
func (p *Pool) enum(h int64) *acme.SignalEnum {
	if e := p.get(h); e != nil {
		return e.Enum
	}
	return nil
}
func (p *Pool) eval(h int64) *acme.SignalEnumValue {
	if e := p.get(h); e != nil {
		return e.Eval
	}
	return nil
}

// eid turns a handle used as an entity-id argument into the EntityID the Go call receives. A
// handle of any kind is allowed (foreign ids); interfaces and unknown handles have no id and get
// a string that no entity carries.
func (p *Pool) eid(h int64) acme.EntityID {
	e := p.get(h)
	if e == nil {
		return acme.EntityID("no-such-entity-" + strconv.FormatInt(h, 10))
	}
	switch e.K {
	case KNet:
		return e.Net.EntityID()
	case KBus:
		return e.Bus.EntityID()
	case KNode:
		return e.Node.EntityID()
	case KMsg:
		return e.Msg.EntityID()
	case KEnum:
		return e.Enum.EntityID()
	case KEval:
		return e.Eval.EntityID()
	case KSig:
		return e.Sig.EntityID()
	case KType:
		return e.Type.EntityID()
	case KUnit:
		return e.Unit.EntityID()
	case KAttr:
		return e.Attr.EntityID()
	case KBuilder:
		return e.Bld.EntityID()
	}
	return acme.EntityID("iface-has-no-id-" + strconv.FormatInt(h, 10))
}

func (p *Pool) register(id acme.EntityID, h int) { p.byID[id] = h }

// hid: handle of an entity id found in a raw index ("?" when the id belongs to nothing we made)
func (p *Pool) hid(id acme.EntityID) string {
	if h, ok := p.byID[id]; ok {
		return strconv.Itoa(h)
	}
	return "?" + string(id)
}

func (p *Pool) hif(ni *acme.NodeInterface) string {
	if ni == nil {
		return "-"
	}
	if h, ok := p.byIface[ni]; ok {
		return strconv.Itoa(h)
	}
	return "?"
}

// names are drawn from a small alphabet; the model sees the number
func nameStr(k int64) string { return "n" + strconv.FormatInt(k, 10) }

func nameNum(s string) string {
	if len(s) > 1 && s[0] == 'n' {
		return s[1:]
	}
	return "?" + s
}

// ---- constructors ---------------------------------------------------------------------------

func (p *Pool) newNetwork() {
	n := acme.NewNetwork("net")
	h := p.add(&Ent{K: KNet, Net: n})
	p.register(n.EntityID(), h)
}

func (p *Pool) newBus(name int64) {
	b := acme.NewBus(nameStr(name))
	h := p.add(&Ent{K: KBus, Bus: b})
	p.register(b.EntityID(), h)
	p.holdDefault(b)
}

func (p *Pool) holdDefault(b *acme.Bus) {
	cb := b.CANIDBuilder()
	if cb == nil || !b.VerifIsDefCANIDBuilder() {
		return
	}
	for _, d := range p.defBuilders {
		if d == cb {
			return
		}
	}
	p.defBuilders = append(p.defBuilders, cb)
}

func (p *Pool) newNode(name, id, count int64) {
	n := acme.NewNode(nameStr(name), acme.NodeID(id), int(count))
	h := p.add(&Ent{K: KNode, Node: n})
	p.register(n.EntityID(), h)
	for _, ni := range n.Interfaces() {
		ih := p.add(&Ent{K: KIface, Iface: ni})
		p.byIface[ni] = ih
	}
}

func (p *Pool) newMessage(name, id, size int64) {
	m := acme.NewMessage(nameStr(name), acme.MessageID(id), int(size))
	h := p.add(&Ent{K: KMsg, Msg: m})
	p.register(m.EntityID(), h)
}

func (p *Pool) newEnum() {
	e := acme.NewSignalEnum("enum")
	h := p.add(&Ent{K: KEnum, Enum: e})
	p.register(e.EntityID(), h)
}

func (p *Pool) newEnumValue(name, idx int64) {
	v := acme.NewSignalEnumValue(nameStr(name), int(idx))
	h := p.add(&Ent{K: KEval, Eval: v})
	p.register(v.EntityID(), h)
}

func (p *Pool) describe(h int) string {
	e := p.get(int64(h))
	if e == nil {
		return fmt.Sprintf("#%d(?)", h)
	}
	return fmt.Sprintf("#%d(%s)", h, kindName[e.K])
}
