package main

// Directed scenarios injected into the random histories (every choice still derives from the
// seed). Random calls over ~60 kinds of operations rarely line up the few-step patterns that
// expose a stale index or a partial update, so each history plays some of these scripts:
//
//   busStatic   static CAN-ID life cycle at bus level: two nodes on one bus, the static id of one
//               message is refused for the other, released by UpdateID / removal, then reusable
//   ghost       operate on a removed entity after its key was taken by a new child: remove, let
//               another entity take the released name / id / index, then rename / re-id the
//               removed one (value-enum, message-interface, node-bus, bus-network, signal-message)
//   sizes       size changes of placed signals: a hole in front of the growing signal, followers
//               behind it, a multiplexed signal held by two groups with room in one group only;
//               SetType / SetEnum / enum AddValue / UpdateIndex until they are refused
//
// The operations go through the normal runner: expectations, no-op snapshots, predicates and the
// model comparison apply to each of them.

import (
	acme "github.com/squadracorsepolito/acmelib"
	"verif/vinv"
)

func op(name string, a ...int64) Op { return Op{Name: name, A: a} }

func otherName(k int64) int64 { return (k + 1 + 2) % nNames }

func nameOf(s string) int64 { return nameKey(s) }

func (g *Gen) scenario(p *Pool) []Op {
	switch g.r.below(30) {
	case 0, 1:
		return g.scBusStatic(p)
	case 2, 3:
		return g.scGhost(p)
	case 4, 5:
		return g.scMultiBus(p)
	case 6, 7, 8:
		return g.scSizes(p)
	case 9, 10, 11:
		return g.scReuse(p)
	case 12, 13:
		return g.scCrossKey(p)
	case 14:
		return g.scRecvBulk(p)
	case 15, 16:
		return g.scNestedRemove(p)
	case 17, 18:
		return g.scGroupClear(p)
	case 19:
		return g.scBuilder(p)
	case 20, 21:
		return g.scOversize(p)
	case 22, 23:
		return g.scClone(p)
	case 24, 25:
		return g.scBulkSent(p)
	case 26, 27:
		return g.scResize(p)
	default:
		return g.scEnumMin(p)
	}
}

// multiBus: a node with interfaces on two buses; a new name / id that is free on the bus of the
// lower-numbered interface and taken on the bus of the higher-numbered one must be refused and
// must leave the first bus untouched
func (g *Gen) scMultiBus(p *Pool) []Op {
	if len(p.of(KBus)) < 2 {
		return nil
	}
	var n int64
	for _, h := range p.of(KNode) {
		if len(p.node(int64(h)).Interfaces()) >= 2 {
			n = int64(h)
		}
	}
	var ops []Op
	detach := func(ni *acme.NodeInterface) {
		if b := ni.ParentBus(); b != nil {
			ops = append(ops, op("BusRemoveNodeInterface", int64(p.byID[b.EntityID()]), int64(p.byID[ni.Node().EntityID()])))
		}
	}
	if n == 0 {
		return nil
	}
	ints := p.node(n).Interfaces()
	ia, ib := handleOfIface(p, ints[0]), handleOfIface(p, ints[1])
	var n3 int64
	for _, h := range p.of(KNode) {
		if int64(h) != n && len(p.node(int64(h)).Interfaces()) >= 1 {
			n3 = int64(h)
		}
	}
	if n3 == 0 {
		return nil
	}
	i3 := handleOfIface(p, p.node(n3).Interfaces()[0])
	bs := p.of(KBus)
	b1 := int64(bs[g.r.below(len(bs))])
	b2 := b1
	for b2 == b1 {
		b2 = int64(bs[g.r.below(len(bs))])
	}
	for _, ni := range ints {
		detach(ni)
	}
	for _, ni := range p.node(n3).Interfaces() {
		detach(ni)
	}
	x := int64(1 + g.r.below(3))
	ops = append(ops,
		op("BusRemoveAllNodeInterfaces", b1), op("BusRemoveAllNodeInterfaces", b2),
		op("NodeUpdateName", n, 0), op("NodeUpdateID", n, 0), op("NodeUpdateName", n3, x), op("NodeUpdateID", n3, x),
		op("BusAddNodeInterface", b1, ia), op("BusAddNodeInterface", b2, ib), op("BusAddNodeInterface", b2, i3),
		op("NodeUpdateID", n, x),   // taken on the second bus only
		op("NodeUpdateName", n, x), // taken on the second bus only
		op("NodeUpdateID", n3, 0), op("NodeUpdateName", n3, 0), // taken by n on the same bus
		op("NodeUpdateID", n, (x%3)+1), op("NodeUpdateName", n, (x%3)+1),
		op("NodeUpdateID", n3, 0), op("NodeUpdateName", n3, 0), // released: accepted now
	)
	return ops
}

func handleOfIface(p *Pool, ni *acme.NodeInterface) int64 { return int64(p.byIface[ni]) }

// two live interfaces of different nodes that are on bus b or on no bus
func (g *Gen) twoIfaces(p *Pool, b *acme.Bus) (int64, int64) {
	var cands []int
	for _, h := range liveIfaces(p) {
		ni := p.iface(int64(h))
		if ni.ParentBus() == nil || ni.ParentBus() == b {
			cands = append(cands, h)
		}
	}
	for tries := 0; tries < 20 && len(cands) >= 2; tries++ {
		i1, i2 := g.r.pick(cands), g.r.pick(cands)
		if p.iface(i1).Node() != p.iface(i2).Node() {
			return i1, i2
		}
	}
	return 0, 0
}

// a message that has no sender or is sent by interface i
func (g *Gen) freeMsg(p *Pool, i int64, not int64) int64 {
	var cands []int
	for _, h := range p.of(KMsg) {
		m := p.msg(int64(h))
		if int64(h) != not && (m.SenderNodeInterface() == nil || m.SenderNodeInterface() == p.iface(i)) && m.SizeByte() <= 8 {
			cands = append(cands, h)
		}
	}
	return g.r.pick(cands)
}

func (g *Gen) scBusStatic(p *Pool) []Op {
	b := g.r.pick(p.of(KBus))
	i1, i2 := g.twoIfaces(p, p.bus(b))
	if i1 == 0 {
		return nil
	}
	m1 := g.freeMsg(p, i1, 0)
	m2 := g.freeMsg(p, i2, m1)
	if m1 == 0 || m2 == 0 || m1 == m2 {
		return nil
	}
	n1 := int64(p.byID[p.iface(i1).Node().EntityID()])
	n2 := int64(p.byID[p.iface(i2).Node().EntityID()])
	c := int64(g.r.below(5))
	ops := []Op{
		op("BusRemoveAllNodeInterfaces", b),
		op("NodeUpdateName", n1, 0), op("NodeUpdateName", n2, 1), op("NodeUpdateID", n1, 0), op("NodeUpdateID", n2, 1),
		op("BusAddNodeInterface", b, i1), op("BusAddNodeInterface", b, i2),
		op("MsgUpdateName", m1, 0), op("MsgUpdateName", m2, 1), op("MsgUpdateID", m1, 0), op("MsgUpdateID", m2, 1),
		op("IfAddSent", i1, m1), op("IfAddSent", i2, m2),
		op("MsgSetStatic", m1, c),
		op("MsgSetStatic", m2, c), // in use on the bus
	}
	switch g.r.below(4) {
	case 0: // released by an id change
		ops = append(ops, op("MsgUpdateID", m1, 3), op("MsgSetStatic", m2, c), op("MsgSetStatic", m1, c))
	case 1: // released by removing the message from its interface
		ops = append(ops, op("IfRemoveSent", i1, m1), op("MsgSetStatic", m2, c), op("IfAddSent", i1, m1))
	case 2: // released by detaching the node; attaching it again is refused once the id is taken
		ops = append(ops, op("BusRemoveNodeInterface", b, n1), op("MsgSetStatic", m2, c), op("BusAddNodeInterface", b, i1))
	default: // replaced by another static id
		ops = append(ops, op("MsgSetStatic", m1, (c+1)%5), op("MsgSetStatic", m2, c), op("MsgSetStatic", m1, c),
			op("IfRemoveAllSent", i2), op("MsgSetStatic", m1, c))
	}
	ops = append(ops, op("MsgUpdateID", m2, 4), op("MsgUpdateID", m1, 4))
	return ops
}

func (g *Gen) scGhost(p *Pool) []Op {
	switch g.r.below(5) {
	case 0: // enum value
		e := g.r.pick(p.of(KEnum))
		var v, w int64
		for _, h := range p.of(KEval) {
			ev := p.eval(int64(h))
			if ev.ParentEnum() == p.enum(e) && v == 0 {
				v = int64(h)
			} else if ev.ParentEnum() == nil && w == 0 {
				w = int64(h)
			}
		}
		var ops []Op
		if w == 0 {
			return nil
		}
		if v == 0 {
			for _, h := range p.of(KEval) {
				if p.eval(int64(h)).ParentEnum() == nil && int64(h) != w {
					v = int64(h)
				}
			}
			if v == 0 {
				return nil
			}
			ops = append(ops, op("EnumAddValue", e, v))
		}
		nm, ix := nameOf(p.eval(v).Name()), int64(p.eval(v).Index())
		return append(ops,
			op("EnumRemoveValue", e, v),
			op("EvalUpdateName", w, nm), op("EvalUpdateIndex", w, ix), op("EnumAddValue", e, w),
			op("EvalUpdateName", v, otherName(nm)), op("EvalUpdateIndex", v, ix+1),
			op("EvalUpdateName", v, nm), op("EvalUpdateIndex", v, ix), // the removed one takes the key back: no effect on e
			op("EnumRemoveValue", e, w), op("EnumAddValue", e, v))
	case 1: // message of an interface
		i := g.r.pick(liveIfaces(p))
		m := g.freeMsg(p, i, 0)
		m2 := g.freeMsg(p, i, m)
		if m == 0 || m2 == 0 || m == m2 || p.msg(m2).SenderNodeInterface() != nil {
			return nil
		}
		nm, id := nameOf(p.msg(m).Name()), int64(p.msg(m).ID())
		ops := []Op{op("IfAddSent", i, m), op("IfRemoveSent", i, m),
			op("MsgUpdateName", m2, nm), op("MsgUpdateID", m2, id), op("IfAddSent", i, m2),
			op("MsgUpdateName", m, otherName(nm)), op("MsgUpdateID", m, (id+1)%5), op("MsgSetStatic", m, id),
			op("MsgUpdateName", m, nm), op("MsgUpdateID", m, id),
			op("MsgUpdateName", m2, otherName(nm)), op("IfAddSent", i, m)}
		return ops
	case 2: // node of a bus
		b := g.r.pick(p.of(KBus))
		i1, i2 := g.twoIfaces(p, p.bus(b))
		if i1 == 0 || p.iface(i2).ParentBus() != nil {
			return nil
		}
		n1 := int64(p.byID[p.iface(i1).Node().EntityID()])
		n2 := int64(p.byID[p.iface(i2).Node().EntityID()])
		nm, id := nameOf(p.iface(i1).Node().Name()), int64(p.iface(i1).Node().ID())
		return []Op{op("BusAddNodeInterface", b, i1), op("BusRemoveNodeInterface", b, n1),
			op("NodeUpdateName", n2, nm), op("NodeUpdateID", n2, id), op("BusAddNodeInterface", b, i2),
			op("NodeUpdateName", n1, otherName(nm)), op("NodeUpdateID", n1, (id+1)%4),
			op("NodeUpdateName", n1, nm), op("NodeUpdateID", n1, id),
			op("BusAddNodeInterface", b, i1), op("BusRemoveNodeInterface", b, n2), op("BusAddNodeInterface", b, i1)}
	case 3: // bus of a network
		n := g.r.pick(p.of(KNet))
		var b1, b2 int64
		for _, h := range p.of(KBus) {
			bb := p.bus(int64(h))
			if (bb.ParentNetwork() == p.net(n) || bb.ParentNetwork() == nil) && b1 == 0 {
				b1 = int64(h)
			} else if bb.ParentNetwork() == nil && b2 == 0 {
				b2 = int64(h)
			}
		}
		if b1 == 0 || b2 == 0 {
			return nil
		}
		nm := nameOf(p.bus(b1).Name())
		return []Op{op("NetAddBus", n, b1), op("NetRemoveBus", n, b1), op("BusUpdateName", b2, nm), op("NetAddBus", n, b2),
			op("BusUpdateName", b1, otherName(nm)), op("BusUpdateName", b1, nm), op("NetAddBus", n, b1),
			op("NetRemoveBus", n, b2), op("NetAddBus", n, b1)}
	default: // signal of a message
		m := g.r.pick(p.of(KMsg))
		var s1, s2 int64
		for _, h := range p.of(KSig) {
			sg := p.sig(int64(h))
			if sg.ParentMultiplexerSignal() == nil && sg.ParentMessage() == nil && sg.GetSize() <= 8 {
				if s1 == 0 {
					s1 = int64(h)
				} else if s2 == 0 {
					s2 = int64(h)
				}
			}
		}
		if s1 == 0 || s2 == 0 {
			return nil
		}
		nm := nameOf(p.sig(s1).Name())
		return []Op{op("MsgAppendSignal", m, s1), op("MsgRemoveSignal", m, s1), op("SigUpdateName", s2, nm), op("MsgAppendSignal", m, s2),
			op("SigUpdateName", s1, otherName(nm)), op("SigUpdateName", s1, nm), op("MsgAppendSignal", m, s1),
			op("MsgRemoveSignal", m, s2), op("MsgAppendSignal", m, s1)}
	}
}

// a type of the pool with the given size
func typeOfSize(p *Pool, size int) int64 {
	for _, h := range p.of(KType) {
		if p.typ(int64(h)).Size() == size {
			return int64(h)
		}
	}
	return 0
}

// detached standard signals (no message, no multiplexer)
func detachedStd(p *Pool) []int64 {
	var out []int64
	for _, h := range sigsOfKind(p, acme.SignalKindStandard) {
		sg := p.sig(int64(h))
		if sg.ParentMessage() == nil && sg.ParentMultiplexerSignal() == nil {
			out = append(out, int64(h))
		}
	}
	return out
}

func (g *Gen) scSizes(p *Pool) []Op {
	free := detachedStd(p)
	t4, t8, t12, t16, t33 := typeOfSize(p, 4), typeOfSize(p, 8), typeOfSize(p, 12), typeOfSize(p, 16), typeOfSize(p, 33)
	if len(free) < 3 || t4 == 0 || t8 == 0 || t12 == 0 || t16 == 0 {
		return nil
	}
	x, f0, f1 := free[0], free[1], free[2]
	if g.r.chance(50) {
		// message level: a hole in front of x, a follower behind it, little room after it
		var m int64
		for _, h := range p.of(KMsg) {
			if p.msg(int64(h)).SizeByte() == 2 || p.msg(int64(h)).SizeByte() == 4 {
				m = int64(h)
			}
		}
		if m == 0 {
			return nil
		}
		bits := int64(p.msg(m).SizeByte() * 8)
		ops := []Op{op("MsgRemoveAllSignals", m),
			op("SigUpdateName", x, 0), op("SigUpdateName", f0, 1), op("SigUpdateName", f1, 2),
			op("StdSetType", x, t4), op("StdSetType", f0, t4), op("StdSetType", f1, t4),
			op("MsgInsertSignal", m, x, 4),       // hole 0..3 in front of x
			op("MsgInsertSignal", m, f0, 8),      // follower right behind x
			op("MsgInsertSignal", m, f1, bits-4), // last bits taken
		}
		// free bits behind x: bits-16; grow x step by step until it cannot
		ops = append(ops, op("StdSetType", x, t8), op("StdSetType", x, t12), op("StdSetType", x, t16))
		if t33 != 0 {
			ops = append(ops, op("StdSetType", x, t33))
		}
		ops = append(ops, op("StdSetType", f0, t8), op("StdSetType", f0, t16), op("StdSetType", x, t4), op("StdSetType", f1, t8))
		return ops
	}
	// multiplexer level: x in groups 0 and 1; group 0 has room behind the follower, group 1 has none
	var mx int64
	for _, h := range sigsOfKind(p, acme.SignalKindMultiplexer) {
		m := p.mux(int64(h))
		if m.GroupCount() >= 2 && m.GroupSize() == 16 {
			mx = int64(h)
		}
	}
	if mx == 0 {
		return nil
	}
	if g.r.chance(35) {
		// fixed signals: x and its follower are held by every group (the follower's position is
		// shared by the groups: open finding D35 of the C01/C07 stream when x changes its size)
		return []Op{op("MuxClearAll", mx),
			op("SigUpdateName", x, 0), op("SigUpdateName", f0, 1),
			op("StdSetType", x, t8), op("StdSetType", f0, t4),
			op("MuxInsertSignal", mx, x, 0), op("MuxInsertSignal", mx, f0, 8),
			op("StdSetType", x, t4), op("StdSetType", x, t12), op("StdSetType", x, t8)}
	}
	ops := []Op{op("MuxClearAll", mx),
		op("SigUpdateName", x, 0), op("SigUpdateName", f0, 1), op("SigUpdateName", f1, 2),
		op("StdSetType", x, t8), op("StdSetType", f0, t4), op("StdSetType", f1, t8),
		op("MuxInsertSignal", mx, x, 0, 0, 1),
		op("MuxInsertSignal", mx, f0, 8, 0), // group 0: x@0..7, f0@8..11, 4 bits free
		op("MuxInsertSignal", mx, f1, 8, 1), // group 1: x@0..7, f1@8..15, full
		op("StdSetType", x, t12),            // fits group 0 only: must be refused, nothing moves
		op("StdSetType", x, t16),
		op("StdSetType", f0, t8), // fits (fills group 0)
		op("StdSetType", f0, t12),
		op("StdSetType", x, t4), // shrinks in both groups
		op("StdSetType", x, t8),
	}
	return ops
}

// badArgs: a scripted operation whose receiver no longer is what the script assumed
func badArgs(p *Pool, o Op) bool {
	if len(o.A) == 0 || (len(o.Name) > 3 && o.Name[:3] == "New") { // constructors take names and numbers, not handles
		return false
	}
	e := p.get(o.A[0])
	if e == nil {
		return true
	}
	kindOf := func(i int) Kind {
		if i < len(o.A) {
			if x := p.get(o.A[i]); x != nil {
				return x.K
			}
		}
		return Kind(-1)
	}
	switch o.Name {
	case "EvalUpdateIndex", "EvalUpdateName":
		return e.K != KEval
	case "EnumAddValue":
		return e.K != KEnum || (len(o.A) > 1 && o.A[1] != 0 && kindOf(1) != KEval)
	case "EnumRemoveValue", "EnumRemoveAllValues", "EnumSetMinSize", "CloneEnum":
		return e.K != KEnum
	case "NewEnumSignal":
		return false
	case "MsgInsertSignal", "MsgAppendSignal":
		return e.K != KMsg || (len(o.A) > 1 && o.A[1] != 0 && kindOf(1) != KSig)
	}
	switch {
	case len(o.Name) > 3 && o.Name[:3] == "Std":
		return e.K != KSig || e.Sig.Kind() != acme.SignalKindStandard
	case len(o.Name) > 3 && o.Name[:3] == "Mux":
		return e.K != KSig || e.Sig.Kind() != acme.SignalKindMultiplexer
	}
	return false
}

// sharedFollower: the value-based classifier of the open finding D35 of the C01/C07 stream
// (vinv.SharedFollowerMoved), evaluated on the live objects before the call: the call changes the
// size of a signal that sits in a multiplexer and the change moves a follower held by >= 2 groups
// (fixed = all groups). For enum edits every enum signal referencing the enum is asked with
// amount = new enum size - old enum size.
func sharedFollower(p *Pool, o Op) bool {
	bitlen := func(v int) int {
		n := 0
		for v > 0 {
			n++
			v >>= 1
		}
		if n == 0 {
			n = 1
		}
		return n
	}
	enumSize := func(e *acme.SignalEnum, maxIdx int) int {
		sz := bitlen(maxIdx)
		if e.MinSize() > sz {
			sz = e.MinSize()
		}
		return sz
	}
	enumEdit := func(e *acme.SignalEnum, newMax int) bool {
		amount := enumSize(e, newMax) - e.GetSize()
		for _, r := range e.References() {
			if vinv.SharedFollowerMoved(r, amount) {
				return true
			}
		}
		return false
	}
	maxOf := func(e *acme.SignalEnum, skip *acme.SignalEnumValue, extra int) int {
		m := extra
		for _, v := range e.Values() {
			if v != skip && v.Index() > m {
				m = v.Index()
			}
		}
		if m < 0 {
			m = 0
		}
		return m
	}
	switch o.Name {
	case "StdSetType":
		if s, t := p.sig(o.A[0]), p.typ(o.A[1]); s != nil && t != nil {
			return vinv.SharedFollowerMoved(s, t.Size()-s.GetSize())
		}
	case "EnumSetEnum":
		if s, e := p.sig(o.A[0]), p.enum(o.A[1]); s != nil && e != nil {
			return vinv.SharedFollowerMoved(s, e.GetSize()-s.GetSize())
		}
	case "EnumAddValue":
		if e, v := p.enum(o.A[0]), p.eval(o.A[1]); e != nil && v != nil {
			return enumEdit(e, maxOf(e, nil, v.Index()))
		}
	case "EnumRemoveValue":
		if e := p.enum(o.A[0]); e != nil {
			if ent := p.get(o.A[1]); ent != nil && ent.Eval != nil {
				return enumEdit(e, maxOf(e, ent.Eval, 0))
			}
		}
	case "EnumRemoveAllValues":
		if e := p.enum(o.A[0]); e != nil {
			return enumEdit(e, 0)
		}
	case "EvalUpdateIndex":
		if v := p.eval(o.A[0]); v != nil && v.ParentEnum() != nil {
			return enumEdit(v.ParentEnum(), maxOf(v.ParentEnum(), v, int(o.A[1])))
		}
	}
	return false
}
