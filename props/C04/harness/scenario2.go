package main

// More directed scripts (round 2 of the seeded self-test showed the gaps):
//
//   buildL1       the containment structure of layer 1 early in the history: buses in networks,
//                 interfaces on buses, messages sent and received (two receivers of different
//                 nodes), values in enums — so that renames, id changes and removals mostly hit
//                 attached entities
//   reuse         inside a container: a child releases its key by rename / id change, a sibling
//                 takes the released key, the first child asks for it again (refused), the sibling
//                 leaves (removal), the key is taken again, the sibling is refused on re-entry;
//                 for bus names in a network, node names / ids on a bus, message names / ids of an
//                 interface, value names / indexes of an enum, signal names below a multiplexer
//                 that sits in a message
//   crossKey      generated message id X and static CAN-ID X on one interface (separate key spaces);
//                 the static one leaves; X must still be taken for generated ids
//   recvBulk      a message with two receivers (different nodes); one of them drops all its
//                 received messages
//   nestedRemove  a multiplexer holding a NON-EMPTY multiplexer, attached to a message, removed /
//                 cleared through the outer containers; the released names are reused
//   groupClear    a signal inserted into two groups by two calls, removed group by group / at once;
//                 a fixed signal inserted twice, removed, inserted again with group ids
//   builder       a bus leaves and re-enters default and custom CAN-ID builders while the default
//                 ones are held by the caller

import (
	acme "github.com/squadracorsepolito/acmelib"
)

func (g *Gen) buildL1(p *Pool) []Op {
	var ops []Op
	nets, buses, ifs, msgs := p.of(KNet), p.of(KBus), liveIfaces(p), p.of(KMsg)
	if len(nets) == 0 || len(buses) == 0 || len(ifs) == 0 {
		return nil
	}
	for _, b := range buses {
		if g.r.chance(75) {
			ops = append(ops, op("NetAddBus", g.r.pick(nets), int64(b)))
		}
	}
	for _, i := range ifs {
		if g.r.chance(70) {
			ops = append(ops, op("BusAddNodeInterface", g.r.pick(buses), int64(i)))
		}
	}
	for _, m := range msgs {
		if g.r.chance(70) {
			ops = append(ops, op("IfAddSent", g.r.pick(ifs), int64(m)))
		}
		for k := 0; k < 2; k++ {
			if g.r.chance(50) {
				if g.r.chance(50) {
					ops = append(ops, op("MsgAddReceiver", int64(m), g.r.pick(ifs)))
				} else {
					ops = append(ops, op("IfAddReceived", g.r.pick(ifs), int64(m)))
				}
			}
		}
	}
	for _, v := range p.of(KEval) {
		if g.r.chance(65) {
			ops = append(ops, op("EnumAddValue", g.r.pick(p.of(KEnum)), int64(v)))
		}
	}
	return ops
}

func (g *Gen) scReuse(p *Pool) []Op {
	switch g.r.below(5) {
	case 0: // bus names in a network
		n := g.r.pick(p.of(KNet))
		var bs []int64
		for _, h := range p.of(KBus) {
			if pn := p.bus(int64(h)).ParentNetwork(); pn == nil || pn == p.net(n) {
				bs = append(bs, int64(h))
			}
		}
		if len(bs) < 2 {
			return nil
		}
		b1, b2 := bs[0], bs[1]
		k := int64(g.r.below(3))
		a, b, c, d := k, (k+1)%nNames, (k+2)%nNames, (k+3)%nNames
		return []Op{op("NetRemoveAllBuses", n),
			op("BusUpdateName", b1, a), op("BusUpdateName", b2, b), op("NetAddBus", n, b1), op("NetAddBus", n, b2),
			op("BusUpdateName", b1, c), // releases a
			op("BusUpdateName", b2, a), // a sibling takes it
			op("BusUpdateName", b1, a), // refused
			op("BusUpdateName", b2, d), // released again
			op("BusUpdateName", b1, a), // accepted
			op("NetRemoveBus", n, b2),  // d released by removal
			op("BusUpdateName", b1, d), op("NetAddBus", n, b2), // refused: d is taken
			op("BusUpdateName", b1, b), op("NetAddBus", n, b2)}
	case 1: // node names and ids on a bus
		b := g.r.pick(p.of(KBus))
		i1, i2 := g.twoIfaces(p, p.bus(b))
		if i1 == 0 {
			return nil
		}
		n1 := int64(p.byID[p.iface(i1).Node().EntityID()])
		n2 := int64(p.byID[p.iface(i2).Node().EntityID()])
		k := int64(g.r.below(2))
		a, c := k, k+2
		return []Op{op("BusRemoveAllNodeInterfaces", b),
			op("NodeUpdateName", n1, a), op("NodeUpdateName", n2, a+1), op("NodeUpdateID", n1, a), op("NodeUpdateID", n2, a+1),
			op("BusAddNodeInterface", b, i1), op("BusAddNodeInterface", b, i2),
			op("NodeUpdateName", n1, c), op("NodeUpdateName", n2, a), op("NodeUpdateName", n1, a),
			op("NodeUpdateID", n1, c), op("NodeUpdateID", n2, a), op("NodeUpdateID", n1, a),
			op("BusRemoveNodeInterface", b, n2),
			op("NodeUpdateName", n1, a), op("NodeUpdateID", n1, a),
			op("BusAddNodeInterface", b, i2), // refused: name and id taken
			op("NodeUpdateName", n2, a+1), op("NodeUpdateID", n2, a+1), op("BusAddNodeInterface", b, i2)}
	case 2: // message names and ids of an interface
		i := g.r.pick(liveIfaces(p))
		m1 := g.freeMsg(p, i, 0)
		m2 := g.freeMsg(p, i, m1)
		if m1 == 0 || m2 == 0 || m1 == m2 {
			return nil
		}
		k := int64(g.r.below(2))
		a, c := k, k+2
		return []Op{op("IfRemoveAllSent", i),
			op("MsgUpdateName", m1, a), op("MsgUpdateName", m2, a+1), op("MsgUpdateID", m1, a), op("MsgUpdateID", m2, a+1),
			op("IfAddSent", i, m1), op("IfAddSent", i, m2),
			op("MsgUpdateName", m1, c), op("MsgUpdateName", m2, a), op("MsgUpdateName", m1, a),
			op("MsgUpdateID", m1, c), op("MsgUpdateID", m2, a), op("MsgUpdateID", m1, a),
			op("IfRemoveSent", i, m2),
			op("MsgUpdateName", m1, a), op("MsgUpdateID", m1, a),
			op("IfAddSent", i, m2), // refused
			op("MsgUpdateName", m2, a+1), op("MsgUpdateID", m2, a+1), op("IfAddSent", i, m2)}
	case 3: // value names and indexes of an enum
		e := g.r.pick(p.of(KEnum))
		var vs []int64
		for _, h := range p.of(KEval) {
			if pe := p.eval(int64(h)).ParentEnum(); pe == nil || pe == p.enum(e) {
				vs = append(vs, int64(h))
			}
		}
		if len(vs) < 2 {
			return nil
		}
		v1, v2 := vs[0], vs[1]
		k := int64(g.r.below(2))
		a, c := k, k+2
		return []Op{op("EnumRemoveAllValues", e),
			op("EvalUpdateName", v1, a), op("EvalUpdateName", v2, a+1), op("EvalUpdateIndex", v1, a), op("EvalUpdateIndex", v2, a+1),
			op("EnumAddValue", e, v1), op("EnumAddValue", e, v2),
			op("EvalUpdateName", v1, c), op("EvalUpdateName", v2, a), op("EvalUpdateName", v1, a),
			op("EvalUpdateIndex", v1, c), op("EvalUpdateIndex", v2, a), op("EvalUpdateIndex", v1, a),
			op("EnumRemoveValue", e, v1), // the value with the highest index leaves
			op("EvalUpdateName", v2, c), op("EvalUpdateIndex", v2, c),
			op("EnumAddValue", e, v1), // refused: name and index taken
			op("EvalUpdateName", v1, a+1), op("EvalUpdateIndex", v1, a+1), op("EnumAddValue", e, v1)}
	default: // signal names below a multiplexer that sits in a message
		st := g.nestedSetup(p)
		if st == nil {
			return nil
		}
		ops := st.ops
		ops = append(ops,
			op("SigUpdateName", st.s, 5),             // releases its name (2) at depth 2
			op("SigUpdateName", st.s2, 2),            // a signal at depth 1 takes it
			op("SigUpdateName", st.s, 2),             // refused
			op("SigUpdateName", st.v, 3),             // name of s2's old self
			op("SigUpdateName", st.s2, 4),            // released again
			op("SigUpdateName", st.s, 2),             // accepted
			op("MuxRemoveSignal", st.v, st.s),        // 2 released by removal at depth 2
			op("SigUpdateName", st.s2, 2),            // accepted
			op("MuxInsertSignal", st.v, st.s, 0, 0),  // refused: the name is used in the message
			op("SigUpdateName", st.s, 5), op("MuxInsertSignal", st.v, st.s, 0, 0))
		return ops
	}
}

// crossKey: generated id X of one message and static CAN-ID X of another on the same interface
func (g *Gen) scCrossKey(p *Pool) []Op {
	i := g.r.pick(liveIfaces(p))
	m1 := g.freeMsg(p, i, 0)
	m2 := g.freeMsg(p, i, m1)
	var m3 int64
	for _, h := range p.of(KMsg) {
		m := p.msg(int64(h))
		if int64(h) != m1 && int64(h) != m2 && m.SizeByte() <= 8 && (m.SenderNodeInterface() == nil || m.SenderNodeInterface() == p.iface(i)) {
			m3 = int64(h)
		}
	}
	if m1 == 0 || m2 == 0 || m3 == 0 || m1 == m2 {
		return nil
	}
	x := int64(g.r.below(5))
	y, z := (x+1)%5, (x+2)%5
	ops := []Op{op("IfRemoveAllSent", i),
		op("MsgUpdateName", m1, 0), op("MsgUpdateName", m2, 1), op("MsgUpdateName", m3, 2),
		op("MsgUpdateID", m1, x), op("MsgUpdateID", m2, y),
		op("IfAddSent", i, m1), op("IfAddSent", i, m2),
		op("MsgSetStatic", m2, x), // legal: static CAN-IDs and generated ids are separate key spaces
		op("MsgUpdateID", m2, x),  // the value m2.ID() already shows, but as a GENERATED id it is taken by m1: refused
	}
	switch g.r.below(3) {
	case 0:
		ops = append(ops, op("IfRemoveSent", i, m2))
	case 1:
		ops = append(ops, op("MsgUpdateID", m2, z)) // back to a generated id: the static one is released
	default:
		ops = append(ops, op("IfRemoveSent", i, m2), op("IfAddSent", i, m2), op("IfRemoveSent", i, m2))
	}
	ops = append(ops,
		op("MsgUpdateID", m3, x), op("IfAddSent", i, m3), // refused: m1 has the generated id x
		op("MsgUpdateID", m3, y), op("IfAddSent", i, m3), // y was released by the static id
		op("MsgUpdateID", m3, x),                          // refused
		op("MsgSetStatic", m3, x),                         // static x is free again
		op("IfRemoveSent", i, m1), op("MsgUpdateID", m3, x))
	return ops
}

// recvBulk: two receivers of different nodes, one of them drops everything it receives
func (g *Gen) scRecvBulk(p *Pool) []Op {
	ifs := liveIfaces(p)
	var i1, i2 int64
	for tries := 0; tries < 20 && len(ifs) >= 2; tries++ {
		a, b := g.r.pick(ifs), g.r.pick(ifs)
		if p.iface(a).Node() != p.iface(b).Node() {
			i1, i2 = a, b
			break
		}
	}
	ms := p.of(KMsg)
	if i1 == 0 || len(ms) < 2 {
		return nil
	}
	m1 := g.r.pick(ms)
	m2 := m1
	for m2 == m1 {
		m2 = g.r.pick(ms)
	}
	ops := []Op{op("MsgAddReceiver", m1, i1), op("IfAddReceived", i2, m1), op("IfAddReceived", i1, m2), op("MsgAddReceiver", m2, i2)}
	if g.r.chance(50) {
		ops = append(ops, op("IfRemoveAllReceived", i1), op("MsgAddReceiver", m1, i1), op("IfRemoveAllReceived", i2))
	} else {
		ops = append(ops, op("IfRemoveAllReceived", i2), op("IfAddReceived", i2, m2), op("IfRemoveAllReceived", i1))
	}
	return ops
}

type nested struct {
	ops         []Op
	m           int64 // message
	u, v        int64 // outer multiplexer (group size 32), inner multiplexer (group size 16) in group 0 of u
	s, s2, s3   int64 // s in group 0 of v; s2 fixed in u; s3 detached
	vCount      int
	uCount      int
}

// nestedSetup: message m <- u <- { v <- { s }, s2 }, names 0..3 (s3 gets 4); everything the
// script needs is detached / emptied first
func (g *Gen) nestedSetup(p *Pool) *nested {
	var u, v int64
	for _, h := range sigsOfKind(p, acme.SignalKindMultiplexer) {
		switch p.mux(int64(h)).GroupSize() {
		case 32:
			u = int64(h)
		case 16:
			v = int64(h)
		}
	}
	var m int64
	for _, h := range p.of(KMsg) {
		if p.msg(int64(h)).SizeByte() == 8 {
			m = int64(h)
		}
	}
	t4 := typeOfSize(p, 4)
	var leaves []int64
	for _, h := range sigsOfKind(p, acme.SignalKindStandard) {
		leaves = append(leaves, int64(h))
	}
	if u == 0 || v == 0 || m == 0 || t4 == 0 || len(leaves) < 3 {
		return nil
	}
	st := &nested{m: m, u: u, v: v, s: leaves[0], s2: leaves[1], s3: leaves[2], vCount: p.mux(v).GroupCount(), uCount: p.mux(u).GroupCount()}
	detach := func(x int64) {
		sg := p.sig(x)
		if pm := sg.ParentMultiplexerSignal(); pm != nil {
			st.ops = append(st.ops, op("MuxRemoveSignal", int64(p.byID[pm.EntityID()]), x))
		} else if msg := sg.ParentMessage(); msg != nil {
			st.ops = append(st.ops, op("MsgRemoveSignal", int64(p.byID[msg.EntityID()]), x))
		}
	}
	for _, x := range []int64{u, v, st.s, st.s2, st.s3} {
		detach(x)
	}
	st.ops = append(st.ops, op("MsgRemoveAllSignals", m), op("MuxClearAll", v), op("MuxClearAll", u),
		op("StdSetType", st.s, t4), op("StdSetType", st.s2, t4), op("StdSetType", st.s3, t4),
		op("SigUpdateName", u, 0), op("SigUpdateName", v, 1), op("SigUpdateName", st.s, 2), op("SigUpdateName", st.s2, 3), op("SigUpdateName", st.s3, 4),
		op("SigUpdateName", u, 0), op("SigUpdateName", v, 1), op("SigUpdateName", st.s, 2), op("SigUpdateName", st.s2, 3), // second pass: names freed by the first
		op("MuxInsertSignal", v, st.s, 0, 0),
		op("MuxInsertSignal", u, v, 0, 0),
		op("MuxInsertSignal", u, st.s2, 24),
		op("MsgAppendSignal", m, u))
	return st
}

func (g *Gen) scNestedRemove(p *Pool) []Op {
	st := g.nestedSetup(p)
	if st == nil {
		return nil
	}
	ops := st.ops
	switch g.r.below(6) {
	case 0:
		ops = append(ops, op("MsgRemoveSignal", st.m, st.u))
	case 1:
		ops = append(ops, op("MuxRemoveSignal", st.u, st.v))
	case 2:
		ops = append(ops, op("MuxClearGroup", st.u, 0))
	case 3:
		ops = append(ops, op("MuxClearAll", st.u))
	case 4:
		ops = append(ops, op("MsgRemoveSignal", st.m, st.v))
	default:
		ops = append(ops, op("MsgRemoveAllSignals", st.m))
	}
	// the names of the signals that left are free in the message: a detached signal takes the name
	// of the depth-2 signal and enters the message
	ops = append(ops, op("SigUpdateName", st.s3, 5), op("SigUpdateName", st.s, 4), op("SigUpdateName", st.s3, 2),
		op("MsgAppendSignal", st.m, st.s3),
		op("SigUpdateName", st.s3, 1), // the name of the inner multiplexer
		op("MsgRemoveSignal", st.m, st.s3), op("MsgAppendSignal", st.m, st.u), op("MsgAppendSignal", st.m, st.v))
	return ops
}

func (g *Gen) scGroupClear(p *Pool) []Op {
	var u int64
	for _, h := range sigsOfKind(p, acme.SignalKindMultiplexer) {
		if mx := p.mux(int64(h)); mx.GroupCount() >= 2 && mx.GroupSize() >= 16 {
			u = int64(h)
		}
	}
	t4 := typeOfSize(p, 4)
	var free []int64
	for _, h := range sigsOfKind(p, acme.SignalKindStandard) {
		sg := p.sig(int64(h))
		if sg.ParentMultiplexerSignal() == nil && sg.ParentMessage() == nil {
			free = append(free, int64(h))
		}
	}
	if u == 0 || t4 == 0 || len(free) < 2 {
		return nil
	}
	s, f := free[0], free[1]
	ops := []Op{op("MuxClearAll", u), op("StdSetType", s, t4), op("StdSetType", f, t4),
		op("SigUpdateName", s, 4), op("SigUpdateName", f, 5), op("SigUpdateName", s, 4),
		op("MuxInsertSignal", u, s, 0, 0), // group 0
		op("MuxInsertSignal", u, s, 0, 1), // a second call: group 1, same start
		op("MuxInsertSignal", u, s, 0, 1), // refused: already in group 1
		op("MuxInsertSignal", u, f, 8),    // fixed
		op("MuxInsertSignal", u, f, 8),    // refused: already fixed
		op("MuxInsertSignal", u, f, 8, 0), // refused: fixed
	}
	switch g.r.below(4) {
	case 0: // group by group
		ops = append(ops, op("MuxClearGroup", u, 0), op("MuxClearGroup", u, 1), op("MuxInsertSignal", u, s, 0))
	case 1:
		ops = append(ops, op("MuxClearGroup", u, 1), op("MuxInsertSignal", u, s, 0, 1), op("MuxRemoveSignal", u, s), op("MuxInsertSignal", u, s, 0))
	case 2:
		ops = append(ops, op("MuxRemoveSignal", u, s), op("MuxInsertSignal", u, s, 4, 1), op("MuxClearGroup", u, 1), op("MuxInsertSignal", u, s, 0))
	default:
		ops = append(ops, op("MuxRemoveSignal", u, s), op("MuxInsertSignal", u, s, 0, 0, 1))
	}
	// a fixed signal leaves and comes back with explicit groups
	ops = append(ops, op("MuxRemoveSignal", u, f), op("MuxInsertSignal", u, f, 8, 0), op("MuxInsertSignal", u, f, 8, 1),
		op("MuxClearGroup", u, 0), op("MuxRemoveSignal", u, f), op("MuxInsertSignal", u, f, 8))
	return ops
}

func (g *Gen) scBuilder(p *Pool) []Op {
	bs, cbs := p.of(KBus), p.of(KBuilder)
	if len(bs) == 0 || len(cbs) < 2 {
		return nil
	}
	b := g.r.pick(bs)
	b2 := g.r.pick(bs)
	c1, c2 := int64(cbs[0]), int64(cbs[1])
	return []Op{op("BusSetBuilder", b, 0), op("BusSetBuilder", b, c1), op("BusSetBuilder", b2, c1), op("BusSetBuilder", b, c2),
		op("BusSetBuilder", b, 0), op("BusSetBuilder", b2, 0), op("BusSetBuilder", b, c1), op("BusSetBuilder", b, c1), op("BusSetBuilder", b2, c2)}
}

// oversize: a message longer than a CAN 2.0A payload is legal while its interface is detached, with
// or without a static CAN-ID; attaching the interface to a bus must be refused for the size
func (g *Gen) scOversize(p *Pool) []Op {
	if len(p.of(KMsg)) >= 10 {
		return nil
	}
	ifs := liveIfaces(p)
	bs := p.of(KBus)
	if len(ifs) == 0 || len(bs) == 0 {
		return nil
	}
	i := g.r.pick(ifs)
	b := g.r.pick(bs)
	ni := p.iface(i)
	nd := int64(p.byID[ni.Node().EntityID()])
	var ops []Op
	if pb := ni.ParentBus(); pb != nil {
		ops = append(ops, op("BusRemoveNodeInterface", int64(p.byID[pb.EntityID()]), nd))
	}
	// other interfaces of the node leave bus b, so that name / id of the node are free there
	for _, x := range ni.Node().Interfaces() {
		if x != ni && x.ParentBus() == p.bus(b) {
			return nil
		}
	}
	m := int64(len(p.ents) + 1) // handle of the message created by the first call of the script
	size := []int64{9, 12, 16, 64}[g.r.below(4)]
	c := int64(g.r.below(5))
	ops = append([]Op{op("NewMessage", 5, int64(g.r.below(5)), size)}, ops...)
	if g.r.chance(50) {
		ops = append(ops, op("MsgSetStatic", m, c), op("IfAddSent", i, m))
	} else {
		ops = append(ops, op("IfAddSent", i, m), op("MsgSetStatic", m, c))
	}
	ops = append(ops,
		op("BusAddNodeInterface", b, i), // refused: the message does not fit a CAN 2.0A frame
		op("MsgUpdateID", m, (c+1)%5),    // no static CAN-ID any more: still refused
		op("BusAddNodeInterface", b, i),
		op("IfRemoveSent", i, m),
		op("BusAddNodeInterface", b, i), // accepted (unless name / id of the node are taken)
		op("IfAddSent", i, m),           // refused on the attached interface
		op("MsgSetStatic", m, c), op("IfAddSent", i, m))
	return ops
}

// clone: an enum WITH values is cloned; original and clone are then edited independently (the
// clone's values are new objects: handles n+2.. in the order of Values())
func (g *Gen) scClone(p *Pool) []Op {
	if len(p.of(KEnum)) >= 7 || len(p.of(KEval)) >= 28 {
		return nil
	}
	var e int64
	for _, h := range p.of(KEnum) {
		if n := len(p.enum(int64(h)).Values()); n >= 1 && n <= 4 {
			e = int64(h)
		}
	}
	if e == 0 {
		return nil
	}
	vals := p.enum(e).Values()
	n := int64(len(p.ents))
	ce := n + 1
	v0 := int64(p.byID[vals[0].EntityID()])
	vl := int64(p.byID[vals[len(vals)-1].EntityID()])
	c0 := n + 2
	cl := n + 1 + int64(len(vals))
	return []Op{op("CloneEnum", e),
		op("EvalUpdateIndex", v0, 7), op("EvalUpdateName", v0, 5), // the original's value: the clone must not move
		op("EvalUpdateIndex", c0, 6),                                // the clone's value: the original must not move
		op("EnumRemoveValue", e, vl), op("EnumAddValue", ce, vl),   // refused: name / index taken by the clone's own copy
		op("EnumRemoveValue", ce, cl), op("EnumAddValue", ce, vl),
		op("CloneEval", v0), op("EnumRemoveAllValues", e), op("EnumAddValue", e, cl),
		op("CloneEnum", ce)}
}

// bulkSent: an interface (detached from its bus, or attached) sends three messages, one of them with
// a static CAN-ID in the middle of the id order; RemoveAllSentMessages must clear the sender of every
// one of them
func (g *Gen) scBulkSent(p *Pool) []Op {
	i := g.r.pick(liveIfaces(p))
	if i == 0 {
		return nil
	}
	ni := p.iface(i)
	var ms []int64
	for _, h := range p.of(KMsg) {
		m := p.msg(int64(h))
		if (m.SenderNodeInterface() == nil || m.SenderNodeInterface() == ni) && m.SizeByte() <= 8 {
			ms = append(ms, int64(h))
		}
	}
	if len(ms) < 3 {
		return nil
	}
	nd := int64(p.byID[ni.Node().EntityID()])
	var ops []Op
	detached := g.r.chance(65)
	if pb := ni.ParentBus(); pb != nil && detached {
		ops = append(ops, op("BusRemoveNodeInterface", int64(p.byID[pb.EntityID()]), nd))
	}
	c := int64(g.r.below(5))
	st := ms[g.r.below(3)] // which of the three gets the static CAN-ID
	ops = append(ops, op("IfRemoveAllSent", i),
		op("MsgUpdateName", ms[0], 0), op("MsgUpdateName", ms[1], 1), op("MsgUpdateName", ms[2], 2),
		op("MsgUpdateID", ms[0], 0), op("MsgUpdateID", ms[1], 1), op("MsgUpdateID", ms[2], 2),
		op("IfAddSent", i, ms[0]), op("IfAddSent", i, ms[1]), op("IfAddSent", i, ms[2]),
		op("MsgSetStatic", st, c),
		op("IfRemoveAllSent", i),
		// every message is free again: another interface may send them
		op("IfAddSent", i, ms[2]), op("IfAddSent", i, ms[0]), op("MsgSetStatic", ms[0], (c+1)%5), op("IfRemoveAllSent", i))
	return ops
}

// resize: the LAST signal of a payload grows across a byte boundary through its type; a new size of the
// message between the old and the new end of that signal must be refused (the payload would be cut)
func (g *Gen) scResize(p *Pool) []Op {
	free := detachedStd(p)
	t4, t8, t12, t16 := typeOfSize(p, 4), typeOfSize(p, 8), typeOfSize(p, 12), typeOfSize(p, 16)
	var m int64
	for _, h := range p.of(KMsg) {
		if mm := p.msg(int64(h)); mm.SizeByte() == 8 || mm.SizeByte() == 4 {
			m = int64(h)
		}
	}
	if len(free) < 2 || t4 == 0 || t8 == 0 || t12 == 0 || t16 == 0 || m == 0 {
		return nil
	}
	x, f0 := free[0], free[1]
	return []Op{op("MsgRemoveAllSignals", m), op("MsgUpdateSize", m, 8),
		op("SigUpdateName", x, 0), op("SigUpdateName", f0, 1), op("StdSetType", x, t4), op("StdSetType", f0, t4),
		op("MsgInsertSignal", m, f0, 0), op("MsgInsertSignal", m, x, 4), // x is the last signal: bits 4..7, one byte
		op("StdSetType", x, t8),    // bits 4..11: two bytes
		op("MsgUpdateSize", m, 1),  // refused: cuts x
		op("MsgUpdateSize", m, 2),  // fits exactly
		op("StdSetType", x, t16),   // refused: no room in two bytes
		op("MsgUpdateSize", m, 4), op("StdSetType", x, t16), // bits 4..19: three bytes
		op("MsgUpdateSize", m, 2),  // refused
		op("MsgUpdateSize", m, 3), op("StdSetType", x, t4), op("MsgUpdateSize", m, 1), op("MsgUpdateSize", m, 0)}
}

// enumMin: an enum with a minimum size larger than its values need (what the DBC importer sets),
// referenced by the first signal of a FULL payload with a follower right behind it: values whose index
// crosses a power of two but stays within the minimum size must be accepted and nothing may move; the
// first index beyond the minimum size must be refused while the payload is full
func (g *Gen) scEnumMin(p *Pool) []Op {
	if len(p.of(KEnum)) >= 7 || len(p.of(KEval)) >= 26 || len(p.of(KSig)) >= 16 {
		return nil
	}
	free := detachedStd(p)
	t4 := typeOfSize(p, 4)
	var m int64
	for _, h := range p.of(KMsg) {
		if mm := p.msg(int64(h)); mm.SizeByte() == 8 || mm.SizeByte() == 4 || mm.SizeByte() == 2 {
			m = int64(h)
		}
	}
	if len(free) < 1 || t4 == 0 || m == 0 {
		return nil
	}
	f0 := free[0]
	n := int64(len(p.ents))
	e, v1, x, v2, v3 := n+1, n+2, n+3, n+4, n+5
	return []Op{op("NewEnum"), op("EnumSetMinSize", e, 4), op("NewEnumValue", 0, 1), op("EnumAddValue", e, v1),
		op("NewEnumSignal", 3, e),
		op("NewEnumValue", 1, 2), op("NewEnumValue", 2, 5),
		op("MsgRemoveAllSignals", m), op("MsgUpdateSize", m, 8), op("SigUpdateName", f0, 1), op("StdSetType", f0, t4),
		op("MsgInsertSignal", m, x, 0), op("MsgInsertSignal", m, f0, 4), op("MsgUpdateSize", m, 1), // x 0..3, follower 4..7: full
		op("EnumAddValue", e, v2),       // maximum index 1 -> 2: two bits needed, the size stays 4
		op("EnumAddValue", e, v3),       // 5: three bits
		op("EvalUpdateIndex", v1, 9),    // four bits: still the minimum size
		op("EvalUpdateIndex", v1, 17),   // five bits: refused, the payload is full
		op("EnumRemoveValue", e, v3), op("EnumAddValue", e, v3),
		op("MsgUpdateSize", m, 2), op("EvalUpdateIndex", v1, 17), // room now: the follower moves by one bit
		op("EvalUpdateIndex", v1, 3)}
}
