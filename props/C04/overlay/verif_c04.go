//go:build verif

// Add-only hooks for the C04/C05/C06 checks of /verif (injected with `go build -overlay`,
// never committed to the repository). They expose the raw uniqueness indexes, the raw
// containment maps and the hint fields read-only, so that the harness can compare them with the
// Coq model and with the contents reported by the public getters.
package acmelib

// ---- Network ----------------------------------------------------------------------------

func (n *Network) VerifBuses() map[EntityID]*Bus       { return n.buses.m }
func (n *Network) VerifBusNames() map[string]EntityID { return n.busNames.m }

// ---- Bus --------------------------------------------------------------------------------

func (b *Bus) VerifNodeInts() map[EntityID]*NodeInterface { return b.nodeInts.m }
func (b *Bus) VerifNodeNames() map[string]EntityID        { return b.nodeNames.m }
func (b *Bus) VerifNodeIDs() map[NodeID]EntityID          { return b.nodeIDs.m }
func (b *Bus) VerifStaticCANIDs() map[CANID]EntityID      { return b.messageStaticCANIDs.m }
func (b *Bus) VerifIsDefCANIDBuilder() bool               { return b.isDefCANIDBuilder }

// ---- Node / NodeInterface ---------------------------------------------------------------

func (n *Node) VerifInterfaceCount() int { return n.interfaceCount }
func (n *Node) VerifIntErrNum() int      { return n.intErrNum }

func (ni *NodeInterface) VerifSent() map[EntityID]*Message     { return ni.sentMessages.m }
func (ni *NodeInterface) VerifSentNames() map[string]EntityID  { return ni.sentMessageNames.m }
func (ni *NodeInterface) VerifSentIDs() map[MessageID]EntityID { return ni.sentMessageIDs.m }
func (ni *NodeInterface) VerifSentStatic() map[CANID]EntityID  { return ni.sentMessageStaticCANIDs.m }
func (ni *NodeInterface) VerifReceived() map[EntityID]*Message { return ni.receivedMessages.m }

// ---- Message ----------------------------------------------------------------------------

func (m *Message) VerifSignals() map[EntityID]Signal            { return m.signals.m }
func (m *Message) VerifSignalNames() map[string]EntityID        { return m.signalNames.m }
func (m *Message) VerifReceivers() map[EntityID]*NodeInterface  { return m.receivers.m }
func (m *Message) VerifStaticCANID() CANID                      { return m.staticCANID }

// ---- MultiplexerSignal ------------------------------------------------------------------

func (ms *MultiplexerSignal) VerifSignals() map[EntityID]Signal       { return ms.signals.m }
func (ms *MultiplexerSignal) VerifSignalNames() map[string]EntityID   { return ms.signalNames.m }
func (ms *MultiplexerSignal) VerifSignalGroupIDs() map[EntityID][]int { return ms.signalGroupIDs.m }
func (ms *MultiplexerSignal) VerifFixedSignals() map[EntityID]bool    { return ms.fixedSignals.m }

// ---- SignalEnum -------------------------------------------------------------------------

func (se *SignalEnum) VerifValues() map[EntityID]*SignalEnumValue { return se.values.m }
func (se *SignalEnum) VerifValueNames() map[string]EntityID       { return se.valueNames.m }
func (se *SignalEnum) VerifValueIndexes() map[int]EntityID        { return se.valueIndexes.m }
func (se *SignalEnum) VerifParErrID() EntityID                    { return se.parErrID }

// ---- shared mix-ins ---------------------------------------------------------------------

func (wa *withAttributes) VerifAttAssignments() map[EntityID]*AttributeAssignment {
	return wa.attAssignments.m
}

func (t *withRefs[R]) VerifRefs() map[EntityID]R { return t.refs.m }
