import os
import vlib


def setup():
    here = os.path.dirname(os.path.abspath(__file__))
    vlib.build_ocaml_driver("c04_driver", os.path.join(vlib.COQ, "extracted"),
                            os.path.join(here, "driver", "c04_driver.ml"), only=["c04_model", "c01_model"])
