"""C07 — multiplexer groups are valid layouts with consistent membership.
Shares model, harness and driver with C01 (props/C01); runs the harness in mode c07."""
import importlib.util
import os

_spec = importlib.util.spec_from_file_location(
    "check_C01_shared", os.path.join(os.path.dirname(os.path.dirname(os.path.abspath(__file__))), "C01", "check.py"))
_c01 = importlib.util.module_from_spec(_spec)
_spec.loader.exec_module(_c01)


def run(ctx):
    _c01.run_mode(ctx, "c07")
