"""C08 — DBC text survives write->parse and parse->write->parse.
Proof: coq/Properties/C08.v over the model coq/C08 (lexer, parser, writer mirroring dbc/*.go).
Tie: the Go harness generates documents over every section and accepted/mutated/re-spaced texts,
runs dbc.Write / dbc.Parse (both number modes), evaluates the property's document equivalence on
the implementation's own results, and records tokens / outcome / document / writer text of every
case; the extracted model recomputes all four and the OCaml driver diffs them."""
import importlib.util
import json
import os
import vlib

PID = "C08"
HERE = os.path.dirname(os.path.abspath(__file__))
_spec = importlib.util.spec_from_file_location("dbccheck", os.path.join(HERE, "dbccheck.py"))
dbccheck = importlib.util.module_from_spec(_spec)
_spec.loader.exec_module(dbccheck)


def run(ctx):
    ctx.level = "proof"
    status = vlib.proof_status(PID, extra_targets=["C08/Extract.v"])
    ctx.proof_gate(status)
    drv = dbccheck.build_driver()
    exe, blog = dbccheck.build_harness(ctx, "c08")
    if exe is None:
        ctx.violation("harness-build-failed", "the C08 harness no longer builds against the repository: " + blog[-800:],
                      {"log": blog[-3000:]}, found_input=False)
        ctx.coverage.update({"evaluations": 0})
        return
    out = os.path.join(ctx.scratch, "out")
    if ctx.replay:
        r = json.load(open(ctx.replay))
        rp = os.path.join(ctx.scratch, "replay.json")
        json.dump(r, open(rp, "w"))
        rc, log = vlib.sh([exe, "replay", "-file", rp, "-out", out], env=dbccheck.harness_env(), timeout=600)
        print(log)
    else:
        rc, log = vlib.sh([exe, "run", "-seed", str(ctx.seed), "-tier", ctx.tier, "-out", out],
                          env=dbccheck.harness_env(), timeout=2400)
    cases = os.path.join(out, "cases.txt")
    if rc != 0 or not os.path.exists(cases):
        ctx.violation("harness-run-failed", "harness run failed (rc=%d): %s" % (rc, log[-800:]), {"log": log[-3000:]},
                      found_input="panic" in log)
        ctx.coverage.update({"evaluations": 0})
        return
    summ = dbccheck.parse_summary(os.path.join(out, "summary.txt"))
    compared, mism, by_kind, mlog = dbccheck.run_driver(drv, cases)
    if ctx.replay:
        print(mlog[-3000:])
    else:
        dbccheck.count_guard(ctx, PID, summ.get("records", -1), compared)
        ctx.min_evaluations = 900 if ctx.tier == "quick" else 30000
        for stream in ("doc-hexfalse", "doc-hextrue", "testdata", "hand", "mutation", "respaced", "zero-padded"):
            if summ["hist"].get(stream, 0) <= 0:
                ctx.violation("c08-harness-stream-missing", "the generator stream %s produced no case" % stream, {"hist": summ["hist"]}, found_input=False)
    # (1) the property predicate evaluated on the implementation's own results
    for head, detail in summ["fails"]:
        sig, fname = head[0], head[1]
        try:
            rep = json.load(open(os.path.join(out, fname)))
        except Exception:
            rep = {"file": fname}
        rep["how"] = "./check C08 --replay <this file>"
        ctx.violation(sig, "dbc.Write/dbc.Parse break C08: " + detail, rep, found_input=True)
    # (2) model vs implementation
    if mism != 0:
        for what, lines in sorted(by_kind.items()):
            ctx.violation("c08-model-" + what, "the Coq model and the implementation disagree (%s, %d case(s)); the theorems of "
                          "Properties/C08.v no longer speak about this code; no document/text violating the property "
                          "was found by the generators: %s" % (what, len(lines), lines[0][:400]),
                          {"correspondence": what, "first": lines[:3]}, found_input=False)
        if mism < 0:
            ctx.violation("c08-model-driver-failed", "model driver failed: " + mlog[-600:], {"log": mlog[-3000:]}, found_input=False)
    ctx.coverage.update({
        "evaluations": summ.get("cases", 0),
        "records_compared_with_model": compared,
        "distinct_nontrivial": summ.get("nontrivial", 0),
        "texts": summ.get("texts", 0), "texts_accepted": summ.get("accepted", 0),
        "rule": "cases = (a) generated documents (one per single section, then random section subsets, 1-3 entries per "
                "section, full-range integers, float pool incl. 2^63, 1e21, subnormals, -0, identifiers and strings biased to "
                "the lexer's special cases, dead fields filled with junk) written and re-parsed in decimal and hex mode; "
                "(b) texts: the two testdata files, hand-written spacing/number-form samples, writer outputs, 1-2 token-level "
                "mutations (delete/duplicate/replace/swap) and re-spacings of those, parsed, and when accepted written and "
                "re-parsed. The property's equivalence is evaluated Go-against-Go; every record is recomputed by the "
                "extracted Coq model (tokens with positions, parse outcome with error position, document, writer text). "
                "non-trivial = distinct document text with >= 5 non-empty sections that round-trips, or distinct accepted "
                "text with >= 20 tokens",
        "distribution": summ["hist"],
        "identified_by_equivalence": summ.get("normdiff", {}),
        "model_mismatches": mism,
        "model_mismatch_kinds": {k: len(v) for k, v in by_kind.items()},
        "property_predicate_failures": [h[0] for h, _ in summ["fails"]],
        "samples": summ["samples"][:4],
        "exhaustive": False,
        "trusted_base": [
            "Coq 8.16.1 kernel (coqc; coqchk in the thorough tier)",
            "axioms: none (Print Assumptions: Closed under the global context)" if not status["axioms"] else "axioms: " + ", ".join(status["axioms"]),
            "extraction (ExtrOcamlBasic, ExtrOcamlString; no Extract Constant/Inductive of our own) + OCaml 4.13.1 + props/C08/driver/c08_driver.ml",
            "Go harness props/C08/harness (generators, projection of dbc.File, document equivalence) and overlay hook props/C08/overlay/verif_dbc.go (runs the real scanner, dumps the static tables)",
            "model coq/C08/Dbc{Ast,Lex,Parse,Write}.v is a hand-written restatement of dbc/{ast,scanner,parser,writer}.go, tied by the record-level comparison above",
            "strconv float<->text is not modelled: oracle tables per case (ParseFloat of every number token, FormatFloat 'f' -1 of every float of the document); assumed laws stated as hypotheses of the theorems; unicode.IsDigit outside ASCII is a parameter of the lexer model (set sent per case)",
            "bufio/utf8 decoding: the model starts from the code points ReadRune yields",
        ],
    })
    ctx.assumptions = [
        "strconv.ParseFloat(strconv.FormatFloat(x,'f',-1,64)) == x for finite x, and that text has the shape -?digits[.digits] (hypotheses fmt_prs / fmt_shape of the theorems; exercised Go-against-Go by every document case)",
        "strconv.ParseFloat returns a finite value whenever it returns no error, on number-token texts (hypothesis of parse_output_expressible / parse_write_parse; asserted on every number token of every case: LAWFAIL records)",
        "Go enum fields of the document hold declared constants; slices hold no nil entries",
    ]
    # the model's writer on the GENERATED documents themselves (shipped as Gallina terms), evaluated inside Coq, against
    # the text dbc.Write made of them: every run, more documents in the thorough tier
    gw = dbccheck.vm_generated_writer(ctx, cases, want=12 if ctx.tier == "quick" else 150)
    ctx.coverage["writer_on_generated_documents"] = {k: v for k, v in gw.items() if k != "log_tail"}
    ctx.coverage["writer_on_generated_documents"]["driver_projection_equal_and_rewritten"] = dbccheck.last_genwritten
    if gw["mismatches"] or not gw["negative_detected"] or gw["cases"] < (12 if ctx.tier == "quick" else 100) or dbccheck.last_genwritten < 50:
        ctx.violation("%s-model-writer-generated" % PID.lower(), "the model's writer applied to a GENERATED document does not give the text "
                      "dbc.Write gives (or the comparison covered too little / its negative test was not detected): %s" % (
                          gw["mismatches"][:5] or gw.get("log_tail", "")[-300:] or gw), {"generated_writer": gw}, found_input=False)
    if ctx.tier == "thorough":
        vm = dbccheck.vm_crosscheck(ctx, cases, want=80)
        ctx.coverage["vm_compute_crosscheck"] = {k: v for k, v in vm.items() if k != "log_tail"}
        if vm["mismatches"] or not vm["negative_detected"] or vm["cases"] == 0:
            ctx.violation("%s-vm-crosscheck" % PID.lower(), "the vm_compute cross-check inside Coq disagrees with the observed Go results "
                          "(or its negative test was not detected): %s" % (vm["mismatches"][:5] or vm["log_tail"][-300:]),
                          {"vm": vm}, found_input=False)
        ok, chk = vlib.coqchk(PID)
        ctx.coverage["coqchk"] = "ok" if ok else "FAILED"
        ctx.coverage["coqchk_tail"] = chk[-1500:]
        if not ok:
            ctx.proof_problems = (getattr(ctx, "proof_problems", []) or []) + ["coqchk failed: " + chk[-500:]]
