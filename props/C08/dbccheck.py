"""Helpers shared by the C08 and C09 checks (both use the Go module props/C08/harness, the overlay
hook props/C08/overlay/verif_dbc.go and the OCaml model driver props/C08/driver/c08_driver.ml)."""
import os
import re
import vlib

C08_DIR = os.path.dirname(os.path.abspath(__file__))
last_skeleton = 0


def build_driver():
    return vlib.build_ocaml_driver("c08_driver", os.path.join(vlib.COQ, "extracted"),
                                   os.path.join(C08_DIR, "driver", "c08_driver.ml"), only=["c08_model", "c09_model"])


def build_harness(ctx, cmd):
    """Copy the harness module to scratch, build ./cmd/<cmd> against the repo under check with the
    scanner hook injected. Returns (exe or None, log)."""
    hdir = os.path.join(ctx.scratch, "harness")
    if not os.path.isdir(hdir):
        vlib.go_harness_dir(C08_DIR, ctx.scratch)
    ov = vlib.overlay_json(ctx.scratch, {"dbc/verif_dbc.go": os.path.join(C08_DIR, "overlay", "verif_dbc.go")})
    exe = os.path.join(ctx.scratch, cmd)
    rc, log = vlib.sh(["go", "build", "-tags", "verif", "-overlay", ov, "-o", exe, "./cmd/" + cmd],
                      cwd=hdir, env=harness_env(), timeout=900)
    return (exe if rc == 0 else None), log


def harness_env():
    env = vlib.goenv()
    env["VERIF_REPO"] = vlib.repo()
    return env


def run_driver(exe, cases, timeout=2400):
    """Returns (compared, mismatches:int, by_kind:{what: [lines]}, raw log)."""
    rc, log = vlib.sh([exe, cases], timeout=timeout)
    m = re.search(r"CASES (\d+) COMPARED (\d+) MISMATCHES (\d+)", log)
    global last_skeleton
    ms = re.search(r"SKELETON (\d+)", log)
    last_skeleton = int(ms.group(1)) if ms else 0
    by = {}
    for line in log.split("\n"):
        if line.startswith("MISMATCH "):
            p = line.split(" ", 4)
            what = p[3] if len(p) > 3 else "?"
            by.setdefault(what, []).append(line)
    if not m:
        return 0, -1, by, log
    return int(m.group(2)), int(m.group(3)), by, log


def parse_summary(path):
    d = {"hist": {}, "fails": [], "samples": [], "class": {}}
    if not os.path.exists(path):
        return d
    for line in open(path, encoding="utf-8", errors="replace"):
        line = line.rstrip("\n")
        p = line.split(" ")
        if p[0] == "hist" and len(p) == 3:
            d["hist"][p[1]] = int(p[2])
        elif p[0] == "normdiff" and len(p) == 3:
            d.setdefault("normdiff", {})[p[1]] = int(p[2])
        elif p[0] == "class" and len(p) == 4:
            d["class"]["%s-%s" % (p[1], p[2])] = int(p[3])
        elif p[0] in ("PROPFAIL", "FAIL"):
            head, _, detail = line.partition(" ## ")
            d["fails"].append((head.split(" ")[1:], detail))
        elif p[0] == "SAMPLE":
            d["samples"].append(line[7:])
        elif len(p) == 2 and re.fullmatch(r"-?\d+", p[1]):
            d[p[0]] = int(p[1])
        else:
            d.setdefault("other", []).append(line)
    return d


def texts_for_ids(cases, ids):
    """Input bytes (code points re-encoded as UTF-8) of the records with the given ids."""
    want = set(str(i) for i in ids)
    out, cur = {}, None
    with open(cases, encoding="utf-8", errors="replace") as f:
        for line in f:
            if line.startswith("CASE "):
                p = line.split(" ", 3)
                cur = p[1] if p[1] in want else None
            elif cur is not None and line.startswith("TEXT "):
                cps = [int(x) for x in line.split()[2:]]
                out[cur] = "".join(chr(c) for c in cps).encode("utf-8", "replace")
                cur = None
                if len(out) == len(want):
                    break
    return out
