"""Helpers shared by the C08 and C09 checks (both use the Go module props/C08/harness, the overlay
hook props/C08/overlay/verif_dbc.go and the OCaml model driver props/C08/driver/c08_driver.ml)."""
import os
import re
import vlib

C08_DIR = os.path.dirname(os.path.abspath(__file__))
last_skeleton = 0
last_marks = {}


def build_driver():
    return vlib.build_ocaml_driver("c08_driver", os.path.join(vlib.COQ, "extracted"),
                                   os.path.join(C08_DIR, "driver", "c08_driver.ml"), only=["c08_model", "c09_model", "c10_model"])


def build_harness(ctx, cmd):
    """Copy the harness module to scratch, build ./cmd/<cmd> against the repo under check with the
    scanner hook injected. Returns (exe or None, log)."""
    hdir = os.path.join(ctx.scratch, "harness")
    if not os.path.isdir(hdir):
        vlib.go_harness_dir(C08_DIR, ctx.scratch)
    ov = vlib.overlay_json(ctx.scratch, {"dbc/verif_dbc.go": os.path.join(C08_DIR, "overlay", "verif_dbc.go")})
    exe = os.path.join(ctx.scratch, cmd)
    rc, log = vlib.sh(["go", "build", "-tags", "verif", "-overlay", ov, "-o", exe, "./cmd/" + cmd],
                      cwd=hdir, env=harness_env(), timeout=900)
    return (exe if rc == 0 else None), log


def harness_env():
    env = vlib.goenv()
    env["VERIF_REPO"] = vlib.repo()
    return env


last_import = {}
last_genwritten = 0
last_hexrecords = 0


def run_driver(exe, cases, timeout=2400):
    """Returns (compared, mismatches:int, by_kind:{what: [lines]}, raw log)."""
    rc, log = vlib.sh([exe, cases], timeout=timeout)
    m = re.search(r"CASES (\d+) COMPARED (\d+) MISMATCHES (\d+)", log)
    global last_skeleton, last_marks, last_import, last_genwritten, last_hexrecords
    mh = re.search(r"HEXRECORDS (\d+)", log)
    last_hexrecords = int(mh.group(1)) if mh else 0
    mg = re.search(r"GENWRITTEN (\d+)", log)
    last_genwritten = int(mg.group(1)) if mg else 0
    mi = re.search(r"IMPORTCMP (\d+) OK (\d+) ERR (\d+) KINDOK (\d+) UNMAPPED (\d+) KINDOUTSIDE (\d+)", log)
    last_import = dict(zip(("compared", "ok", "err", "kind_ok", "unmapped", "kind_outside_model_domain"), map(int, mi.groups()))) if mi else {}
    ms = re.search(r"SKELETON (\d+)", log)
    last_skeleton = int(ms.group(1)) if ms else 0
    me = re.search(r"ENDMARK (\w+)", log)
    mk = re.search(r"SKELMARK (\w+)", log)
    last_marks = {"cases_seen": int(m.group(1)) if m else -1, "endmark": me.group(1) if me else "no-driver-output",
                  "skelmark": mk.group(1) if mk else "no-driver-output"}
    by = {}
    for line in log.split("\n"):
        if line.startswith("MISMATCH "):
            p = line.split(" ", 4)
            what = p[3] if len(p) > 3 else "?"
            by.setdefault(what, []).append(line)
    if not m:
        return 0, -1, by, log
    return int(m.group(2)), int(m.group(3)), by, log


def parse_summary(path):
    d = {"hist": {}, "fails": [], "samples": [], "class": {}}
    if not os.path.exists(path):
        return d
    for line in open(path, encoding="utf-8", errors="replace"):
        line = line.rstrip("\n")
        p = line.split(" ")
        if p[0] == "hist" and len(p) == 3:
            d["hist"][p[1]] = int(p[2])
        elif p[0] == "parsedof" and len(p) == 3:
            d.setdefault("parsedof", {})[p[1]] = int(p[2])
        elif p[0] == "normdiff" and len(p) == 3:
            d.setdefault("normdiff", {})[p[1]] = int(p[2])
        elif p[0] == "class" and len(p) == 4:
            d["class"]["%s-%s" % (p[1], p[2])] = int(p[3])
        elif p[0] in ("PROPFAIL", "FAIL"):
            head, _, detail = line.partition(" ## ")
            d["fails"].append((head.split(" ")[1:], detail))
        elif p[0] == "SAMPLE":
            d["samples"].append(line[7:])
        elif len(p) == 2 and re.fullmatch(r"-?\d+", p[1]):
            d[p[0]] = int(p[1])
        else:
            d.setdefault("other", []).append(line)
    return d


def texts_for_ids(cases, ids):
    """Input bytes (code points re-encoded as UTF-8) of the records with the given ids."""
    want = set(str(i) for i in ids)
    out, cur = {}, None
    with open(cases, encoding="utf-8", errors="replace") as f:
        for line in f:
            if line.startswith("CASE "):
                p = line.split(" ", 3)
                cur = p[1] if p[1] in want else None
            elif cur is not None and line.startswith("TEXT "):
                cps = [int(x) for x in line.split()[2:]]
                out[cur] = "".join(chr(c) for c in cps).encode("utf-8", "replace")
                cur = None
                if len(out) == len(want):
                    break
    return out


# --------------------------------------------------------------------------------------------------
# thorough tier: vm_compute cross-check (DESIGN 3.3).  A sample of the run's records is written as a
# Coq file with the OBSERVED Go results embedded (tokens with positions, parse outcome with error
# position, parsed document as a term, writer text) and the model is evaluated inside Coq by
# vm_compute: this sample does not depend on extraction nor on the OCaml driver.
# --------------------------------------------------------------------------------------------------
KINDS = ["KError", "KEOF", "KSpace", "KIdent", "KNumber", "KRange", "KMux", "KString", "KKeyword", "KPunct"]


def _nl(cps):
    return "[" + ";".join(str(c) for c in cps) + "]"


def _read_records(cases, want, max_len, streams_cap=6):
    """Pick up to `want` records (text of at most max_len code points), a few per stream."""
    picked, per_stream, cur = [], {}, None
    with open(cases, encoding="utf-8", errors="replace") as f:
        for line in f:
            line = line.rstrip("\n")
            tag, _, rest = line.partition(" ")
            if cur is not None and cur.get("skip") and tag != "CASE":
                continue
            if tag == "CASE":
                p = rest.split(" ")
                if per_stream.get(p[1], 0) >= streams_cap:
                    cur = {"skip": True}
                    continue
                cur = {"id": p[0], "stream": p[1], "hex": p[2] == "1", "toks": [], "prs": [], "fmt": [], "digits": [],
                       "domain": False, "text": None, "parse": None, "coqast": None, "wtext": None, "genast": None, "genfmt": [],
                       "genprojeq": None}
            elif cur is None:
                continue
            elif tag == "TEXT":
                if int(rest.split(" ", 1)[0]) > max_len:
                    cur = {"skip": True}
                    continue
                t = rest.split(" ")
                cur["text"] = [int(x) for x in t[1:]]
            elif tag == "DOMAIN":
                cur["domain"] = rest.strip() == "1"
            elif tag == "DIGITS":
                cur["digits"] = [int(x) for x in rest.split(" ")[1:]]
            elif tag == "TOK":
                t = rest.split(" ")
                cur["toks"].append((int(t[0]), int(t[1]), int(t[2]), [int(x) for x in t[4:]]))
            elif tag == "PRS":
                t = rest.split(" ")
                n = int(t[0])
                cps = [int(x) for x in t[1:1 + n]]
                cur["prs"].append((cps, int(t[2 + n]) if t[1 + n] == "ok" else None))
            elif tag == "FMT":
                t = rest.split(" ")
                cur["fmt"].append((int(t[0]), [int(x) for x in t[2:]]))
            elif tag == "PARSE":
                cur["parse"] = rest.split(" ")
            elif tag == "COQAST":
                cur["coqast"] = rest
            elif tag == "WTEXT":
                cur["wtext"] = [int(x) for x in rest.split(" ")[1:]]
            elif tag == "GENAST":
                cur["genast"] = rest
            elif tag == "GENPROJEQ":
                cur["genprojeq"] = rest.strip() == "1"
            elif tag == "GENFMT":
                t = rest.split(" ")
                cur["genfmt"].append((int(t[0]), [int(x) for x in t[2:]]))
            elif tag == "END":
                r, cur = cur, None
                if not r["domain"] or r["text"] is None or len(r["text"]) > max_len or r["parse"] is None or r["parse"][0] == "panic":
                    continue
                k = per_stream.get(r["stream"], 0)
                if k >= streams_cap:
                    continue
                # prefer variety: every 3rd candidate of a stream
                per_stream[r["stream"]] = k + 1
                picked.append(r)
                if len(picked) >= want:
                    break
    return picked


def _coq_case(r, tamper=False):
    cid = "T" + r["id"] if tamper else r["id"]
    toks = list(r["toks"])
    parse = list(r["parse"])
    if tamper:          # shift one observed position: the cross-check must notice
        if parse[0] == "syn":
            parse[2] = str(int(parse[2]) + 1)
        elif toks:
            k, l, c, v = toks[len(toks) // 2]
            toks[len(toks) // 2] = (k, l, c + 1, v)
    out = []
    out.append("Definition text_%s : list N := %s." % (cid, _nl(r["text"])))
    out.append("Definition ud_%s : N -> bool := fun c => existsb (N.eqb c) %s." % (cid, _nl(r["digits"])))
    out.append("Definition prs_%s : str -> option N := lookup_prs [%s]." % (
        cid, ";".join("(%s, %s)" % (_nl(k), ("Some %d" % v) if v is not None else "None") for k, v in r["prs"])))
    out.append("Definition fmt_%s : N -> str := lookup_fmt [%s]." % (cid, ";".join("(%d, %s)" % (b, _nl(t)) for b, t in r["fmt"])))
    exp_toks = "[" + ";".join("(%s, %d, %d, %s)" % (KINDS[k], l, c, _nl([]) if k == 0 else _nl(v)) for k, l, c, v in toks) + "]"
    out.append("Goal option_map (map tokview) (lex ud_%s text_%s) = Some %s." % (cid, cid, exp_toks))
    out.append('Proof. first [ vm_compute; reflexivity | idtac "VMMISMATCH %s tokens" ]. Abort.' % cid)
    hexs = "true" if r["hex"] else "false"
    if parse[0] == "ok" and r["coqast"] and not tamper:
        out.append("Goal parse ud_%s prs_%s %s text_%s = OOk (%s)." % (cid, cid, hexs, cid, r["coqast"]))
        out.append('Proof. first [ vm_compute; reflexivity | idtac "VMMISMATCH %s document" ]. Abort.' % cid)
        if r["wtext"] is not None:
            out.append("Goal write fmt_%s %s (%s) = %s." % (cid, hexs, r["coqast"], _nl(r["wtext"])))
            out.append('Proof. first [ vm_compute; reflexivity | idtac "VMMISMATCH %s writer" ]. Abort.' % cid)
    else:
        exp = {"ok": "(0, 0, 0)", "other": "(2, 0, 0)"}.get(parse[0])
        if parse[0] == "syn":
            exp = "(1, %s, %s)" % (parse[1], parse[2])
        out.append("Goal oview (parse ud_%s prs_%s %s text_%s) = %s." % (cid, cid, hexs, cid, exp))
        out.append('Proof. first [ vm_compute; reflexivity | idtac "VMMISMATCH %s outcome" ]. Abort.' % cid)
    out.append('Goal True. idtac "VMCASE %s". Abort.' % cid)
    return "\n".join(out)


VM_HEADER = """From Coq Require Import NArith ZArith List Bool.
From Acme.C08 Require Import DbcAst Chars DbcLex DbcParse DbcWrite.
Import ListNotations.
Local Open Scope N_scope.
Definition tokview (t : rtoken) : tkind * N * N * list N :=
  (rt_kind t, rt_line t, rt_col t, match rt_kind t with KError => [] | _ => rt_value t end).
Definition oview (o : outcome) : N * N * N :=
  match o with OOk _ => (0, 0, 0) | OSyntax l c => (1, l, c) | OOther => (2, 0, 0) | OOutOfFuel => (3, 0, 0) end.
Fixpoint lookup_prs (tbl : list (str * option N)) (v : str) : option N :=
  match tbl with [] => None | (k, r) :: t => if str_eqb k v then r else lookup_prs t v end.
Fixpoint lookup_fmt (tbl : list (N * str)) (b : N) : str :=
  match tbl with [] => [] | (k, r) :: t => if N.eqb k b then r else lookup_fmt t b end.
"""


def _read_generated(cases, want, max_len=2500):
    """Records of GENERATED documents (stream doc) that carry the document as a Gallina term: up to `want`,
    alternating number modes, those whose projection is not the parser image's (normalised by the writer) first."""
    out, cur = {True: [], False: []}, None
    with open(cases, encoding="utf-8", errors="replace") as f:
        for line in f:
            tag, _, rest = line.rstrip("\n").partition(" ")
            if tag == "CASE":
                p = rest.split(" ")
                cur = {"id": p[0], "hex": p[2] == "1", "genfmt": [], "genast": None, "genprojeq": None, "text": None} if p[1] == "doc" else None
            elif cur is None:
                continue
            elif tag == "TEXT":
                t = rest.split(" ")
                cur["text"] = [int(x) for x in t[1:]]
            elif tag == "GENAST":
                cur["genast"] = rest
            elif tag == "GENPROJEQ":
                cur["genprojeq"] = rest.strip() == "1"
            elif tag == "GENFMT":
                t = rest.split(" ")
                cur["genfmt"].append((int(t[0]), [int(x) for x in t[2:]]))
            elif tag == "END":
                r, cur = cur, None
                if r["genast"] and r["text"] is not None and len(r["text"]) <= max_len:
                    out[bool(r["genprojeq"])].append(r)
    picked = []
    a, b = out[False], out[True]
    # two thirds from the documents the writer normalises (absent header sections, empty version, retyped values)
    while len(picked) < want and (a or b):
        for src in (a, a, b):
            if src and len(picked) < want:
                picked.append(src.pop(len(src) // 2))
    return picked


def _coq_generated(r, tamper=False):
    cid = ("GT" if tamper else "G") + r["id"]
    text = list(r["text"])
    if tamper:
        text[len(text) // 2] = text[len(text) // 2] + 1
    out = ["Definition gfmt_%s : N -> str := lookup_fmt [%s]." % (cid, ";".join("(%d, %s)" % (b, _nl(t)) for b, t in r["genfmt"])),
           "Goal write gfmt_%s %s (%s) = %s." % (cid, "true" if r["hex"] else "false", r["genast"], _nl(text)),
           'Proof. first [ vm_compute; reflexivity | idtac "VMMISMATCH %s writer-generated" ]. Abort.' % cid,
           'Goal True. idtac "VMCASE %s". Abort.' % cid]
    return "\n".join(out)


def vm_generated_writer(ctx, cases, want=40):
    """write(model of the GENERATED document) = dbc.Write(generated document), evaluated inside Coq (vm_compute) on the
    documents shipped as Gallina terms.  Returns dict(cases, normalised, mismatches, negative_detected)."""
    recs = _read_generated(cases, want)
    if not recs:
        return {"cases": 0, "mismatches": ["no generated document sampled"], "negative_detected": False}
    body = [VM_HEADER] + [_coq_generated(r) for r in recs] + [_coq_generated(recs[0], tamper=True)]
    d = os.path.join(ctx.scratch, "vmgen")
    os.makedirs(d, exist_ok=True)
    path = os.path.join(d, "gencases.v")
    open(path, "w").write("\n".join(body) + "\n")
    with vlib.Lock("coq"):
        rc, log = vlib.sh(["coqc", "-R", vlib.COQ, "Acme", "-w", "-notation-overridden", path], cwd=d, timeout=1200)
    done = re.findall(r"VMCASE (\S+)", log)
    mism = re.findall(r"VMMISMATCH (\S+) (\S+)", log)
    neg = [m for m in mism if m[0].startswith("GT")]
    real = ["%s:%s" % m for m in mism if not m[0].startswith("GT")]
    if rc != 0:
        real.append("coqc failed: " + log[-400:])
    return {"cases": len([c for c in done if not c.startswith("GT")]), "normalised_by_the_writer": sum(1 for r in recs if not r["genprojeq"]),
            "hex_mode": sum(1 for r in recs if r["hex"]), "mismatches": real, "negative_detected": bool(neg), "log_tail": log[-400:]}


def vm_crosscheck(ctx, cases, want=60, max_len=1500):
    """Returns dict(cases, goals_ok, mismatches[list], negative_detected, log_tail)."""
    recs = _read_records(cases, want, max_len)
    if not recs:
        return {"cases": 0, "mismatches": ["no record sampled"], "negative_detected": False, "log_tail": ""}
    body = [VM_HEADER] + [_coq_case(r) for r in recs]
    # negative test: the same machinery must report a tampered observation
    body.append(_coq_case(recs[0], tamper=True))
    d = os.path.join(ctx.scratch, "vm")
    os.makedirs(d, exist_ok=True)
    path = os.path.join(d, "cases.v")
    open(path, "w").write("\n".join(body) + "\n")
    with vlib.Lock("coq"):
        rc, log = vlib.sh(["coqc", "-R", vlib.COQ, "Acme", "-w", "-notation-overridden", path], cwd=d, timeout=2400)
    done = re.findall(r"VMCASE (\S+)", log)
    mism = re.findall(r"VMMISMATCH (\S+) (\S+)", log)
    neg = [m for m in mism if m[0].startswith("T")]
    real = ["%s:%s" % m for m in mism if not m[0].startswith("T")]
    if rc != 0:
        real.append("coqc failed: " + log[-400:])
    goals = sum(b.count("\nGoal ") + b.startswith("Goal ") for b in body[1:-1]) - len(recs)
    return {"cases": len([c for c in done if not c.startswith("T")]), "goals": goals,
            "with_document_and_writer": sum(1 for r in recs if r["parse"][0] == "ok" and r["coqast"]), "mismatches": real,
            "negative_detected": bool(neg), "streams": sorted(set(r["stream"] for r in recs)), "log_tail": log[-600:]}


def count_guard(ctx, pid, generated, compared, need_skeleton=None, min_compared_ratio=1.0):
    """A run in which the driver compared nothing (truncated case file, driver reading the wrong file or
    stopping early) must not pass: the number of records the driver saw must be the number the harness says
    it generated, the case file must end with its ENDFILE marker, and (C09) the skeleton file with ENDSKEL."""
    problems = []
    m = last_marks
    if m.get("endmark") != "ok":
        problems.append("case file end marker: %s" % m.get("endmark"))
    if m.get("cases_seen") != generated:
        problems.append("driver saw %s records, harness generated %s" % (m.get("cases_seen"), generated))
    if compared < min_compared_ratio * generated or compared <= 0:
        problems.append("driver compared %d of %d records" % (compared, generated))
    if need_skeleton is not None:
        if m.get("skelmark") != "ok" or last_skeleton != need_skeleton:
            problems.append("skeleton records: marker %s, compared %d of %d" % (m.get("skelmark"), last_skeleton, need_skeleton))
    if problems:
        ctx.violation("%s-model-driver-count" % pid.lower(), "the correspondence run did not compare what the harness generated: " + "; ".join(problems),
                      {"problems": problems, "marks": m}, found_input=False)
    return problems
