(* Correspondence driver for C08/C09.  Reads the record file written by the Go harness
   (props/C08/harness/dbccase/record.go): static tables, then one record per case with the text
   (code points), the real scanner's tokens, strconv's answers for the number tokens (parse
   oracle) and for the document's floats (format oracle), dbc.Parse's outcome, the projection
   of the parsed document and dbc.Write's text.  Everything is recomputed with the extracted Coq
   model (lexer, parser, writer) and compared:
     TOK    kind / start line / start col / value of every raw token
     PARSE  accepted | syntax error at line:col | other error
     P.x    the document, section by section
     WTEXT  the writer's text, code point for code point
   Output: one line "MISMATCH <id> <stream> <what> ## <detail>" per disagreement, and
   "CASES n COMPARED m MISMATCHES k" at the end. *)
module BZ = Z
open C08_model

let rec pos_of_int (n : int) : positive =
  if n = 1 then XH else if n land 1 = 1 then XI (pos_of_int (n lsr 1)) else XO (pos_of_int (n lsr 1))
let n_of_int (i : int) : n = if i = 0 then N0 else Npos (pos_of_int i)
let rec pos_of_bz (x : BZ.t) : positive =
  if BZ.equal x BZ.one then XH
  else if BZ.testbit x 0 then XI (pos_of_bz (BZ.shift_right x 1)) else XO (pos_of_bz (BZ.shift_right x 1))
let n_of_bz (x : BZ.t) : n = if BZ.sign x = 0 then N0 else Npos (pos_of_bz x)
let rec bz_of_pos = function
  | XH -> BZ.one | XO p -> BZ.shift_left (bz_of_pos p) 1 | XI p -> BZ.succ (BZ.shift_left (bz_of_pos p) 1)
let bz_of_n = function N0 -> BZ.zero | Npos p -> bz_of_pos p
let bz_of_z = function Z0 -> BZ.zero | Zpos p -> bz_of_pos p | Zneg p -> BZ.neg (bz_of_pos p)
let int_of_n x = BZ.to_int (bz_of_n x)
let ns x = BZ.to_string (bz_of_n x)
let zs x = BZ.to_string (bz_of_z x)

(* code-point lists are kept as int lists on the driver side *)
let cps_of_str (s : str) : int list = List.map int_of_n s
let str_of_cps (l : int list) : str = List.map n_of_int l

(* ---- the projection, same format as project.go ---- *)
let pstr (s : str) = let l = cps_of_str s in
  String.concat " " (("s" ^ string_of_int (List.length l)) :: List.map string_of_int l)
let pstrs (l : str list) = String.concat " " (string_of_int (List.length l) :: List.map pstr l)
let pf (b : n) = "f" ^ ns b
let b2i b = if b then "1" else "0"
let pvds (l : value_desc list) =
  String.concat " " (string_of_int (List.length l) :: List.map (fun d -> ns d.vd_id ^ " " ^ pstr d.vd_name) l)
let plist f l = String.concat " " (string_of_int (List.length l) :: List.map f l)
let bo = function LittleEndian -> "0" | BigEndian -> "1"
let vt = function Unsigned -> "0" | Signed -> "1"
let evt = function EvInt -> "0" | EvFloat -> "1" | EvString -> "2"
let xvt = function XInteger -> "0" | XFloat -> "1" | XDouble -> "2"
let akind = function AKGeneral -> "0" | AKNode -> "1" | AKMessage -> "2" | AKSignal -> "3" | AKEnvVar -> "4"
let pref = function
  | ORGeneral -> "g" | ORNode n -> "n " ^ pstr n | ORMessage i -> "m " ^ ns i
  | ORSignal (i, n) -> "s " ^ ns i ^ " " ^ pstr n | OREnvVar n -> "e " ^ pstr n
let pval = function
  | AVInt z -> "i" ^ zs z | AVHex h -> "h" ^ ns h | AVFloat b -> pf b | AVString s -> pstr s
let psig s =
  String.concat " " [ pstr s.sg_name; b2i s.sg_multiplexor;
    (match s.sg_mux with Some v -> "m" ^ ns v | None -> "-");
    ns s.sg_start; ns s.sg_size; bo s.sg_order; vt s.sg_vtype; pf s.sg_factor; pf s.sg_offset;
    pf s.sg_min; pf s.sg_max; pstr s.sg_unit; pstrs s.sg_receivers ]

let sections = ["VER";"NS";"BS";"BU";"VT";"BO";"TX";"EV";"ED";"ST";"CM";"AD";"AF";"AV";"VE";"SR";"SG";"SV";"XM"]

let project (f : file) : (string * string) list =
  [ "VER", pstr f.f_version;
    "NS", (match f.f_ns with Some l -> "some " ^ pstrs l | None -> "none");
    "BS", (match f.f_bs with Some b -> Printf.sprintf "some %s %s %s" (ns b.bt_baud) (ns b.bt_reg1) (ns b.bt_reg2) | None -> "none");
    "BU", (match f.f_bu with Some l -> "some " ^ pstrs l | None -> "none");
    "VT", plist (fun t -> pstr t.vt_name ^ " " ^ pvds t.vt_values) f.f_vts;
    "BO", plist (fun m -> String.concat " " ([ns m.ms_id; pstr m.ms_name; ns m.ms_size; pstr m.ms_tx;
                                               string_of_int (List.length m.ms_signals)] @ List.map psig m.ms_signals)) f.f_msgs;
    "TX", plist (fun t -> ns t.tx_id ^ " " ^ pstrs t.tx_names) f.f_txs;
    "EV", plist (fun e -> String.concat " " [pstr e.ev_name; evt e.ev_ty; pf e.ev_min; pf e.ev_max; pstr e.ev_unit;
                                              pf e.ev_init; ns e.ev_id; ns e.ev_access; pstrs e.ev_nodes]) f.f_evs;
    "ED", plist (fun e -> pstr e.ed_name ^ " " ^ ns e.ed_size) f.f_eds;
    "ST", plist (fun s -> String.concat " " [pstr s.st_name; ns s.st_size; bo s.st_order; vt s.st_vtype; pf s.st_factor;
                                              pf s.st_offset; pf s.st_min; pf s.st_max; pstr s.st_unit; pf s.st_default;
                                              pstr s.st_table]) f.f_sts;
    "CM", plist (fun c -> pref c.cm_ref ^ " " ^ pstr c.cm_text) f.f_cms;
    "AD", plist (fun a -> akind a.ad_kind ^ " " ^ pstr a.ad_name ^ " " ^
                          (match a.ad_type with
                           | ATInt (a, b) -> "int " ^ zs a ^ " " ^ zs b
                           | ATHex (a, b) -> "hex " ^ ns a ^ " " ^ ns b
                           | ATFloat (a, b) -> "float " ^ pf a ^ " " ^ pf b
                           | ATString -> "string"
                           | ATEnum l -> "enum " ^ pstrs l)) f.f_ads;
    "AF", plist (fun a -> pstr a.af_name ^ " " ^ pval a.af_value) f.f_afs;
    "AV", plist (fun a -> pstr a.av_name ^ " " ^ pref a.av_ref ^ " " ^ pval a.av_value) f.f_avs;
    "VE", plist (fun v -> (match v.ve_ref with ERSignal (i, n) -> "s " ^ ns i ^ " " ^ pstr n | EREnvVar n -> "e " ^ pstr n)
                          ^ " " ^ pvds v.ve_values) f.f_ves;
    "SR", plist (fun r -> ns r.sr_id ^ " " ^ pstr r.sr_signal ^ " " ^ pstr r.sr_type) f.f_srs;
    "SG", plist (fun g -> String.concat " " [ns g.sgp_id; pstr g.sgp_name; ns g.sgp_rep; pstrs g.sgp_signals]) f.f_sgs;
    "SV", plist (fun v -> ns v.sv_id ^ " " ^ pstr v.sv_signal ^ " " ^ xvt v.sv_type) f.f_svs;
    "XM", plist (fun x -> String.concat " " ([ns x.xm_id; pstr x.xm_muxed; pstr x.xm_muxor;
                                               string_of_int (List.length x.xm_ranges)]
                                              @ List.map (fun (a, b) -> ns a ^ " " ^ ns b) x.xm_ranges)) f.f_xms ]

(* ---- reading records ---- *)
let split_ws (s : string) : string list = List.filter (fun x -> x <> "") (String.split_on_char ' ' s)

(* "n c1 .. cn rest..." -> (cps, rest) *)
let take_cps (toks : string list) : int list * string list =
  match toks with
  | [] -> failwith "cps: empty"
  | n :: r ->
    let n = int_of_string n in
    let rec go k acc l = if k = 0 then (List.rev acc, l) else
        match l with x :: t -> go (k - 1) (int_of_string x :: acc) t | [] -> failwith "cps: short" in
    go n [] r

type record = {
  id : string; stream : string; hex : bool;
  mutable text : int list; mutable domain : bool; mutable digits : int list;
  mutable toks : (int * int * int * int list) list;      (* kind line col value, reversed *)
  mutable prs : (int list * BZ.t option) list;
  mutable fmt : (BZ.t * int list) list;
  mutable parse : string list;
  mutable proj : (string * string) list;
  mutable wtext : int list option;
  mutable import : string; mutable importerr : string; mutable floatconv : bool; mutable genprojeq : bool; mutable c10doc : string list option;
}

let mismatches = ref 0
let compared = ref 0
let cases = ref 0
let verbose = ref false

let show_cps (l : int list) : string =
  let b = Buffer.create 64 in
  List.iteri (fun i c -> if i < 120 then
                 if c >= 32 && c < 127 then Buffer.add_char b (Char.chr c) else Buffer.add_string b (Printf.sprintf "\\u{%x}" c)) l;
  Buffer.contents b

let mismatch r what detail =
  incr mismatches;
  Printf.printf "MISMATCH %s %s %s ## %s\n" r.id r.stream what detail

let kind_idx k = int_of_n (tkind_index k)

let first_diff (a : int list) (b : int list) : int =
  let rec go i a b = match a, b with
    | x :: a', y :: b' -> if x = y then go (i + 1) a' b' else i
    | [], [] -> -1 | _ -> i in go 0 a b

let rec drop n l = if n <= 0 then l else match l with [] -> [] | _ :: t -> drop (n - 1) t
let rec take n l = if n <= 0 then [] else match l with [] -> [] | x :: t -> x :: take (n - 1) t


(* ---- the importer's outcome class against the extracted model of the importer (coq/C10/Import.v) ---- *)
module M10 = C10_model
let rec pos10 (x : BZ.t) : M10.positive =
  if BZ.equal x BZ.one then M10.XH
  else if BZ.testbit x 0 then M10.XI (pos10 (BZ.shift_right x 1)) else M10.XO (pos10 (BZ.shift_right x 1))
let z10 (s : string) : M10.z =
  let x = BZ.of_string s in
  if BZ.sign x = 0 then M10.Z0 else if BZ.sign x > 0 then M10.Zpos (pos10 x) else M10.Zneg (pos10 (BZ.neg x))
let hexv c = match c with
  | '0'..'9' -> Char.code c - 48 | 'a'..'f' -> Char.code c - 87 | 'A'..'F' -> Char.code c - 55 | _ -> failwith "bad hex"
let chars_of_hex (h : string) : char list =
  List.init (String.length h / 2) (fun i -> Char.chr (hexv h.[2*i] * 16 + hexv h.[2*i+1]))
let rec parse_tree (ts : string list) : M10.tok * string list =
  match ts with
  | [] -> failwith "tree: unexpected end"
  | "(" :: r ->
    let rec items acc r = match r with
      | ")" :: r' -> (M10.TL (List.rev acc), r')
      | _ -> let (t, r') = parse_tree r in items (t :: acc) r' in
    items [] r
  | t :: r ->
    let body = String.sub t 1 (String.length t - 1) in
    (match t.[0] with
     | 'i' -> (M10.TI (z10 body), r)
     | 's' -> (M10.TS (chars_of_hex body), r)
     | 'f' -> (match String.split_on_char ':' body with
         | [m; e] -> (M10.TF { M10.fm = z10 m; M10.fe = z10 e }, r)
         | _ -> failwith "tree: bad float")
     | _ -> failwith ("tree: bad token " ^ t))
let string_of_chars (l : char list) = String.init (List.length l) (List.nth l)


(* the model's reason for a refusal -> the innermost cause the importer's error chain must end with *)
let kind_table : (string * string list) list = [
  "attribute default is required", ["\"attribute default\" is required"];
  "attribute value does not conform", ["invalid type"; "not found"; "out of bounds"];
  "default greater than max", ["is greater then \"max\""];
  "default lower than min", ["is lower then \"min\""];
  "enum attribute without values", ["is nil"];
  "enum value index duplicated", ["is duplicated"];
  "enum value index out of bounds", ["is negative"; "out of bounds"];
  "enum value name duplicated", ["is duplicated"];
  "extended multiplexing is required", ["\"extended multiplexing\" is required"];
  "group id out of bounds", ["out of bounds"];
  "group size not positive", ["is negative"; "is zero"];
  "group count not positive", ["is negative"; "is zero"];
  "inverted range", ["out of bounds"];
  "message name duplicated", ["is duplicated"];
  "message size too big", ["too big"];
  "min greater than max", ["is greater then \"max\""];
  "multiplexed signal ends beyond the message", ["not enough space left"];
  "multiplexor not found", ["not found"];
  "multiplexor not placed before its multiplexer", ["out of bounds"];
  "multiplexor switch is required", ["\"multiplexor switch\" is required"];
  "multiplexor switch of size zero", ["is zero"];
  "nested signal name duplicated", ["is duplicated"];
  "signal name duplicated", ["is duplicated"];
  "node name duplicated", ["is duplicated"];
  "node id duplicated", ["is duplicated"];
  "no space left", ["not enough space left"];
  "receiver node not found", ["not found"];
  "transmitter node not found", ["not found"];
  "signal size out of bounds", ["out of bounds"];
  "signal size is zero", ["is zero"];
  "start bit intersects", ["is intersecting"];
  "start bit negative", ["is negative"];
  "static CAN-ID duplicated", ["is duplicated"];
  "value description does not fit in the signal", ["too small"];
  "well-known attribute value of the wrong type", ["invalid type"];
  "byte order differs within the message", ["byte_order: should be the same for all the signals within the message"];
]
let ends_with (s : string) (suf : string) : bool =
  let n = String.length s and m = String.length suf in n >= m && String.sub s (n - m) m = suf
let imp_kind_ok = ref 0
let imp_unmapped = ref 0
let imp_kind_outside = ref 0
let gen_written = ref 0
let hex_records = ref 0
let imp_compared = ref 0
let imp_ok = ref 0
let imp_err = ref 0
let imp_reasons : (string, int) Hashtbl.t = Hashtbl.create 32

let compare_import (r : record) report =
  match r.c10doc with
  | None -> ()
  | Some toks ->
    incr imp_compared;
    let (doc, _) = parse_tree toks in
    (match M10.run_import (M10.TL [doc; M10.TL []]) with
     | M10.TL (M10.TS tag :: restt) ->
       let tag = string_of_chars tag in
       let why = match restt with M10.TS w :: _ -> string_of_chars w | _ -> "" in
       if tag = "ok" && r.import = "ok" then incr imp_ok
       else if tag = "err" && r.import = "other" then begin
         incr imp_err;
         Hashtbl.replace imp_reasons why (1 + (try Hashtbl.find imp_reasons why with Not_found -> 0));
         (match List.assoc_opt why kind_table with
          | None -> incr imp_unmapped
          | Some tails ->
            if List.exists (ends_with r.importerr) tails then incr imp_kind_ok
            else if r.floatconv then incr imp_kind_outside
              (* a float literal beyond 2^53 converted with int(float64): implementation-dependent in Go, exact in the model *)
            else report r "import-error-kind"
                (Printf.sprintf "the model of the importer refuses with [%s], ImportDBCFile with [%s]" why r.importerr))
       end else
         report r "import-class" (Printf.sprintf "ImportDBCFile: %s, model of the importer: %s %s"
                                    (if r.import = "ok" then "accepts" else "refuses") (if tag = "ok" then "accepts" else "refuses:") why)
     | _ -> report r "import-class" "the model of the importer returned no outcome")

let process (r : record) =
  incr cases;
  if r.hex && r.domain then incr hex_records;
  compare_import r mismatch;
  if r.domain then begin
    incr compared;
    let text = str_of_cps r.text in
    let ud (c : n) : bool = List.mem (int_of_n c) r.digits in
    match lex ud text with
    | None -> mismatch r "lex-fuel" "model lexer ran out of fuel"
    | Some raw ->
      (* tokens *)
      let go_toks = List.rev r.toks in
      let m_toks = List.map (fun t -> (kind_idx t.rt_kind, int_of_n t.rt_line, int_of_n t.rt_col, cps_of_str t.rt_value)) raw in
      let rec cmp i a b = match a, b with
        | [], [] -> ()
        | (k, l, c, v) :: a', (k', l', c', v') :: b' ->
          if k <> k' || l <> l' || c <> c' || (k <> 0 && v <> v') then
            mismatch r "token" (Printf.sprintf "token %d: go kind=%d %d:%d %S model kind=%d %d:%d %S" i k l c (show_cps v) k' l' c' (show_cps v'))
          else cmp (i + 1) a' b'
        | _ -> mismatch r "token" (Printf.sprintf "token count: go %d model %d" (List.length go_toks) (List.length m_toks)) in
      cmp 0 go_toks m_toks;
      (* parse *)
      let prs_tbl = Hashtbl.create 64 in
      List.iter (fun (k, v) -> Hashtbl.replace prs_tbl k v) r.prs;
      let miss = ref None in
      let prs (s : str) : n option =
        let k = cps_of_str s in
        match Hashtbl.find_opt prs_tbl k with
        | Some (Some b) -> Some (n_of_bz b)
        | Some None -> None
        | None -> miss := Some k; None in
      let out = parse_tokens prs r.hex (pfilter raw) in
      (match !miss with Some k -> mismatch r "prs-oracle-miss" (show_cps k) | None -> ());
      let m_parse = match out with
        | OOk _ -> ["ok"] | OSyntax (l, c) -> ["syn"; ns l; ns c] | OOther -> ["other"] | OOutOfFuel -> ["fuel"] in
      if m_parse <> r.parse then
        mismatch r "parse-outcome" (Printf.sprintf "go [%s] model [%s] text %S" (String.concat " " r.parse) (String.concat " " m_parse) (show_cps r.text))
      else begin
        match out with
        | OOk f ->
          let mp = project f in
          List.iter (fun s ->
              let g = try List.assoc s r.proj with Not_found -> "<missing>" in
              let m = List.assoc s mp in
              if g <> m then mismatch r ("ast-" ^ s) (Printf.sprintf "go [%s] model [%s]" g m)) sections;
          (* writer *)
          let fmiss = ref None in
          let fmt (b : n) : str =
            let k = bz_of_n b in
            match List.find_opt (fun (x, _) -> BZ.equal x k) r.fmt with
            | Some (_, t) -> str_of_cps t
            | None -> fmiss := Some k; [] in
          let wt = cps_of_str (write fmt r.hex f) in
          (match !fmiss, r.wtext with
           | Some k, _ -> mismatch r "fmt-oracle-miss" (BZ.to_string k)
           | None, None -> mismatch r "writer" "go writer panicked"
           | None, Some g ->
             if g <> wt then begin
               let i = first_diff g wt in
               mismatch r "writer" (Printf.sprintf "texts differ at code point %d: go ...%S model ...%S" i
                                      (show_cps (take 60 (drop (i - 20) g))) (show_cps (take 60 (drop (i - 20) wt))))
             end);
          (* a GENERATED document whose projection is, section by section, the projection compared above (so the
             model's image f is the model of the generated document itself): the model's writer must reproduce the
             text dbc.Write made of the generated document, which is the text of this record *)
          if r.genprojeq && !fmiss = None then begin
            incr gen_written;
            if wt <> r.text then begin
              let i = first_diff r.text wt in
              mismatch r "writer-generated" (Printf.sprintf "dbc.Write(generated document) and the model's writer differ at code point %d: go ...%S model ...%S" i
                                               (show_cps (take 60 (drop (i - 20) r.text))) (show_cps (take 60 (drop (i - 20) wt))))
            end
          end
        | _ -> ()
      end
  end

(* ---- importer loop skeleton (coq/C09/ImportSkeleton.v), records "SKEL gc n from to ... RES err|ok k ids" ---- *)
module S = C09_model
let rec spos_of_bz (x : BZ.t) : S.positive =
  if BZ.equal x BZ.one then S.XH
  else if BZ.testbit x 0 then S.XI (spos_of_bz (BZ.shift_right x 1)) else S.XO (spos_of_bz (BZ.shift_right x 1))
let sn_of_bz (x : BZ.t) : S.n = if BZ.sign x = 0 then S.N0 else S.Npos (spos_of_bz x)
let rec bz_of_spos = function
  | S.XH -> BZ.one | S.XO p -> BZ.shift_left (bz_of_spos p) 1 | S.XI p -> BZ.succ (BZ.shift_left (bz_of_spos p) 1)
let bz_of_sn = function S.N0 -> BZ.zero | S.Npos p -> bz_of_spos p

let skel_cases = ref 0
let endfile : (int * int) option ref = ref None
let endskel : (int * int) option ref = ref None
let process_skel (toks : string list) =
  incr skel_cases;
  let dummy = { id = "skel" ^ string_of_int !skel_cases; stream = "skeleton"; hex = false; text = []; domain = false; digits = [];
                toks = []; prs = []; fmt = []; parse = []; proj = []; wtext = None; import = ""; importerr = ""; floatconv = false; genprojeq = false; c10doc = None } in
  match toks with
  | gc :: n :: rest ->
    let n = int_of_string n in
    let rec take_ranges k l acc = if k = 0 then (List.rev acc, l) else
        match l with a :: b :: t -> take_ranges (k - 1) t ((sn_of_bz (BZ.of_string a), sn_of_bz (BZ.of_string b)) :: acc)
                   | _ -> failwith "bad SKEL" in
    let (ranges, after) = take_ranges n rest [] in
    let model = match S.expand_signal ranges (sn_of_bz (BZ.of_string gc)) with
      | S.XOk (_, ids) ->
        let l = List.sort compare (List.map (fun x -> BZ.to_int (bz_of_sn x)) ids) in
        "ok " ^ String.concat " " (List.map string_of_int (List.length l :: l))
      | S.XErr _ -> "err"
      | S.XFuel -> "fuel" in
    let go = match after with "RES" :: r -> String.concat " " r | _ -> "?" in
    if go <> model then mismatch dummy "skeleton" (Printf.sprintf "ranges [%s] groupCount %s: go [%s] model [%s]" (String.concat " " (take (2 * n) rest)) gc go model)
  | _ -> failwith "bad SKEL"

(* ---- static tables ---- *)
let check_tables (kws : (int * int list) list) (puncts : (int * int) list) (newsyms : int list list) (access : (int * int list) list) =
  let dummy = { id = "tables"; stream = "tables"; hex = false; text = []; domain = false; digits = []; toks = []; prs = []; fmt = [];
                parse = []; proj = []; wtext = None; import = ""; importerr = ""; floatconv = false; genprojeq = false; c10doc = None } in
  let m_kws = List.sort compare (List.map (fun (s, k) -> (int_of_n (keyword_index k), cps_of_str s)) keyword_table) in
  if List.sort compare kws <> m_kws then mismatch dummy "table-keywords" "keyword table differs";
  let m_p = List.mapi (fun i c -> (i, int_of_n c)) punct_chars in
  if List.sort compare puncts <> List.sort compare m_p then mismatch dummy "table-punct" "punctuation table differs";
  if newsyms <> List.map cps_of_str new_symbols_values then mismatch dummy "table-newsymbols" "new symbol list differs";
  let m_a = List.mapi (fun i s -> (i, cps_of_str s)) access_names in
  if List.sort compare access <> List.sort compare m_a then mismatch dummy "table-access" "env var access type table differs"

let () =
  let path = Sys.argv.(1) in
  if Array.length Sys.argv > 2 && Sys.argv.(2) = "-v" then verbose := true;
  let ic = open_in path in
  let cur : record option ref = ref None in
  let kws = ref [] and puncts = ref [] and newsyms = ref [] and access = ref [] in
  (try while true do
      let line = input_line ic in
      let sp = try String.index line ' ' with Not_found -> String.length line in
      let tag = String.sub line 0 sp in
      let rest () = split_ws (String.sub line sp (String.length line - sp)) in
      match tag, !cur with
      | "KEYWORD", _ -> (match rest () with k :: r -> kws := (int_of_string k, fst (take_cps r)) :: !kws | _ -> ())
      | "PUNCT", _ -> (match rest () with [k; c] -> puncts := (int_of_string k, int_of_string c) :: !puncts | _ -> ())
      | "NEWSYM", _ -> newsyms := fst (take_cps (rest ())) :: !newsyms
      | "ACCESS", _ -> (match rest () with k :: r -> access := (int_of_string k, fst (take_cps r)) :: !access | _ -> ())
      | "ENDTABLES", _ -> check_tables !kws !puncts (List.rev !newsyms) !access
      | "SKEL", _ -> process_skel (rest ())
      | "ENDFILE", _ -> (match rest () with [n] -> endfile := Some (int_of_string n, !cases) | _ -> ())
      | "ENDSKEL", _ -> (match rest () with [n] -> endskel := Some (int_of_string n, !skel_cases) | _ -> ())
      | "LAWFAIL", Some r -> mismatch r "oracle-law" (String.concat " " (rest ()))
      | "CASE", _ ->
        (match rest () with
         | [id; stream; hex] ->
           cur := Some { id; stream; hex = (hex = "1"); text = []; domain = false; digits = []; toks = []; prs = []; fmt = [];
                         parse = []; proj = []; wtext = None; import = ""; importerr = ""; floatconv = false; genprojeq = false; c10doc = None }
         | _ -> failwith "bad CASE")
      | "TEXT", Some r -> r.text <- fst (take_cps (rest ()))
      | "DOMAIN", Some r -> r.domain <- (rest () = ["1"])
      | "DIGITS", Some r -> r.digits <- fst (take_cps (rest ()))
      | "TOK", Some r ->
        (match rest () with
         | k :: l :: c :: v -> r.toks <- (int_of_string k, int_of_string l, int_of_string c, fst (take_cps v)) :: r.toks
         | _ -> failwith "bad TOK")
      | "PRS", Some r ->
        let (k, after) = take_cps (rest ()) in
        (match after with
         | ["ok"; b] -> r.prs <- (k, Some (BZ.of_string b)) :: r.prs
         | ["err"] -> r.prs <- (k, None) :: r.prs
         | _ -> failwith "bad PRS")
      | "FMT", Some r ->
        (match rest () with b :: v -> r.fmt <- (BZ.of_string b, fst (take_cps v)) :: r.fmt | _ -> failwith "bad FMT")
      | "PARSE", Some r -> r.parse <- rest ()
      | "WTEXT", Some r -> r.wtext <- Some (fst (take_cps (rest ())))
      | "WPANIC", Some _ -> ()
      | "IMPORT", Some r -> (match rest () with [c] -> r.import <- c | _ -> ())
      | "IMPORTERR", Some r -> r.importerr <- String.trim (String.sub line sp (String.length line - sp))
      | "GENPROJEQ", Some r -> r.genprojeq <- (rest () = ["1"])
      | "GENFMT", Some r ->
        (match rest () with b :: v -> r.fmt <- (BZ.of_string b, fst (take_cps v)) :: r.fmt | _ -> failwith "bad GENFMT")
      | "C10FLOATCONV", Some r -> r.floatconv <- true
      | "C10DOC", Some r -> r.c10doc <- Some (rest ())
      | "END", Some r -> process r; cur := None
      | _, Some r when String.length tag > 2 && String.sub tag 0 2 = "P." ->
        let s = String.sub tag 2 (String.length tag - 2) in
        r.proj <- (s, String.trim (String.sub line sp (String.length line - sp))) :: r.proj
      | _ -> ()   (* extra lines (IMPORT ..., ORIG ...) are for the python side *)
    done with End_of_file -> ());
  Printf.printf "SKELETON %d\n" !skel_cases;
  (* the harness closes its files with the number of records it wrote: a truncated file has no marker,
     a reader that lost records disagrees with it *)
  (match !endfile with
   | None -> Printf.printf "ENDMARK missing\n"
   | Some (n, seen) -> Printf.printf "ENDMARK %s %d %d\n" (if n = seen && n = !cases then "ok" else "mismatch") n !cases);
  (match !endskel with
   | None -> Printf.printf "SKELMARK missing\n"
   | Some (n, seen) -> Printf.printf "SKELMARK %s %d %d\n" (if n = seen && n = !skel_cases then "ok" else "mismatch") n !skel_cases);
  Printf.printf "GENWRITTEN %d\n" !gen_written;
  Printf.printf "HEXRECORDS %d\n" !hex_records;
  Printf.printf "IMPORTCMP %d OK %d ERR %d KINDOK %d UNMAPPED %d KINDOUTSIDE %d\n" !imp_compared !imp_ok !imp_err !imp_kind_ok !imp_unmapped !imp_kind_outside;
  Hashtbl.iter (fun w n -> Printf.printf "IMPORTERR %d %s\n" n w) imp_reasons;
  Printf.printf "CASES %d COMPARED %d MISMATCHES %d\n" !cases !compared !mismatches
