package main

import (
	"math"

	"github.com/squadracorsepolito/acmelib/dbc"
)

// SplitMix64: every random choice of the harness derives from VERIF_SEED.
type rng struct{ s uint64 }

func (r *rng) next() uint64 {
	r.s += 0x9E3779B97F4A7C15
	z := r.s
	z = (z ^ (z >> 30)) * 0xBF58476D1CE4E5B9
	z = (z ^ (z >> 27)) * 0x94D049BB133111EB
	return z ^ (z >> 31)
}
func (r *rng) n(k int) int       { return int(r.next() % uint64(k)) }
func (r *rng) chance(p int) bool { return r.n(100) < p }

// ---- identifiers of the expressible grammar: [A-Za-z][A-Za-z0-9_-]*, not a keyword, not of
// mux-indicator shape ("M"; 'm' followed by digits, with 'M's allowed once a digit was seen) ----

var keywordSet = func() map[string]bool {
	ks, _ := dbc.VerifKeywords()
	m := map[string]bool{}
	for _, k := range ks {
		m[k] = true
	}
	return m
}()

func isMuxShape(s string) bool {
	if s == "M" {
		return true
	}
	if len(s) < 2 || s[0] != 'm' {
		return false
	}
	found := false
	for i := 1; i < len(s); i++ {
		c := s[i]
		if c >= '0' && c <= '9' {
			found = true
		} else if !(found && c == 'M') {
			return false
		}
	}
	return true
}

func expressibleIdent(s string) bool {
	if s == "" {
		return false
	}
	c := s[0]
	if !(c >= 'a' && c <= 'z' || c >= 'A' && c <= 'Z') {
		return false
	}
	for i := 1; i < len(s); i++ {
		c := s[i]
		if !(c >= 'a' && c <= 'z' || c >= 'A' && c <= 'Z' || c >= '0' && c <= '9' || c == '_' || c == '-') {
			return false
		}
	}
	return !keywordSet[s] && !isMuxShape(s)
}

// identifiers that sit next to the lexer's special cases
var trickyIdents = []string{
	"m", "mM", "Mx", "M1", "M_", "m1x", "m_1", "m1_", "mx1", "m1Mx", "mM1", "MM", "m-1",
	"VERSIONx", "BU_x", "BO_1", "SG", "SG_x", "INTx", "INT_", "HEXA", "FLOAT1", "ENUM_", "STRINGS", "NS_DESC_",
	"e10", "E10", "e", "E", "x", "X", "x1", "e-1", "a-b", "a-", "a--b", "a_", "a-1", "Z9", "z-9-", "x0x1",
	"Vector__XXX", "DUMMY_NODE_VECTOR0", "DUMMY_NODE_VECTOR9", "FILTER", "CAT_", "EV_DATA_", "BA_DEF_REL_",
	"a0123456789", "A_very_long_identifier_with_many_characters_0123456789_and-dashes-",
}

const identFirst = "abcdefghijklmnopqrstuvwxyzABCDEFGHIJKLMNOPQRSTUVWXYZ"
const identRest = identFirst + "0123456789__--"

func (r *rng) ident() string {
	for {
		var s string
		if r.chance(30) {
			s = trickyIdents[r.n(len(trickyIdents))]
		} else {
			n := 1 + r.n(10)
			b := make([]byte, n)
			b[0] = identFirst[r.n(len(identFirst))]
			for i := 1; i < n; i++ {
				b[i] = identRest[r.n(len(identRest))]
			}
			s = string(b)
		}
		if expressibleIdent(s) {
			return s
		}
	}
}

func (r *rng) idents(min, max int) []string {
	n := min + r.n(max-min+1)
	out := make([]string, n)
	for i := range out {
		out[i] = r.ident()
	}
	return out
}

// ---- strings: no '"', no NUL, valid UTF-8 ----
var trickyStrings = []string{
	"", " ", "a b", "°C", "string 🚀", "�", "tab\there", "line\nbreak", "cr\rlf", "semi;colon", "// no comment",
	"BO_ 1 x : 8 y", "'single'", "\\", "\\n", "%s %d", "0x1F", "-1e-9", "VERSION", ":", "m1M", "𝟘𝟙", "٣", "é́",
	"long long long long long long long long long long long long long long long long long long string",
	"a\r\nb", "\r\n", "line1\r\nline2\r\n", "\n\r", "trailing  ", "  leading", "tab\t", "\ttab", "back\\slash", "a\\", "100%", "%!", "%%",
	"\u2028", "\ufeff", "\u0085", "e\u0301",
}

func (r *rng) str() string {
	if r.chance(40) {
		return trickyStrings[r.n(len(trickyStrings))]
	}
	n := r.n(12)
	rs := make([]rune, 0, n)
	for i := 0; i < n; i++ {
		var c rune
		switch r.n(6) {
		case 0:
			c = rune(1 + r.n(127))
		case 1:
			c = rune(0x80 + r.n(0x780))
		case 2:
			c = rune(0x800 + r.n(0xF000))
		case 3:
			c = rune(0x10000 + r.n(0x10000))
		default:
			c = rune(32 + r.n(95))
		}
		if c == '"' || c == 0 || (c >= 0xD800 && c <= 0xDFFF) {
			c = '_'
		}
		rs = append(rs, c)
	}
	return string(rs)
}

// attribute names in BA_DEF_ / BA_DEF_DEF_ must not contain ' ', '\t', '\n'
func (r *rng) attrName() string {
	if r.chance(25) {
		names := []string{dbc.MsgCycleTimeName, dbc.MsgDelayTimeName, dbc.MsgStartDelayTimeName, dbc.MsgSendTypeName,
			dbc.SigStartValueName, dbc.SigSendTypeName, "BusType", "a\rb", "x°", ""}
		return names[r.n(len(names))]
	}
	s := []rune(r.str())
	for i, c := range s {
		if c == ' ' || c == '\t' || c == '\n' {
			s[i] = '_'
		}
	}
	return string(s)
}

var u32Pool = []uint32{0, 1, 2, 7, 8, 9, 10, 63, 64, 255, 256, 1000, 65535, 65536, 1<<31 - 1, 1 << 31, 1<<32 - 2, 1<<32 - 1, 2047, 2048, 0x1FFFFFFF, 0x80000001, 4294967290, 1000000000, 999999999}

func (r *rng) u32() uint32 {
	if r.chance(60) {
		return u32Pool[r.n(len(u32Pool))]
	}
	return uint32(r.next())
}

var i64Pool = []int64{0, 1, -1, 9, 10, -10, 255, -256, 1<<31 - 1, -(1 << 31), 1 << 31, 1 << 32, 1<<53 + 1, math.MaxInt64, math.MinInt64, math.MaxInt64 - 1, math.MinInt64 + 1, 1000000000000000000, -999999999999999999}

func (r *rng) i64() int {
	if r.chance(60) {
		return int(i64Pool[r.n(len(i64Pool))])
	}
	return int(int64(r.next()) >> uint(r.n(64)))
}

var f64Pool = []float64{0, math.Copysign(0, -1), 1, -1, 0.5, -0.5, 0.1, 1.0 / 3, 1e-7, 1e-5, 123456.789, 1e6, 1e15, 1e21, 1e22, 1e300, -1e300,
	5e-324, 2.2250738585072014e-308, math.MaxFloat64, -math.MaxFloat64, 9007199254740992, 9007199254740993, 9223372036854775807,
	9223372036854775808, -9223372036854775808, -9223372036854777856, 18446744073709551616, 4294967295, 4294967296, 0.001, 100, 3600000, 0.000001, 1e-300, 255.5}

func (r *rng) f64() float64 {
	if r.chance(70) {
		return f64Pool[r.n(len(f64Pool))]
	}
	for {
		x := math.Float64frombits(r.next())
		if !math.IsNaN(x) && !math.IsInf(x, 0) {
			return x
		}
	}
}

func (r *rng) valDescs() []*dbc.ValueDescription {
	n := r.n(4)
	out := make([]*dbc.ValueDescription, n)
	for i := range out {
		out[i] = &dbc.ValueDescription{ID: r.u32(), Name: r.str()}
	}
	return out
}

func (r *rng) byteOrder() dbc.SignalByteOrder {
	if r.chance(50) {
		return dbc.SignalBigEndian
	}
	return dbc.SignalLittleEndian
}
func (r *rng) valueType() dbc.SignalValueType {
	if r.chance(50) {
		return dbc.SignalSigned
	}
	return dbc.SignalUnsigned
}

func (r *rng) signal() *dbc.Signal {
	s := &dbc.Signal{Name: r.ident(), StartBit: r.u32(), Size: r.u32(), ByteOrder: r.byteOrder(), ValueType: r.valueType(),
		Factor: r.f64(), Offset: r.f64(), Min: r.f64(), Max: r.f64(), Unit: r.str(), Receivers: r.idents(1, 3)}
	switch r.n(5) {
	case 0:
		s.IsMultiplexor = true
	case 1:
		s.IsMultiplexed = true
		s.MuxSwitchValue = r.u32()
	case 2:
		s.IsMultiplexor, s.IsMultiplexed = true, true
		s.MuxSwitchValue = r.u32()
	case 3:
		s.MuxSwitchValue = r.u32() // dead field: not multiplexed
	}
	return s
}

// sectionMask selects the sections a generated document has (bit i = dbccase.Sections[i], from VT on).
func (r *rng) file(mask uint32, maxEntries int) *dbc.File {
	f := &dbc.File{}
	has := func(i int) bool { return mask&(1<<uint(i)) != 0 }
	cnt := func() int { return 1 + r.n(maxEntries) }
	if has(0) {
		vs := []string{"", "_", "1.0", "created by x", r.str()}
		f.Version = vs[r.n(len(vs))]
	}
	if has(1) {
		all := dbc.VerifNewSymbols()
		ns := &dbc.NewSymbols{}
		switch r.n(4) {
		case 0:
		case 1:
			ns.Symbols = all
		default:
			for i := r.n(8); i > 0; i-- {
				ns.Symbols = append(ns.Symbols, all[r.n(len(all))])
			}
		}
		f.NewSymbols = ns
	}
	if has(2) {
		switch r.n(4) {
		case 0:
			f.BitTiming = &dbc.BitTiming{}
		case 1:
			f.BitTiming = &dbc.BitTiming{Baudrate: 0, BitTimingReg1: r.u32(), BitTimingReg2: r.u32()}
		default:
			f.BitTiming = &dbc.BitTiming{Baudrate: r.u32(), BitTimingReg1: r.u32(), BitTimingReg2: r.u32()}
		}
	}
	if has(3) {
		f.Nodes = &dbc.Nodes{Names: r.idents(0, 4)}
	}
	if has(4) {
		for i := cnt(); i > 0; i-- {
			f.ValueTables = append(f.ValueTables, &dbc.ValueTable{Name: r.ident(), Values: r.valDescs()})
		}
	}
	if has(5) {
		for i := cnt(); i > 0; i-- {
			m := &dbc.Message{ID: r.u32(), Name: r.ident(), Size: r.u32(), Transmitter: r.ident()}
			for j := r.n(4); j > 0; j-- {
				m.Signals = append(m.Signals, r.signal())
			}
			f.Messages = append(f.Messages, m)
		}
	}
	if has(6) {
		for i := cnt(); i > 0; i-- {
			f.MessageTransmitters = append(f.MessageTransmitters, &dbc.MessageTransmitter{MessageID: r.u32(), Transmitters: r.idents(0, 3)})
		}
	}
	if has(7) {
		for i := cnt(); i > 0; i-- {
			f.EnvVars = append(f.EnvVars, &dbc.EnvVar{Name: r.ident(), Type: dbc.EnvVarType(r.n(3)), Min: r.f64(), Max: r.f64(), Unit: r.str(),
				InitialValue: r.f64(), ID: r.u32(), AccessType: dbc.EnvVarAccessType(r.n(8)), AccessNodes: r.idents(1, 3)})
		}
	}
	if has(8) {
		for i := cnt(); i > 0; i-- {
			f.EnvVarDatas = append(f.EnvVarDatas, &dbc.EnvVarData{EnvVarName: r.ident(), DataSize: r.u32()})
		}
	}
	if has(9) {
		for i := cnt(); i > 0; i-- {
			f.SignalTypes = append(f.SignalTypes, &dbc.SignalType{TypeName: r.ident(), Size: r.u32(), ByteOrder: r.byteOrder(), ValueType: r.valueType(),
				Factor: r.f64(), Offset: r.f64(), Min: r.f64(), Max: r.f64(), Unit: r.str(), DefaultValue: r.f64(), ValueTableName: r.ident()})
		}
	}
	if has(10) {
		for i := cnt(); i > 0; i-- {
			c := &dbc.Comment{Kind: dbc.CommentKind(r.n(5)), Text: r.str()}
			// live fields for the kind; the others get junk the writer must ignore
			c.NodeName, c.SignalName, c.EnvVarName, c.MessageID = r.ident(), r.ident(), r.ident(), r.u32()
			f.Comments = append(f.Comments, c)
		}
	}
	if has(11) {
		for i := cnt(); i > 0; i-- {
			a := &dbc.Attribute{Kind: dbc.AttributeKind(r.n(5)), Type: dbc.AttributeType(r.n(5)), Name: r.attrName()}
			a.MinInt, a.MaxInt, a.MinHex, a.MaxHex, a.MinFloat, a.MaxFloat = r.i64(), r.i64(), r.u32(), r.u32(), r.f64(), r.f64()
			for j := r.n(4); j > 0; j-- {
				a.EnumValues = append(a.EnumValues, r.str())
			}
			f.Attributes = append(f.Attributes, a)
		}
	}
	if has(12) {
		for i := cnt(); i > 0; i-- {
			f.AttributeDefaults = append(f.AttributeDefaults, &dbc.AttributeDefault{Type: dbc.AttributeDefaultType(r.n(4)), AttributeName: r.attrName(),
				ValueString: r.str(), ValueInt: r.i64(), ValueHex: r.u32(), ValueFloat: r.f64()})
		}
	}
	if has(13) {
		for i := cnt(); i > 0; i-- {
			f.AttributeValues = append(f.AttributeValues, &dbc.AttributeValue{AttributeKind: dbc.AttributeKind(r.n(5)), Type: dbc.AttributeValueType(r.n(4)),
				AttributeName: r.str(), NodeName: r.ident(), MessageID: r.u32(), SignalName: r.ident(), EnvVarName: r.ident(),
				ValueString: r.str(), ValueInt: r.i64(), ValueHex: r.u32(), ValueFloat: r.f64()})
		}
	}
	if has(14) {
		for i := cnt(); i > 0; i-- {
			f.ValueEncodings = append(f.ValueEncodings, &dbc.ValueEncoding{Kind: dbc.ValueEncodingKind(r.n(2)), MessageID: r.u32(), SignalName: r.ident(),
				EnvVarName: r.ident(), Values: r.valDescs()})
		}
	}
	if has(15) {
		for i := cnt(); i > 0; i-- {
			f.SignalTypeRefs = append(f.SignalTypeRefs, &dbc.SignalTypeRef{TypeName: r.ident(), MessageID: r.u32(), SignalName: r.ident()})
		}
	}
	if has(16) {
		for i := cnt(); i > 0; i-- {
			f.SignalGroups = append(f.SignalGroups, &dbc.SignalGroup{MessageID: r.u32(), GroupName: r.ident(), Repetitions: r.u32(), SignalNames: r.idents(0, 3)})
		}
	}
	if has(17) {
		for i := cnt(); i > 0; i-- {
			f.SignalExtValueTypes = append(f.SignalExtValueTypes, &dbc.SignalExtValueType{MessageID: r.u32(), SignalName: r.ident(), ExtValueType: dbc.SignalExtValueTypeType(r.n(3))})
		}
	}
	if has(18) {
		for i := cnt(); i > 0; i-- {
			x := &dbc.ExtendedMux{MessageID: r.u32(), MultiplexorName: r.ident(), MultiplexedName: r.ident()}
			for j := 1 + r.n(3); j > 0; j-- {
				x.Ranges = append(x.Ranges, &dbc.ExtendedMuxRange{From: r.u32(), To: r.u32()})
			}
			f.ExtendedMuxes = append(f.ExtendedMuxes, x)
		}
	}
	return f
}

// ---- texts with irregular spacing: re-render the tokens of a text with random blanks ----
func (r *rng) blanks() string {
	opts := []string{" ", "  ", "\t", "\n", "\r\n", " \t ", "\n\n", "   ", "\t\t"}
	return opts[r.n(len(opts))]
}

// respace re-joins the tokens of text with random blanks; where the original had no blank
// between two tokens none is inserted with probability 1/2 (so "0|8@1+" keeps its tight forms).
func (r *rng) respace(text []byte) []byte {
	toks := dbc.VerifScanAll(text)
	var out []byte
	prevSpace := true
	for i, t := range toks {
		switch t.Kind {
		case 1: // eof
		case 2:
			out = append(out, r.blanks()...)
			prevSpace = true
			continue
		case 7:
			if !prevSpace && r.chance(50) {
				out = append(out, r.blanks()...)
			}
			out = append(out, '"')
			out = append(out, t.Value...)
			out = append(out, '"')
		default:
			// a blank may be added before punctuation or after punctuation, never inside number@/ranges
			if !prevSpace && i > 0 && (t.Kind == 9 || toks[i-1].Kind == 9) && r.chance(40) {
				out = append(out, r.blanks()...)
			}
			out = append(out, t.Value...)
		}
		prevSpace = false
	}
	return out
}
