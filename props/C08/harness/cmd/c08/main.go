// C08 harness: generated documents -> dbc.Write -> dbc.Parse (both number modes) and accepted
// texts -> dbc.Parse -> dbc.Write -> dbc.Parse, with the document equivalence of the property
// evaluated on the implementation's own results (PROPFAIL lines in the summary), and one record
// per text for the OCaml model driver (lexer tokens, parse outcome, document, writer text).
//
//	c08 run    -seed N -tier quick|thorough -out DIR
//	c08 replay -file replay.json -out DIR           (one case, verbose)
package main

import (
	"bufio"
	"encoding/json"
	"flag"
	"fmt"
	"math"
	"os"
	"path/filepath"
	"sort"
	"strconv"
	"strings"

	"verif/c08/dbccase"

	"github.com/squadracorsepolito/acmelib/dbc"
)

type failure struct {
	Sig    string    `json:"signature"`
	Detail string    `json:"detail"`
	Stream string    `json:"stream"`
	Hex    bool      `json:"hex"`
	Text   string    `json:"text,omitempty"`     // accepted-text stream: the input text
	Doc    *dbc.File `json:"document,omitempty"` // document stream: the generated document
	size   int
}

type state struct {
	w        *bufio.Writer
	nextID   int
	hist     map[string]int
	fails    map[string]*failure
	nontriv  map[string]bool
	normdiff map[string]int // what the equivalence had to identify, counted
	samples  []string
	accepted int
	texts    int
}

var sectionKeywords = map[string]bool{"VERSION": true, "NS_": true, "BS_": true, "BU_": true, "VAL_TABLE_": true, "BO_": true,
	"BO_TX_BU_": true, "EV_": true, "ENVVAR_DATA_": true, "SGTYPE_": true, "CM_": true, "BA_DEF_": true, "BA_DEF_DEF_": true,
	"BA_": true, "VAL_": true, "SIG_GROUP_": true, "SIG_VALTYPE_": true, "SG_MUL_VAL_": true}

// sectionAt names the section keyword that starts the line of (or precedes) the error position.
func sectionAt(text []byte, line, col int) string {
	last := "start"
	for _, t := range dbc.VerifScanAll(text) {
		if t.Line > line || (t.Line == line && t.Col > col) {
			break
		}
		if t.Kind == 8 && sectionKeywords[t.Value] && t.Col == 1 {
			last = t.Value
		}
	}
	return last
}

func (st *state) fail(f *failure) {
	if old, ok := st.fails[f.Sig]; !ok || f.size < old.size {
		st.fails[f.Sig] = f
	}
}

func nonEmptySections(f *dbc.File) int {
	p := dbccase.Project(f)
	n := 0
	for _, s := range dbccase.Sections {
		if v := p[s]; v != "0" && v != "none" && v != "s0" {
			n++
		}
	}
	return n
}

// checkDoc: property part 1 on one document and one number mode. Returns the writer's text.
func (st *state) checkDoc(doc *dbc.File, hex bool, emit bool) []byte {
	st.hist[fmt.Sprintf("doc-hex%v", hex)]++
	text, pan := dbccase.WriteSafe(doc, hex)
	if pan != "" {
		st.fail(&failure{Sig: "c08-panic-write", Detail: pan, Stream: "doc", Hex: hex, Doc: doc, size: 0})
		return nil
	}
	o := dbccase.ParseSafe("doc.dbc", text, hex)
	switch o.Class {
	case "panic":
		st.fail(&failure{Sig: "c08-panic-parse", Detail: o.Panic, Stream: "doc", Hex: hex, Doc: doc, Text: string(text), size: len(text)})
	case "syn", "other":
		sec := "other"
		if o.Class == "syn" {
			sec = sectionAt(text, o.Line, o.Col)
		}
		st.fail(&failure{Sig: "c08-write-parse-rejected-" + sec, Detail: "the parser rejects the writer's text: " + o.Err.Error(),
			Stream: "doc", Hex: hex, Doc: doc, Text: string(text), size: len(text)})
	case "ok":
		if d := dbccase.Equivalent(doc, o.File); len(d) > 0 {
			st.fail(&failure{Sig: "c08-write-parse-differs-" + strings.Join(d, "+"), Detail: "parse(write(doc)) is not equivalent to doc in section(s) " + strings.Join(d, ","),
				Stream: "doc", Hex: hex, Doc: doc, Text: string(text), size: len(text)})
		}
		st.exactDiff(doc, o.File, "doc", hex, string(text), doc)
		if nonEmptySections(doc) >= 5 {
			st.nontriv[string(text)] = true
		}
	}
	if emit {
		st.emitExtra("doc", hex, text, o, genExtra(doc, o, text))
	}
	return text
}

// genExtra: the GENERATED document itself for the model side (not only the parser's image of its text):
// GENPROJEQ 1 when its projection equals the projection of parse(write(doc)) section by section (then the
// model's writer applied to the model's image must reproduce the text dbc.Write made of the generated
// document); GENAST, the generated document as a Gallina term, for the vm_compute comparison
// write(model of doc) = dbc.Write(doc) of the thorough tier; GENFMT, strconv's text of its floats.
func genExtra(doc *dbc.File, o dbccase.Outcome, text []byte) []string {
	extra := []string{}
	if o.Class == "ok" && o.File != nil {
		pd, pi := dbccase.Project(doc), dbccase.Project(o.File)
		eq := 1
		for _, s := range dbccase.Sections {
			if pd[s] != pi[s] {
				eq = 0
			}
		}
		extra = append(extra, fmt.Sprintf("GENPROJEQ %d", eq))
	}
	if len(text) <= 2500 {
		seen := map[uint64]bool{}
		for _, x := range dbccase.Floats(doc) {
			b := math.Float64bits(x)
			if !seen[b] {
				seen[b] = true
				extra = append(extra, fmt.Sprintf("GENFMT %d %s", b, dbccase.CpsLine([]byte(strconv.FormatFloat(x, 'f', -1, 64)))))
			}
		}
		extra = append(extra, "GENAST "+dbccase.CoqFile(doc))
	}
	return extra
}

// checkText: property part 2 on one text (any text; only accepted ones are subject to it).
func (st *state) checkText(stream string, text []byte, hex bool, emit bool) {
	st.hist[stream]++
	st.texts++
	o := dbccase.ParseSafe("text.dbc", text, hex)
	if emit {
		st.emit(stream, hex, text, o)
	}
	switch o.Class {
	case "panic":
		st.fail(&failure{Sig: "c08-panic-parse", Detail: o.Panic, Stream: stream, Hex: hex, Text: string(text), size: len(text)})
		return
	case "ok":
	default:
		return
	}
	st.accepted++
	t2, pan := dbccase.WriteSafe(o.File, hex)
	if pan != "" {
		st.fail(&failure{Sig: "c08-panic-write", Detail: pan, Stream: stream, Hex: hex, Text: string(text), size: len(text)})
		return
	}
	o2 := dbccase.ParseSafe("text2.dbc", t2, hex)
	switch o2.Class {
	case "panic":
		st.fail(&failure{Sig: "c08-panic-parse", Detail: o2.Panic, Stream: stream, Hex: hex, Text: string(text), size: len(text)})
	case "syn", "other":
		sec := "other"
		if o2.Class == "syn" {
			sec = sectionAt(t2, o2.Line, o2.Col)
		}
		st.fail(&failure{Sig: "c08-pwp-rejected-" + sec, Detail: "parse accepts the text, but rejects write(parse(text)): " + o2.Err.Error(),
			Stream: stream, Hex: hex, Text: string(text), size: len(text)})
	case "ok":
		if d := dbccase.Equivalent(o.File, o2.File); len(d) > 0 {
			st.fail(&failure{Sig: "c08-pwp-differs-" + strings.Join(d, "+"), Detail: "parse(write(parse(text))) differs from parse(text) in section(s) " + strings.Join(d, ","),
				Stream: stream, Hex: hex, Text: string(text), size: len(text)})
		}
		st.exactDiff(o.File, o2.File, stream, hex, string(text), nil)
		if len(dbc.VerifScanAll(text)) >= 20 {
			st.nontriv[string(text)] = true
		}
	}
}

// exactDiff looks at what the equivalence identified: header defaults for absent sections and the
// literal form of numeric attribute values are counted (property: "compared by value"; the writer
// completes the mandatory header); an EMPTY VERSION that comes back as "_" is a value the parser
// understood and the writer altered: reported.
func (st *state) exactDiff(a, b *dbc.File, stream string, hex bool, text string, doc *dbc.File) {
	pa, pb := dbccase.Project(a), dbccase.Project(b)
	for _, s := range dbccase.Sections {
		if pa[s] != pb[s] {
			st.normdiff[s]++
		}
	}
	if a.Version == "" && b.Version == "_" {
		st.fail(&failure{Sig: "c08-exact-version-empty-becomes-underscore",
			Detail: "the empty version string comes back as \"_\" after write and parse (writer.go:82-85 replaces it)",
			Stream: stream, Hex: hex, Text: text, Doc: doc, size: len(text)})
	}
}

func (st *state) emit(stream string, hex bool, text []byte, o dbccase.Outcome) {
	st.emitExtra(stream, hex, text, o, nil)
}

func (st *state) emitExtra(stream string, hex bool, text []byte, o dbccase.Outcome, extra []string) {
	dbccase.EmitCase(st.w, st.nextID, stream, hex, text, o, extra)
	if len(st.samples) < 4 && st.nextID%97 == 3 {
		s := string(text)
		if len(s) > 300 {
			s = s[:300] + "..."
		}
		st.samples = append(st.samples, fmt.Sprintf("%s hex=%v: %q", stream, hex, s))
	}
	st.nextID++
}

// zeroPad prefixes every all-digit number token of the text with zeros.
func zeroPad(text []byte, zeros string) ([]byte, int) {
	var b strings.Builder
	n := 0
	for _, t := range dbc.VerifScanAll(text) {
		switch {
		case t.Kind == 1:
			b.WriteString(t.Value) // a NUL character is an end-of-input token with text: keep it
		case t.Kind == 7:
			b.WriteString(`"` + t.Value + `"`)
		case t.Kind == 4 && t.Value != "" && strings.Trim(t.Value, "0123456789") == "":
			b.WriteString(zeros + t.Value)
			n++
		default:
			b.WriteString(t.Value)
		}
	}
	return []byte(b.String()), n
}

// checkZeroPad: a metamorphic form of "numbers are read in decimal" evaluated on the
// implementation alone: padding the unsigned number tokens of an accepted text with zeros must
// not change the parsed document (DBC has no octal notation; strconv base 10).
func (st *state) checkZeroPad(text []byte) {
	o := dbccase.ParseSafe("text.dbc", text, false)
	if o.Class != "ok" {
		return
	}
	for _, zeros := range []string{"0", "00"} {
		padded, n := zeroPad(text, zeros)
		if n == 0 {
			return
		}
		st.hist["zero-padded"]++
		o2 := dbccase.ParseSafe("padded.dbc", padded, false)
		switch o2.Class {
		case "panic":
			st.fail(&failure{Sig: "c08-panic-parse", Detail: o2.Panic, Stream: "zero-padded", Text: string(padded), size: len(padded)})
		case "syn", "other":
			st.fail(&failure{Sig: "c08-zero-padded-number-rejected", Detail: "an accepted text is rejected once its numbers are zero padded: " + o2.Err.Error(),
				Stream: "zero-padded", Text: string(padded), size: len(padded)})
		case "ok":
			pa, pb := dbccase.Project(o.File), dbccase.Project(o2.File)
			var d []string
			for _, s := range dbccase.Sections {
				if pa[s] != pb[s] {
					d = append(d, s)
				}
			}
			if len(d) > 0 {
				st.fail(&failure{Sig: "c08-zero-padded-number-read-differently-" + strings.Join(d, "+"),
					Detail: "zero padding the numbers of an accepted text changes the parsed document (numbers are not read in decimal) in section(s) " + strings.Join(d, ","),
					Stream: "zero-padded", Text: string(padded), size: len(padded)})
			}
			st.emit("zero-padded", false, padded, o2)
		}
	}
}

// ---- token-level mutations of a text ----
func mutate(r *rng, text []byte) []byte {
	toks := dbc.VerifScanAll(text)
	if len(toks) < 3 {
		return text
	}
	// raw pieces: re-render tokens as they were
	piece := func(t dbc.VerifToken) string {
		if t.Kind == 7 {
			return `"` + t.Value + `"`
		}
		return t.Value
	}
	n := len(toks) - 1 // without the final eof
	i := r.n(n)
	for toks[i].Kind == 2 && r.chance(90) {
		i = r.n(n)
	}
	var b strings.Builder
	repl := []string{"0", "1", "-1", "1.5", "4294967296", "0x1F", "1e3", "x", "M", "m3", "m3M", `"s"`, `""`, ";", ":", ",", "|", "@", "+", "-", "(", ")",
		"[", "]", "BO_", "SG_", "BU_", "EV_", "INT", "STRING", "1-2", "Vector__XXX", "\x00", "\t", "\n", "#", "1e999", "-1e309", "1e-999", "18446744073709551616", "-9223372036854775809"}
	op := r.n(4)
	for j := 0; j < n; j++ {
		switch {
		case j == i && op == 0: // delete
		case j == i && op == 1: // duplicate
			b.WriteString(piece(toks[j]))
			b.WriteString(" ")
			b.WriteString(piece(toks[j]))
		case j == i && op == 2: // replace
			b.WriteString(repl[r.n(len(repl))])
		case j == i && op == 3 && j+2 < n: // swap with the next non-space token
			b.WriteString(piece(toks[j+2]))
			b.WriteString(piece(toks[j+1]))
			b.WriteString(piece(toks[j]))
			j += 2
		default:
			b.WriteString(piece(toks[j]))
		}
	}
	return []byte(b.String())
}

func run(seed uint64, tier, outDir string) error {
	if err := os.MkdirAll(outDir, 0o755); err != nil {
		return err
	}
	cf, err := os.Create(filepath.Join(outDir, "cases.txt"))
	if err != nil {
		return err
	}
	defer cf.Close()
	st := &state{w: bufio.NewWriterSize(cf, 1<<20), hist: map[string]int{}, fails: map[string]*failure{}, nontriv: map[string]bool{}, normdiff: map[string]int{}}
	dbccase.Tables(st.w)
	r := &rng{s: seed}

	nDocs, nMut, nSpaced, entries := 260, 500, 120, 2
	emitEvery := 1
	if tier == "thorough" {
		nDocs, nMut, nSpaced, entries = 12000, 20000, 4000, 3
		emitEvery = 4
	}

	// (1) one document per single section, then random section subsets, both number modes
	var docTexts [][]byte
	for i := 0; i < 19+nDocs; i++ {
		var mask uint32
		switch {
		case i < 19:
			mask = 1<<uint(i) | 1<<3
		case i%3 == 0:
			mask = 0x7FFFF
		default:
			mask = uint32(r.next()) & 0x7FFFF
		}
		doc := r.file(mask, entries)
		for _, hex := range []bool{false, true} {
			t := st.checkDoc(doc, hex, i%emitEvery == 0)
			if t != nil && !hex {
				docTexts = append(docTexts, t)
			}
		}
	}

	// (2) accepted-text stream: testdata, writer outputs, their mutations and re-spacings
	repo := os.Getenv("VERIF_REPO")
	if repo == "" {
		repo = "/repo"
	}
	var seeds [][]byte
	files, _ := filepath.Glob(filepath.Join(repo, "testdata", "*.dbc"))
	sort.Strings(files)
	for _, fn := range files {
		b, err := os.ReadFile(fn)
		if err != nil {
			return err
		}
		seeds = append(seeds, b)
		st.checkText("testdata", b, false, true)
		st.checkText("testdata", b, true, true)
	}
	if len(seeds) == 0 {
		return fmt.Errorf("no testdata under %s", repo)
	}
	for i := 0; i < len(docTexts) && i < 40; i++ {
		seeds = append(seeds, docTexts[(i*7)%len(docTexts)])
	}
	hand := []string{
		"VERSION \"\"\nNS_ :\nBS_:\nBU_:\n",
		"BU_: A B\nBO_ 1 m: 8 A\n SG_ s : 0|8@1+ (1,0) [0|0] \"\" A\nBA_DEF_ \"x\" FLOAT 0 1e3;\nBA_DEF_DEF_ \"x\" 1e3;\nBA_ \"x\" 5e-1;\nBA_ \"x\" BO_ 1 2.5E+2;\n",
		"BS_: 500 : 1 , 2 BU_: n\nVAL_TABLE_ t 1 \"a\" 0 \"b\" ;\nVAL_ 5 s 0 \"z\";VAL_ e 1 \"y\" ;",
		"BU_:\nSG_MUL_VAL_ 1 a b 0-0, 1-4294967295 , 07-010;\nSIG_VALTYPE_ 1 s 2;SIG_GROUP_ 1 g 2 : a b c;\nBO_TX_BU_ 1 : A B;\n",
		"BU_:\nBA_DEF_ SG_ \"h\" HEX 0 255;\nBA_DEF_DEF_ \"h\" 0x1F;\nBA_DEF_ \"e\" ENUM ;BA_DEF_ EV_ \"e2\" ENUM \"a\",\"b\";BA_DEF_ BU_ \"i\" INT -5 +5;\n",
		"BU_:\nEV_ e : 1 [-1|1] \"u\" 0.5 7 DUMMY_NODE_VECTOR8003 A,B;\nENVVAR_DATA_ e : 4 ;\nSGTYPE_ t : 8@1 - (1,0) [0|1] \"u\" 0 , vt;\nSGTYPE_ 1 s : t;\n",
		"BU_:\nCM_ \"g\";CM_ BU_ n \"x\";CM_ BO_ 1 \"y\";CM_ SG_ 1 s \"multi\nline\";CM_ EV_ e \"z\";\nINT HEX SG_ FLOAT\n",
		"VERSION \"a\" NS_ : CM_ FILTER 5 \"x\" ; BS_: BU_: a\x00 trailing garbage",
		"BU_: A\nBA_DEF_ BU_ \"i\" INT 0 10;\nBA_DEF_ \"s\" STRING;\nBA_DEF_ \"f\" FLOAT 0 10;\nBA_DEF_ \"h\" HEX 0 255;\nBA_DEF_DEF_ \"i\" 7;\nBA_DEF_DEF_ \"s\" \"none\";\nBA_DEF_DEF_ \"f\" 1.5;\nBA_DEF_DEF_ \"h\" 0x1F;\n" +
			"BA_ \"i\" BU_ A 7;\nBA_ \"i\" BU_ A 8;\nBA_ \"s\" \"none\";\nBA_ \"f\" 1.5;\nBA_ \"h\" 0x1F;\nBA_ \"i\" 7;\nBA_ \"s\" \"some\";\n",
	}
	st.outsideStream()
	st.strFieldsStream()
	st.redundantStream()
	// a literal that does not fit a double (strconv: ErrRange, +-Inf or 0 returned along with it), in every position
	// where the grammar has a double: the parser must refuse each (the writer has no text for an infinity) - this
	// used to be met only when a mutation happened to glue digits together (seeded C08-r3m2 was caught by luck)
	for _, lit := range []string{"1e999", "-1e999", "1e309", "1.8e308", "-1.8e308", "1e-999", "2e-324", "179769313486231580793728971405303415079934132710037826936173778980444968292764750946649017977587207096330286416692887910946555547851940402630657488671505820681908902000708383676273854845817711531764475730270069855571366959622842914819860834936475292719074168444365510704342711559699508093042880177904174497792"} {
		for _, format := range []string{
			"BU_: A\nBO_ 1 msg : 8 A\n SG_ s : 0|8@1+ (%s,0) [0|1] \"\" A\n", "BU_: A\nBO_ 1 msg : 8 A\n SG_ s : 0|8@1+ (1,%s) [0|1] \"\" A\n",
			"BU_: A\nBO_ 1 msg : 8 A\n SG_ s : 0|8@1+ (1,0) [%s|1] \"\" A\n", "BU_: A\nBO_ 1 msg : 8 A\n SG_ s : 0|8@1+ (1,0) [0|%s] \"\" A\n",
			"BU_: A\nEV_ e : 1 [%s|1] \"u\" 0 7 DUMMY_NODE_VECTOR0 A;\n", "BU_: A\nEV_ e : 1 [0|%s] \"u\" 0 7 DUMMY_NODE_VECTOR0 A;\n",
			"BU_: A\nEV_ e : 1 [0|1] \"u\" %s 7 DUMMY_NODE_VECTOR0 A;\n", "BU_: A\nSGTYPE_ t : 8@1 + (%s,0) [0|1] \"u\" 0 , vt;\n",
			"BU_: A\nSGTYPE_ t : 8@1 + (1,0) [0|%s] \"u\" 0 , vt;\n", "BU_: A\nSGTYPE_ t : 8@1 + (1,0) [0|1] \"u\" %s , vt;\n",
			"BU_: A\nBA_DEF_ \"f\" FLOAT %s 1;\n", "BU_: A\nBA_DEF_ \"f\" FLOAT 0 %s;\n", "BU_: A\nBA_DEF_DEF_ \"f\" %s;\n", "BU_: A\nBA_ \"f\" %s;\n", "BU_: A\nBA_ \"f\" BU_ A %s;\n",
		} {
			t := []byte(fmt.Sprintf(format, lit))
			st.checkText("overflow", t, false, true)
			st.checkText("overflow", t, true, false)
		}
	}
	for _, h := range hand {
		seeds = append(seeds, []byte(h))
		st.checkText("hand", []byte(h), false, true)
		st.checkText("hand", []byte(h), true, true)
	}
	for i, sd := range seeds {
		if i < 12 || tier == "thorough" {
			st.checkZeroPad(sd)
		}
	}
	for i := 0; i < nMut; i++ {
		base := seeds[r.n(len(seeds))]
		m := mutate(r, base)
		if r.chance(25) {
			m = mutate(r, m)
		}
		st.checkText("mutation", m, r.chance(20), i%emitEvery == 0)
	}
	for i := 0; i < nSpaced; i++ {
		base := seeds[r.n(len(seeds))]
		st.checkText("respaced", r.respace(base), r.chance(20), i%emitEvery == 0)
	}
	fmt.Fprintf(st.w, "ENDFILE %d\n", st.nextID)
	if err := st.w.Flush(); err != nil {
		return err
	}
	if err := cf.Sync(); err != nil {
		return err
	}

	// summary + replay files
	sf, err := os.Create(filepath.Join(outDir, "summary.txt"))
	if err != nil {
		return err
	}
	defer sf.Close()
	total := 0
	var hk []string
	for k, v := range st.hist {
		hk = append(hk, k)
		total += v
	}
	sort.Strings(hk)
	fmt.Fprintf(sf, "cases %d\nrecords %d\nnontrivial %d\ntexts %d\naccepted %d\n", total, st.nextID, len(st.nontriv), st.texts, st.accepted)
	for _, k := range hk {
		fmt.Fprintf(sf, "hist %s %d\n", k, st.hist[k])
	}
	var nk []string
	for k := range st.normdiff {
		nk = append(nk, k)
	}
	sort.Strings(nk)
	for _, k := range nk {
		fmt.Fprintf(sf, "normdiff %s %d\n", k, st.normdiff[k])
	}
	for _, s := range st.samples {
		fmt.Fprintf(sf, "SAMPLE %s\n", s)
	}
	var fk []string
	for k := range st.fails {
		fk = append(fk, k)
	}
	sort.Strings(fk)
	for _, k := range fk {
		f := st.fails[k]
		name := "fail-" + sanitize(k) + ".json"
		b, _ := json.MarshalIndent(f, "", " ")
		if err := os.WriteFile(filepath.Join(outDir, name), b, 0o644); err != nil {
			return err
		}
		fmt.Fprintf(sf, "PROPFAIL %s %s ## %s\n", k, name, strings.ReplaceAll(f.Detail, "\n", " "))
	}
	return nil
}

func sanitize(s string) string {
	var b strings.Builder
	for _, c := range s {
		if c >= 'a' && c <= 'z' || c >= 'A' && c <= 'Z' || c >= '0' && c <= '9' || c == '-' || c == '_' || c == '+' {
			b.WriteRune(c)
		} else {
			b.WriteByte('_')
		}
	}
	return b.String()
}

func replay(file, outDir string) error {
	b, err := os.ReadFile(file)
	if err != nil {
		return err
	}
	var wrap struct {
		Replay failure `json:"replay"`
	}
	if err := json.Unmarshal(b, &wrap); err != nil {
		return err
	}
	f := wrap.Replay
	if f.Sig == "" { // a bare failure file
		if err := json.Unmarshal(b, &f); err != nil {
			return err
		}
	}
	if err := os.MkdirAll(outDir, 0o755); err != nil {
		return err
	}
	cf, err := os.Create(filepath.Join(outDir, "cases.txt"))
	if err != nil {
		return err
	}
	defer cf.Close()
	st := &state{w: bufio.NewWriter(cf), hist: map[string]int{}, fails: map[string]*failure{}, nontriv: map[string]bool{}, normdiff: map[string]int{}}
	dbccase.Tables(st.w)
	if f.Doc != nil {
		t := st.checkDoc(f.Doc, f.Hex, true)
		fmt.Printf("document written (hex=%v):\n%s\n", f.Hex, t)
	} else {
		st.checkText(f.Stream, []byte(f.Text), f.Hex, true)
		fmt.Printf("text (hex=%v):\n%s\n", f.Hex, f.Text)
	}
	fmt.Fprintf(st.w, "ENDFILE %d\n", st.nextID)
	if err := st.w.Flush(); err != nil {
		return err
	}
	if len(st.fails) == 0 {
		fmt.Println("REPLAY: the property holds on this case")
	}
	for k, v := range st.fails {
		fmt.Printf("REPLAY PROPFAIL %s ## %s\n", k, v.Detail)
	}
	return nil
}

func main() {
	if len(os.Args) < 2 {
		fmt.Fprintln(os.Stderr, "usage: c08 run|replay ...")
		os.Exit(2)
	}
	fs := flag.NewFlagSet(os.Args[1], flag.ExitOnError)
	seed := fs.Uint64("seed", 20260930, "")
	tier := fs.String("tier", "quick", "")
	out := fs.String("out", ".", "")
	file := fs.String("file", "", "")
	fs.Parse(os.Args[2:])
	var err error
	switch os.Args[1] {
	case "run":
		err = run(*seed, *tier, *out)
	case "replay":
		err = replay(*file, *out)
	default:
		err = fmt.Errorf("unknown command %s", os.Args[1])
	}
	if err != nil {
		fmt.Fprintln(os.Stderr, "c08:", err)
		os.Exit(1)
	}
}
