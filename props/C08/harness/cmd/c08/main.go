package main

import (
	"bufio"
	"os"

	"verif/c08/dbccase"
)

func main() {
	w := bufio.NewWriter(os.Stdout)
	defer w.Flush()
	dbccase.Tables(w)
	text := []byte("VERSION \"x\"\nBU_: A B\nBO_ 1 m : 8 A\n SG_ s m1M : 0|8@1+ (1,0.5) [0|1e3] \"u\" A,B\n")
	dbccase.EmitCase(w, 0, "demo", false, text, dbccase.ParseSafe("f.dbc", text, false), nil)
}
