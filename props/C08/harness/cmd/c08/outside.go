package main

import (
	"github.com/squadracorsepolito/acmelib/dbc"

	"verif/c08/dbccase"
)

// The "outside" stream: one smallest document per exclusion of the round-trip theorem's hypothesis
// (coq/C08 wf_file; coq/C08/Examples.v wf_file_exclusions_refuted decides the same documents in the
// model): an identifier starting with '_', shaped like a multiplexer indicator, equal to a keyword;
// an empty receiver / access-node / range list; an NS_ symbol outside the table; a blank in an
// attribute name; a quote / a NUL character in a string; and the same shape inside the hypothesis.
// dbc.Write's text of each goes through the usual record (tokens, outcome, error position compared
// with the model), and the harness counts that the implementation does NOT give the document back -
// rejected, or another document - for each excluded one, and does for the one inside.
func (st *state) outsideStream() {
	sig := func(rcv []string) *dbc.Signal {
		return &dbc.Signal{Name: "s", Size: 8, ByteOrder: dbc.SignalLittleEndian, ValueType: dbc.SignalUnsigned, Factor: 1, Receivers: rcv}
	}
	msg := func(s *dbc.Signal) []*dbc.Message {
		return []*dbc.Message{{ID: 1, Name: "msg", Size: 8, Transmitter: "A", Signals: []*dbc.Signal{s}}}
	}
	base := func(nodes ...string) *dbc.File {
		return &dbc.File{Version: "v", NewSymbols: &dbc.NewSymbols{}, BitTiming: &dbc.BitTiming{}, Nodes: &dbc.Nodes{Names: nodes}}
	}
	type oc struct {
		name   string
		doc    *dbc.File
		inside bool
	}
	var docs []oc
	add := func(name string, inside bool, f *dbc.File) { docs = append(docs, oc{name, f, inside}) }
	in := base("A", "x_")
	in.Messages = msg(sig([]string{"A"}))
	in.Comments = []*dbc.Comment{{Kind: dbc.CommentGeneral, Text: "t"}}
	in.Attributes = []*dbc.Attribute{{Kind: dbc.AttributeGeneral, Type: dbc.AttributeString, Name: "a_b"}}
	in.ExtendedMuxes = []*dbc.ExtendedMux{{MessageID: 1, MultiplexorName: "s", MultiplexedName: "s", Ranges: []*dbc.ExtendedMuxRange{{From: 0, To: 1}}}}
	add("inside", true, in)
	add("ident-underscore", false, base("_x"))
	add("ident-m1", false, base("m1"))
	add("ident-M", false, base("M"))
	add("ident-keyword", false, base("BO_"))
	d := base("A")
	d.Messages = msg(sig(nil))
	add("no-receivers", false, d)
	d = base("A")
	d.EnvVars = []*dbc.EnvVar{{Name: "e", Type: dbc.EnvVarInt}}
	add("no-access-nodes", false, d)
	d = base("A")
	d.ExtendedMuxes = []*dbc.ExtendedMux{{MessageID: 1, MultiplexorName: "b", MultiplexedName: "a"}}
	add("no-ranges", false, d)
	d = base("A")
	d.NewSymbols = &dbc.NewSymbols{Symbols: []string{"FOO_"}}
	add("foreign-symbol", false, d)
	d = base("A")
	d.Attributes = []*dbc.Attribute{{Kind: dbc.AttributeGeneral, Type: dbc.AttributeString, Name: "a b"}}
	add("blank-attr-name", false, d)
	d = base("A")
	d.Comments = []*dbc.Comment{{Kind: dbc.CommentGeneral, Text: "a\"b"}}
	add("quote-in-string", false, d)
	d = base("A")
	d.Comments = []*dbc.Comment{{Kind: dbc.CommentGeneral, Text: "a\x00b"}}
	add("nul-in-string", false, d)

	for _, c := range docs {
		for _, hex := range []bool{false, true} {
			text, pan := dbccase.WriteSafe(c.doc, hex)
			if pan != "" {
				st.fail(&failure{Sig: "c08-panic-write", Detail: pan, Stream: "outside", Hex: hex, Doc: c.doc, size: 0})
				continue
			}
			o := dbccase.ParseSafe("outside.dbc", text, hex)
			back := o.Class == "ok" && len(dbccase.Equivalent(c.doc, o.File)) == 0
			switch {
			case c.inside && !back:
				st.fail(&failure{Sig: "c08-write-parse-differs-inside", Detail: "the smallest document inside the hypothesis does not round-trip",
					Stream: "outside", Hex: hex, Doc: c.doc, Text: string(text), size: len(text)})
			case !c.inside && back:
				// the exclusion would be unnecessary for the implementation: the model's witness no longer describes it
				st.fail(&failure{Sig: "c08-exclusion-" + c.name + "-round-trips", Detail: "a document outside the hypothesis of the round-trip theorem (" + c.name +
					") is given back by parse(write(doc)); the model's refutation witness does not describe the implementation",
					Stream: "outside", Hex: hex, Doc: c.doc, Text: string(text), size: len(text)})
			default:
				st.hist["outside-agree"]++
			}
			st.checkText("outside", text, hex, true)
		}
	}
}
