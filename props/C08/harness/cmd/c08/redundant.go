package main

import (
	"github.com/squadracorsepolito/acmelib/dbc"

	"verif/c08/dbccase"
)

// The "redundant" documents: entries that carry "no information" with respect to ANOTHER section, which a
// writer or parser must nevertheless keep - the property is about the document, not about what it means.
// One small document per case, write -> parse in both modes and parse -> write -> parse of the written text:
//
//   - BA_ values equal to the BA_DEF_DEF_ default of the same attribute name: each value type (INT, HEX, FLOAT,
//     STRING), each object kind, dead value slots equal and different, the pair by-value equal in another
//     literal form (INT 7 / FLOAT 7), two defaults of one name (first or last equal), the equal entry first, in
//     the middle, last, all entries equal, the same entry twice;
//   - VAL_ equal to a VAL_TABLE_ and to another VAL_; empty VAL_ and VAL_TABLE_;
//   - CM_ with an empty text (five kinds), the same comment twice;
//   - SG_MUL_VAL_ naming every group of the switch, repeating the indicator's own value, the same entry twice;
//   - BO_TX_BU_ equal to the message's transmitter, empty, with a name twice, twice for one message;
//   - BA_DEF_ twice, NS_ holding the whole default list, BS_ of zeros, SIG_VALTYPE_ 0, an empty SIG_GROUP_,
//     a node twice in BU_, a receiver twice.
//
// Added after the seeded change C08-r6m2 (the writer leaves out BA_ lines that repeat the default) was
// missed: random values of two sections practically never coincide in all four value slots.
func (st *state) redundantStream() {
	base := func() *dbc.File {
		f := &dbc.File{Version: "v", NewSymbols: &dbc.NewSymbols{}, BitTiming: &dbc.BitTiming{}, Nodes: &dbc.Nodes{Names: []string{"A", "B"}}}
		f.Messages = []*dbc.Message{{ID: 1, Name: "msg", Size: 8, Transmitter: "A", Signals: []*dbc.Signal{
			{Name: "mx", IsMultiplexor: true, Size: 2, ByteOrder: dbc.SignalLittleEndian, Factor: 1, Receivers: []string{"B"}},
			{Name: "s", IsMultiplexed: true, MuxSwitchValue: 1, StartBit: 8, Size: 8, ByteOrder: dbc.SignalLittleEndian, Factor: 1, Receivers: []string{"B"}},
		}}}
		return f
	}
	n := 0
	run := func(f *dbc.File) {
		n++
		st.hist["redundant"]++
		for _, hex := range []bool{false, true} {
			text := st.checkDoc(f, hex, !hex)
			if text != nil {
				st.checkText("redundant", text, hex, false)
			}
		}
	}

	// ---- BA_ against BA_DEF_DEF_ ----
	type slots struct {
		s string
		i int
		h uint32
		f float64
	}
	def := func(name string, t dbc.AttributeDefaultType, v slots) *dbc.AttributeDefault {
		return &dbc.AttributeDefault{Type: t, AttributeName: name, ValueString: v.s, ValueInt: v.i, ValueHex: v.h, ValueFloat: v.f}
	}
	val := func(name string, kind dbc.AttributeKind, t dbc.AttributeValueType, v slots) *dbc.AttributeValue {
		return &dbc.AttributeValue{AttributeKind: kind, Type: t, AttributeName: name, NodeName: "A", MessageID: 1, SignalName: "s", EnvVarName: "e",
			ValueString: v.s, ValueInt: v.i, ValueHex: v.h, ValueFloat: v.f}
	}
	live := []slots{{i: 7}, {s: "none"}, {f: 1.5}, {h: 255}} // indexed by the value type
	other := []slots{{i: 8}, {s: "some"}, {f: 2.5}, {h: 16}}
	junk := slots{s: "junk", i: -3, h: 9, f: 0.25}
	for t := 0; t < 4; t++ {
		dt, vt := dbc.AttributeDefaultType(t), dbc.AttributeValueType(t)
		for k := 0; k < 5; k++ {
			kind := dbc.AttributeKind(k)
			f := base()
			f.AttributeDefaults = []*dbc.AttributeDefault{def("a", dt, live[t])}
			f.AttributeValues = []*dbc.AttributeValue{val("a", kind, vt, live[t])}
			run(f)
		}
		// positions: equal first / middle / last / all / twice; dead slots equal (junk on both sides) and different
		for _, pat := range [][]int{{1, 0, 0}, {0, 1, 0}, {0, 0, 1}, {1, 1, 1}, {1, 0, 1}, {1, 1}, {0, 1, 1, 0}} {
			for _, dead := range []int{0, 1, 2} {
				d, e, o := live[t], live[t], other[t]
				if dead > 0 { // the slots the type does not use
					d, e, o = junk, junk, junk
					switch t {
					case 0:
						d.i, e.i, o.i = 7, 7, 8
					case 1:
						d.s, e.s, o.s = "none", "none", "some"
					case 2:
						d.f, e.f, o.f = 1.5, 1.5, 2.5
					case 3:
						d.h, e.h, o.h = 255, 255, 16
					}
					if dead == 2 { // ... and different dead slots on the value's side
						e.s, e.i, e.h, e.f = e.s+map[bool]string{true: "", false: "x"}[t == 1], e.i+map[bool]int{true: 0, false: 1}[t == 0], e.h+map[bool]uint32{true: 0, false: 1}[t == 3], e.f+map[bool]float64{true: 0, false: 1}[t == 2]
					}
				}
				f := base()
				f.AttributeDefaults = []*dbc.AttributeDefault{def("a", dt, d)}
				for j, p := range pat {
					v := o
					if p == 1 {
						v = e
					}
					f.AttributeValues = append(f.AttributeValues, val("a", dbc.AttributeKind(j%5), vt, v))
				}
				run(f)
			}
		}
		// two defaults of one name: the first / the last / both equal the value; a default of another name
		for _, which := range [][2]int{{1, 0}, {0, 1}, {1, 1}} {
			f := base()
			ds := []slots{other[t], other[t]}
			for j := range ds {
				if which[j] == 1 {
					ds[j] = live[t]
				}
			}
			f.AttributeDefaults = []*dbc.AttributeDefault{def("a", dt, ds[0]), def("b", dt, live[t]), def("a", dt, ds[1])}
			f.AttributeValues = []*dbc.AttributeValue{val("a", dbc.AttributeNode, vt, live[t]), val("b", dbc.AttributeGeneral, vt, live[t]), val("c", dbc.AttributeGeneral, vt, live[t])}
			run(f)
		}
	}
	// by-value equal in another literal form: INT 7 / FLOAT 7 / HEX 7, both directions
	forms := []struct {
		dt dbc.AttributeDefaultType
		vt dbc.AttributeValueType
		v  slots
	}{{dbc.AttributeDefaultInt, dbc.AttributeValueInt, slots{i: 7}}, {dbc.AttributeDefaultFloat, dbc.AttributeValueFloat, slots{f: 7}},
		{dbc.AttributeDefaultHex, dbc.AttributeValueHex, slots{h: 7}}, {dbc.AttributeDefaultInt, dbc.AttributeValueInt, slots{i: 7, h: 7, f: 7, s: "7"}}}
	for _, a := range forms {
		for _, b := range forms {
			f := base()
			f.AttributeDefaults = []*dbc.AttributeDefault{def("a", a.dt, a.v)}
			f.AttributeValues = []*dbc.AttributeValue{val("a", dbc.AttributeMessage, b.vt, b.v), val("a", dbc.AttributeSignal, b.vt, slots{i: 8, h: 8, f: 8})}
			run(f)
		}
	}
	// with the definition present, a well-known name, an enum attribute given by index and by name
	{
		f := base()
		f.Attributes = []*dbc.Attribute{{Kind: dbc.AttributeMessage, Type: dbc.AttributeInt, Name: dbc.MsgCycleTimeName, MinInt: 0, MaxInt: 1000},
			{Kind: dbc.AttributeGeneral, Type: dbc.AttributeEnum, Name: "e", EnumValues: []string{"x", "y"}}, {Kind: dbc.AttributeGeneral, Type: dbc.AttributeInt, Name: "i"},
			{Kind: dbc.AttributeGeneral, Type: dbc.AttributeInt, Name: "i"}}
		f.AttributeDefaults = []*dbc.AttributeDefault{def(dbc.MsgCycleTimeName, dbc.AttributeDefaultInt, slots{i: 100}), def("e", dbc.AttributeDefaultString, slots{s: "y"}), def("i", dbc.AttributeDefaultInt, slots{})}
		f.AttributeValues = []*dbc.AttributeValue{val(dbc.MsgCycleTimeName, dbc.AttributeMessage, dbc.AttributeValueInt, slots{i: 100}),
			val("e", dbc.AttributeGeneral, dbc.AttributeValueString, slots{s: "y"}), val("e", dbc.AttributeGeneral, dbc.AttributeValueInt, slots{i: 1}),
			val("i", dbc.AttributeGeneral, dbc.AttributeValueInt, slots{}), val("i", dbc.AttributeGeneral, dbc.AttributeValueInt, slots{})}
		run(f)
	}

	// ---- VAL_ against VAL_TABLE_ ----
	vds := func(k int) []*dbc.ValueDescription {
		out := []*dbc.ValueDescription{}
		for i := 0; i < k; i++ {
			out = append(out, &dbc.ValueDescription{ID: uint32(i), Name: string(rune('a' + i))})
		}
		return out
	}
	for k := 0; k <= 3; k++ {
		f := base()
		f.ValueTables = []*dbc.ValueTable{{Name: "vt", Values: vds(k)}, {Name: "vt2", Values: vds(k)}}
		f.ValueEncodings = []*dbc.ValueEncoding{{Kind: dbc.ValueEncodingSignal, MessageID: 1, SignalName: "s", Values: vds(k)},
			{Kind: dbc.ValueEncodingSignal, MessageID: 1, SignalName: "mx", Values: vds(k)}, {Kind: dbc.ValueEncodingEnvVar, EnvVarName: "e", Values: vds(k)},
			{Kind: dbc.ValueEncodingSignal, MessageID: 1, SignalName: "s", Values: vds(k)}}
		run(f)
	}

	// ---- CM_ with nothing to say ----
	for _, text := range []string{"", " ", "x"} {
		f := base()
		for k := 0; k < 5; k++ {
			c := &dbc.Comment{Kind: dbc.CommentKind(k), Text: text, NodeName: "A", MessageID: 1, SignalName: "s", EnvVarName: "e"}
			f.Comments = append(f.Comments, c, c)
		}
		run(f)
		for k := 0; k < 5; k++ {
			g := base()
			g.Comments = []*dbc.Comment{{Kind: dbc.CommentKind(k), Text: text, NodeName: "A", MessageID: 1, SignalName: "s", EnvVarName: "e"}}
			run(g)
		}
	}

	// ---- SG_MUL_VAL_ that says what the indicators say ----
	rg := func(a, b uint32) *dbc.ExtendedMuxRange { return &dbc.ExtendedMuxRange{From: a, To: b} }
	for _, ranges := range [][]*dbc.ExtendedMuxRange{{rg(0, 3)}, {rg(1, 1)}, {rg(0, 0), rg(1, 1), rg(2, 2), rg(3, 3)}, {rg(0, 3), rg(0, 3)}, {rg(0, 4294967295)}, {rg(1, 1), rg(1, 1)}} {
		f := base()
		x := &dbc.ExtendedMux{MessageID: 1, MultiplexorName: "mx", MultiplexedName: "s", Ranges: ranges}
		f.ExtendedMuxes = []*dbc.ExtendedMux{x}
		run(f)
		f = base()
		f.ExtendedMuxes = []*dbc.ExtendedMux{x, x}
		run(f)
	}

	// ---- BO_TX_BU_ that repeats the transmitter ----
	for _, tx := range [][]string{{"A"}, {}, {"A", "A"}, {"A", "B"}, {"B", "A"}} {
		f := base()
		f.MessageTransmitters = []*dbc.MessageTransmitter{{MessageID: 1, Transmitters: tx}}
		run(f)
		f = base()
		f.MessageTransmitters = []*dbc.MessageTransmitter{{MessageID: 1, Transmitters: tx}, {MessageID: 1, Transmitters: tx}}
		run(f)
	}

	// ---- the rest: things a tidy writer might merge or skip ----
	{
		f := base()
		f.NewSymbols = &dbc.NewSymbols{Symbols: dbc.VerifNewSymbols()}
		f.BitTiming = &dbc.BitTiming{Baudrate: 0, BitTimingReg1: 0, BitTimingReg2: 0}
		f.Nodes = &dbc.Nodes{Names: []string{"A", "B", "A"}}
		f.Messages[0].Signals[1].Receivers = []string{"B", "B", "Vector__XXX"}
		f.Attributes = []*dbc.Attribute{{Kind: dbc.AttributeGeneral, Type: dbc.AttributeString, Name: "a"}, {Kind: dbc.AttributeGeneral, Type: dbc.AttributeString, Name: "a"}}
		f.SignalExtValueTypes = []*dbc.SignalExtValueType{{MessageID: 1, SignalName: "s", ExtValueType: 0}, {MessageID: 1, SignalName: "s", ExtValueType: 0}}
		f.SignalGroups = []*dbc.SignalGroup{{MessageID: 1, GroupName: "g", Repetitions: 1}, {MessageID: 1, GroupName: "g", Repetitions: 1, SignalNames: []string{"s", "s"}}}
		f.EnvVars = []*dbc.EnvVar{{Name: "e", AccessNodes: []string{"A", "A"}}, {Name: "e", AccessNodes: []string{"A"}}}
		f.EnvVarDatas = []*dbc.EnvVarData{{EnvVarName: "e", DataSize: 0}, {EnvVarName: "e", DataSize: 0}}
		f.Messages = append(f.Messages, f.Messages[0])
		run(f)
	}
	st.hist["redundant-documents"] = n
	_ = dbccase.Sections
}
