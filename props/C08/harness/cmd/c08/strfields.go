package main

import (
	"strings"

	"github.com/squadracorsepolito/acmelib/dbc"
)

// The "strfields" documents: EVERY string-valued field of EVERY section gets EVERY string of the pool, one
// small document per (field, string), so that a post-processing of one section's strings (trimming, line-end
// normalisation, escaping, a format verb) cannot hide behind the sampling of the random documents. Added after
// the seeded change C11-r5m2 (parseComment replaced CR LF by LF in the CM_ text) was missed: the pool held a
// lone CR and a lone LF but never the pair, and comments drew from it only at random.
var fieldStrings = []string{
	"a\r\nb", "\r\n", "\r", "\n", "\n\r", "line1\r\nline2\r\n", "\r\r\n\n", "x\ry", "x\ny",
	"trailing  ", "  leading", " ", "tab\t", "\ttab", "a\tb", "\v\f",
	"back\\slash", "\\", "\\\\", "\\r\\n", "\\n", "\\'", "a\\",
	"100%", "%d", "%s%s%s", "%!", "%%", "%v %+v %T", "50%speed",
	"a\u00a0b", "\u2028", "\ufeff", "\u0085", "\u00e9", "e\u0301", "°C", "名前", "🚗", "\U0010FFFF", "\ufffd",
	"'single'", "semi;colon", "a:b", "// c", "/* c */", "BO_ 1 x : 8 y", "VERSION", "m1M", "0x1F", "-1e-9", "",
	strings.Repeat("long ", 60),
}

func hasBlank(s string) bool { return strings.ContainsAny(s, " \t\n") }

func (st *state) strFieldsStream() {
	base := func() *dbc.File {
		return &dbc.File{Version: "v", NewSymbols: &dbc.NewSymbols{}, BitTiming: &dbc.BitTiming{}, Nodes: &dbc.Nodes{Names: []string{"A"}}}
	}
	sig := func(unit string) *dbc.Signal {
		return &dbc.Signal{Name: "s", Size: 8, ByteOrder: dbc.SignalLittleEndian, ValueType: dbc.SignalUnsigned, Factor: 1, Unit: unit, Receivers: []string{"A"}}
	}
	type field struct {
		name  string
		noBlk bool // BA_DEF_ / BA_DEF_DEF_ names: the parser refuses ' ', tab and line feed
		set   func(f *dbc.File, s string)
	}
	fields := []field{
		{"version", false, func(f *dbc.File, s string) { f.Version = s }},
		{"valtable-name", false, func(f *dbc.File, s string) {
			f.ValueTables = []*dbc.ValueTable{{Name: "vt", Values: []*dbc.ValueDescription{{ID: 0, Name: s}, {ID: 1, Name: "z"}}}}
		}},
		{"signal-unit", false, func(f *dbc.File, s string) {
			f.Messages = []*dbc.Message{{ID: 1, Name: "msg", Size: 8, Transmitter: "A", Signals: []*dbc.Signal{sig(s)}}}
		}},
		{"envvar-unit", false, func(f *dbc.File, s string) {
			f.EnvVars = []*dbc.EnvVar{{Name: "e", Type: dbc.EnvVarInt, Unit: s, AccessNodes: []string{"A"}}}
		}},
		{"sigtype-unit", false, func(f *dbc.File, s string) {
			f.SignalTypes = []*dbc.SignalType{{TypeName: "t", Size: 8, ByteOrder: dbc.SignalLittleEndian, ValueType: dbc.SignalUnsigned, Factor: 1, Unit: s, ValueTableName: "vt"}}
		}},
		{"attribute-name", true, func(f *dbc.File, s string) {
			f.Attributes = []*dbc.Attribute{{Kind: dbc.AttributeGeneral, Type: dbc.AttributeString, Name: s}}
		}},
		{"attribute-enum-value", false, func(f *dbc.File, s string) {
			f.Attributes = []*dbc.Attribute{{Kind: dbc.AttributeGeneral, Type: dbc.AttributeEnum, Name: "e", EnumValues: []string{"first", s, "last"}}}
		}},
		{"attrdefault-name", true, func(f *dbc.File, s string) {
			f.AttributeDefaults = []*dbc.AttributeDefault{{Type: dbc.AttributeDefaultString, AttributeName: s, ValueString: "d"}}
		}},
		{"attrdefault-string", false, func(f *dbc.File, s string) {
			f.AttributeDefaults = []*dbc.AttributeDefault{{Type: dbc.AttributeDefaultString, AttributeName: "a", ValueString: s}}
		}},
		{"attrvalue-name", false, func(f *dbc.File, s string) {
			f.AttributeValues = []*dbc.AttributeValue{{AttributeKind: dbc.AttributeGeneral, Type: dbc.AttributeValueString, AttributeName: s, ValueString: "v"}}
		}},
		{"attrvalue-string", false, func(f *dbc.File, s string) {
			f.AttributeValues = []*dbc.AttributeValue{{AttributeKind: dbc.AttributeNode, Type: dbc.AttributeValueString, AttributeName: "a", NodeName: "A", ValueString: s}}
		}},
		{"valenc-signal-name", false, func(f *dbc.File, s string) {
			f.ValueEncodings = []*dbc.ValueEncoding{{Kind: dbc.ValueEncodingSignal, MessageID: 1, SignalName: "s", Values: []*dbc.ValueDescription{{ID: 0, Name: s}}}}
		}},
		{"valenc-envvar-name", false, func(f *dbc.File, s string) {
			f.ValueEncodings = []*dbc.ValueEncoding{{Kind: dbc.ValueEncodingEnvVar, EnvVarName: "e", Values: []*dbc.ValueDescription{{ID: 0, Name: s}, {ID: 7, Name: s}}}}
		}},
	}
	for k := 0; k < 5; k++ {
		kind := dbc.CommentKind(k)
		fields = append(fields, field{"comment-" + string(rune('0'+k)), false, func(f *dbc.File, s string) {
			f.Comments = []*dbc.Comment{{Kind: kind, Text: s, NodeName: "A", MessageID: 1, SignalName: "s", EnvVarName: "e"}}
		}})
	}
	pool := append(append([]string{}, fieldStrings...), trickyStrings...)
	for _, fd := range fields {
		seen := map[string]bool{}
		for _, s := range pool {
			if seen[s] || strings.ContainsAny(s, "\"\x00") || (fd.noBlk && hasBlank(s)) {
				continue
			}
			seen[s] = true
			doc := base()
			fd.set(doc, s)
			st.hist["strfield-"+fd.name]++
			st.checkDoc(doc, false, true)
			st.checkDoc(doc, true, false)
		}
	}
}
