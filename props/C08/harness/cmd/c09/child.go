package main

import (
	"flag"
	"fmt"
	"os"
	"runtime"
	"runtime/debug"
	"sync/atomic"
	"syscall"
	"time"

	"verif/c08/dbccase"
)

// The child executes inputs sequentially. Its log (O_APPEND, one write per line) is the result
// channel towards the parent:
//
//	BEGIN <idx>
//	STAGE <idx> parse|import|emit
//	PARSED <idx> <class> <site> ## <detail>
//	IMPORTED <idx> <class> <site> ## <detail>
//	END <idx> <parse class> <import class> <parse site> <import site> ## <parse detail> ## <import detail>
//	HANG <idx>        (then exit 3)
//	MEM <idx>         (then exit 4)
const (
	exitHang = 3
	exitMem  = 4
)

const rlimitAS = 6 << 30
const maxSelectorBits = 16

type logger struct{ f *os.File }

func (l *logger) line(format string, a ...any) {
	// one write system call per line, no buffering
	l.f.WriteString(fmt.Sprintf(format, a...) + "\n")
}

func dash(s string) string {
	if s == "" {
		return "-"
	}
	return s
}

var (
	curIdx   atomic.Int64
	curStart atomic.Int64
)

func startWatchdog(lg *logger, timeout time.Duration, memLimit uint64) {
	curIdx.Store(-1)
	go func() {
		var ms runtime.MemStats
		tick := time.NewTicker(50 * time.Millisecond)
		defer tick.Stop()
		for range tick.C {
			idx := curIdx.Load()
			if idx < 0 {
				continue
			}
			if time.Duration(time.Now().UnixNano()-curStart.Load()) > timeout {
				lg.line("HANG %d", idx)
				os.Exit(exitHang)
			}
			runtime.ReadMemStats(&ms)
			if ms.HeapAlloc+ms.StackInuse > memLimit {
				lg.line("MEM %d heap=%d stack=%d", idx, ms.HeapAlloc, ms.StackInuse)
				os.Exit(exitMem)
			}
		}
	}()
}

func childMain(args []string) int {
	fs := flag.NewFlagSet("child", flag.ContinueOnError)
	inputsPath := fs.String("inputs", "", "inputs file")
	from := fs.Int("from", 0, "first input index to execute")
	outPath := fs.String("out", "", "cases file (appended)")
	logPath := fs.String("log", "", "log file (appended)")
	timeoutSec := fs.Int("timeout", 10, "watchdog per input, seconds")
	memMiB := fs.Int("mem", 1536, "heap+stack limit, MiB")
	if err := fs.Parse(args); err != nil {
		return 2
	}
	// address space limit; the Go runtime needs well below 1 GiB of reservations to start
	if err := syscall.Setrlimit(syscall.RLIMIT_AS, &syscall.Rlimit{Cur: rlimitAS, Max: rlimitAS}); err != nil {
		fmt.Fprintf(os.Stderr, "c09 child: setrlimit RLIMIT_AS: %v (continuing without)\n", err)
	}
	// soft limit above the guard of the watchdog (a lower one makes the collector thrash long
	// before the guard trips, turning a runaway allocation into a timeout)
	debug.SetMemoryLimit(3 << 30)

	ins, err := readInputs(*inputsPath)
	if err != nil {
		fmt.Fprintln(os.Stderr, "c09 child:", err)
		return 2
	}
	lf, err := os.OpenFile(*logPath, os.O_APPEND|os.O_CREATE|os.O_WRONLY, 0o644)
	if err != nil {
		fmt.Fprintln(os.Stderr, "c09 child:", err)
		return 2
	}
	of, err := os.OpenFile(*outPath, os.O_APPEND|os.O_CREATE|os.O_WRONLY, 0o644)
	if err != nil {
		fmt.Fprintln(os.Stderr, "c09 child:", err)
		return 2
	}
	lg := &logger{lf}
	startWatchdog(lg, time.Duration(*timeoutSec)*time.Second, uint64(*memMiB)<<20)

	for _, in := range ins {
		if in.idx < *from {
			continue
		}
		runOne(lg, of, in)
	}
	curIdx.Store(-1)
	of.Close()
	lf.Close()
	return 0
}

func runOne(lg *logger, of *os.File, in input) {
	idx := in.idx
	filename := fmt.Sprintf("in%d.dbc", idx)
	curStart.Store(time.Now().UnixNano())
	curIdx.Store(int64(idx))
	lg.line("BEGIN %d", idx)

	lg.line("STAGE %d parse", idx)
	o, pres := runParse(filename, in.text)
	if pres.class != clsPanic && pres.class != clsBadPos {
		// the same input through the parser's other number mode
		if hres := runParseHex(filename, in.text); hres.class == clsPanic || hres.class == clsBadPos {
			pres = hres
		}
	}
	lg.line("PARSED %d %s %s ## %s", idx, pres.class, dash(pres.site), pres.detail)

	var ires stageResult
	if o.Class == "ok" && dbccase.WideMux(o.File, maxSelectorBits) {
		ires = stageResult{class: clsExcluded}
	} else {
		lg.line("STAGE %d import", idx)
		ires = runImport(filename, in.text)
	}
	lg.line("IMPORTED %d %s %s ## %s", idx, ires.class, dash(ires.site), ires.detail)

	lg.line("STAGE %d emit", idx)
	rec, eres := emitRecord(idx, in, o, ires.class, ires.full)
	if eres.class == clsPanic && pres.class != clsPanic {
		pres = eres
	}
	of.Write(rec)

	lg.line("END %d %s %s %s %s ## %s ## %s", idx, pres.class, ires.class, dash(pres.site), dash(ires.site), pres.detail, ires.detail)
	curIdx.Store(-1)
}
