package main

import "github.com/squadracorsepolito/acmelib/dbc"

// The "codepoints" stream: boundary code points enumerated systematically, not sampled — every
// code point 0x00..0xFF, the edges of the UTF-8 length classes and of the planes, the replacement
// character and the byte order mark, and every byte 0x80..0xFF on its own (invalid UTF-8: stray
// continuation bytes, lead bytes without continuation) — each placed at the start of a token in
// the syntactic positions of a tiny valid file, inside an identifier, inside a string, after a
// number, and at the end of the input.

const tinyFile = "BU_: A\nBO_ 1 msg : 8 A\n SG_ s : 0|8@1+ (1,0) [0|1] \"uv\" A\nBA_DEF_ \"x\" INT 0 1;\n"

func boundaryUnits() [][]byte {
	var out [][]byte
	for c := 0; c <= 0xFF; c++ {
		out = append(out, []byte(string(rune(c))))
	}
	for _, c := range []rune{0x100, 0x7FF, 0x800, 0xFFFF, 0x10000, 0x10FFFF, 0xD7FF, 0xE000, 0xFFFD, 0xFEFF, 0x661, 0xFF10, 0x1D7D8, 0x2028, 0x85, 0xA0} {
		out = append(out, []byte(string(c)))
	}
	for b := 0x80; b <= 0xFF; b++ { // raw bytes: invalid UTF-8
		out = append(out, []byte{byte(b)})
	}
	out = append(out, []byte{0xE2, 0x82}, []byte{0xF0, 0x9F, 0x9A}, []byte{0xED, 0xA0, 0x80}, []byte{0xC0, 0xAF})
	return out
}

func codepointStream(b *builder, allPositions bool) {
	text := []byte(tinyFile)
	toks := dbc.VerifScanAll(text)
	// byte offsets where tokens start
	var starts []int
	off := 0
	for _, t := range toks {
		n := len(t.Value)
		if t.Kind == 7 {
			n += 2
		}
		if t.Kind != 2 && t.Kind != 1 {
			starts = append(starts, off)
		}
		off += n
	}
	if !allPositions {
		// one position per token kind: file start, identifier, number, punctuation, string, keyword on a new line
		pick := []int{0}
		seen := map[int]bool{}
		off = 0
		for _, t := range toks {
			n := len(t.Value)
			if t.Kind == 7 {
				n += 2
			}
			if t.Kind != 2 && t.Kind != 1 && !seen[t.Kind] && off > 0 {
				seen[t.Kind] = true
				pick = append(pick, off)
			}
			off += n
		}
		starts = pick
	}
	inside := func(marker string) int { // offset just after the first byte of the marker
		for i := 0; i+len(marker) <= len(text); i++ {
			if string(text[i:i+len(marker)]) == marker {
				return i + 1
			}
		}
		return -1
	}
	extra := []int{inside("msg"), inside("uv"), inside("8 A") /* right after the number 8 */, len(text)}
	for _, u := range boundaryUnits() {
		for _, pos := range append(append([]int{}, starts...), extra...) {
			if pos < 0 {
				continue
			}
			t := append(append(append([]byte{}, text[:pos]...), u...), text[pos:]...)
			b.add("codepoints", t)
		}
		b.add("codepoints", u) // the unit alone
	}
}
