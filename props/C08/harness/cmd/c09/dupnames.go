package main

import (
	"fmt"
	"strings"
)

// The "dupnames" stream (importer level): the same name twice inside one scope, for every kind of
// named thing: nodes, messages (same and different senders), signals of a message, multiplexor
// switches of a message (two plain, two with the same nested structure), multiplexed signals,
// value tables, attribute definitions / defaults / values, value descriptions of one list, comment
// targets, SG_MUL_VAL_ entries, message ids; and names that differ only by case or by a blank that
// the importer's sanitiser maps to the same identifier.
func dupnamesStream(b *builder) {
	hdr := "VERSION \"\"\nNS_ :\nBS_:\n"
	sg := func(name, mux string, start, size int) string {
		return fmt.Sprintf(" SG_ %s %s: %d|%d@1+ (1,0) [0|0] \"\" A\n", name, mux, start, size)
	}
	add := func(parts ...string) { b.add("dupnames", []byte(hdr+strings.Join(parts, ""))) }
	pairs := [][2]string{{"x", "x"}, {"x", "X"}, {"Ab", "Ab"}, {"n1", "n1"}}
	for _, p := range pairs {
		a, c := p[0], p[1]
		// nodes
		add("BU_: ", a, " ", c, " A\n")
		add("BU_: A ", a, " B ", c, "\nBO_ 1 m : 8 ", a, "\n", sg("s", "", 0, 8))
		// messages: same sender, different senders, same id
		add("BU_: A B\nBO_ 1 ", a, " : 8 A\n", sg("s", "", 0, 8), "BO_ 2 ", c, " : 8 A\n", sg("t", "", 0, 8))
		add("BU_: A B\nBO_ 1 ", a, " : 8 A\n", sg("s", "", 0, 8), "BO_ 2 ", c, " : 8 B\n", sg("t", "", 0, 8))
		add("BU_: A\nBO_ 1 ", a, " : 8 A\n", sg("s", "", 0, 8), "BO_ 1 ", c, "2 : 8 A\n", sg("t", "", 0, 8))
		// plain signals
		add("BU_: A\nBO_ 1 m : 8 A\n", sg(a, "", 0, 8), sg(c, "", 8, 8))
		add("BU_: A\nBO_ 1 m : 8 A\n", sg(a, "", 0, 8), sg(c, "", 0, 8))
		// two multiplexor switches with one name, with and without multiplexed signals
		add("BU_: A\nBO_ 1 m : 8 A\n", sg(a, "M", 0, 2), sg(c, "M", 8, 2))
		add("BU_: A\nBO_ 1 m : 8 A\n", sg(a, "M", 0, 2), sg(c, "M", 8, 2), sg("p", "m0", 16, 4), sg("q", "m1", 24, 4))
		add("BU_: A\nBO_ 1 m : 8 A\n", sg(a, "M", 0, 2), sg(c, "M", 8, 2), sg("p", "m0", 16, 4),
			"SG_MUL_VAL_ 1 p ", a, " 0-0;\n")
		add("BU_: A\nBO_ 1 m : 8 A\n", sg(a, "M", 0, 2), sg(c, "m1M", 8, 2), sg("p", "m0", 16, 4),
			"SG_MUL_VAL_ 1 ", c, " ", a, " 1-1;\nSG_MUL_VAL_ 1 p ", c, " 0-0;\n")
		add("BU_: A\nBO_ 1 m : 8 A\n", sg(a, "M", 0, 2), sg(c, "M", 8, 2), sg(a, "M", 16, 2))
		// a multiplexed signal named like its switch / like another multiplexed signal
		add("BU_: A\nBO_ 1 m : 8 A\n", sg("mx", "M", 0, 2), sg(a, "m0", 8, 4), sg(c, "m1", 8, 4))
		add("BU_: A\nBO_ 1 m : 8 A\n", sg(a, "M", 0, 2), sg(c, "m0", 8, 4))
		add("BU_: A\nBO_ 1 m : 8 A\n", sg("mx", "M", 0, 2), sg(a, "m0", 8, 4), sg(c, "m0", 16, 4))
		// value tables, value descriptions
		add("BU_: A\nVAL_TABLE_ ", a, " 0 \"u\" ;\nVAL_TABLE_ ", c, " 0 \"u\" 1 \"v\" ;\n")
		add("BU_: A\nVAL_TABLE_ t 0 \"", a, "\" 1 \"", c, "\" ;\n")
		add("BU_: A\nVAL_TABLE_ t 0 \"", a, "\" 0 \"", c, "2\" ;\n")
		add("BU_: A\nBO_ 1 m : 8 A\n", sg("s", "", 0, 8), "VAL_ 1 s 0 \"", a, "\" 1 \"", c, "\" ;\n")
		add("BU_: A\nBO_ 1 m : 8 A\n", sg("s", "", 0, 8), "VAL_ 1 s 0 \"u\" ;\nVAL_ 1 s 0 \"u\" 1 \"w\" ;\n")
		// attributes: definition, default, value twice
		add("BU_: A\nBA_DEF_ \"", a, "\" INT 0 10;\nBA_DEF_ \"", c, "\" STRING;\nBA_DEF_DEF_ \"", a, "\" 1;\nBA_DEF_DEF_ \"", c, "\" \"s\";\n")
		add("BU_: A\nBA_DEF_ BU_ \"", a, "\" INT 0 10;\nBA_DEF_DEF_ \"", a, "\" 1;\nBA_DEF_DEF_ \"", a, "\" 2;\nBA_ \"", a, "\" BU_ A 3;\nBA_ \"", c, "\" BU_ A 4;\n")
		add("BU_: A\nBA_DEF_ \"", a, "\" ENUM \"", a, "\",\"", c, "\";\nBA_DEF_DEF_ \"", a, "\" \"", a, "\";\nBA_ \"", a, "\" 1;\n")
		// comments on one target twice, SG_MUL_VAL_ for one signal twice
		add("BU_: A\nBO_ 1 m : 8 A\n", sg("s", "", 0, 8), "CM_ SG_ 1 s \"", a, "\";\nCM_ SG_ 1 s \"", c, "\";\nCM_ BO_ 1 \"x\";\nCM_ BO_ 1 \"y\";\nCM_ BU_ A \"x\";\nCM_ BU_ A \"y\";\n")
		add("BU_: A\nBO_ 1 m : 8 A\n", sg("mx", "M", 0, 2), sg("p", "m0", 8, 4), "SG_MUL_VAL_ 1 p mx 0-0;\nSG_MUL_VAL_ 1 p mx 1-1;\n")
	}
	// names that the importer's sanitiser may identify
	add("BU_: A\nBO_ 1 m : 8 A\n", sg("a_b", "", 0, 8), sg("a-b", "", 8, 8))
	add("BU_: Vector__XXX A Vector__XXX\nBO_ 1 m : 8 Vector__XXX\n", sg("s", "", 0, 8))
}

// rangeForms: SG_MUL_VAL_ range tokens at and beyond the edges of uint32 and in every number form
// the scanner knows, in a file that is otherwise valid.
func rangeFormsStream(b *builder) {
	bounds := []string{"0", "1", "3", "4", "4294967295", "4294967296", "9223372036854775807", "9223372036854775808", "18446744073709551616",
		"1.5", "1.", "1e1", "1E+1", "0x1", "0X1F", "+1", "007", "1-2", "٣", "99999999999999999999999999"}
	for _, lo := range bounds {
		for _, hi := range bounds {
			text := fmt.Sprintf("BU_: A\nBO_ 1 m : 8 A\n SG_ mx M : 0|2@1+ (1,0) [0|0] \"\" A\n SG_ p m0 : 8|4@1+ (1,0) [0|0] \"\" A\nSG_MUL_VAL_ 1 p mx %s-%s;\n", lo, hi)
			b.add("rangeforms", []byte(text))
		}
		b.add("rangeforms", []byte(fmt.Sprintf("BU_: A\nBO_ 1 m : 8 A\n SG_ mx M : 0|2@1+ (1,0) [0|0] \"\" A\n SG_ p m0 : 8|4@1+ (1,0) [0|0] \"\" A\nSG_MUL_VAL_ 1 p mx 0-0, %s-%s, 1-1;\n", lo, lo)))
		// the same number forms where other sections expect an unsigned number
		b.add("rangeforms", []byte(fmt.Sprintf("BS_: %s : %s , %s\nBU_: A\nBO_ %s m : %s A\n SG_ s : %s|8@1+ (1,0) [0|0] \"\" A\n", lo, lo, lo, lo, lo, lo)))
		b.add("rangeforms", []byte(fmt.Sprintf("BU_: A\nVAL_TABLE_ t %s \"x\" ;\nBA_DEF_ \"a\" HEX %s %s;\nSIG_GROUP_ %s g %s : s;\nSIG_VALTYPE_ %s s %s;\n", lo, lo, lo, lo, lo, lo, lo)))
	}
}
