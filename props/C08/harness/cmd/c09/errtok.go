package main

import (
	"fmt"
	"strings"
)

// The "errtok" stream: error tokens of every byte length 0..40 that end in a 1-, 2-, 3- or 4-byte
// character or in an invalid byte, at the end of the input and followed by more text (the scanner
// cuts the text of an error token at 20 bytes for the message): unclosed strings, invalid hex and
// exponent numbers, unrecognized symbols.
func errtokStream(b *builder) {
	tails := [][]byte{[]byte("a"), []byte("é"), []byte("€"), []byte("🚀"), {0xC3}, {0x80}, {0xE2, 0x82}, {0xF0, 0x9F, 0x9A}, {0xFF}, []byte("\t"), {0}}
	prefixes := []string{"", "BU_: A\nCM_ "}
	suffixes := []string{"", "\nBU_: B\n"}
	for n := 0; n <= 40; n++ {
		for _, tail := range tails {
			fill := n - len(tail)
			if fill < 0 {
				continue
			}
			body := strings.Repeat("x", fill) + string(tail)
			for _, p := range prefixes {
				for _, s := range suffixes {
					b.add("errtok", []byte(p+"\""+body+s)) // unclosed string (closed by nothing)
				}
			}
			// filler made of 2-byte characters so that the cut falls at every alignment
			if fill%2 == 0 {
				b.add("errtok", []byte("\""+strings.Repeat("é", fill/2)+string(tail)))
			}
			if fill%3 == 0 {
				b.add("errtok", []byte("\""+strings.Repeat("€", fill/3)+string(tail)))
			}
			if fill%4 == 0 {
				b.add("errtok", []byte("CM_ \""+strings.Repeat("🚀", fill/4)+string(tail)))
			}
		}
		digits := strings.Repeat("7", n)
		for _, s := range suffixes {
			b.add("errtok", []byte(fmt.Sprintf("BA_ \"x\" 1%se%s", digits, s)))  // invalid exponential number
			b.add("errtok", []byte(fmt.Sprintf("BA_ \"x\" 1%se+%s", digits, s))) // sign without digits
			b.add("errtok", []byte(fmt.Sprintf("BA_ \"x\" 0%sx€%s", digits, s))) // invalid hex number
			b.add("errtok", []byte(fmt.Sprintf("BU_: %s€%s", strings.Repeat("a", n), s)))
		}
	}
	for _, sym := range []string{"#", "€", "🚀", "\x80", "é", "{", "$"} {
		for _, s := range suffixes {
			b.add("errtok", []byte("BU_: A "+sym+s))
			b.add("errtok", []byte(sym+s))
		}
	}
	// truncation at every byte of a file whose strings are made of wide characters
	wide := "BU_: A\nCM_ \"ééé€€€🚀🚀🚀 café 中文\";\nBA_DEF_ \"a€b\" STRING;\nBA_DEF_DEF_ \"a€b\" \"🚀é€x\";\n"
	for i := 0; i <= len(wide); i++ {
		b.add("errtok", []byte(wide[:i]))
	}
}
