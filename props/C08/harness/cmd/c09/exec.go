package main

import (
	"bufio"
	"bytes"
	"fmt"
	"os"
	"runtime/debug"
	"strings"

	"github.com/squadracorsepolito/acmelib"
	"github.com/squadracorsepolito/acmelib/dbc"

	"verif/c08/dbccase"
)

// Outcome classes of one stage (parse or import) on one input.
const (
	clsOK       = "ok"
	clsSyn      = "syn"
	clsOther    = "other"
	clsPanic    = "PANIC"
	clsBadPos   = "BADPOS"
	clsHang     = "HANG"
	clsMem      = "MEM"
	clsCrash    = "CRASH"
	clsExcluded = "excluded" // import not run: multiplexor wider than 16 bits (property exclusion)
	clsNotRun   = "notrun"   // the child died in an earlier stage
)

func isFailure(class string) bool {
	switch class {
	case clsPanic, clsBadPos, clsHang, clsMem, clsCrash:
		return true
	}
	return false
}

type stageResult struct {
	class  string
	site   string // panics: first acmelib frame + panic kind; BADPOS: nofile|outside|notokenstart|noposition
	detail string
	stack  string
	full   string // the whole error text on one line (importer errors: compared with the model's reason)
}

const repoPkg = "github.com/squadracorsepolito/acmelib"

// panicSite extracts the first stack frame inside the library below the panic.
func panicSite(stack string) (fn, fileLine string) {
	lines := strings.Split(stack, "\n")
	afterPanic := false
	for i := 0; i+1 < len(lines); i++ {
		l := lines[i]
		if strings.HasPrefix(l, "panic(") || strings.HasPrefix(l, "runtime.") {
			afterPanic = true
		}
		if !afterPanic || !strings.HasPrefix(l, repoPkg) {
			continue
		}
		name := strings.TrimPrefix(l, repoPkg)
		if j := strings.LastIndex(name, "("); j > 0 {
			name = name[:j]
		}
		name = strings.TrimLeft(name, "/.")
		name = strings.NewReplacer("(*", "", ")", "", "[...]", "").Replace(name)
		loc := strings.TrimSpace(lines[i+1])
		if j := strings.Index(loc, " +0x"); j > 0 {
			loc = loc[:j]
		}
		if j := strings.LastIndex(loc, "/"); j >= 0 {
			loc = loc[j+1:]
		}
		return name, loc
	}
	return "unknown", ""
}

func panicKind(msg string) string {
	switch {
	case strings.Contains(msg, "nil pointer dereference"):
		return "nilderef"
	case strings.Contains(msg, "interface conversion"):
		return "typeassert"
	case strings.Contains(msg, "index out of range"):
		return "index"
	case strings.Contains(msg, "slice bounds out of range"):
		return "slice"
	case strings.Contains(msg, "divide by zero"):
		return "divzero"
	case strings.Contains(msg, "makeslice"), strings.Contains(msg, "makemap"), strings.Contains(msg, "makechan"):
		return "makeslice"
	case strings.Contains(msg, "nil map"):
		return "nilmap"
	case strings.Contains(msg, "out of memory"):
		return "oom"
	}
	return "explicit"
}

func oneLine(s string, max int) string {
	s = strings.Join(strings.Fields(strings.ToValidUTF8(s, "?")), " ")
	if len(s) > max {
		s = s[:max] + "..."
	}
	return s
}

// tailOf keeps the end of an error chain (the innermost cause comes last).
func tailOf(s string, max int) string {
	if len(s) > max {
		return s[len(s)-max:]
	}
	return s
}

func panicResult(r any, stack []byte) stageResult {
	msg := fmt.Sprint(r)
	fn, loc := panicSite(string(stack))
	return stageResult{class: clsPanic, site: fn + "." + panicKind(msg), detail: oneLine(msg+" @ "+fn+" "+loc, 300), stack: string(stack)}
}

// classifyErr sorts an error of dbc.Parse / ImportDBCFile and checks the position of syntax errors.
// parseStage: the error comes from dbc.Parse itself; there EVERY error must have the documented
// syntax-error shape ("syntax error at <file>:<line>:<col>; ..."): the property says a syntax error
// names file, line and column, and the parser has no other kind of error to report for a text.
func classifyErr(filename string, text []byte, err error, parseStage bool) stageResult {
	o := dbccase.ClassifyErr(filename, err)
	if o.Class != "syn" {
		if parseStage {
			return stageResult{class: clsBadPos, site: "noposition", detail: oneLine(err.Error(), 200)}
		}
		return stageResult{class: clsOther, detail: oneLine(err.Error(), 200), full: tailOf(oneLine(err.Error(), 1<<20), 600)}
	}
	if !o.NamesFile {
		return stageResult{class: clsBadPos, site: "nofile", detail: oneLine(err.Error(), 200)}
	}
	if !dbccase.PositionInside(text, o.Line, o.Col) {
		return stageResult{class: clsBadPos, site: "outside", detail: oneLine(err.Error(), 200)}
	}
	// the position must be where a token starts, according to a tokenizer that does not share
	// code with the repository's scanner
	if !dbccase.PositionAtTokenStart(text, o.Line, o.Col) {
		return stageResult{class: clsBadPos, site: "notokenstart", detail: oneLine(err.Error(), 200)}
	}
	return stageResult{class: clsSyn, detail: oneLine(err.Error(), 200)}
}

// parseWithStack re-runs dbc.Parse under a recover that keeps the stack.
func parseWithStack(filename string, text []byte, hexMode bool) (res stageResult) {
	defer func() {
		if r := recover(); r != nil {
			res = panicResult(r, debug.Stack())
		}
	}()
	_, _ = dbc.Parse(filename, bytes.NewReader(text), hexMode)
	return stageResult{class: clsOK}
}

// runParse: dbccase.ParseSafe, then classification; a panic is re-run to learn its site.
func runParse(filename string, text []byte) (dbccase.Outcome, stageResult) {
	o := dbccase.ParseSafe(filename, text, false)
	switch o.Class {
	case "ok":
		return o, stageResult{class: clsOK}
	case "syn", "other":
		res := classifyErr(filename, text, o.Err, true)
		if res.class == clsSyn {
			if bad, isBad := sameUnderEveryName(text, false, filename, o); isBad {
				return o, bad
			}
		}
		return o, res
	}
	res := parseWithStack(filename, text, false)
	if res.class != clsPanic { // not reproduced: keep the text ParseSafe recorded
		res = stageResult{class: clsPanic, site: "unknown." + panicKind(o.Panic), detail: oneLine(o.Panic, 300)}
	}
	return o, res
}

// runParseHex: dbc.Parse with hexNumbersEnabled = true (ImportDBCFile never uses that mode, the
// parser entry point has it): same classification; reported under the parse stage with the site
// prefixed by "hex:".
func runParseHex(filename string, text []byte) stageResult {
	o := dbccase.ParseSafe(filename, text, true)
	var res stageResult
	switch o.Class {
	case "ok":
		return stageResult{class: clsOK}
	case "syn", "other":
		res = classifyErr(filename, text, o.Err, true)
		if res.class == clsSyn {
			if bad, isBad := sameUnderEveryName(text, true, filename, o); isBad {
				res = bad
			}
		}
	default:
		res = parseWithStack(filename, text, true)
		if res.class != clsPanic {
			res = stageResult{class: clsPanic, site: "unknown." + panicKind(o.Panic), detail: oneLine(o.Panic, 300)}
		}
	}
	if res.class == clsPanic || res.class == clsBadPos {
		res.site = "hex:" + res.site
	}
	return res
}

const modelSelectorBits = 8

func runImport(filename string, text []byte) (res stageResult) {
	defer func() {
		if r := recover(); r != nil {
			res = panicResult(r, debug.Stack())
		}
	}()
	_, err := acmelib.ImportDBCFile(filename, bytes.NewReader(text))
	if err == nil {
		return stageResult{class: clsOK}
	}
	res = classifyErr(filename, text, err, false)
	if res.class == clsOther || res.class == clsSyn {
		if bad, isBad := importNamesFile(text, filename, err); isBad {
			return bad
		}
	}
	return res
}

// emitRecord writes the record of one input; a panic inside EmitCase (scanner hook, projection,
// writer) turns the record into a short one and is reported as a parse-stage panic.
func emitRecord(idx int, in input, o dbccase.Outcome, importClass, importErr string) (rec []byte, res stageResult) {
	extra := []string{"IMPORT " + importClass}
	if importClass == clsOther {
		extra = append(extra, "IMPORTERR "+importErr)
	}
	if o.Class == "ok" && o.File != nil && (importClass == clsOK || importClass == clsOther) {
		// the parsed document for the model of the importer (coq/C10/Import.v): outcome classes are compared.
		// The model builds the group list of a multiplexer explicitly (2^width entries, quadratic checks):
		// selectors wider than 8 bits are left to the execution alone.
		if dbccase.WideMux(o.File, modelSelectorBits) {
			extra = append(extra, "C10SKIP selector")
		} else {
			func() {
				defer func() { recover() }()
				if tree, ok, big := dbccase.C10Doc("in.dbc", o.File); ok {
					if big {
						extra = append(extra, "C10FLOATCONV")
					}
					extra = append(extra, "C10DOC "+tree)
				} else {
					extra = append(extra, "C10SKIP float")
				}
			}()
		}
	}
	var buf bytes.Buffer
	w := bufio.NewWriter(&buf)
	if in.short {
		dbccase.EmitShort(w, idx, in.stream, in.text, o, extra)
		w.Flush()
		return buf.Bytes(), stageResult{class: clsOK}
	}
	func() {
		defer func() {
			if r := recover(); r != nil {
				res = panicResult(r, debug.Stack())
				res.site = "emit:" + res.site
			}
		}()
		// every fourth record carries dbc.Parse's answer in the parser's OTHER number mode (hexadecimal numbers
		// enabled), so that tokens, outcome, error position, document and writer's text are recomputed by the
		// model in that mode too; the import lines always come from the decimal mode ImportDBCFile uses
		if idx%4 == 3 {
			if oh := dbccase.ParseSafe(fmt.Sprintf("in%d.dbc", idx), in.text, true); oh.Class != "panic" {
				dbccase.EmitCase(w, idx, in.stream, true, in.text, oh, extra)
				res = stageResult{class: clsOK}
				return
			}
		}
		dbccase.EmitCase(w, idx, in.stream, false, in.text, o, extra)
		res = stageResult{class: clsOK}
	}()
	if res.class == clsPanic {
		buf.Reset()
		w = bufio.NewWriter(&buf)
		dbccase.EmitShort(w, idx, in.stream, in.text, dbccase.Outcome{Class: "panic", Panic: res.detail}, extra)
	}
	w.Flush()
	return buf.Bytes(), res
}

// ---- inputs file -------------------------------------------------------------------------------
//
//	IN <idx> <stream> <short 0|1> <len>\n<len raw bytes>\n

func writeInputs(path string, ins []input) error {
	f, err := os.Create(path)
	if err != nil {
		return err
	}
	w := bufio.NewWriter(f)
	for _, in := range ins {
		s := 0
		if in.short {
			s = 1
		}
		fmt.Fprintf(w, "IN %d %s %d %d\n", in.idx, in.stream, s, len(in.text))
		w.Write(in.text)
		w.WriteByte('\n')
	}
	if err := w.Flush(); err != nil {
		f.Close()
		return err
	}
	return f.Close()
}

func readInputs(path string) ([]input, error) {
	data, err := os.ReadFile(path)
	if err != nil {
		return nil, err
	}
	var out []input
	for len(data) > 0 {
		nl := bytes.IndexByte(data, '\n')
		if nl < 0 {
			return nil, fmt.Errorf("%s: truncated header", path)
		}
		var in input
		var s, n int
		if _, err := fmt.Sscanf(string(data[:nl]), "IN %d %s %d %d", &in.idx, &in.stream, &s, &n); err != nil {
			return nil, fmt.Errorf("%s: bad header %q: %v", path, data[:nl], err)
		}
		data = data[nl+1:]
		if len(data) < n+1 {
			return nil, fmt.Errorf("%s: truncated body", path)
		}
		in.short = s == 1
		in.text = append([]byte(nil), data[:n]...)
		data = data[n+1:]
		out = append(out, in)
	}
	return out, nil
}
