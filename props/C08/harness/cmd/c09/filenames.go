package main

import (
	"bytes"
	"fmt"
	"runtime/debug"
	"strings"

	"github.com/squadracorsepolito/acmelib"

	"verif/c08/dbccase"
)

// The file name is an argument of dbc.Parse / ImportDBCFile and a part of every error position
// ("syntax error at <file>:<line>:<col>; ..."): the property says a syntax error names the FILE,
// so the name reported must be the name passed in, whatever the name is. Every input that is
// rejected under the ordinary name is parsed again under each of these names; the outcome must be
// the same error at the same line and column, naming exactly that file (added after the seeded change
// C09-r5m3 - the location concatenated into the format string of fmt.Errorf, so that a '%' in the
// name is read as a verb - was missed: the harness only ever passed "in<idx>.dbc").
var fileNames = []string{
	"50%speed.dbc", "log_%d.dbc", "%s", "a%!b.dbc", "100%", "my%20bus.dbc", "%v%v%v%v%v", "%[9]d%*d.dbc", "%%",
	"my bus (1).dbc", "tab\there.dbc", "dir/sub dir\\x.dbc", "ünï/名前🚗.dbc", "x:7:9.dbc", ":", ";", "syntax error at a.dbc:1:1; ",
	"", " ", "\x00.dbc", "\xff\xfe.dbc", strings.Repeat("long-name_", 500) + ".dbc",
}

// sameUnderEveryName: base is the classified result under the ordinary name (class syn or BADPOS).
// Returns a BADPOS result when some other name changes the outcome.
func sameUnderEveryName(text []byte, hexMode bool, baseName string, base dbccase.Outcome) (bad stageResult, isBad bool) {
	if base.Class != "syn" || !base.NamesFile {
		return stageResult{}, false
	}
	// four names per rejected input (two in the hexadecimal number mode and for texts above 4 KB): the two with a
	// verb-like '%' always, the others in rotation - every name meets thousands of inputs in a run
	names := []string{fileNames[0], fileNames[1]}
	if !hexMode && len(text) <= 4096 {
		k := len(text) + int(base.Line)*7 + int(base.Col)*13
		names = append(names, fileNames[2+k%(len(fileNames)-2)], fileNames[2+(k/3+5)%(len(fileNames)-2)])
	}
	for _, name := range names {
		o := dbccase.ParseSafe(name, text, hexMode)
		site := ""
		switch {
		case o.Class == "panic":
			return stageResult{class: clsPanic, site: "filename." + panicKind(o.Panic), detail: oneLine(fmt.Sprintf("file name %q: %s", name, o.Panic), 300)}, true
		case o.Class != "syn":
			site = "filename-changes-outcome"
		case !o.NamesFile:
			site = "filename-not-reported"
		case o.Line != base.Line || o.Col != base.Col:
			site = "filename-changes-position"
		case !strings.HasPrefix(strings.TrimPrefix(o.Err.Error(), "syntax error at "+name+":"), strings.TrimPrefix(base.Err.Error(), "syntax error at "+baseName+":")):
			// what follows the file name (line, column, expectation, offending value) must not depend on the name
			site = "filename-changes-message"
		}
		if site != "" {
			msg := "<nil>"
			if o.Err != nil {
				msg = o.Err.Error()
			}
			return stageResult{class: clsBadPos, site: site, detail: oneLine(fmt.Sprintf("dbc.Parse(%q, ...) reports [%s]; under the name %q it reports [%s]", name, msg, baseName, base.Err.Error()), 400)}, true
		}
	}
	return stageResult{}, false
}

// importNamesFile: an error of ImportDBCFile that starts with "<name>:" under the ordinary name (the
// importer puts the location of the entry first) must start with the name passed under other names too.
func importNamesFile(text []byte, baseName string, baseErr error) (bad stageResult, isBad bool) {
	b := baseErr.Error()
	if !strings.HasPrefix(b, baseName+":") && !strings.HasPrefix(b, "syntax error at "+baseName+":") {
		return stageResult{}, false
	}
	if len(text) > 4096 {
		return stageResult{}, false
	}
	for _, name := range []string{"50%speed.dbc", "%s%s:%d ünï 名前.dbc"} {
		var err error
		pan := ""
		func() {
			defer func() {
				if r := recover(); r != nil {
					pan = fmt.Sprint(r) + " @ " + oneLine(string(debug.Stack()), 200)
				}
			}()
			_, err = acmelib.ImportDBCFile(name, bytes.NewReader(text))
		}()
		if pan != "" {
			return stageResult{class: clsPanic, site: "filename." + panicKind(pan), detail: oneLine(fmt.Sprintf("file name %q: %s", name, pan), 300)}, true
		}
		// the location part: "<line>:<col>" up to the separator that follows it (the rest of an importer error holds
		// the bus name, which is the file name, and fresh entity ids)
		loc := strings.TrimPrefix(strings.TrimPrefix(b, "syntax error at "), baseName+":")
		if i := strings.IndexAny(loc, " ;"); i >= 0 {
			loc = loc[:i]
		}
		if err == nil || !(strings.HasPrefix(err.Error(), name+":"+loc) || strings.HasPrefix(err.Error(), "syntax error at "+name+":"+loc)) {
			msg := "<nil>"
			if err != nil {
				msg = err.Error()
			}
			return stageResult{class: clsBadPos, site: "import-filename", detail: oneLine(fmt.Sprintf("ImportDBCFile(%q, ...) reports [%s]; under the name %q it reports [%s]", name, msg, baseName, b), 400)}, true
		}
	}
	return stageResult{}, false
}
