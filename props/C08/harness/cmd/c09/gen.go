package main

import (
	"fmt"
	"strconv"
	"strings"

	"github.com/squadracorsepolito/acmelib/dbc"
)

// Grammar-based generator of DBC documents in the concrete syntax accepted by dbc/parser.go.
// A document is a list of sections (one per statement, a BO_ section holds its SG_ lines) so that
// the other streams can drop, shuffle and mutate them.

type section struct {
	kind string
	text string
}

type doc struct{ secs []section }

func (d *doc) bytes() []byte {
	var b strings.Builder
	for _, s := range d.secs {
		b.WriteString(s.text)
	}
	return []byte(b.String())
}

func (d *doc) kinds() []string {
	seen := map[string]bool{}
	var out []string
	for _, s := range d.secs {
		if !seen[s.kind] {
			seen[s.kind] = true
			out = append(out, s.kind)
		}
	}
	return out
}

// tw writes tokens with either the canonical separators (those of dbc/writer.go) or, with
// probability messy%, another lexically equivalent separator.
type tw struct {
	r     *rng
	messy int
	b     strings.Builder
}

var wsPool = []string{" ", " ", " ", " ", "  ", "\t", "\n", "\r\n", " \n\t", "\n "}

func (w *tw) ws() string { return pick(w.r, wsPool) }

// tok writes separator + token. glue: an empty separator keeps the token boundaries.
func (w *tw) tok(canon, s string, glue bool) {
	if w.messy > 0 && w.r.chance(w.messy) {
		if !(glue && w.r.chance(40)) {
			w.b.WriteString(w.ws())
		}
	} else {
		w.b.WriteString(canon)
	}
	w.b.WriteString(s)
}

// end terminates a statement.
func (w *tw) end() {
	if w.messy > 0 && w.r.chance(w.messy) {
		w.b.WriteString(pick(w.r, []string{"\n\n", " \n", "\r\n", "\n\t", " ", "\n"}))
		return
	}
	w.b.WriteString("\n")
}

func (w *tw) take() string {
	s := w.b.String()
	w.b.Reset()
	return s
}

type gsig struct {
	name   string
	mux    string // "", "M", "m3", "m3M"
	pos    int    // position in the importer's linear numbering
	size   int
	signed bool
	recv   []string
	enum   bool // gets a VAL_ entry
}

type gmsg struct {
	id     uint32
	name   string
	size   int
	tx     string
	be     bool
	sigs   []*gsig
	extmux []string // SG_MUL_VAL_ statements bodies: "sig muxor 0-1, 3-3"
}

type gattr struct {
	obj  string // "", BU_, BO_, SG_, EV_
	name string
	typ  string // INT HEX FLOAT STRING ENUM
	min  int
	max  int
	vals []string
}

type genCfg struct {
	messy int  // percent of irregular separators
	small bool // few short sections (for byte-level truncation)
}

type gen struct {
	r     *rng
	cfg   genCfg
	used  map[string]bool
	nodes []string
	msgs  []*gmsg
	envs  []string
	vts   []string
	attrs []gattr
	w     *tw
}

var identHeads = []string{"N", "ECU", "node_", "Msg", "FRAME_", "s", "sig_", "S", "x", "a-b", "Temp", "mode", "m_", "M1", "e", "E2", "val", "t"}
var identTail = "abcdefghijklmnopqrstuvwxyzABCDEFGHIJKLMNOPQRSTUVWXYZ0123456789__"

func (g *gen) ident(head string) string {
	for {
		var b strings.Builder
		if head == "" {
			b.WriteString(pick(g.r, identHeads))
		} else {
			b.WriteString(head)
		}
		n := g.r.intn(5)
		for i := 0; i < n; i++ {
			b.WriteByte(identTail[g.r.intn(len(identTail))])
		}
		s := b.String()
		if g.used[s] || !plainIdent(s) {
			continue
		}
		g.used[s] = true
		return s
	}
}

// plainIdent: what scanText classifies as an identifier (not a keyword, not a mux indicator).
func plainIdent(s string) bool {
	if s == "" || s == "M" {
		return false
	}
	c := s[0]
	if !(c >= 'a' && c <= 'z' || c >= 'A' && c <= 'Z') {
		return false
	}
	for _, k := range allKeywords {
		if s == k {
			return false
		}
	}
	if c == 'm' && len(s) > 1 {
		isMux, found := true, false
		for i := 1; i < len(s); i++ {
			ch := s[i]
			if ch >= '0' && ch <= '9' {
				found = true
			} else if !found || ch != 'M' {
				isMux = false
			}
		}
		if isMux {
			return false
		}
	}
	return true
}

var allKeywords = func() []string { ks, _ := dbc.VerifKeywords(); return ks }()

var stringPool = []string{"", "u", "degC", "km/h", "a b", "%", "x;y", "°C", "é", "1", "text, more", "BO_", "m1", "[0|1]", "line1\nline2", "tab\there", "µ"}

func (g *gen) str() string { return `"` + pick(g.r, stringPool) + `"` }

var floatPool = []string{"0", "1", "-1", "2", "0.5", "-0.25", "1.5e3", "1E-2", "+2", "100", "3.", "1e0", "65535", "0.001", "-40", "1E+3", "12345678", "1e300"}

func (g *gen) float() string { return pick(g.r, floatPool) }

// intFloat: integral values only (keeps the importer on the integer signal type).
func (g *gen) intFloat() string {
	return pick(g.r, []string{"0", "1", "2", "-1", "10", "255", "-128", "1e2"})
}

func (g *gen) uintTok(max int) string { return strconv.Itoa(g.r.intn(max + 1)) }

func dbcStartBit(pos int, be bool) int {
	if !be {
		return pos
	}
	return 8*(pos/8) + 7 - pos%8
}

func (g *gen) nodeOrDummy() string {
	if len(g.nodes) == 0 || g.r.chance(25) {
		return dbc.DummyNode
	}
	return pick(g.r, g.nodes)
}

func (g *gen) newSig(prefix string, pos, size int) *gsig {
	s := &gsig{name: g.ident(prefix), pos: pos, size: size, signed: g.r.chance(30)}
	n := 1 + g.r.intn(3)
	for i := 0; i < n; i++ {
		s.recv = append(s.recv, g.nodeOrDummy())
	}
	return s
}

func (g *gen) sigSize(avail int) int {
	if avail < 1 {
		return 0
	}
	max := 16
	if g.r.chance(10) {
		max = 64
	}
	if max > avail {
		max = avail
	}
	return 1 + g.r.intn(max)
}

// plainSigs lays signals out from *cursor without overlap.
func (g *gen) plainSigs(m *gmsg, cursor *int, limit, count int, mux string) (end int) {
	end = *cursor
	for i := 0; i < count; i++ {
		gap := 0
		if g.r.chance(30) {
			gap = g.r.intn(4)
		}
		size := g.sigSize(limit - *cursor - gap)
		if size == 0 {
			return end
		}
		s := g.newSig("", *cursor+gap, size)
		s.mux = mux
		m.sigs = append(m.sigs, s)
		*cursor += gap + size
		end = *cursor
	}
	return end
}

func (g *gen) selectorSize() int {
	switch {
	case g.r.chance(70):
		return 1 + g.r.intn(4)
	case g.r.chance(80):
		return 5 + g.r.intn(4)
	default:
		return 9 + g.r.intn(8) // up to 16
	}
}

func (g *gen) genMessage(kind int) *gmsg {
	m := &gmsg{name: g.ident(pick(g.r, []string{"Msg", "FRAME_", "msg_"})), tx: g.nodeOrDummy(), be: g.r.chance(30)}
	for {
		m.id = uint32(g.r.intn(2048))
		if g.r.chance(10) {
			m.id = 0x80000000 | uint32(g.r.intn(1<<29))
		}
		dup := false
		for _, o := range g.msgs {
			if o.id == m.id {
				dup = true
			}
		}
		if !dup {
			break
		}
	}
	if kind == 3 && g.r.chance(90) {
		// the importer orders multiplexors by DBC start bit: nested big-endian ones inside one byte
		// come out in the wrong order (an import error, not a crash), keep most nested messages little-endian
		m.be = false
	}
	m.size = 1 + g.r.intn(8)
	if kind > 0 && m.size < 3 {
		m.size = 3 + g.r.intn(6)
	}
	total := 8 * m.size
	cursor := 0
	switch kind {
	case 0: // no multiplexing
		n := 1 + g.r.intn(5)
		if g.cfg.small {
			n = 1 + g.r.intn(2)
		}
		if g.r.chance(5) {
			n = 0
		}
		g.plainSigs(m, &cursor, total, n, "")

	case 1: // one multiplexor, m<v> marks, optional SG_MUL_VAL_
		g.plainSigs(m, &cursor, total-12, g.r.intn(2), "")
		k := g.selectorSize()
		if k > total-cursor-4 {
			k = 1 + g.r.intn(2)
		}
		muxor := g.newSig("mux", cursor, k)
		muxor.mux = "M"
		muxor.signed = false
		m.sigs = append(m.sigs, muxor)
		cursor += k
		if g.r.chance(30) { // a plain signal between the multiplexor and the groups: fixed in all groups
			g.plainSigs(m, &cursor, total-2, 1, "")
		}
		if g.r.chance(30) && total-cursor > 3 { // a signal living in several groups by SG_MUL_VAL_
			size := 1 + g.r.intn(2)
			s := g.newSig("multi", cursor, size)
			lo := g.r.intn(1 << k)
			hi := lo + g.r.intn((1<<k)-lo)
			if hi-lo > 40 {
				hi = lo + 40
			}
			s.mux = "m" + strconv.Itoa(lo)
			m.sigs = append(m.sigs, s)
			m.extmux = append(m.extmux, fmt.Sprintf("%s %s %d-%d", s.name, muxor.name, lo, hi))
			cursor += size
		}
		ngroups := 1 + g.r.intn(3)
		seen := map[int]bool{}
		for i := 0; i < ngroups; i++ {
			v := g.r.intn(1 << k)
			if seen[v] {
				continue
			}
			seen[v] = true
			c := cursor
			g.plainSigs(m, &c, total, 1+g.r.intn(2), "m"+strconv.Itoa(v))
		}

	case 2: // two top level multiplexors, every multiplexed signal named by SG_MUL_VAL_
		half := total / 2
		for part := 0; part < 2; part++ {
			limit := half * (part + 1)
			k := 1 + g.r.intn(3)
			muxor := g.newSig("mux", cursor, k)
			muxor.mux = "M"
			muxor.signed = false
			m.sigs = append(m.sigs, muxor)
			cursor += k
			end := cursor
			for i := 0; i < 1+g.r.intn(2); i++ {
				v := g.r.intn(1 << k)
				c := cursor
				before := len(m.sigs)
				e := g.plainSigs(m, &c, limit, 1, "m"+strconv.Itoa(v))
				for _, s := range m.sigs[before:] {
					m.extmux = append(m.extmux, fmt.Sprintf("%s %s %d-%d", s.name, muxor.name, v, v))
				}
				if e > end {
					end = e
				}
				cursor = c // groups laid one after the other: never overlap
			}
			cursor = end
			if cursor < half && part == 0 {
				cursor = half
			}
		}

	case 3: // nested: M, then m<v>M inside one of its groups
		k := 1 + g.r.intn(3)
		outer := g.newSig("mux", cursor, k)
		outer.mux = "M"
		outer.signed = false
		m.sigs = append(m.sigs, outer)
		cursor += k
		v := g.r.intn(1 << k)
		k2 := 1 + g.r.intn(2)
		inner := g.newSig("inner", cursor, k2)
		inner.mux = "m" + strconv.Itoa(v) + "M"
		inner.signed = false
		m.sigs = append(m.sigs, inner)
		m.extmux = append(m.extmux, fmt.Sprintf("%s %s %d-%d", inner.name, outer.name, v, v))
		cursor += k2
		for i := 0; i < 1+g.r.intn(2); i++ {
			v2 := g.r.intn(1 << k2)
			before := len(m.sigs)
			g.plainSigs(m, &cursor, total, 1, "m"+strconv.Itoa(v2))
			for _, s := range m.sigs[before:] {
				m.extmux = append(m.extmux, fmt.Sprintf("%s %s %d-%d", s.name, inner.name, v2, v2))
			}
		}
		if g.r.chance(50) && (1<<k) > 1 { // a sibling of the nested multiplexor in another group of the outer one
			v3 := (v + 1) % (1 << k)
			c := outer.pos + k
			before := len(m.sigs)
			g.plainSigs(m, &c, total, 1, "m"+strconv.Itoa(v3))
			for _, s := range m.sigs[before:] {
				m.extmux = append(m.extmux, fmt.Sprintf("%s %s %d-%d", s.name, outer.name, v3, v3))
			}
		}
	}
	return m
}

func (g *gen) writeMessage(m *gmsg) string {
	w := g.w
	w.tok("", "BO_", false)
	w.tok(" ", strconv.FormatUint(uint64(m.id), 10), false)
	w.tok(" ", m.name, false)
	w.tok(" ", ":", true)
	w.tok(" ", strconv.Itoa(m.size), true)
	w.tok(" ", m.tx, false)
	order := make([]int, len(m.sigs))
	for i := range order {
		order[i] = i
	}
	if g.r.chance(30) {
		shuffle(g.r, order)
	}
	for _, i := range order {
		s := m.sigs[i]
		w.tok("\n ", "SG_", false)
		w.tok(" ", s.name, false)
		if s.mux != "" {
			w.tok(" ", s.mux, false)
		}
		w.tok(" ", ":", true)
		w.tok(" ", strconv.Itoa(dbcStartBit(s.pos, m.be)), true)
		w.tok("", "|", true)
		w.tok("", strconv.Itoa(s.size), true)
		w.tok("", "@", true)
		if m.be {
			w.tok("", "0", true)
		} else {
			w.tok("", "1", true)
		}
		if s.signed {
			w.tok("", "-", true)
		} else {
			w.tok("", "+", true)
		}
		w.tok(" ", "(", true)
		if g.r.chance(25) {
			w.tok("", g.float(), true)
			w.tok("", ",", true)
			w.tok("", g.float(), true)
		} else {
			w.tok("", pick(g.r, []string{"1", "1", "2", "10"}), true)
			w.tok("", ",", true)
			w.tok("", g.intFloat(), true)
		}
		w.tok("", ")", true)
		w.tok(" ", "[", true)
		if g.r.chance(25) {
			w.tok("", g.float(), true)
			w.tok("", "|", true)
			w.tok("", g.float(), true)
		} else {
			w.tok("", "0", true)
			w.tok("", "|", true)
			w.tok("", g.intFloat(), true)
		}
		w.tok("", "]", true)
		w.tok(" ", g.str(), true)
		for j, rc := range s.recv {
			if j == 0 {
				w.tok(" ", rc, true) // glued to the closing quote is fine
			} else {
				w.tok("", ",", true)
				w.tok("", rc, true)
			}
		}
	}
	w.end()
	if !g.cfg.small || g.r.chance(50) {
		w.end()
	}
	return w.take()
}

func (g *gen) valDescs(n, maxID int) {
	w := g.w
	seenID := map[int]bool{}
	for i := 0; i < n; i++ {
		id := g.r.intn(maxID + 1)
		if seenID[id] {
			continue
		}
		seenID[id] = true
		w.tok(" ", strconv.Itoa(id), false)
		w.tok(" ", `"V`+strconv.Itoa(id)+pick(g.r, []string{"", "_x", " y"})+`"`, true)
	}
}

func (g *gen) attrValue(a gattr, forDefault bool) string {
	switch a.typ {
	case "INT", "HEX":
		v := g.r.between(a.min, a.max)
		return strconv.Itoa(v)
	case "FLOAT":
		if g.r.chance(50) {
			return strconv.Itoa(g.r.between(a.min, a.max))
		}
		if a.max > a.min {
			return strconv.Itoa(g.r.between(a.min, a.max-1)) + pick(g.r, []string{".5", ".25", ".0"})
		}
		return strconv.Itoa(a.min) + ".0"
	case "STRING":
		return g.str()
	default: // ENUM
		if len(a.vals) == 0 {
			return `""`
		}
		if forDefault || g.r.chance(40) {
			return `"` + pick(g.r, a.vals) + `"`
		}
		return strconv.Itoa(g.r.intn(len(a.vals)))
	}
}

var wellKnown = []gattr{
	{obj: "BO_", name: dbc.MsgCycleTimeName, typ: "INT", min: dbc.MsgCycleTimeMin, max: dbc.MsgCycleTimeMax},
	{obj: "BO_", name: dbc.MsgDelayTimeName, typ: "INT", min: dbc.MsgDelayTimeMin, max: dbc.MsgDelayTimeMax},
	{obj: "BO_", name: dbc.MsgStartDelayTimeName, typ: "INT", min: dbc.MsgStartDelayTimeMin, max: dbc.MsgStartDelayTimeMax},
	{obj: "BO_", name: dbc.MsgSendTypeName, typ: "ENUM", vals: dbc.MsgSendTypeValues},
	{obj: "SG_", name: dbc.SigStartValueName, typ: "FLOAT", min: dbc.SigStartValueMin, max: dbc.SigStartValueMax},
	{obj: "SG_", name: dbc.SigSendTypeName, typ: "ENUM", vals: dbc.SigSendTypeValues},
}

func (g *gen) writeAttrDef(a gattr) string {
	w := g.w
	w.tok("", "BA_DEF_", false)
	if a.obj != "" {
		w.tok(" ", a.obj, false)
	}
	w.tok(" ", `"`+a.name+`"`, true)
	w.tok(" ", a.typ, true)
	switch a.typ {
	case "INT", "HEX":
		w.tok(" ", strconv.Itoa(a.min), false)
		w.tok(" ", strconv.Itoa(a.max), false)
	case "FLOAT":
		w.tok(" ", strconv.Itoa(a.min)+pick(g.r, []string{"", ".0", "e0"}), false)
		w.tok(" ", strconv.Itoa(a.max)+pick(g.r, []string{"", ".5"}), false)
	case "ENUM":
		for i, v := range a.vals {
			if i > 0 {
				w.tok("", ",", true)
				w.tok(" ", `"`+v+`"`, true)
			} else {
				w.tok(" ", `"`+v+`"`, true)
			}
		}
	}
	w.tok("", ";", true)
	w.end()
	return w.take()
}

func (g *gen) allSigs() (out [][2]string) {
	for _, m := range g.msgs {
		for _, s := range m.sigs {
			out = append(out, [2]string{strconv.FormatUint(uint64(m.id), 10), s.name})
		}
	}
	return out
}

func (g *gen) anyMsgID() string {
	if len(g.msgs) == 0 {
		return g.uintTok(2047)
	}
	return strconv.FormatUint(uint64(pick(g.r, g.msgs).id), 10)
}

func (g *gen) anySig() [2]string {
	l := g.allSigs()
	if len(l) == 0 {
		return [2]string{g.uintTok(2047), "nosig"}
	}
	return pick(g.r, l)
}

// target writes the object reference of CM_/BA_ for obj kind ("" general).
func (g *gen) target(obj string) {
	w := g.w
	switch obj {
	case "BU_":
		w.tok(" ", "BU_", false)
		w.tok(" ", g.nodeOrDummy(), false)
	case "BO_":
		w.tok(" ", "BO_", false)
		w.tok(" ", g.anyMsgID(), false)
	case "SG_":
		s := g.anySig()
		w.tok(" ", "SG_", false)
		w.tok(" ", s[0], false)
		w.tok(" ", s[1], false)
	case "EV_":
		w.tok(" ", "EV_", false)
		if len(g.envs) > 0 {
			w.tok(" ", pick(g.r, g.envs), false)
		} else {
			w.tok(" ", "noenv", false)
		}
	}
}

// count: how many statements of a repeated section.
func (g *gen) count(max int) int {
	if g.cfg.small {
		return g.r.intn(2)
	}
	return g.r.intn(max + 1)
}

func genDoc(r *rng, cfg genCfg) *doc {
	g := &gen{r: r, cfg: cfg, used: map[string]bool{}}
	g.w = &tw{r: r, messy: cfg.messy}
	w := g.w
	d := &doc{}
	add := func(kind string) { d.secs = append(d.secs, section{kind, w.take()}) }

	// header
	hasNS := r.chance(60) && !cfg.small
	hasBS := hasNS || r.chance(70)
	hasBU := r.chance(92)
	if r.chance(90) {
		w.tok("", "VERSION", false)
		w.tok(" ", pick(r, []string{`""`, `"_"`, `"1.0"`, `"v 2"`}), true)
		w.end()
		w.end()
		add("VERSION")
	}
	if hasNS {
		w.tok("", "NS_", false)
		w.tok("", ":", true)
		syms := dbc.VerifNewSymbols()
		for _, i := range r.sample(len(syms), pick(r, []int{0, 3, len(syms), len(syms)})) {
			w.tok("\n\t", syms[i], false)
		}
		w.end()
		w.end()
		add("NS_")
	}
	if hasBS {
		w.tok("", "BS_", false)
		w.tok("", ":", true)
		if !hasBU || r.chance(15) {
			w.tok(" ", g.uintTok(1000000), true)
			w.tok(" ", ":", true)
			w.tok(" ", g.uintTok(255), true)
			w.tok("", ",", true)
			w.tok("", g.uintTok(255), true)
		}
		w.end()
		w.end()
		add("BS_")
	}
	if hasBU {
		n := 1 + r.intn(4)
		if r.chance(5) {
			n = 0
		}
		w.tok("", "BU_", false)
		w.tok("", ":", true)
		for i := 0; i < n; i++ {
			nm := g.ident(pick(r, []string{"N", "ECU", "node_", ""}))
			g.nodes = append(g.nodes, nm)
			w.tok(" ", nm, i == 0)
		}
		w.end()
		w.end()
		add("BU_")
	}

	// value tables
	for i := 0; i < g.count(2); i++ {
		nm := g.ident("vt_")
		g.vts = append(g.vts, nm)
		w.tok("", "VAL_TABLE_", false)
		w.tok(" ", nm, false)
		g.valDescs(r.intn(4), 15)
		w.tok("", ";", true)
		w.end()
		add("VAL_TABLE_")
	}

	// messages
	nmsg := 1 + r.intn(3)
	if cfg.small {
		nmsg = 1
	}
	for i := 0; i < nmsg; i++ {
		kind := 0
		if r.chance(45) {
			kind = 1 + r.intn(3)
		}
		m := g.genMessage(kind)
		g.msgs = append(g.msgs, m)
		d.secs = append(d.secs, section{"BO_", g.writeMessage(m)})
	}

	// BO_TX_BU_
	for i := 0; i < g.count(1); i++ {
		w.tok("", "BO_TX_BU_", false)
		w.tok(" ", g.anyMsgID(), false)
		w.tok(" ", ":", true)
		for j := 0; j < r.intn(3); j++ {
			w.tok(" ", g.nodeOrDummy(), j == 0)
		}
		w.tok("", ";", true)
		w.end()
		add("BO_TX_BU_")
	}

	// EV_ and ENVVAR_DATA_
	for i := 0; i < g.count(2); i++ {
		nm := g.ident("env_")
		g.envs = append(g.envs, nm)
		w.tok("", "EV_", false)
		w.tok(" ", nm, false)
		w.tok("", ":", true)
		w.tok(" ", g.uintTok(2), true)
		w.tok(" ", "[", true)
		w.tok("", g.float(), true)
		w.tok("", "|", true)
		w.tok("", g.float(), true)
		w.tok("", "]", true)
		w.tok(" ", g.str(), true)
		w.tok(" ", g.float(), true)
		w.tok(" ", g.uintTok(100), false)
		acc, _ := dbc.VerifAccessTypes()
		w.tok(" ", pick(r, acc), false)
		w.tok(" ", g.nodeOrDummy(), false)
		for j := 0; j < r.intn(3); j++ {
			w.tok("", ",", true)
			w.tok("", g.nodeOrDummy(), true)
		}
		w.tok("", ";", true)
		w.end()
		add("EV_")
	}
	for i := 0; i < g.count(1); i++ {
		w.tok("", "ENVVAR_DATA_", false)
		if len(g.envs) > 0 {
			w.tok(" ", pick(r, g.envs), false)
		} else {
			w.tok(" ", "noenv", false)
		}
		w.tok("", ":", true)
		w.tok(" ", g.uintTok(64), true)
		w.tok("", ";", true)
		w.end()
		add("ENVVAR_DATA_")
	}

	// SGTYPE_ definition and reference
	var sgtypes []string
	for i := 0; i < g.count(2); i++ {
		w.tok("", "SGTYPE_", false)
		if len(sgtypes) > 0 && r.chance(50) {
			s := g.anySig()
			w.tok(" ", s[0], false)
			w.tok(" ", s[1], false)
			w.tok(" ", ":", true)
			w.tok(" ", pick(r, sgtypes), true)
		} else {
			nm := g.ident("type_")
			sgtypes = append(sgtypes, nm)
			w.tok(" ", nm, false)
			w.tok(" ", ":", true)
			w.tok(" ", strconv.Itoa(1+r.intn(32)), true)
			w.tok("", "@", true)
			w.tok("", strconv.Itoa(r.intn(2)), true)
			w.tok(" ", pick(r, []string{"+", "-"}), true)
			w.tok(" ", "(", true)
			w.tok("", g.float(), true)
			w.tok("", ",", true)
			w.tok("", g.float(), true)
			w.tok("", ")", true)
			w.tok(" ", "[", true)
			w.tok("", g.float(), true)
			w.tok("", "|", true)
			w.tok("", g.float(), true)
			w.tok("", "]", true)
			w.tok(" ", g.str(), true)
			w.tok(" ", g.float(), true)
			w.tok(" ", ",", true)
			if len(g.vts) > 0 {
				w.tok(" ", pick(r, g.vts), true)
			} else {
				w.tok(" ", "novt", true)
			}
		}
		w.tok("", ";", true)
		w.end()
		add("SGTYPE_")
	}

	// CM_
	for i := 0; i < g.count(4); i++ {
		w.tok("", "CM_", false)
		g.target(pick(r, []string{"", "BU_", "BO_", "SG_", "EV_"}))
		w.tok(" ", g.str(), true)
		w.tok("", ";", true)
		w.end()
		add("CM_")
	}

	// attributes
	nattr := g.count(5)
	for i := 0; i < nattr; i++ {
		var a gattr
		if r.chance(30) {
			a = pick(r, wellKnown)
			dup := false
			for _, o := range g.attrs {
				if o.name == a.name {
					dup = true
				}
			}
			if dup {
				continue
			}
		} else {
			a = gattr{obj: pick(r, []string{"", "BU_", "BO_", "SG_", "EV_"}), name: g.ident("att_"), typ: pick(r, []string{"INT", "HEX", "FLOAT", "STRING", "ENUM"})}
			switch a.typ {
			case "INT":
				a.min = -r.intn(100)
				a.max = r.intn(10000)
			case "HEX":
				// the importer takes the default of a HEX attribute from the hex value field, which is 0
				// for a decimal literal: keep 0 inside the range
				a.min = 0
				a.max = r.intn(1000)
			case "FLOAT":
				a.min = -r.intn(10) // a default written as integer or "" is read as 0
				a.max = r.intn(1000)
			case "ENUM":
				for j := 0; j < 1+r.intn(4); j++ {
					a.vals = append(a.vals, "E"+strconv.Itoa(j)+pick(r, []string{"", "_v", " w"}))
				}
			}
		}
		g.attrs = append(g.attrs, a)
		d.secs = append(d.secs, section{"BA_DEF_", g.writeAttrDef(a)})
	}
	for _, a := range g.attrs {
		w.tok("", "BA_DEF_DEF_", false)
		w.tok(" ", `"`+a.name+`"`, true)
		if a.typ == "FLOAT" && r.chance(20) {
			w.tok(" ", `""`, true) // as in testdata/expected.dbc
		} else {
			w.tok(" ", g.attrValue(a, true), true)
		}
		w.tok("", ";", true)
		w.end()
		add("BA_DEF_DEF_")
	}
	for _, a := range g.attrs {
		for i := 0; i < r.intn(3); i++ {
			w.tok("", "BA_", false)
			w.tok(" ", `"`+a.name+`"`, true)
			g.target(a.obj)
			v := g.attrValue(a, false)
			w.tok(" ", v, a.obj == "" || strings.HasPrefix(v, `"`)) // a number must not fuse with the name before it
			w.tok("", ";", true)
			w.end()
			add("BA_")
		}
	}

	// VAL_ (signal and env var)
	for _, m := range g.msgs {
		for _, s := range m.sigs {
			if s.mux == "M" || strings.HasSuffix(s.mux, "M") || s.size < 2 || !r.chance(20) {
				continue
			}
			s.enum = true
			w.tok("", "VAL_", false)
			w.tok(" ", strconv.FormatUint(uint64(m.id), 10), false)
			w.tok(" ", s.name, false)
			maxID := 1<<s.size - 1
			if s.size > 8 {
				maxID = 255
			}
			g.valDescs(1+r.intn(4), maxID)
			w.tok("", ";", true)
			w.end()
			add("VAL_")
		}
	}
	if len(g.envs) > 0 && r.chance(50) {
		w.tok("", "VAL_", false)
		w.tok(" ", pick(r, g.envs), false)
		g.valDescs(1+r.intn(3), 10)
		w.tok("", ";", true)
		w.end()
		add("VAL_")
	}

	// SIG_GROUP_
	for i := 0; i < g.count(1); i++ {
		m := pick(r, g.msgs)
		w.tok("", "SIG_GROUP_", false)
		w.tok(" ", strconv.FormatUint(uint64(m.id), 10), false)
		w.tok(" ", g.ident("grp_"), false)
		w.tok(" ", g.uintTok(3), false)
		w.tok(" ", ":", true)
		for j, s := range m.sigs {
			if j < 3 {
				w.tok(" ", s.name, j == 0)
			}
		}
		w.tok("", ";", true)
		w.end()
		add("SIG_GROUP_")
	}

	// SIG_VALTYPE_
	for i := 0; i < g.count(1); i++ {
		s := g.anySig()
		w.tok("", "SIG_VALTYPE_", false)
		w.tok(" ", s[0], false)
		w.tok(" ", s[1], false)
		w.tok(" ", g.uintTok(2), false)
		w.tok("", ";", true)
		w.end()
		add("SIG_VALTYPE_")
	}

	// SG_MUL_VAL_
	for _, m := range g.msgs {
		for _, x := range m.extmux {
			parts := strings.SplitN(x, " ", 3)
			w.tok("", "SG_MUL_VAL_", false)
			w.tok(" ", strconv.FormatUint(uint64(m.id), 10), false)
			w.tok(" ", parts[0], false)
			w.tok(" ", parts[1], false)
			for j, rg := range strings.Split(parts[2], ", ") {
				if j > 0 {
					w.tok("", ",", true)
				}
				w.tok(" ", rg, false)
			}
			w.tok("", ";", true)
			w.end()
			add("SG_MUL_VAL_")
		}
	}
	return d
}
