package main

import (
	"fmt"
	"strings"
)

// The "impchecks" stream (importer level): one small parseable file per decision of the importer that
// the other streams reach rarely or never, so that the comparison of the outcome class and of the
// error kind with the model of the importer (coq/C10/Import.v) meets every refusal reason of the
// model: signals of one message with different byte orders (plain and multiplexed messages), a
// signal / a multiplexor switch of size zero, sizes at the edges of the message, a message larger
// than 8 bytes, unknown transmitter / receiver, the placeholder node as transmitter and receiver.
func impchecksStream(b *builder) {
	hdr := "VERSION \"\"\nNS_ :\nBS_:\nBU_: A B\n"
	sg := func(name, mux string, start, size int, order int, rcv string) string {
		return fmt.Sprintf(" SG_ %s %s: %d|%d@%d+ (1,0) [0|0] \"\" %s\n", name, mux, start, size, order, rcv)
	}
	add := func(parts ...string) { b.add("impchecks", []byte(hdr+strings.Join(parts, ""))) }
	for _, first := range []int{0, 1} {
		other := 1 - first
		// byte orders: second / third / last signal differs; all equal (accepted)
		add("BO_ 1 m : 8 A\n", sg("a", "", 7, 8, first, "B"), sg("b", "", 15, 8, other, "B"))
		add("BO_ 1 m : 8 A\n", sg("a", "", 7, 8, first, "B"), sg("b", "", 15, 8, first, "B"), sg("c", "", 23, 8, other, "B"))
		add("BO_ 1 m : 8 A\n", sg("a", "", 7, 8, first, "B"), sg("b", "", 15, 8, first, "B"), sg("c", "", 23, 8, first, "B"))
		add("BO_ 1 m : 8 A\n", sg("a", "", 7, 8, first, "B"), "BO_ 2 n : 8 A\n", sg("b", "", 15, 8, other, "B"))
		// ... in a multiplexed message: the switch differs, a multiplexed signal differs
		add("BO_ 1 m : 8 A\n", sg("mx", "M", 7, 2, first, "B"), sg("p", "m0", 15, 4, other, "B"))
		add("BO_ 1 m : 8 A\n", sg("mx", "M", 7, 2, first, "B"), sg("p", "m0", 15, 4, first, "B"), sg("q", "m1", 15, 4, other, "B"))
		add("BO_ 1 m : 8 A\n", sg("mx", "M", 7, 2, first, "B"), sg("p", "m0", 15, 4, first, "B"), sg("q", "m1", 15, 4, first, "B"))
	}
	// sizes: zero, one, the whole message, one bit too many
	for _, size := range []int{0, 1, 63, 64, 65} {
		add("BO_ 1 m : 8 A\n", sg("a", "", 0, size, 1, "B"))
		add("BO_ 1 m : 8 A\n", sg("a", "", 1, size, 1, "B"))
	}
	for _, size := range []int{0, 1, 8} {
		add("BO_ 1 m : 8 A\n", sg("mx", "M", 0, size, 1, "B"), sg("p", "m0", 8, 4, 1, "B"))
		add("BO_ 1 m : 8 A\n", sg("mx", "M", 0, size, 1, "B"))
		add("BO_ 1 m : 8 A\n", sg("mx", "M", 0, 2, 1, "B"), sg("p", "m0", 8, size, 1, "B"))
	}
	for _, bytes := range []int{0, 1, 8, 9, 64} {
		add(fmt.Sprintf("BO_ 1 m : %d A\n", bytes), sg("a", "", 0, 4, 1, "B"))
		add(fmt.Sprintf("BO_ 1 m : %d A\n", bytes))
	}
	// sign x size x byte order x role of the signal: the integer range of a signal type is computed from (size, signed)
	// before the size is checked, so that every size at the edges (0, 1, 2, 31..33, 63..65) is met with both value types,
	// as a standard signal, as an enum signal (VAL_), as a float signal (SIG_VALTYPE_), as the multiplexor switch and
	// as a multiplexed signal, in both byte orders, with a plain range and with a scaled one
	sgs := func(name, mux string, start, size, order int, sign, scale, rng string) string {
		return fmt.Sprintf(" SG_ %s %s: %d|%d@%d%s %s %s \"\" B\n", name, mux, start, size, order, sign, scale, rng)
	}
	for _, sign := range []string{"+", "-"} {
		for _, size := range []int{0, 1, 2, 7, 8, 31, 32, 33, 63, 64, 65} {
			for _, order := range []int{0, 1} {
				start := 0
				if order == 0 {
					start = 7
				}
				for _, sr := range [][2]string{{"(1,0)", "[0|0]"}, {"(0.5,-3)", "[-10|10]"}} {
					add("BO_ 1 m : 8 A\n", sgs("a", "", start, size, order, sign, sr[0], sr[1]))
					add("BO_ 1 m : 8 A\n", sgs("k", "", 63-7+start, 8, order, "-", "(1,0)", "[-128|127]"), sgs("a", "", start, size, order, sign, sr[0], sr[1]))
				}
				add("BO_ 1 m : 8 A\n", sgs("a", "", start, size, order, sign, "(1,0)", "[0|0]"), "VAL_ 1 a 0 \"off\" 1 \"on\" ;\n")
				add("BO_ 1 m : 8 A\n", sgs("a", "", start, size, order, sign, "(1,0)", "[0|0]"), "SIG_VALTYPE_ 1 a 1;\n")
				add("BO_ 1 m : 8 A\n", sgs("a", "", start, size, order, sign, "(1,0)", "[0|0]"), "SIG_VALTYPE_ 1 a 2;\n")
				if size <= 16 {
					add("BO_ 1 m : 16 A\n", sgs("mx", "M", start, size, order, sign, "(1,0)", "[0|0]"), sgs("p", "m0", start+64, 4, order, "+", "(1,0)", "[0|0]"))
				}
				add("BO_ 1 m : 16 A\n", sgs("mx", "M", start+64, 2, order, "+", "(1,0)", "[0|0]"), sgs("p", "m0", start, size, order, sign, "(1,0)", "[0|0]"))
			}
		}
	}
	// nodes: unknown / placeholder transmitter and receivers
	for _, tx := range []string{"A", "C", "Vector__XXX"} {
		for _, rx := range []string{"B", "C", "Vector__XXX", "B,C", "B,Vector__XXX", "A"} {
			add("BO_ 1 m : 8 ", tx, "\n", sg("a", "", 0, 8, 1, rx))
		}
	}
}
