package main

import (
	"fmt"
	"strings"
)

// The "impchecks" stream (importer level): one small parseable file per decision of the importer that
// the other streams reach rarely or never, so that the comparison of the outcome class and of the
// error kind with the model of the importer (coq/C10/Import.v) meets every refusal reason of the
// model: signals of one message with different byte orders (plain and multiplexed messages), a
// signal / a multiplexor switch of size zero, sizes at the edges of the message, a message larger
// than 8 bytes, unknown transmitter / receiver, the placeholder node as transmitter and receiver.
func impchecksStream(b *builder) {
	hdr := "VERSION \"\"\nNS_ :\nBS_:\nBU_: A B\n"
	sg := func(name, mux string, start, size int, order int, rcv string) string {
		return fmt.Sprintf(" SG_ %s %s: %d|%d@%d+ (1,0) [0|0] \"\" %s\n", name, mux, start, size, order, rcv)
	}
	add := func(parts ...string) { b.add("impchecks", []byte(hdr+strings.Join(parts, ""))) }
	for _, first := range []int{0, 1} {
		other := 1 - first
		// byte orders: second / third / last signal differs; all equal (accepted)
		add("BO_ 1 m : 8 A\n", sg("a", "", 7, 8, first, "B"), sg("b", "", 15, 8, other, "B"))
		add("BO_ 1 m : 8 A\n", sg("a", "", 7, 8, first, "B"), sg("b", "", 15, 8, first, "B"), sg("c", "", 23, 8, other, "B"))
		add("BO_ 1 m : 8 A\n", sg("a", "", 7, 8, first, "B"), sg("b", "", 15, 8, first, "B"), sg("c", "", 23, 8, first, "B"))
		add("BO_ 1 m : 8 A\n", sg("a", "", 7, 8, first, "B"), "BO_ 2 n : 8 A\n", sg("b", "", 15, 8, other, "B"))
		// ... in a multiplexed message: the switch differs, a multiplexed signal differs
		add("BO_ 1 m : 8 A\n", sg("mx", "M", 7, 2, first, "B"), sg("p", "m0", 15, 4, other, "B"))
		add("BO_ 1 m : 8 A\n", sg("mx", "M", 7, 2, first, "B"), sg("p", "m0", 15, 4, first, "B"), sg("q", "m1", 15, 4, other, "B"))
		add("BO_ 1 m : 8 A\n", sg("mx", "M", 7, 2, first, "B"), sg("p", "m0", 15, 4, first, "B"), sg("q", "m1", 15, 4, first, "B"))
	}
	// sizes: zero, one, the whole message, one bit too many
	for _, size := range []int{0, 1, 63, 64, 65} {
		add("BO_ 1 m : 8 A\n", sg("a", "", 0, size, 1, "B"))
		add("BO_ 1 m : 8 A\n", sg("a", "", 1, size, 1, "B"))
	}
	for _, size := range []int{0, 1, 8} {
		add("BO_ 1 m : 8 A\n", sg("mx", "M", 0, size, 1, "B"), sg("p", "m0", 8, 4, 1, "B"))
		add("BO_ 1 m : 8 A\n", sg("mx", "M", 0, size, 1, "B"))
		add("BO_ 1 m : 8 A\n", sg("mx", "M", 0, 2, 1, "B"), sg("p", "m0", 8, size, 1, "B"))
	}
	for _, bytes := range []int{0, 1, 8, 9, 64} {
		add(fmt.Sprintf("BO_ 1 m : %d A\n", bytes), sg("a", "", 0, 4, 1, "B"))
		add(fmt.Sprintf("BO_ 1 m : %d A\n", bytes))
	}
	// nodes: unknown / placeholder transmitter and receivers
	for _, tx := range []string{"A", "C", "Vector__XXX"} {
		for _, rx := range []string{"B", "C", "Vector__XXX", "B,C", "B,Vector__XXX", "A"} {
			add("BO_ 1 m : 8 ", tx, "\n", sg("a", "", 0, 8, 1, rx))
		}
	}
}
