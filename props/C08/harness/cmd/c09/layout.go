package main

import (
	"strings"

	"github.com/squadracorsepolito/acmelib/dbc"
)

// The "layout" stream: valid files re-rendered with CRLF line ends, tabs between tokens,
// multi-byte UTF-8 inside strings and as one very long line (optionally after a 16 KB comment),
// then broken at a token in the last part of the file, so that the line / column arithmetic of the
// scanner is exercised before the error (the reported position is checked against the
// independent tokenizer and against the model).

var wideChars = []string{"é", "°", "ß", "中", "文", "🚀", "𝟘", " ", " ", "٣", "ｱ", "�"}

func layoutVariant(r *rng, text []byte, variant int) []byte {
	toks := dbc.VerifScanAll(text)
	var b strings.Builder
	if variant == 4 { // a long comment first: large columns, tabs and wide characters on the same line
		b.WriteString("CM_ \"")
		for b.Len() < 16000 {
			switch r.intn(6) {
			case 0:
				b.WriteString("\t")
			case 1:
				b.WriteString(wideChars[r.intn(len(wideChars))])
			default:
				b.WriteString("lorem ipsum ")
			}
		}
		b.WriteString("\"; ")
	}
	for _, t := range toks {
		switch t.Kind {
		case 1:
		case 2: // blanks
			switch variant {
			case 0: // CRLF
				b.WriteString(strings.ReplaceAll(strings.ReplaceAll(t.Value, "\r\n", "\n"), "\n", "\r\n"))
			case 1: // tabs
				for _, c := range t.Value {
					if c == ' ' && r.chance(60) {
						b.WriteString("\t")
					} else {
						b.WriteRune(c)
					}
				}
				if r.chance(30) {
					b.WriteString("\t\t")
				}
			case 3, 4: // one long line
				b.WriteString(" ")
			default:
				b.WriteString(t.Value)
			}
		case 7: // strings: wide characters inside
			b.WriteString("\"")
			if variant == 2 || variant == 4 {
				for i := r.between(1, 6); i > 0; i-- {
					b.WriteString(wideChars[r.intn(len(wideChars))])
					if r.chance(30) {
						b.WriteString("\t")
					}
					if r.chance(20) {
						b.WriteString("\r\n")
					}
				}
			} else {
				b.WriteString(t.Value)
			}
			b.WriteString("\"")
		default:
			b.WriteString(t.Value)
		}
	}
	return []byte(b.String())
}

// breakAt replaces the k-th non-space token (counted from the end) by something else.
func breakAt(r *rng, text []byte, fromEnd int) []byte {
	toks := dbc.VerifScanAll(text)
	var idx []int
	for i, t := range toks {
		if t.Kind != 2 && t.Kind != 1 {
			idx = append(idx, i)
		}
	}
	if len(idx) == 0 {
		return text
	}
	k := len(idx) - 1 - fromEnd
	if k < 0 {
		k = 0
	}
	target := idx[k]
	repl := []string{"#", "", "\"s\"", "0x", "1e", ";", "BO_", "-", "4294967296", "m1M", "\"unclosed", "\x00", "é"}
	var b strings.Builder
	for i, t := range toks {
		if t.Kind == 1 {
			continue
		}
		if i == target {
			b.WriteString(repl[r.intn(len(repl))])
			continue
		}
		if t.Kind == 7 {
			b.WriteString("\"" + t.Value + "\"")
		} else {
			b.WriteString(t.Value)
		}
	}
	return []byte(b.String())
}

func layoutStream(b *builder, r *rng, docs [][]byte, breaks int) {
	for _, d := range docs {
		for v := 0; v < 5; v++ {
			lv := layoutVariant(r, d, v)
			b.add("layout", lv) // still valid
			n := len(dbc.VerifScanAll(lv))
			for j := 0; j < breaks; j++ {
				b.add("layout", breakAt(r, lv, r.intn(n/3+1)))
			}
		}
	}
}
