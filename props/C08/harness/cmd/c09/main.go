// Command c09 is the implementation side of property C09 ("parsing and importing arbitrary text
// never crashes"): it generates byte sequences, runs dbc.Parse and acmelib.ImportDBCFile on each of
// them in child processes under recover, a watchdog and a memory guard, classifies the outcomes
// and writes the case records the OCaml model driver compares with the Coq model.
//
//	c09 run    -seed N -tier quick|thorough -out DIR [-workers W] [-keep] [-noshrink] [-shortlen BYTES]
//	c09 child  -inputs FILE -from K -out FILE -log FILE [-timeout S] [-mem MiB]     (internal)
//	c09 replay -input FILE [-hex]
//	c09 skeleton -seed N -n K -out FILE      (importer range-expansion loop vs the Coq skeleton)
//
// run writes DIR/cases.txt, DIR/summary.txt and DIR/fail-<signature>.dbc; it exits 0 when the run
// completed (failures of the library are data), non-zero only for errors of the machinery.
package main

import (
	"encoding/hex"
	"flag"
	"fmt"
	"os"
	"strings"
	"sync/atomic"
	"time"

	"verif/c08/dbccase"
)

func main() {
	if len(os.Args) < 2 {
		fmt.Fprintln(os.Stderr, "usage: c09 run|child|replay ...")
		os.Exit(2)
	}
	switch os.Args[1] {
	case "run":
		os.Exit(runMain(os.Args[2:]))
	case "child":
		os.Exit(childMain(os.Args[2:]))
	case "replay":
		os.Exit(replayMain(os.Args[2:]))
	case "skeleton":
		os.Exit(skeletonMain(os.Args[2:]))
	}
	fmt.Fprintln(os.Stderr, "usage: c09 run|child|replay ...")
	os.Exit(2)
}

// replayMain runs one raw input in this process and prints what happened, with the full stack
// of a panic. -hex: the file holds the bytes in hexadecimal (blanks ignored).
func replayMain(args []string) int {
	fs := flag.NewFlagSet("replay", flag.ContinueOnError)
	inputPath := fs.String("input", "", "file with the raw input")
	isHex := fs.Bool("hex", false, "the file is hex encoded")
	if err := fs.Parse(args); err != nil {
		return 2
	}
	text, err := os.ReadFile(*inputPath)
	if err != nil {
		fmt.Fprintln(os.Stderr, "c09 replay:", err)
		return 2
	}
	if *isHex {
		text, err = hex.DecodeString(strings.Join(strings.Fields(string(text)), ""))
		if err != nil {
			fmt.Fprintln(os.Stderr, "c09 replay:", err)
			return 2
		}
	}
	fmt.Printf("input %d bytes: %q\n", len(text), truncateFor(text, 400))
	var stage atomic.Value
	stage.Store("parse")
	done := make(chan struct{})
	go func() {
		select {
		case <-done:
		case <-time.After(10 * time.Second):
			st := stage.Load().(string)
			fmt.Printf("%s: HANG (no result after 10 s)\nsignature %s-HANG-replay\n", st, st)
			os.Exit(exitHang)
		}
	}()
	const filename = "in0.dbc"
	o, pres := runParse(filename, text)
	show("parse", pres)
	show("parse (hex number mode)", runParseHex(filename, text))
	if o.Class == "ok" && dbccase.WideMux(o.File, maxSelectorBits) {
		fmt.Println("import: excluded (multiplexor wider than 16 bits)")
	} else {
		stage.Store("import")
		ires := runImport(filename, text)
		show("import", ires)
	}
	close(done)
	return 0
}

func truncateFor(b []byte, n int) string {
	if len(b) > n {
		return string(b[:n]) + "..."
	}
	return string(b)
}

func show(stage string, s stageResult) {
	fmt.Printf("%s: %s", stage, s.class)
	if s.detail != "" {
		fmt.Printf(" ## %s", s.detail)
	}
	fmt.Println()
	if isFailure(s.class) {
		fmt.Printf("signature %s\n", signature(stage, s))
	}
	if s.stack != "" {
		fmt.Println(s.stack)
	}
}
