package main

import (
	"fmt"

	"github.com/squadracorsepolito/acmelib"
	"github.com/squadracorsepolito/acmelib/dbc"
)

// The importer holds three panic(err) statements (importer.go: the lookup of the placeholder node
// after everything was imported, its removal when it sends nothing, ToEnum on an attribute whose
// Type() is AttributeTypeEnum). Each guards a call that cannot fail there; the reasons are library
// facts the importer relies on, exercised here through the public API on every run:
//
//	(1) for every attribute constructor: Type() == AttributeTypeEnum exactly when ToEnum() succeeds;
//	(2) a node interface added to a bus under the placeholder name is found by
//	    GetNodeInterfaceByNodeName whatever else is added afterwards (nodes, sent messages,
//	    receivers, attribute assignments), and RemoveNodeInterface with the entity id of a found
//	    interface succeeds, with and without sent messages.
//
// (That the placeholder IS added before the lookup and nothing removes it is the model-side lemma
// coq/C09/ImportPanics.v; that no imported text reaches the panics is what every run of the importer
// streams shows, a panic being reported with its site.)
func panicSiteScenarios() (n int, failure string) {
	defer func() {
		if r := recover(); r != nil {
			failure = fmt.Sprint("panic in the scenario: ", r)
		}
	}()
	atts := []acmelib.Attribute{acmelib.NewStringAttribute("s", "d")}
	if a, err := acmelib.NewIntegerAttribute("i", 1, 0, 10); err == nil {
		atts = append(atts, a)
	}
	if a, err := acmelib.NewFloatAttribute("f", 1, 0, 10); err == nil {
		atts = append(atts, a)
	}
	if a, err := acmelib.NewEnumAttribute("e", "x", "y"); err == nil {
		atts = append(atts, a)
	}
	if len(atts) != 4 {
		return n, "an attribute constructor refused plain arguments"
	}
	enums := 0
	for _, a := range atts {
		n++
		_, err := a.ToEnum()
		if (a.Type() == acmelib.AttributeTypeEnum) != (err == nil) {
			return n, fmt.Sprintf("attribute %s: Type() = %v but ToEnum() error = %v", a.Name(), a.Type(), err)
		}
		if err == nil {
			enums++
		}
	}
	if enums != 1 {
		return n, "exactly one of the four attribute kinds is an enum attribute"
	}
	for _, withMsg := range []bool{false, true} {
		for _, others := range []int{0, 1, 40} {
			n++
			bus := acmelib.NewBus("b")
			for k := 0; k < others; k++ {
				if err := bus.AddNodeInterface(acmelib.NewNode(fmt.Sprintf("n%d", k), acmelib.NodeID(k), 1).Interfaces()[0]); err != nil {
					return n, "AddNodeInterface: " + err.Error()
				}
			}
			if err := bus.AddNodeInterface(acmelib.NewNode(dbc.DummyNode, 1024, 1).Interfaces()[0]); err != nil {
				return n, "AddNodeInterface(placeholder): " + err.Error()
			}
			ph, err := bus.GetNodeInterfaceByNodeName(dbc.DummyNode)
			if err != nil {
				return n, "the placeholder node is not found right after it was added: " + err.Error()
			}
			for k := 0; k < others; k++ {
				ni, err := bus.GetNodeInterfaceByNodeName(fmt.Sprintf("n%d", k))
				if err != nil {
					return n, "a node is not found after it was added: " + err.Error()
				}
				m := acmelib.NewMessage(fmt.Sprintf("m%d", k), acmelib.MessageID(k+1), 8)
				sender := ni
				if withMsg && k%2 == 0 {
					sender = ph
				}
				if err := sender.AddSentMessage(m); err != nil {
					return n, "AddSentMessage: " + err.Error()
				}
				m.AddReceiver(ph)
			}
			ph2, err := bus.GetNodeInterfaceByNodeName(dbc.DummyNode)
			if err != nil || ph2 != ph {
				return n, fmt.Sprint("the placeholder node is not found after messages were added: ", err)
			}
			if err := bus.RemoveNodeInterface(ph2.Node().EntityID()); err != nil {
				return n, "RemoveNodeInterface of the interface just found: " + err.Error()
			}
			if _, err := bus.GetNodeInterfaceByNodeName(dbc.DummyNode); err == nil {
				return n, "the placeholder node is still found after its removal"
			}
		}
	}
	return n, ""
}
