package main

import (
	"bufio"
	"bytes"
	"flag"
	"fmt"
	"os"
	"os/exec"
	"path/filepath"
	"runtime"
	"sort"
	"strconv"
	"strings"
	"sync"
	"sync/atomic"
	"time"

	"verif/c08/dbccase"
)

type result struct {
	idx            int
	parse, imp     stageResult
	done           bool // END seen
	stage          string
	parsed, imprtd bool
}

// batch runs inputs in child processes (respawning after a death) and returns one result per
// input, in input order. Files: <dir>/inputs.<tag>.bin, log.<tag>.txt, cases.<tag>.txt, stderr.<tag>.txt.
type batch struct {
	self       string
	dir        string
	tag        string
	ins        []input
	timeoutSec int
}

func (b *batch) path(kind, ext string) string {
	return filepath.Join(b.dir, kind+"."+b.tag+"."+ext)
}

func parseSiteDetail(rest string) (class, site, detail string) {
	head, det, _ := strings.Cut(rest, " ## ")
	f := strings.Fields(head)
	if len(f) >= 1 {
		class = f[0]
	}
	if len(f) >= 2 && f[1] != "-" {
		site = f[1]
	}
	return class, site, strings.TrimSpace(det)
}

// readLog folds the child's log into results (by input index).
func readLog(path string, res map[int]*result) (lastBegin int, killer string) {
	lastBegin = -1
	data, err := os.ReadFile(path)
	if err != nil {
		return -1, ""
	}
	for _, line := range strings.Split(string(data), "\n") {
		kw, rest, _ := strings.Cut(line, " ")
		idxStr, rest, _ := strings.Cut(rest, " ")
		idx, err := strconv.Atoi(idxStr)
		if err != nil {
			continue
		}
		r := res[idx]
		if r == nil {
			r = &result{idx: idx}
			res[idx] = r
		}
		switch kw {
		case "BEGIN":
			lastBegin = idx
			killer = ""
		case "STAGE":
			r.stage = strings.TrimSpace(rest)
		case "PARSED":
			r.parse.class, r.parse.site, r.parse.detail = parseSiteDetail(rest)
			r.parsed = true
		case "IMPORTED":
			r.imp.class, r.imp.site, r.imp.detail = parseSiteDetail(rest)
			r.imprtd = true
		case "END":
			parts := strings.SplitN(rest, " ## ", 3)
			f := strings.Fields(parts[0])
			if len(f) >= 4 {
				r.parse.class, r.imp.class = f[0], f[1]
				r.parse.site, r.imp.site = "", ""
				if f[2] != "-" {
					r.parse.site = f[2]
				}
				if f[3] != "-" {
					r.imp.site = f[3]
				}
			}
			if len(parts) == 3 {
				r.parse.detail, r.imp.detail = strings.TrimSpace(parts[1]), strings.TrimSpace(parts[2])
			}
			r.done = true
		case "HANG", "MEM":
			killer = kw
		}
	}
	return lastBegin, killer
}

func tail(path string, max int) string {
	data, err := os.ReadFile(path)
	if err != nil {
		return ""
	}
	if len(data) > max {
		data = data[len(data)-max:]
	}
	return string(data)
}

// crashDetail: the runtime's own words (fatal error / panic / signal line) and the first library
// frame of the trace a dying child left on stderr.
func crashDetail(path string) string {
	f, err := os.Open(path)
	if err != nil {
		return ""
	}
	defer f.Close()
	var what, where string
	sc := bufio.NewScanner(f)
	sc.Buffer(make([]byte, 1<<16), 1<<20)
	for n := 0; sc.Scan() && n < 20000 && (what == "" || where == ""); n++ {
		l := sc.Text()
		if what == "" && (strings.HasPrefix(l, "fatal error:") || strings.HasPrefix(l, "panic:") || strings.HasPrefix(l, "runtime:") || strings.HasPrefix(l, "SIG") || strings.Contains(l, "signal ")) {
			what = l
		}
		if where == "" && strings.HasPrefix(l, repoPkg) {
			where = strings.TrimPrefix(l, repoPkg)
			if j := strings.LastIndex(where, "("); j > 0 {
				where = where[:j]
			}
		}
	}
	if what == "" {
		return headLines(tail(path, 2000), 3)
	}
	return what + " @ " + strings.TrimLeft(where, "./")
}

func headLines(s string, n int) string {
	var out []string
	for _, l := range strings.Split(s, "\n") {
		l = strings.TrimSpace(l)
		if l == "" {
			continue
		}
		out = append(out, l)
		if len(out) == n {
			break
		}
	}
	return strings.Join(out, " | ")
}

// run executes the batch. The error is a machinery error (cannot start a child etc.).
func (b *batch) run() ([]result, error) {
	if err := writeInputs(b.path("inputs", "bin"), b.ins); err != nil {
		return nil, err
	}
	logPath, casesPath, errPath := b.path("log", "txt"), b.path("cases", "txt"), b.path("stderr", "txt")
	for _, p := range []string{logPath, casesPath, errPath} {
		os.Remove(p)
	}
	byIdx := map[int]input{}
	pos := map[int]int{}
	for i, in := range b.ins {
		byIdx[in.idx] = in
		pos[in.idx] = i
	}
	res := map[int]*result{}
	next := 0 // position in b.ins
	spawns := 0
	for next < len(b.ins) {
		spawns++
		if spawns > len(b.ins)+5 {
			return nil, fmt.Errorf("batch %s: too many child restarts", b.tag)
		}
		from := b.ins[next].idx
		ef, err := os.OpenFile(errPath, os.O_CREATE|os.O_WRONLY|os.O_TRUNC, 0o644)
		if err != nil {
			return nil, err
		}
		cmd := exec.Command(b.self, "child", "-inputs", b.path("inputs", "bin"), "-from", strconv.Itoa(from),
			"-out", casesPath, "-log", logPath, "-timeout", strconv.Itoa(b.timeoutSec))
		cmd.Stderr = ef
		cmd.Stdout = ef
		if err := cmd.Start(); err != nil {
			ef.Close()
			return nil, err
		}
		// parent-side guard: a child whose log stops growing for 3 watchdog periods is killed
		doneCh := make(chan struct{})
		var stalled bool
		var wg sync.WaitGroup
		wg.Add(1)
		go func() {
			defer wg.Done()
			lastSize, lastChange := int64(-1), time.Now()
			t := time.NewTicker(500 * time.Millisecond)
			defer t.Stop()
			for {
				select {
				case <-doneCh:
					return
				case <-t.C:
					if st, err := os.Stat(logPath); err == nil && st.Size() != lastSize {
						lastSize, lastChange = st.Size(), time.Now()
					} else if time.Since(lastChange) > time.Duration(3*b.timeoutSec+5)*time.Second {
						stalled = true
						cmd.Process.Kill()
						return
					}
				}
			}
		}()
		werr := cmd.Wait()
		close(doneCh)
		wg.Wait()
		ef.Close()

		lastBegin, killer := readLog(logPath, res)
		if werr == nil {
			break // ran to the end
		}
		// abnormal end: blame the input named by the last BEGIN without END
		code := -1
		if ee, ok := werr.(*exec.ExitError); ok {
			code = ee.ExitCode()
		} else {
			return nil, werr
		}
		if code == 2 && lastBegin < from {
			return nil, fmt.Errorf("batch %s: child failed before the first input: %s", b.tag, headLines(tail(errPath, 2000), 3))
		}
		victim := from
		if lastBegin >= from {
			victim = lastBegin
		}
		r := res[victim]
		if r == nil {
			r = &result{idx: victim}
			res[victim] = r
		}
		if r.done { // died between two inputs: nothing to blame, continue after it
			next = pos[victim] + 1
			continue
		}
		stderrTail := tail(errPath, 4000)
		class, detail := clsCrash, fmt.Sprintf("child exit %d: %s", code, crashDetail(errPath))
		switch {
		case code == exitHang || killer == "HANG" || stalled:
			class, detail = clsHang, fmt.Sprintf("no result after %d s", b.timeoutSec)
		case code == exitMem || killer == "MEM":
			class, detail = clsMem, "heap+stack above the limit"
		case strings.Contains(stderrTail, "out of memory") || strings.Contains(stderrTail, "cannot allocate memory"):
			class = clsMem
		}
		stage := r.stage
		if stage == "" {
			stage = "parse"
		}
		site := byIdx[victim].stream
		fail := stageResult{class: class, site: site, detail: oneLine(detail, 300)}
		switch stage {
		case "import":
			r.imp = fail
		case "emit":
			r.parse = fail
			r.parse.site = "emit:" + site
		default:
			r.parse = fail
			r.imp = stageResult{class: clsNotRun}
		}
		if !r.parsed && stage != "parse" {
			r.parse.class = clsNotRun
		}
		r.done = true
		// the record the child could not write
		in := byIdx[victim]
		var buf bytes.Buffer
		w := bufio.NewWriter(&buf)
		po := dbccase.Outcome{Class: "panic"}
		if stage == "import" && r.parse.class == clsOK {
			po = dbccase.Outcome{Class: "ok"}
		} else if stage == "import" && r.parse.class == clsOther {
			po = dbccase.Outcome{Class: "other"}
		}
		dbccase.EmitShort(w, victim, in.stream, in.text, po, []string{"IMPORT " + r.imp.class})
		w.Flush()
		if f, err := os.OpenFile(casesPath, os.O_APPEND|os.O_CREATE|os.O_WRONLY, 0o644); err == nil {
			f.Write(buf.Bytes())
			f.Close()
		}
		next = pos[victim] + 1
	}
	out := make([]result, len(b.ins))
	for i, in := range b.ins {
		r := res[in.idx]
		if r == nil || !r.done {
			return nil, fmt.Errorf("batch %s: no result for input %d", b.tag, in.idx)
		}
		out[i] = *r
	}
	return out, nil
}

// ---- signatures --------------------------------------------------------------------------------

func signature(stage string, s stageResult) string {
	return stage + "-" + s.class + "-" + s.site
}

func sigsOf(r result) []string {
	var out []string
	if isFailure(r.parse.class) {
		out = append(out, signature("parse", r.parse))
	}
	if isFailure(r.imp.class) {
		out = append(out, signature("import", r.imp))
	}
	return out
}

func sanitize(s string) string {
	var b strings.Builder
	for _, c := range s {
		switch {
		case c >= 'a' && c <= 'z', c >= 'A' && c <= 'Z', c >= '0' && c <= '9', c == '-', c == '.', c == '_':
			b.WriteRune(c)
		default:
			b.WriteByte('_')
		}
	}
	return b.String()
}

// ---- run ---------------------------------------------------------------------------------------

type failure struct {
	sig    string
	idx    int
	stage  string
	class  string
	detail string
	text   []byte
	shrunk []byte
}

func runMain(args []string) int {
	fs := flag.NewFlagSet("run", flag.ContinueOnError)
	seed := fs.Uint64("seed", 1, "seed")
	tier := fs.String("tier", "quick", "quick|thorough")
	outDir := fs.String("out", "", "output directory")
	workers := fs.Int("workers", 0, "parallel children (default min(cores,16))")
	keep := fs.Bool("keep", false, "keep the work directory (inputs, logs)")
	noShrink := fs.Bool("noshrink", false, "do not shrink failing inputs")
	fs.IntVar(&longInput, "shortlen", longInput, "inputs longer than this get a short record (DOMAIN 0), except every 10th")
	if err := fs.Parse(args); err != nil {
		return 2
	}
	if *outDir == "" {
		fmt.Fprintln(os.Stderr, "c09 run: -out is required")
		return 2
	}
	if err := runAll(*seed, *tier, *outDir, *workers, *keep, !*noShrink); err != nil {
		fmt.Fprintln(os.Stderr, "c09 run:", err)
		return 1
	}
	return 0
}

func runAll(seed uint64, tier, outDir string, workers int, keep, doShrink bool) error {
	t0 := time.Now()
	self, err := os.Executable()
	if err != nil {
		return err
	}
	if workers <= 0 {
		workers = runtime.NumCPU()
		if workers > 16 {
			workers = 16
		}
	}
	work := filepath.Join(outDir, "work")
	if err := os.MkdirAll(work, 0o755); err != nil {
		return err
	}
	ins, err := buildInputs(seed, tier)
	if err != nil {
		return err
	}
	tGen := time.Since(t0)

	// chunks of contiguous indexes, several per worker so that heavy streams spread out
	nChunks := workers * 4
	if tier == "thorough" {
		nChunks = workers * 16
	}
	if nChunks > len(ins) {
		nChunks = len(ins)
	}
	if nChunks < 1 {
		nChunks = 1
	}
	type chunkOut struct {
		res []result
		err error
	}
	outs := make([]chunkOut, nChunks)
	batches := make([]*batch, nChunks)
	// chunk c holds the inputs with idx % nChunks == c: expensive neighbours (same stream) spread out
	for c := 0; c < nChunks; c++ {
		var part []input
		for i := c; i < len(ins); i += nChunks {
			part = append(part, ins[i])
		}
		batches[c] = &batch{self: self, dir: work, tag: fmt.Sprintf("%04d", c), ins: part, timeoutSec: 10}
	}
	jobs := make(chan int)
	var wg sync.WaitGroup
	for w := 0; w < workers; w++ {
		wg.Add(1)
		go func() {
			defer wg.Done()
			for c := range jobs {
				r, err := batches[c].run()
				outs[c] = chunkOut{r, err}
			}
		}()
	}
	for c := 0; c < nChunks; c++ {
		jobs <- c
	}
	close(jobs)
	wg.Wait()
	for c := range outs {
		if outs[c].err != nil {
			return outs[c].err
		}
	}
	results := make([]result, len(ins))
	for i := range ins {
		results[i] = outs[i%nChunks].res[i/nChunks]
	}
	tExec := time.Since(t0) - tGen

	// cases.txt: the records of the partial files merged in index order
	if err := mergeCases(filepath.Join(outDir, "cases.txt"), batches, len(ins)); err != nil {
		return err
	}

	// statistics
	hist := map[string]int{}
	pcls := map[string]int{}
	icls := map[string]int{}
	validAll, validOK, validParse, excluded := 0, 0, 0, 0
	parsedOf := map[string]int{} // per stream: inputs dbc.Parse accepts (the importer-level streams are meant to be parseable)
	best := map[string]*failure{}
	for i, r := range results {
		in := ins[i]
		hist[in.stream]++
		if r.parse.class == clsOK {
			parsedOf[in.stream]++
		}
		pcls[r.parse.class]++
		icls[r.imp.class]++
		if r.imp.class == clsExcluded {
			excluded++
		}
		if in.stream == "valid" {
			validAll++
			if r.parse.class == clsOK {
				validParse++
				if r.imp.class == clsOK {
					validOK++
				}
			}
		}
		for _, st := range []struct {
			stage string
			s     stageResult
		}{{"parse", r.parse}, {"import", r.imp}} {
			if !isFailure(st.s.class) {
				continue
			}
			sig := signature(st.stage, st.s)
			f := best[sig]
			if f == nil || len(in.text) < len(f.text) {
				best[sig] = &failure{sig: sig, idx: in.idx, stage: st.stage, class: st.s.class, detail: st.s.detail, text: in.text}
			}
		}
	}
	var sigs []string
	for s := range best {
		sigs = append(sigs, s)
	}
	sort.Strings(sigs)

	// a timeout, memory or crash verdict reached while all workers were busy is re-run alone with
	// the full 10 s watchdog: on a loaded machine a slow (not hanging) input must not be reported
	unconfirmed := 0
	{
		var keep []string
		for _, s := range sigs {
			f := best[s]
			if f.class == clsPanic || f.class == clsBadPos || confirmAlone(self, work, f) {
				keep = append(keep, s)
			} else {
				unconfirmed++
			}
		}
		sigs = keep
	}

	// shrink the shortest input of every signature
	if doShrink {
		budget := 20 * time.Second
		if tier == "thorough" {
			budget = 60 * time.Second
		}
		// signatures are shrunk in parallel, each within its own budget
		var swg sync.WaitGroup
		sem := make(chan struct{}, workers)
		for _, s := range sigs {
			swg.Add(1)
			go func(f *failure) {
				defer swg.Done()
				sem <- struct{}{}
				defer func() { <-sem }()
				f.shrunk = shrink(self, work, f, budget)
			}(best[s])
		}
		swg.Wait()
	}

	sf, err := os.Create(filepath.Join(outDir, "summary.txt"))
	if err != nil {
		return err
	}
	w := bufio.NewWriter(sf)
	fmt.Fprintf(w, "total %d\n", len(ins))
	fmt.Fprintf(w, "seed %d\ntier %s\n", seed, tier)
	for _, k := range sortedKeys(hist) {
		fmt.Fprintf(w, "hist %s %d\n", k, hist[k])
	}
	for _, k := range sortedKeys(pcls) {
		fmt.Fprintf(w, "class parse %s %d\n", k, pcls[k])
	}
	for _, k := range sortedKeys(icls) {
		fmt.Fprintf(w, "class import %s %d\n", k, icls[k])
	}
	for _, k := range sortedKeys(hist) {
		fmt.Fprintf(w, "parsedof %s %d\n", k, parsedOf[k])
	}
	fmt.Fprintf(w, "accepted_valid %d/%d\n", validOK, validAll)
	fmt.Fprintf(w, "parsed_valid %d/%d\n", validParse, validAll)
	fmt.Fprintf(w, "excluded-wide-mux %d\n", excluded)
	fmt.Fprintf(w, "unconfirmed-timeouts %d\n", unconfirmed)
	for _, s := range sigs {
		f := best[s]
		text := f.text
		extra := ""
		if f.shrunk != nil && len(f.shrunk) < len(f.text) {
			text = f.shrunk
			extra = fmt.Sprintf(" (input %d bytes, shrunk to %d)", len(f.text), len(f.shrunk))
		}
		name := "fail-" + sanitize(s) + ".dbc"
		if err := os.WriteFile(filepath.Join(outDir, name), text, 0o644); err != nil {
			return err
		}
		fmt.Fprintf(w, "FAIL %s %d %s %s ## %s%s\n", s, f.idx, f.stage, f.class, f.detail, extra)
	}
	nScen, scenFail := panicSiteScenarios()
	fmt.Fprintf(w, "panic-site-scenarios %d\n", nScen)
	if scenFail != "" {
		fmt.Fprintf(w, "FAIL api-panic-site-guard 0 import SCENARIO ## %s\n", scenFail)
	}
	fmt.Fprintf(w, "time generate %.1fs execute %.1fs total %.1fs workers %d chunks %d\n", tGen.Seconds(), tExec.Seconds(), time.Since(t0).Seconds(), workers, nChunks)
	if err := w.Flush(); err != nil {
		return err
	}
	if err := sf.Close(); err != nil {
		return err
	}
	if !keep {
		os.RemoveAll(work)
	}
	return nil
}

// mergeCases: record i is the next unread record of partial file i % len(batches).
func mergeCases(path string, batches []*batch, n int) error {
	cf, err := os.Create(path)
	if err != nil {
		return err
	}
	defer cf.Close()
	w := bufio.NewWriterSize(cf, 1<<20)
	readers := make([]*bufio.Reader, len(batches))
	for c := range batches {
		pf, err := os.Open(batches[c].path("cases", "txt"))
		if err != nil {
			return err
		}
		defer pf.Close()
		readers[c] = bufio.NewReaderSize(pf, 1<<20)
	}
	for i := 0; i < n; i++ {
		rd := readers[i%len(batches)]
		first := true
		for {
			line, err := rd.ReadBytes('\n')
			if len(line) > 0 {
				if first {
					if want := fmt.Sprintf("CASE %d ", i); !bytes.HasPrefix(line, []byte(want)) {
						return fmt.Errorf("cases of chunk %d: expected %q, found %q", i%len(batches), want, oneLine(string(line), 60))
					}
					first = false
				}
				w.Write(line)
				if bytes.Equal(line, []byte("END\n")) {
					break
				}
			}
			if err != nil {
				return fmt.Errorf("cases of chunk %d: record %d incomplete: %v", i%len(batches), i, err)
			}
		}
	}
	fmt.Fprintf(w, "ENDFILE %d\n", n)
	if err := w.Flush(); err != nil {
		return err
	}
	return cf.Sync()
}

func sortedKeys(m map[string]int) []string {
	var ks []string
	for k := range m {
		ks = append(ks, k)
	}
	sort.Strings(ks)
	return ks
}

// ---- shrinking ---------------------------------------------------------------------------------

var shrinkSeq atomic.Int64

// confirmAlone re-runs one failing input in a child of its own, nothing else running.
func confirmAlone(self, work string, f *failure) bool {
	seq := shrinkSeq.Add(1)
	b := &batch{self: self, dir: work, tag: fmt.Sprintf("confirm%d", seq), ins: []input{{idx: 0, stream: "confirm", short: true, text: f.text}}, timeoutSec: 10}
	res, err := b.run()
	for _, ext := range [][2]string{{"inputs", "bin"}, {"log", "txt"}, {"cases", "txt"}, {"stderr", "txt"}} {
		os.Remove(b.path(ext[0], ext[1]))
	}
	if err != nil {
		return true // cannot tell: keep the verdict
	}
	for _, r := range res {
		for _, s := range sigsOf(r) {
			if strings.HasPrefix(s, f.stage+"-"+clsHang+"-") || strings.HasPrefix(s, f.stage+"-"+clsMem+"-") || strings.HasPrefix(s, f.stage+"-"+clsCrash+"-") {
				return true
			}
		}
	}
	return false
}

// keeps: which candidates still show the signature.
func keeps(self, work string, f *failure, cands [][]byte, deadline time.Time) (int, error) {
	if f.class != clsPanic && f.class != clsBadPos && len(cands) > 1 {
		// every failing candidate costs a child (seconds for HANG and MEM): one at a time, within the budget
		for i := range cands {
			if time.Now().After(deadline) {
				return -1, nil
			}
			j, err := keeps(self, work, f, cands[i:i+1], deadline)
			if err != nil {
				return -1, err
			}
			if j == 0 {
				return i, nil
			}
		}
		return -1, nil
	}
	ins := make([]input, len(cands))
	for i, c := range cands {
		ins[i] = input{idx: i, stream: "shrink", short: true, text: c}
	}
	seq := shrinkSeq.Add(1)
	timeout := 10
	if f.class == clsHang {
		timeout = 3
	}
	b := &batch{self: self, dir: work, tag: fmt.Sprintf("shrink%d", seq), ins: ins, timeoutSec: timeout}
	res, err := b.run()
	for _, ext := range [][2]string{{"inputs", "bin"}, {"log", "txt"}, {"cases", "txt"}, {"stderr", "txt"}} {
		os.Remove(b.path(ext[0], ext[1]))
	}
	if err != nil {
		return -1, err
	}
	for i, r := range res {
		for _, s := range sigsOf(r) {
			// HANG/MEM/CRASH signatures carry the stream name: compare stage and class only
			if s == f.sig || (f.class != clsPanic && f.class != clsBadPos && strings.HasPrefix(s, f.stage+"-"+f.class+"-")) {
				return i, nil
			}
		}
	}
	return -1, nil
}

func splitLines(t []byte) [][]byte {
	var out [][]byte
	for len(t) > 0 {
		i := bytes.IndexByte(t, '\n')
		if i < 0 {
			out = append(out, t)
			break
		}
		out = append(out, t[:i+1])
		t = t[i+1:]
	}
	return out
}

func wordByte(c byte) bool {
	return c == '_' || c == '.' || c >= '0' && c <= '9' || c >= 'a' && c <= 'z' || c >= 'A' && c <= 'Z' || c >= 0x80
}

// splitTokens: words, blank runs, quoted strings and single other bytes (no call into package dbc:
// the input is known to be dangerous).
func splitTokens(t []byte) [][]byte {
	var out [][]byte
	for i := 0; i < len(t); {
		j := i + 1
		switch c := t[i]; {
		case wordByte(c):
			for j < len(t) && wordByte(t[j]) {
				j++
			}
		case c == ' ' || c == '\t' || c == '\n' || c == '\r':
			for j < len(t) && (t[j] == ' ' || t[j] == '\t' || t[j] == '\n' || t[j] == '\r') {
				j++
			}
		case c == '"':
			for j < len(t) && t[j] != '"' {
				j++
			}
			if j < len(t) {
				j++
			}
		}
		out = append(out, t[i:j])
		i = j
	}
	return out
}

func splitBytes(t []byte) [][]byte {
	out := make([][]byte, len(t))
	for i := range t {
		out[i] = t[i : i+1]
	}
	return out
}

func ddmin(units [][]byte, test func([][]byte) (int, error), deadline time.Time) [][]byte {
	n := 2
	for len(units) >= 2 && time.Now().Before(deadline) {
		chunk := (len(units) + n - 1) / n
		var cands [][]byte
		var rests [][][]byte
		for i := 0; i < len(units); i += chunk {
			end := i + chunk
			if end > len(units) {
				end = len(units)
			}
			rest := make([][]byte, 0, len(units)-(end-i))
			rest = append(rest, units[:i]...)
			rest = append(rest, units[end:]...)
			rests = append(rests, rest)
			cands = append(cands, bytes.Join(rest, nil))
		}
		j, err := test(cands)
		if err != nil {
			return units
		}
		if j >= 0 {
			units = rests[j]
			if n > 2 {
				n--
			}
			continue
		}
		if chunk == 1 {
			break
		}
		n *= 2
		if n > len(units) {
			n = len(units)
		}
	}
	return units
}

func shrink(self, work string, f *failure, budget time.Duration) []byte {
	deadline := time.Now().Add(budget)
	test := func(c [][]byte) (int, error) { return keeps(self, work, f, c, deadline) }
	// the failure must reproduce on its own first
	if j, err := test([][]byte{f.text}); err != nil || j != 0 {
		return nil
	}
	cur := f.text
	cur = bytes.Join(ddmin(splitLines(cur), test, deadline), nil)
	cur = bytes.Join(ddmin(splitTokens(cur), test, deadline), nil)
	if len(cur) <= 400 {
		cur = bytes.Join(ddmin(splitBytes(cur), test, deadline), nil)
	}
	return cur
}
