package main

// SplitMix64: every random choice of the harness derives from the seed through this generator.
type rng struct{ s uint64 }

func newRng(seed uint64) *rng { return &rng{s: seed} }

func (r *rng) next() uint64 {
	r.s += 0x9e3779b97f4a7c15
	z := r.s
	z = (z ^ (z >> 30)) * 0xbf58476d1ce4e5b9
	z = (z ^ (z >> 27)) * 0x94d049bb133111eb
	return z ^ (z >> 31)
}

// sub derives an independent generator for a named stream, so that adding inputs to one stream
// does not change the inputs of another.
func (r *rng) sub(name string) *rng {
	h := uint64(0xcbf29ce484222325)
	for i := 0; i < len(name); i++ {
		h ^= uint64(name[i])
		h *= 0x100000001b3
	}
	return newRng(newRng(r.s ^ h).next())
}

func (r *rng) intn(n int) int {
	if n <= 0 {
		return 0
	}
	return int(r.next() % uint64(n))
}

// between returns a value in [lo, hi].
func (r *rng) between(lo, hi int) int {
	if hi <= lo {
		return lo
	}
	return lo + r.intn(hi-lo+1)
}

func (r *rng) chance(percent int) bool { return r.intn(100) < percent }

func pick[T any](r *rng, l []T) T { return l[r.intn(len(l))] }

func shuffle[T any](r *rng, l []T) {
	for i := len(l) - 1; i > 0; i-- {
		j := r.intn(i + 1)
		l[i], l[j] = l[j], l[i]
	}
}

// sample returns k distinct indexes of [0,n) in increasing order (all of them when k >= n).
func (r *rng) sample(n, k int) []int {
	if k >= n {
		out := make([]int, n)
		for i := range out {
			out[i] = i
		}
		return out
	}
	// selection sampling
	out := make([]int, 0, k)
	for i := 0; i < n && len(out) < k; i++ {
		if r.intn(n-i) < k-len(out) {
			out = append(out, i)
		}
	}
	return out
}
