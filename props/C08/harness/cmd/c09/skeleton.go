package main

import (
	"bufio"
	"bytes"
	"flag"
	"fmt"
	"os"
	"sort"
	"strings"

	"github.com/squadracorsepolito/acmelib"
)

// skeletonMain ties the Coq skeleton of the importer's range-expansion loop
// (coq/C09/ImportSkeleton.v: expand_signal) to importer.importMuxSignal: small files with one
// multiplexor of s bits and one multiplexed signal whose SG_MUL_VAL_ ranges are drawn around the
// boundaries (0, groupCount-1, groupCount, 2^32-1, inverted, overlapping, repeated) are imported;
// the observable is "error" or the set of groups the signal ended up in.
//
//	SKEL <groupCount> <n> from to ... RES err | RES ok <k> id ...
func skeletonMain(args []string) int {
	fs := flag.NewFlagSet("skeleton", flag.ContinueOnError)
	seed := fs.Uint64("seed", 1, "")
	n := fs.Int("n", 400, "")
	out := fs.String("out", "skeleton.txt", "")
	if err := fs.Parse(args); err != nil {
		return 2
	}
	f, err := os.Create(*out)
	if err != nil {
		fmt.Fprintln(os.Stderr, "c09 skeleton:", err)
		return 2
	}
	defer f.Close()
	w := bufio.NewWriter(f)
	defer w.Flush()
	r := newRng(*seed).sub("skeleton")
	for i := 0; i < *n; i++ {
		s := 1 + r.intn(5)
		gc := uint64(1) << uint(s)
		pool := []uint64{0, 1, gc - 1, gc, gc + 1, gc / 2, 4294967295, 4294967294, uint64(r.intn(int(gc) + 2))}
		nr := 1 + r.intn(4)
		var ranges [][2]uint64
		for j := 0; j < nr; j++ {
			pick := func() uint64 {
				if r.chance(70) {
					return uint64(r.intn(int(gc)))
				}
				return pool[r.intn(len(pool))]
			}
			a, b := pick(), pick()
			if a > b && r.chance(85) {
				a, b = b, a
			}
			ranges = append(ranges, [2]uint64{a, b})
		}
		if i%7 == 0 && len(ranges) > 0 { // a repeated range
			ranges = append(ranges, ranges[0])
		}
		var parts []string
		for _, rg := range ranges {
			parts = append(parts, fmt.Sprintf("%d-%d", rg[0], rg[1]))
		}
		text := fmt.Sprintf("BU_: A\nBO_ 1 m : 8 A\n SG_ mx M : 0|%d@1+ (1,0) [0|0] \"\" A\n SG_ a m0 : 8|4@1+ (1,0) [0|0] \"\" A\nSG_MUL_VAL_ 1 a mx %s;\n",
			s, strings.Join(parts, ", "))
		res := importGroups(text)
		fmt.Fprintf(w, "SKEL %d %d", gc, len(ranges))
		for _, rg := range ranges {
			fmt.Fprintf(w, " %d %d", rg[0], rg[1])
		}
		fmt.Fprintf(w, " RES %s\n", res)
	}
	fmt.Fprintf(w, "ENDSKEL %d\n", *n)
	if err := w.Flush(); err != nil {
		fmt.Fprintln(os.Stderr, "c09 skeleton:", err)
		return 2
	}
	return 0
}

func importGroups(text string) (res string) {
	defer func() {
		if p := recover(); p != nil {
			res = "panic"
		}
	}()
	bus, err := acmelib.ImportDBCFile("skel.dbc", bytes.NewReader([]byte(text)))
	if err != nil {
		return "err"
	}
	for _, ni := range bus.NodeInterfaces() {
		for _, msg := range ni.SentMessages() {
			for _, sig := range msg.Signals() {
				mux, e := sig.ToMultiplexer()
				if e != nil {
					continue
				}
				var ids []int
				for g, sigs := range mux.GetSignalGroups() {
					for _, x := range sigs {
						if x.Name() == "a" {
							ids = append(ids, g)
						}
					}
				}
				sort.Ints(ids)
				var b strings.Builder
				fmt.Fprintf(&b, "ok %d", len(ids))
				for _, id := range ids {
					fmt.Fprintf(&b, " %d", id)
				}
				return b.String()
			}
		}
	}
	return "nomux"
}
