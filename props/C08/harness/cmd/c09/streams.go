package main

import (
	"fmt"
	"os"
	"path/filepath"
	"sort"
	"strconv"
	"strings"
	"unicode/utf8"

	"github.com/squadracorsepolito/acmelib/dbc"

	"verif/c08/dbccase"
)

type input struct {
	idx    int
	stream string
	short  bool // EmitShort record instead of the full one
	text   []byte
}

type tierCfg struct {
	valid            int
	truncSmall       int // small generated files truncated at every byte
	truncLarge       int // normal generated files truncated at token boundaries + sampled bytes
	truncTestdata    int // points per testdata file, 0 = every byte
	confuseSmall     int // small files, every token position
	confuseSmallK    int // replacement kinds per position
	confuseLarge     int // normal files, sampled positions
	confuseTestdata  int // positions per testdata file, 0 = all
	confuseTestdataK int
	wellknownExtra   int // random combinations beside the core ones, -1 = all combinations
	noheaderDocs     int
	shuffles         int
	muxCases         int // 0 = all
	randomBytes      int
	randomCps        int
	boundaryDocs     int // documents whose numbers are replaced by boundary values
	boundaryK        int // values per number position
	layoutDocs       int // documents re-rendered with CRLF / tabs / wide characters / one long line
	layoutBreaks     int // broken variants per rendering
}

var tiers = map[string]tierCfg{
	"quick": {
		valid: 150, truncSmall: 6, truncLarge: 0, truncTestdata: 400,
		confuseSmall: 3, confuseSmallK: 1, confuseLarge: 0, confuseTestdata: 120, confuseTestdataK: 1,
		wellknownExtra: 60, noheaderDocs: 3, shuffles: 20, muxCases: 160, randomBytes: 100, randomCps: 120,
		boundaryDocs: 4, boundaryK: 2, layoutDocs: 4, layoutBreaks: 6,
	},
	"thorough": {
		valid: 12000, truncSmall: 25, truncLarge: 15, truncTestdata: 0,
		confuseSmall: 40, confuseSmallK: 8, confuseLarge: 40, confuseTestdata: 0, confuseTestdataK: 4,
		wellknownExtra: 20000, noheaderDocs: 150, shuffles: 1500, muxCases: 0, randomBytes: 15000, randomCps: 15000,
		boundaryDocs: 60, boundaryK: 4, layoutDocs: 120, layoutBreaks: 12,
	},
}

func testdataDir() string {
	if r := os.Getenv("VERIF_REPO"); r != "" {
		return filepath.Join(r, "testdata")
	}
	return "/repo/testdata"
}

func readTestdata() (names []string, texts [][]byte, err error) {
	files, err := filepath.Glob(filepath.Join(testdataDir(), "*.dbc"))
	if err != nil {
		return nil, nil, err
	}
	sort.Strings(files)
	for _, f := range files {
		b, err := os.ReadFile(f)
		if err != nil {
			return nil, nil, err
		}
		names = append(names, filepath.Base(f))
		texts = append(texts, b)
	}
	if len(files) == 0 {
		return nil, nil, fmt.Errorf("no testdata *.dbc under %s", testdataDir())
	}
	return names, texts, nil
}

type builder struct {
	inputs []input
}

var longInput = 20000 // run -shortlen

func (b *builder) add(stream string, text []byte) {
	in := input{idx: len(b.inputs), stream: stream, text: text}
	b.inputs = append(b.inputs, in)
}

// finish marks the long inputs that only get a short record (every 10th keeps the full one).
func (b *builder) finish() {
	long := 0
	for i := range b.inputs {
		if len(b.inputs[i].text) > longInput {
			if long%10 != 0 {
				b.inputs[i].short = true
			}
			long++
		}
	}
}

func messyFor(i int) int { return []int{0, 30, 60}[i%3] }

func buildInputs(seed uint64, tier string) ([]input, error) {
	cfg, ok := tiers[tier]
	if !ok {
		return nil, fmt.Errorf("unknown tier %q", tier)
	}
	root := newRng(seed)
	b := &builder{}
	tdNames, tdTexts, err := readTestdata()
	if err != nil {
		return nil, err
	}

	// corpus: reproducers of every defect found so far
	for _, c := range corpus {
		b.add("corpus", []byte(c))
	}

	// valid
	r := root.sub("valid")
	for i := 0; i < cfg.valid; i++ {
		b.add("valid", genDoc(r, genCfg{messy: messyFor(i)}).bytes())
	}

	// truncations
	r = root.sub("trunc")
	for i := 0; i < cfg.truncSmall; i++ {
		text := smallDoc(r, i)
		truncate(b, r, text, 600, 0)
	}
	for i := 0; i < cfg.truncLarge; i++ {
		text := genDoc(r, genCfg{messy: messyFor(i)}).bytes()
		truncate(b, r, text, 600, 100)
	}
	for i, text := range tdTexts {
		_ = tdNames[i]
		truncateTestdata(b, r, text, cfg.truncTestdata)
	}

	// token-level type confusion
	r = root.sub("confuse")
	for i := 0; i < cfg.confuseSmall; i++ {
		confuse(b, r, smallDoc(r, i), 0, cfg.confuseSmallK)
	}
	for i := 0; i < cfg.confuseLarge; i++ {
		confuse(b, r, genDoc(r, genCfg{messy: messyFor(i)}).bytes(), 60, 2)
	}
	for _, text := range tdTexts {
		confuse(b, r, text, cfg.confuseTestdata, cfg.confuseTestdataK)
	}

	// well-known attributes
	r = root.sub("wellknown")
	wellknownStream(b, r, cfg.wellknownExtra)

	// missing / shuffled sections
	r = root.sub("noheader")
	for i := 0; i < cfg.noheaderDocs; i++ {
		d := genDoc(r, genCfg{messy: []int{0, 0, 30}[i%3]})
		for _, k := range d.kinds() {
			nd := &doc{}
			for _, s := range d.secs {
				if s.kind != k {
					nd.secs = append(nd.secs, s)
				}
			}
			b.add("noheader", nd.bytes())
		}
	}
	for i := 0; i < cfg.shuffles; i++ {
		d := genDoc(r, genCfg{messy: []int{0, 0, 30}[i%3], small: i%2 == 0})
		if i%4 == 3 { // a statement twice (duplicated names, ids, definitions) instead of a new order
			j := r.intn(len(d.secs))
			k := r.intn(len(d.secs) + 1)
			secs := append([]section{}, d.secs[:k]...)
			secs = append(secs, d.secs[j])
			secs = append(secs, d.secs[k:]...)
			d.secs = secs
		} else {
			shuffle(r, d.secs)
		}
		b.add("noheader", d.bytes())
	}

	// numbers replaced by boundary values (sizes, start bits, ids, ranges, switch values)
	r = root.sub("boundary")
	for i := 0; i < cfg.boundaryDocs; i++ {
		var text []byte
		if i%2 == 0 {
			text = smallDoc(r, i)
		} else {
			text = genDoc(r, genCfg{messy: messyFor(i)}).bytes()
		}
		boundary(b, r, text, cfg.boundaryK)
	}

	// line ends, tabs, wide characters, long lines before an error
	r = root.sub("layout")
	{
		var docs [][]byte
		docs = append(docs, tdTexts...)
		for i := 0; i < cfg.layoutDocs; i++ {
			if i%2 == 0 {
				docs = append(docs, smallDoc(r, i))
			} else {
				docs = append(docs, genDoc(r, genCfg{messy: messyFor(i)}).bytes())
			}
		}
		layoutStream(b, r, docs, cfg.layoutBreaks)
	}

	// duplicated names in every scope, range tokens in every number form
	dupnamesStream(b)
	impchecksStream(b)
	rangeFormsStream(b)

	// error tokens of every length class, value tables against value descriptions
	errtokStream(b)
	valtableStream(b, root.sub("valtable"), map[string]int{"quick": 60, "thorough": 4000}[tier])

	// boundary code points and invalid UTF-8 bytes, enumerated
	codepointStream(b, tier == "thorough")

	// multiplexing corner cases
	r = root.sub("mux")
	muxStream(b, r, cfg.muxCases)

	// random
	r = root.sub("random-bytes")
	for i := 0; i < cfg.randomBytes; i++ {
		n := r.intn(201)
		t := make([]byte, n)
		for j := range t {
			t[j] = byte(r.intn(256))
		}
		b.add("random-bytes", t)
	}
	r = root.sub("random-cps")
	for i := 0; i < cfg.randomCps; i++ {
		b.add("random-cps", randomCps(r, i))
	}

	b.finish()
	return b.inputs, nil
}

// smallDoc: a short document (well below 600 bytes most of the time).
func smallDoc(r *rng, i int) []byte {
	var best []byte
	for try := 0; try < 20; try++ {
		t := genDoc(r, genCfg{messy: messyFor(i), small: true}).bytes()
		if best == nil || len(t) < len(best) {
			best = t
		}
		if len(t) < 450 {
			return t
		}
	}
	return best
}

// truncate adds every prefix of a text shorter than byteLimit; for longer texts the prefixes ending
// at a token boundary plus sampledBytes other prefixes.
func truncate(b *builder, r *rng, text []byte, byteLimit, sampledBytes int) {
	if len(text) < byteLimit {
		for p := 0; p < len(text); p++ {
			b.add("trunc-byte", text[:p])
		}
		return
	}
	bound := map[int]bool{}
	if spans, ok := dbccase.TokenSpans(text); ok {
		for _, s := range spans {
			if s.Start > 0 && !bound[s.Start] {
				bound[s.Start] = true
				b.add("trunc-token", text[:s.Start])
			}
		}
	}
	for _, p := range r.sample(len(text), sampledBytes) {
		if !bound[p] {
			b.add("trunc-byte", text[:p])
		}
	}
}

func truncateTestdata(b *builder, r *rng, text []byte, points int) {
	bound := map[int]bool{}
	if spans, ok := dbccase.TokenSpans(text); ok {
		for _, s := range spans {
			bound[s.Start] = true
		}
	}
	var cand []int
	if points == 0 {
		for p := 0; p < len(text); p++ {
			cand = append(cand, p)
		}
	} else {
		for p := 0; p < len(text); p++ {
			if p < 2048 || bound[p] {
				cand = append(cand, p)
			}
		}
		var sel []int
		for _, i := range r.sample(len(cand), points) {
			sel = append(sel, cand[i])
		}
		cand = sel
	}
	for _, p := range cand {
		if bound[p] {
			b.add("trunc-token", text[:p])
		} else {
			b.add("trunc-byte", text[:p])
		}
	}
}

// replacement tokens by class
var confuseClasses = []string{"ident", "number", "string", "keyword", "punct", "mux", "range", "emptystr", "nothing"}

var confusePool = map[string][]string{
	"ident":    {"X", dbc.DummyNode, "DUMMY_NODE_VECTOR0", "m_x", "node_0", "s"},
	"number":   {"0", "1", "-1", "7", "16", "4294967295", "4294967296", "1.5", "1e3", "99999999999999999999", "0x1F", "-0", "1e400"},
	"string":   {`"x"`, `"GenMsgCycleTime"`, `"Cyclic"`, `"a b"`, `"GenSigStartValue"`},
	"punct":    {":", ",", "(", ")", "[", "]", "|", ";", "@", "+", "-"},
	"mux":      {"M", "m0", "m1M", "m70000", "m4294967296", "m0M", "m3"},
	"range":    {"1-2", "0-4294967295", "5-1", "0-0", "4294967295-4294967295"},
	"emptystr": {`""`},
	"nothing":  {""},
}

func tokClass(kind int, raw string) string {
	switch kind {
	case 3:
		return "ident"
	case 4:
		return "number"
	case 5:
		return "range"
	case 6:
		return "mux"
	case 7:
		if raw == `""` {
			return "emptystr"
		}
		return "string"
	case 8:
		return "keyword"
	case 9:
		return "punct"
	}
	return "other"
}

// confuse replaces one token by a token of another class: positions = 0 means every non-space
// token, otherwise that many sampled positions; perPos classes per position.
func confuse(b *builder, r *rng, text []byte, positions, perPos int) {
	spans, ok := dbccase.TokenSpans(text)
	if !ok {
		return
	}
	var toks []dbccase.Tok
	for _, s := range spans {
		if s.Kind != 2 {
			toks = append(toks, s)
		}
	}
	var idents []string
	for _, t := range toks {
		if t.Kind == 3 {
			idents = append(idents, string(text[t.Start:t.End]))
		}
	}
	sel := r.sample(len(toks), len(toks))
	if positions > 0 {
		sel = r.sample(len(toks), positions)
	}
	for _, ti := range sel {
		t := toks[ti]
		raw := string(text[t.Start:t.End])
		own := tokClass(t.Kind, raw)
		var classes []string
		for _, c := range confuseClasses {
			if c != own || c == "ident" { // an identifier may also become another identifier
				classes = append(classes, c)
			}
		}
		shuffle(r, classes)
		if perPos < len(classes) {
			classes = classes[:perPos]
		}
		for _, c := range classes {
			var repl string
			if c == "keyword" {
				repl = pick(r, allKeywords)
			} else if c == "ident" && len(idents) > 0 && r.chance(50) {
				repl = pick(r, idents) // a name of the same file: duplicates and dangling references
			} else {
				repl = pick(r, confusePool[c])
			}
			nt := make([]byte, 0, len(text)+len(repl))
			nt = append(nt, text[:t.Start]...)
			nt = append(nt, repl...)
			nt = append(nt, text[t.End:]...)
			b.add("confuse", nt)
		}
	}
}

var boundaryNumbers = []string{"0", "1", "2", "7", "8", "9", "15", "16", "17", "31", "32", "33", "63", "64", "65", "255", "256", "511", "512", "513",
	"1023", "1024", "1025", "2047", "2048", "65535", "65536", "2147483647", "2147483648", "4294967295", "-1", "-2147483648",
	"0.5", "1e-300", "1e300", "1.7976931348623157e308", "-1e308", "9223372036854775807", "-9223372036854775808", "0.1", "3.999", "4294967294"}

// boundary replaces each number, range and mux-indicator token in turn by perPos boundary values.
func boundary(b *builder, r *rng, text []byte, perPos int) {
	spans, ok := dbccase.TokenSpans(text)
	if !ok {
		return
	}
	for _, t := range spans {
		if t.Kind != 4 && t.Kind != 5 && t.Kind != 6 {
			continue
		}
		for k := 0; k < perPos; k++ {
			var repl string
			switch t.Kind {
			case 4:
				repl = pick(r, boundaryNumbers)
			case 5:
				lo, hi := pick(r, boundaryNumbers[:30]), pick(r, boundaryNumbers[:30])
				repl = lo + "-" + hi
			default:
				repl = "m" + pick(r, boundaryNumbers[:30])
				if text[t.End-1] == 'M' {
					repl += "M"
				}
				if string(text[t.Start:t.End]) == "M" {
					repl = "M"
				}
			}
			if repl == string(text[t.Start:t.End]) {
				continue
			}
			nt := make([]byte, 0, len(text)+len(repl))
			nt = append(nt, text[:t.Start]...)
			nt = append(nt, repl...)
			nt = append(nt, text[t.End:]...)
			b.add("boundary", nt)
		}
	}
}

// ---- well-known attributes -------------------------------------------------------------------

var wkObjs = []string{"", "BU_", "BO_", "SG_", "EV_"}
var wkTypes = []string{"INT", "HEX", "FLOAT", "STRING", "ENUM", "ENUM0"}
var wkDefs = []string{"5", "-1", "1.5", `"Cyclic"`, `""`, "absent"}
var wkTargets = []string{"", "BU_ A", "BO_ 1", "SG_ 1 s", "EV_ e"}
var wkValues = []string{"5", "-7", "4000000", "99999999999", "99999999999999999999", "2.5", "1e3", `"Cyclic"`, `"bogus"`, `""`, "1", "40"}

func wkText(a gattr, obj, typ, def, target, value string) []byte {
	var s strings.Builder
	s.WriteString("VERSION \"\"\nBU_: A B\nBO_ 1 m : 8 A\n SG_ s : 0|8@1+ (1,0) [0|255] \"\" B\nEV_ e : 0 [0|1] \"\" 0 1 DUMMY_NODE_VECTOR0 A;\n")
	s.WriteString("BA_DEF_ ")
	if obj != "" {
		s.WriteString(obj + " ")
	}
	s.WriteString(`"` + a.name + `" `)
	switch typ {
	case "INT", "HEX":
		s.WriteString(typ + " 0 100000")
	case "FLOAT":
		s.WriteString("FLOAT 0 100000.5")
	case "STRING":
		s.WriteString("STRING ")
	case "ENUM":
		vals := a.vals
		if len(vals) == 0 {
			vals = []string{"a", "Cyclic", "c"}
		}
		s.WriteString("ENUM ")
		for i, v := range vals {
			if i > 0 {
				s.WriteString(",")
			}
			s.WriteString(`"` + v + `"`)
		}
	case "ENUM0":
		s.WriteString("ENUM ")
	}
	s.WriteString(";\n")
	if def != "absent" {
		s.WriteString(`BA_DEF_DEF_ "` + a.name + `" ` + def + ";\n")
	}
	s.WriteString(`BA_ "` + a.name + `" `)
	if target != "" {
		s.WriteString(target + " ")
	}
	s.WriteString(value + ";\n")
	return []byte(s.String())
}

func wellknownStream(b *builder, r *rng, extra int) {
	// core: the object kind and target the importer special-cases, every type and value form
	for _, a := range wellKnown {
		target := "BO_ 1"
		if a.obj == "SG_" {
			target = "SG_ 1 s"
		}
		for _, typ := range wkTypes {
			for _, val := range wkValues {
				def := pick(r, wkDefs[:5]) // a default is required for the import to reach the value
				b.add("wellknown", wkText(a, a.obj, typ, def, target, val))
			}
		}
	}
	total := len(wellKnown) * len(wkObjs) * len(wkTypes) * len(wkDefs) * len(wkTargets) * len(wkValues)
	if extra < 0 || extra >= total {
		for _, a := range wellKnown {
			for _, obj := range wkObjs {
				for _, typ := range wkTypes {
					for _, def := range wkDefs {
						for _, tg := range wkTargets {
							for _, val := range wkValues {
								b.add("wellknown", wkText(a, obj, typ, def, tg, val))
							}
						}
					}
				}
			}
		}
		return
	}
	for i := 0; i < extra; i++ {
		b.add("wellknown", wkText(pick(r, wellKnown), pick(r, wkObjs), pick(r, wkTypes), pick(r, wkDefs), pick(r, wkTargets), pick(r, wkValues)))
	}
}

// ---- multiplexing ----------------------------------------------------------------------------

const muxStructures = 12
const muxRangeForms = 12

func muxRange(form, k int) string {
	n := 1 << k
	switch form {
	case 0:
		return "0-0"
	case 1:
		return fmt.Sprintf("0-%d", n-1)
	case 2:
		return "3-1"
	case 3:
		return "0-4294967295"
	case 4:
		return "4294967295-4294967295"
	case 5:
		return fmt.Sprintf("%d-%d", n, n+3)
	case 6:
		return fmt.Sprintf("%d-%d", n-1, n)
	case 7:
		return "0-0, 1-1, 0-1"
	case 8:
		return strings.TrimSuffix(strings.Repeat("0-1, ", 50), ", ")
	case 9:
		return "1-4294967294"
	case 10:
		return "4294967295-0"
	default: // thousands of overlapping ranges: the expansion must stay bounded by the group count
		hi := n - 2
		if hi < 0 {
			hi = 0
		}
		one := fmt.Sprintf("0-%d, ", hi)
		return strings.TrimSuffix(strings.Repeat(one, 3000), ", ")
	}
}

func sgLine(name, mux string, pos, size int, be bool) string {
	order := "1"
	if be {
		order = "0"
	}
	if mux != "" {
		mux = " " + mux
	}
	return fmt.Sprintf(" SG_ %s%s : %d|%d@%s+ (1,0) [0|0] \"\" A\n", name, mux, dbcStartBit(pos, be), size, order)
}

// muxCase builds one corner case: selector size k (1..16), structure, range form.
func muxCase(structure, k, form int, be bool) []byte {
	rg := muxRange(form, k)
	var s strings.Builder
	s.WriteString("BU_: A\nBO_ 1 m : 8 A\n")
	switch structure {
	case 0: // one multiplexor, SG_MUL_VAL_ on a multiplexed signal
		s.WriteString(sgLine("mx", "M", 0, k, be) + sgLine("a", "m0", k, 4, be) + sgLine("b", "m1", k, 4, be))
		s.WriteString("SG_MUL_VAL_ 1 a mx " + rg + ";\n")
	case 1: // two top level multiplexors
		s.WriteString(sgLine("mx", "M", 0, k, be) + sgLine("a", "m0", k, 4, be))
		s.WriteString(sgLine("my", "M", 32, k, be) + sgLine("b", "m1", 32+k, 4, be))
		s.WriteString("SG_MUL_VAL_ 1 a mx " + rg + ";\nSG_MUL_VAL_ 1 b my " + rg + ";\n")
	case 2: // nested
		s.WriteString(sgLine("mx", "M", 0, k, be) + sgLine("in", "m0M", k, 2, be) + sgLine("a", "m1", k+2, 4, be))
		s.WriteString("SG_MUL_VAL_ 1 in mx " + rg + ";\nSG_MUL_VAL_ 1 a in 0-1;\n")
	case 3: // multiplexed signals without any multiplexor
		s.WriteString(sgLine("a", "m0", k, 4, be) + sgLine("b", "m1", k, 4, be))
		s.WriteString("SG_MUL_VAL_ 1 a mx " + rg + ";\n")
	case 4: // SG_MUL_VAL_ names a multiplexor that does not exist
		s.WriteString(sgLine("mx", "M", 0, k, be) + sgLine("my", "M", 32, k, be) + sgLine("a", "m0", k, 4, be))
		s.WriteString("SG_MUL_VAL_ 1 a nomux " + rg + ";\n")
	case 5: // SG_MUL_VAL_ names the signal itself / a plain signal
		s.WriteString(sgLine("mx", "M", 0, k, be) + sgLine("my", "M", 32, k, be) + sgLine("a", "m0", k, 4, be) + sgLine("p", "", 60, 2, be))
		s.WriteString("SG_MUL_VAL_ 1 a a " + rg + ";\nSG_MUL_VAL_ 1 mx p " + rg + ";\nSG_MUL_VAL_ 1 my my " + rg + ";\n")
	case 6: // two multiplexors, multiplexed signal without SG_MUL_VAL_
		s.WriteString(sgLine("mx", "M", 0, k, be) + sgLine("my", "M", 32, k, be) + sgLine("a", "m0", k, 4, be))
		s.WriteString("SG_MUL_VAL_ 1 zz mx " + rg + ";\n")
	case 7: // two multiplexed multiplexors naming each other
		s.WriteString(sgLine("mx", "m0M", 0, k, be) + sgLine("my", "m0M", 32, k, be) + sgLine("a", "m0", k, 4, be))
		s.WriteString("SG_MUL_VAL_ 1 mx my " + rg + ";\nSG_MUL_VAL_ 1 my mx " + rg + ";\nSG_MUL_VAL_ 1 a mx 0-0;\n")
	case 8: // multiplexed signal in front of its multiplexor
		s.WriteString(sgLine("a", "m0", 0, 4, be) + sgLine("mx", "M", 8, k, be) + sgLine("b", "m1", 8+k, 4, be))
		s.WriteString("SG_MUL_VAL_ 1 a mx " + rg + ";\n")
	case 9: // three levels
		s.WriteString(sgLine("l1", "M", 0, k, be) + sgLine("l2", "m0M", k, 2, be) + sgLine("l3", "m1M", k+2, 2, be) + sgLine("a", "m2", k+4, 4, be))
		s.WriteString("SG_MUL_VAL_ 1 l2 l1 " + rg + ";\nSG_MUL_VAL_ 1 l3 l2 1-1;\nSG_MUL_VAL_ 1 a l3 2-2;\n")
	case 10: // a multiplexor without multiplexed signals
		s.WriteString(sgLine("mx", "M", 0, k, be) + sgLine("p", "", 40, 4, be))
		s.WriteString("SG_MUL_VAL_ 1 p mx " + rg + ";\n")
	default: // a multiplexed multiplexor alone, switch value beyond the selector
		s.WriteString(sgLine("mx", fmt.Sprintf("m%dM", 1<<k), 0, k, be) + sgLine("a", fmt.Sprintf("m%d", 1<<k), k, 4, be))
		s.WriteString("SG_MUL_VAL_ 1 a mx " + rg + ";\n")
	}
	return []byte(s.String())
}

func muxStream(b *builder, r *rng, n int) {
	type c struct{ st, k, form int }
	var all []c
	ks := []int{1, 2, 3, 4, 5, 6, 7, 8, 9, 10, 11, 12, 13, 14, 15, 16}
	for st := 0; st < muxStructures; st++ {
		for _, k := range ks {
			for f := 0; f < muxRangeForms; f++ {
				all = append(all, c{st, k, f})
			}
		}
	}
	sel := r.sample(len(all), len(all))
	if n > 0 {
		sel = r.sample(len(all), n)
	}
	for _, i := range sel {
		b.add("mux", muxCase(all[i].st, all[i].k, all[i].form, r.chance(25)))
	}
}

// ---- random code points ----------------------------------------------------------------------

var oddRunes = []rune{0, 0xFFFD, 0x1F600, 0x10000, 0x0663, 0xFF11, 0x0966, 0xE9, 0xB5, 0x2028, 0x7F, 0x0B, 0x0C, 0xA0, 0xFEFF, 0x1D7D8}
var oddBytes = []string{"\xff", "\xc0\x80", "\xed\xa0\x80", "\xf4\x90\x80\x80", "\xe2\x82", "\x80"}
var fragments = []string{"BO_ ", "SG_ ", "BU_:", "VERSION ", "NS_ :", "BS_:", "CM_ ", "BA_DEF_ ", "BA_ ", "BA_DEF_DEF_ ", "VAL_ ", "VAL_TABLE_ ", "SG_MUL_VAL_ ",
	"EV_ ", "SGTYPE_ ", "SIG_GROUP_ ", "SIG_VALTYPE_ ", "BO_TX_BU_ ", "ENVVAR_DATA_ ", "INT ", "ENUM ", " : ", "|", "@1+", "@0-", " (1,0) ", " [0|1] ", "\"\"", "\"", ";", ",", "\n", " ", "\t",
	"m1", "M", "m2M", "1-2", "0x", "1e", "1e+", "-", "+", ".", "1", "8", "A", "x"}

func randomCps(r *rng, i int) []byte {
	var out []byte
	switch i % 3 {
	case 0: // pure mix
		n := r.intn(60)
		for j := 0; j < n; j++ {
			switch r.intn(5) {
			case 0:
				out = utf8.AppendRune(out, pick(r, oddRunes))
			case 1:
				out = append(out, pick(r, oddBytes)...)
			case 2:
				out = utf8.AppendRune(out, rune(32+r.intn(95)))
			default:
				out = append(out, pick(r, fragments)...)
			}
		}
	case 1: // a small valid document with characters substituted or inserted
		text := genDoc(r, genCfg{small: true}).bytes()
		for _, c := range string(text) {
			switch {
			case c >= '0' && c <= '9' && r.chance(15):
				out = utf8.AppendRune(out, pick(r, []rune{0x0660, 0xFF10, 0x0966})+(c-'0'))
			case r.chance(2):
				out = utf8.AppendRune(out, pick(r, oddRunes))
				out = utf8.AppendRune(out, c)
			case r.chance(1):
				out = append(out, pick(r, oddBytes)...)
			default:
				out = utf8.AppendRune(out, c)
			}
		}
	default: // statements made of fragments and numbers in odd digits
		n := 1 + r.intn(25)
		for j := 0; j < n; j++ {
			if r.chance(15) {
				d := pick(r, []rune{0x0660, 0xFF10, '0'})
				for l := 0; l < 1+r.intn(3); l++ {
					out = utf8.AppendRune(out, d+rune(r.intn(10)))
				}
			} else if r.chance(8) {
				out = utf8.AppendRune(out, pick(r, oddRunes))
			} else {
				out = append(out, pick(r, fragments)...)
			}
		}
	}
	return out
}

// corpus: reproducers of every defect found so far (parser and importer), one per line of the
// report; they stay in every run.
var corpus = []string{
	"BO_ 1 m : 8 A\n SG_ s : 0|8@1",
	"BO_ 1 m : 8 A\n SG_ s : 0|8@1 \"\"",
	"SGTYPE_ t : 8@1",
	"SGTYPE_ t : 8@1 \"\"",
	"VERSION \"\"\n",
	"",
	"BU_: A\nBO_ 1 m : 8 A\n SG_ s : 0|8@1+ (1,0) [0|1] \"\" A\nBA_DEF_ BO_ \"GenMsgCycleTime\" STRING ;\nBA_DEF_DEF_ \"GenMsgCycleTime\" \"x\";\nBA_ \"GenMsgCycleTime\" BO_ 1 \"x\";\n",
	"BU_: A\nBO_ 1 m : 8 A\n SG_ s : 0|8@1+ (1,0) [0|1] \"\" A\nBA_DEF_ BO_ \"GenMsgDelayTime\" FLOAT 0 10;\nBA_DEF_DEF_ \"GenMsgDelayTime\" 0;\nBA_ \"GenMsgDelayTime\" BO_ 1 1;\n",
	"BU_: A\nBO_ 1 m : 8 A\n SG_ s : 0|8@1+ (1,0) [0|1] \"\" A\nBA_DEF_ BO_ \"GenMsgStartDelayTime\" INT 0 10;\nBA_DEF_DEF_ \"GenMsgStartDelayTime\" 0;\nBA_ \"GenMsgStartDelayTime\" BO_ 1 1.5;\n",
	"BU_: A\nBO_ 1 m : 8 A\n SG_ s : 0|8@1+ (1,0) [0|1] \"\" A\nBA_DEF_ BO_ \"GenMsgSendType\" INT 0 10;\nBA_DEF_DEF_ \"GenMsgSendType\" 0;\nBA_ \"GenMsgSendType\" BO_ 1 1;\n",
	"BU_: A\nBO_ 1 m : 8 A\n SG_ s : 0|8@1+ (1,0) [0|1] \"\" A\nBA_DEF_ SG_ \"GenSigSendType\" INT 0 10;\nBA_DEF_DEF_ \"GenSigSendType\" 0;\nBA_ \"GenSigSendType\" SG_ 1 s 1;\n",
	"BU_: A\nBO_ 1 m : 8 A\n SG_ s : 0|8@1+ (1,0) [0|1] \"\" A\nBA_DEF_ BO_ \"GenMsgCycleTime\" ENUM \"a\",\"b\";\nBA_DEF_DEF_ \"GenMsgCycleTime\" \"a\";\nBA_ \"GenMsgCycleTime\" BO_ 1 7;\n",
	"BU_: A\nBO_ 1 m : 8 A\n SG_ a M : 0|2@1+ (1,0) [0|1] \"\" A\n SG_ c m0 : 4|2@1+ (1,0) [0|1] \"\" A\nSG_MUL_VAL_ 1 c a 0-4294967295;\n",
	"BU_: A\nBO_ 1 m : 8 A\n SG_ a M : 0|2@1+ (1,0) [0|1] \"\" A\n SG_ c m0 : 4|2@1+ (1,0) [0|1] \"\" A\nSG_MUL_VAL_ 1 c a 4294967295-4294967295;\n",
	"BU_: A\nBO_ 1 m : 8 A\n SG_ mx M : 0|2@1+ (1,0) [0|1] \"\" A\n SG_ a m3 : 2|4294967295@1- (1,2) [0|1] \"\" A\n",
}

func init() {
	// a BU_ section with more than 1024 nodes: the 1025th gets the node id of the placeholder node
	var s strings.Builder
	s.WriteString("BU_:")
	for i := 0; i < 1030; i++ {
		s.WriteString(" n" + strconv.Itoa(i))
	}
	s.WriteString("\n")
	corpus = append(corpus, s.String())
	// 3000 overlapping ranges on a 16 bit selector
	corpus = append(corpus, "BU_: A\nBO_ 1 m : 8 A\n SG_ mx M : 0|16@1+ (1,0) [0|1] \"\" A\n SG_ a m3 : 16|4@1- (1,2) [0|1] \"\" A\nSG_MUL_VAL_ 1 a mx "+
		strings.TrimSuffix(strings.Repeat("0-65534, ", 3000), ", ")+";\n")
}
