package main

import (
	"fmt"
	"strings"
)

// The "valtable" stream (importer level): the value descriptions of a signal (VAL_) set against
// the value tables of the file (VAL_TABLE_): equal, strict prefix, extension, permutation, empty,
// same names with other numbers, same numbers with other names, several tables, repeated VAL_.
func valtableStream(b *builder, r *rng, extra int) {
	type vd struct {
		id   int
		name string
	}
	render := func(l []vd) string {
		var sb strings.Builder
		for _, v := range l {
			fmt.Fprintf(&sb, " %d \"%s\"", v.id, v.name)
		}
		return sb.String()
	}
	// sizes: bit size of signal i (8 when absent); perMsg: signals per message (0 = all in one message)
	fileSized := func(tables [][]vd, vals [][]vd, sizes []int, perMsg int) []byte {
		var sb strings.Builder
		sb.WriteString("VERSION \"\"\nNS_ :\nBS_:\nBU_: A\n")
		for i, t := range tables {
			fmt.Fprintf(&sb, "VAL_TABLE_ vt%d%s ;\n", i, render(t))
		}
		msgOf := func(i int) int {
			if perMsg <= 0 {
				return 1
			}
			return 1 + i/perMsg
		}
		start, cur := 0, 0
		for i := range vals {
			if m := msgOf(i); m != cur {
				cur, start = m, 0
				fmt.Fprintf(&sb, "BO_ %d msg%d : 8 A\n", m, m)
			}
			size := 8
			if i < len(sizes) {
				size = sizes[i]
			}
			fmt.Fprintf(&sb, " SG_ s%d : %d|%d@1+ (1,0) [0|255] \"\" A\n", i, start, size)
			start += size
		}
		for i, v := range vals {
			fmt.Fprintf(&sb, "VAL_ %d s%d%s ;\n", msgOf(i), i, render(v))
		}
		return []byte(sb.String())
	}
	file := func(tables [][]vd, vals [][]vd) []byte {
		if len(vals) == 0 {
			var sb strings.Builder
			sb.WriteString("VERSION \"\"\nNS_ :\nBS_:\nBU_: A\n")
			for i, t := range tables {
				fmt.Fprintf(&sb, "VAL_TABLE_ vt%d%s ;\n", i, render(t))
			}
			sb.WriteString("BO_ 1 m : 8 A\n")
			return []byte(sb.String())
		}
		return fileSized(tables, vals, nil, 0)
	}
	base := func(k int) []vd {
		var l []vd
		for i := 0; i < k; i++ {
			l = append(l, vd{i, fmt.Sprintf("V%d", i)})
		}
		return l
	}
	variants := func(t []vd) [][]vd {
		var out [][]vd
		out = append(out, append([]vd{}, t...)) // equal
		for p := 0; p < len(t); p++ {           // strict prefixes, empty included
			out = append(out, append([]vd{}, t[:p]...))
		}
		out = append(out, append(append([]vd{}, t...), vd{len(t), "X"}), append(append([]vd{}, t...), vd{len(t), "X"}, vd{len(t) + 1, "Y"}))
		if len(t) > 1 {
			rev := make([]vd, len(t))
			for i := range t {
				rev[len(t)-1-i] = t[i]
			}
			out = append(out, rev, append(append([]vd{}, t[1:]...), t[0]), append([]vd{}, t[1:]...))
		}
		var renum, renam []vd
		for i, v := range t {
			renum = append(renum, vd{v.id + 1, v.name})
			renam = append(renam, vd{v.id, fmt.Sprintf("W%d", i)})
		}
		out = append(out, renum, renam)
		if len(t) > 0 {
			out = append(out, append(append([]vd{}, t...), t[len(t)-1])) // a repeated description
			big := append([]vd{}, t...)
			big[len(big)-1].id = 255
			out = append(out, big)
			big2 := append([]vd{}, t...)
			big2[len(big2)-1].id = 256 // does not fit the 8-bit signal
			out = append(out, big2)
		}
		return out
	}
	for k := 0; k <= 4; k++ {
		t := base(k)
		for _, v := range variants(t) {
			b.add("valtable", file([][]vd{t}, [][]vd{v}))
			b.add("valtable", file([][]vd{base(2), t}, [][]vd{v}))                 // another table first
			b.add("valtable", file([][]vd{t, t}, [][]vd{v, append([]vd{}, t...)})) // the table twice, two signals
		}
		b.add("valtable", file([][]vd{t}, nil))
		b.add("valtable", file(nil, [][]vd{t}))
	}
	// one table shared by several signals of DIFFERENT bit sizes, in one message and across messages, the table
	// first met by the widest / the narrowest signal; with a second table in between; with one VAL_ that is not the
	// table (added after the seeded change C09-r5m1 - a per-size cache of enum copies in a map never allocated,
	// reached only when the second user of a table has another size - was missed: every signal here was 8 bits wide)
	for k := 1; k <= 3; k++ {
		t := base(k)
		for _, sizes := range [][]int{{8, 4}, {4, 8}, {8, 8, 4}, {2, 8, 16}, {8, 4, 8, 4}, {16, 16, 3, 3, 16}, {1, 2, 3, 4, 5, 6}, {4, 4}, {8, 4, 2}} {
			if 1<<sizes[0] < k {
				continue
			}
			vals := make([][]vd, len(sizes))
			for i := range vals {
				vals[i] = append([]vd{}, t...)
			}
			for _, perMsg := range []int{0, 1, 2} {
				b.add("valtable", fileSized([][]vd{t}, vals, sizes, perMsg))
				b.add("valtable", fileSized([][]vd{base(k + 1), t}, vals, sizes, perMsg))
			}
			mixed := append([][]vd{}, vals...)
			mixed[len(mixed)/2] = append(append([]vd{}, t...), vd{k, "X"})
			b.add("valtable", fileSized([][]vd{t}, mixed, sizes, 0))
		}
	}
	for i := 0; i < extra; i++ {
		nt := 1 + r.intn(3)
		var tables, vals [][]vd
		for j := 0; j < nt; j++ {
			tables = append(tables, base(r.intn(5)))
		}
		for j := 0; j < 1+r.intn(3); j++ {
			vs := variants(tables[r.intn(nt)])
			vals = append(vals, vs[r.intn(len(vs))])
		}
		if i%2 == 0 {
			b.add("valtable", file(tables, vals))
			continue
		}
		sizes := make([]int, len(vals))
		for j := range sizes {
			sizes[j] = []int{1, 2, 3, 4, 8, 12, 16}[r.intn(7)]
		}
		b.add("valtable", fileSized(tables, vals, sizes, r.intn(3)))
	}
}
