package dbccase

import (
	"bufio"
	"fmt"

	"github.com/squadracorsepolito/acmelib/dbc"
)

// Helpers of the C09 harness (cmd/c09). Nothing here changes the record format of EmitCase.

// EmitShort writes a record without scanner tokens, projection and writer text:
//
//	CASE id stream 0 / TEXT / DOMAIN 0 / PARSE / extra* / END
//
// DOMAIN 0 makes the model driver skip the comparison; the record stays replayable from TEXT.
// It never calls into package dbc, so it is safe for inputs that crash the scanner or parser.
func EmitShort(w *bufio.Writer, id int, stream string, text []byte, o Outcome, extra []string) {
	fmt.Fprintf(w, "CASE %d %s 0\n", id, stream)
	fmt.Fprintf(w, "TEXT %s\n", cpsLine(Cps(text)))
	fmt.Fprintf(w, "DOMAIN 0\n")
	switch o.Class {
	case "ok":
		fmt.Fprintf(w, "PARSE ok\n")
	case "syn":
		fmt.Fprintf(w, "PARSE syn %d %d\n", o.Line, o.Col)
	case "other":
		fmt.Fprintf(w, "PARSE other\n")
	default:
		fmt.Fprintf(w, "PARSE panic\n")
	}
	for _, e := range extra {
		fmt.Fprintf(w, "%s\n", e)
	}
	fmt.Fprintf(w, "END\n")
}

// Tok is one scanner token of a text with its byte extent (space tokens included).
type Tok struct {
	Kind       int // numbering of dbc.VerifToken
	Start, End int
}

// TokenSpans runs the real scanner and reconstructs the byte extent of every token from the
// token values. That is exact when the text has no error token, no NUL and is valid UTF-8
// (ok = true); otherwise ok = false and the spans must not be used.
func TokenSpans(text []byte) (spans []Tok, ok bool) {
	defer func() {
		if r := recover(); r != nil {
			spans, ok = nil, false
		}
	}()
	pos := 0
	for _, t := range dbc.VerifScanAll(text) {
		n := len(t.Value)
		switch t.Kind {
		case 0: // error token: the value is a message, not the text
			return nil, false
		case 1: // eof
			if t.Value != "" {
				return nil, false
			}
			if pos != len(text) {
				return nil, false
			}
			return spans, true
		case 7: // string: quotes stripped
			n += 2
		}
		if pos+n > len(text) {
			return nil, false
		}
		raw := string(text[pos : pos+n])
		if t.Kind == 7 {
			if raw != `"`+t.Value+`"` {
				return nil, false
			}
		} else if raw != t.Value {
			return nil, false
		}
		spans = append(spans, Tok{Kind: t.Kind, Start: pos, End: pos + n})
		pos += n
	}
	return nil, false
}

// WideMux reports whether a parsed file declares a multiplexor signal wider than maxBits
// (property C09 excludes those: the importer allocates 2^size groups eagerly).
func WideMux(f *dbc.File, maxBits uint32) bool {
	if f == nil {
		return false
	}
	for _, m := range f.Messages {
		for _, s := range m.Signals {
			if s.IsMultiplexor && s.Size > maxBits {
				return true
			}
		}
	}
	return false
}
