package dbccase

import (
	"encoding/hex"
	"math"
	"strconv"
	"strings"

	"github.com/squadracorsepolito/acmelib/dbc"
)

// C10Doc serialises the parser's document as the token tree read by the C10 model of the
// importer (coq/C10/Tok.v doc_of; same field order as props/C10/harness/gdoc.go ASTTok):
// "(" ... ")" lists, i<decimal>, s<hex bytes>, f<mantissa>:<exponent> (odd mantissa, or 0:0).
// ok is false when the document holds a value outside what the model carries (no finite double).
// bigConv: an attribute default / value is a float literal of magnitude >= 2^53; when the attribute is an
// integer one the importer converts it with int(float64), whose result is implementation-dependent outside
// the range of int (Go spec, conversions) and which the model (exact conversion, stated for <= 2^53) does not follow.
func C10Doc(name string, f *dbc.File) (tree string, ok bool, bigConv bool) {
	b := new(strings.Builder)
	ok = true
	open := func() { b.WriteString("(") }
	cl := func() { b.WriteString(" )") }
	ti := func(v int64) { b.WriteString(" i" + strconv.FormatInt(v, 10)) }
	tb := func(v bool) {
		if v {
			ti(1)
		} else {
			ti(0)
		}
	}
	ts := func(s string) { b.WriteString(" s" + hex.EncodeToString([]byte(s))) }
	tf := func(x float64) {
		if math.IsNaN(x) || math.IsInf(x, 0) {
			ok = false
			b.WriteString(" f0:0")
			return
		}
		if x == 0 {
			b.WriteString(" f0:0")
			return
		}
		fr, ex := math.Frexp(x)
		m := int64(fr * (1 << 53))
		e := int64(ex) - 53
		for m%2 == 0 {
			m /= 2
			e++
		}
		b.WriteString(" f" + strconv.FormatInt(m, 10) + ":" + strconv.FormatInt(e, 10))
	}
	lst := func(body func()) { b.WriteString(" "); open(); body(); cl() }
	strs := func(l []string) {
		lst(func() {
			for _, s := range l {
				ts(s)
			}
		})
	}
	vals := func(l []*dbc.ValueDescription) {
		lst(func() {
			for _, v := range l {
				lst(func() { ti(int64(v.ID)); ts(v.Name) })
			}
		})
	}
	open()
	ts(name)
	if f.Nodes != nil {
		strs(f.Nodes.Names)
	} else {
		strs(nil)
	}
	lst(func() {
		for _, vt := range f.ValueTables {
			lst(func() { ts(vt.Name); vals(vt.Values) })
		}
	})
	lst(func() {
		for _, m := range f.Messages {
			lst(func() {
				ti(int64(m.ID))
				ts(m.Name)
				ti(int64(m.Size))
				ts(m.Transmitter)
				lst(func() {
					for _, s := range m.Signals {
						lst(func() {
							ts(s.Name)
							tb(s.IsMultiplexor)
							tb(s.IsMultiplexed)
							ti(int64(s.MuxSwitchValue))
							ti(int64(s.Size))
							ti(int64(s.StartBit))
							tb(s.ByteOrder == dbc.SignalBigEndian)
							tb(s.ValueType == dbc.SignalSigned)
							tf(s.Factor)
							tf(s.Offset)
							tf(s.Min)
							tf(s.Max)
							ts(s.Unit)
							strs(s.Receivers)
						})
					}
				})
			})
		}
	})
	lst(func() {
		for _, c := range f.Comments {
			lst(func() { ti(int64(c.Kind)); ts(c.Text); ts(c.NodeName); ti(int64(c.MessageID)); ts(c.SignalName) })
		}
	})
	lst(func() {
		for _, a := range f.Attributes {
			lst(func() {
				ti(int64(a.Kind))
				ti(int64(a.Type))
				ts(a.Name)
				ti(int64(a.MinInt))
				ti(int64(a.MaxInt))
				ti(int64(a.MinHex))
				ti(int64(a.MaxHex))
				tf(a.MinFloat)
				tf(a.MaxFloat)
				strs(a.EnumValues)
			})
		}
	})
	lst(func() {
		for _, a := range f.AttributeDefaults {
			lst(func() {
				ti(int64(a.Type))
				ts(a.AttributeName)
				ts(a.ValueString)
				ti(int64(a.ValueInt))
				ti(int64(a.ValueHex))
				tf(a.ValueFloat)
				bigConv = bigConv || math.Abs(a.ValueFloat) >= 1<<53
			})
		}
	})
	lst(func() {
		for _, a := range f.AttributeValues {
			lst(func() {
				ti(int64(a.AttributeKind))
				ti(int64(a.Type))
				ts(a.AttributeName)
				ts(a.NodeName)
				ti(int64(a.MessageID))
				ts(a.SignalName)
				ts(a.ValueString)
				ti(int64(a.ValueInt))
				ti(int64(a.ValueHex))
				tf(a.ValueFloat)
				bigConv = bigConv || math.Abs(a.ValueFloat) >= 1<<53
			})
		}
	})
	lst(func() {
		for _, v := range f.ValueEncodings {
			lst(func() {
				tb(v.Kind == dbc.ValueEncodingSignal)
				ti(int64(v.MessageID))
				ts(v.SignalName)
				vals(v.Values)
			})
		}
	})
	lst(func() {
		for _, x := range f.ExtendedMuxes {
			lst(func() {
				ti(int64(x.MessageID))
				ts(x.MultiplexorName)
				ts(x.MultiplexedName)
				lst(func() {
					for _, r := range x.Ranges {
						lst(func() { ti(int64(r.From)); ti(int64(r.To)) })
					}
				})
			})
		}
	})
	cl()
	return b.String(), ok, bigConv
}
