package dbccase

import (
	"fmt"
	"math"
	"strings"

	"github.com/squadracorsepolito/acmelib/dbc"
)

// CoqFile renders a dbc.File as a Gallina term of type Acme.C08.DbcAst.file (live fields only, the
// same projection as project.go), for the vm_compute cross-check of the thorough tier: the term is
// embedded in a generated .v file and compared with the model's result inside Coq, without
// extraction and without the OCaml driver.
func CoqFile(f *dbc.File) string {
	var b strings.Builder
	cs := func(s string) string { // str
		rs := Cps([]byte(s))
		parts := make([]string, len(rs))
		for i, r := range rs {
			parts[i] = fmt.Sprint(int(r))
		}
		return "[" + strings.Join(parts, ";") + "]"
	}
	css := func(l []string) string {
		parts := make([]string, len(l))
		for i, s := range l {
			parts[i] = cs(s)
		}
		return "[" + strings.Join(parts, ";") + "]"
	}
	fb := func(x float64) string { return fmt.Sprint(math.Float64bits(x)) }
	list := func(n int, item func(i int) string) string {
		parts := make([]string, n)
		for i := range parts {
			parts[i] = item(i)
		}
		return "[" + strings.Join(parts, ";") + "]"
	}
	bo := func(o dbc.SignalByteOrder) string {
		if o == dbc.SignalBigEndian {
			return "BigEndian"
		}
		return "LittleEndian"
	}
	vt := func(v dbc.SignalValueType) string {
		if v == dbc.SignalSigned {
			return "Signed"
		}
		return "Unsigned"
	}
	z := func(i int) string {
		if i < 0 {
			return fmt.Sprintf("(%d)%%Z", i)
		}
		return fmt.Sprintf("%d%%Z", i)
	}
	vds := func(l []*dbc.ValueDescription) string {
		return list(len(l), func(i int) string { return fmt.Sprintf("{| vd_id := %d; vd_name := %s |}", l[i].ID, cs(l[i].Name)) })
	}
	ref := func(kind int, node string, id uint32, sig, ev string) string {
		switch kind {
		case 1:
			return "ORNode " + cs(node)
		case 2:
			return fmt.Sprintf("ORMessage %d", id)
		case 3:
			return fmt.Sprintf("ORSignal %d %s", id, cs(sig))
		case 4:
			return "OREnvVar " + cs(ev)
		}
		return "ORGeneral"
	}
	val := func(t int, i int, h uint32, x float64, s string) string {
		// AttributeDefaultType / AttributeValueType: 0 int, 1 string, 2 float, 3 hex
		switch t {
		case 0:
			return "AVInt " + z(i)
		case 1:
			return "AVString " + cs(s)
		case 2:
			return "AVFloat " + fb(x)
		}
		return fmt.Sprintf("AVHex %d", h)
	}
	opt := func(present bool, s string) string {
		if present {
			return "Some (" + s + ")"
		}
		return "None"
	}
	fmt.Fprintf(&b, "{| f_version := %s; ", cs(f.Version))
	fmt.Fprintf(&b, "f_ns := %s; ", opt(f.NewSymbols != nil, func() string {
		if f.NewSymbols == nil {
			return ""
		}
		return css(f.NewSymbols.Symbols)
	}()))
	fmt.Fprintf(&b, "f_bs := %s; ", opt(f.BitTiming != nil, func() string {
		if f.BitTiming == nil {
			return ""
		}
		return fmt.Sprintf("{| bt_baud := %d; bt_reg1 := %d; bt_reg2 := %d |}", f.BitTiming.Baudrate, f.BitTiming.BitTimingReg1, f.BitTiming.BitTimingReg2)
	}()))
	fmt.Fprintf(&b, "f_bu := %s; ", opt(f.Nodes != nil, func() string {
		if f.Nodes == nil {
			return ""
		}
		return css(f.Nodes.Names)
	}()))
	fmt.Fprintf(&b, "f_vts := %s; ", list(len(f.ValueTables), func(i int) string {
		t := f.ValueTables[i]
		return fmt.Sprintf("{| vt_name := %s; vt_values := %s |}", cs(t.Name), vds(t.Values))
	}))
	fmt.Fprintf(&b, "f_msgs := %s; ", list(len(f.Messages), func(i int) string {
		m := f.Messages[i]
		sigs := list(len(m.Signals), func(j int) string {
			s := m.Signals[j]
			mux := "None"
			if s.IsMultiplexed {
				mux = fmt.Sprintf("Some %d", s.MuxSwitchValue)
			}
			return fmt.Sprintf("{| sg_name := %s; sg_multiplexor := %v; sg_mux := %s; sg_start := %d; sg_size := %d; sg_order := %s; sg_vtype := %s; sg_factor := %s; sg_offset := %s; sg_min := %s; sg_max := %s; sg_unit := %s; sg_receivers := %s |}",
				cs(s.Name), s.IsMultiplexor, mux, s.StartBit, s.Size, bo(s.ByteOrder), vt(s.ValueType), fb(s.Factor), fb(s.Offset), fb(s.Min), fb(s.Max), cs(s.Unit), css(s.Receivers))
		})
		return fmt.Sprintf("{| ms_id := %d; ms_name := %s; ms_size := %d; ms_tx := %s; ms_signals := %s |}", m.ID, cs(m.Name), m.Size, cs(m.Transmitter), sigs)
	}))
	fmt.Fprintf(&b, "f_txs := %s; ", list(len(f.MessageTransmitters), func(i int) string {
		t := f.MessageTransmitters[i]
		return fmt.Sprintf("{| tx_id := %d; tx_names := %s |}", t.MessageID, css(t.Transmitters))
	}))
	fmt.Fprintf(&b, "f_evs := %s; ", list(len(f.EnvVars), func(i int) string {
		e := f.EnvVars[i]
		ty := []string{"EvInt", "EvFloat", "EvString"}[e.Type]
		return fmt.Sprintf("{| ev_name := %s; ev_ty := %s; ev_min := %s; ev_max := %s; ev_unit := %s; ev_init := %s; ev_id := %d; ev_access := %d; ev_nodes := %s |}",
			cs(e.Name), ty, fb(e.Min), fb(e.Max), cs(e.Unit), fb(e.InitialValue), e.ID, e.AccessType, css(e.AccessNodes))
	}))
	fmt.Fprintf(&b, "f_eds := %s; ", list(len(f.EnvVarDatas), func(i int) string {
		e := f.EnvVarDatas[i]
		return fmt.Sprintf("{| ed_name := %s; ed_size := %d |}", cs(e.EnvVarName), e.DataSize)
	}))
	fmt.Fprintf(&b, "f_sts := %s; ", list(len(f.SignalTypes), func(i int) string {
		s := f.SignalTypes[i]
		return fmt.Sprintf("{| st_name := %s; st_size := %d; st_order := %s; st_vtype := %s; st_factor := %s; st_offset := %s; st_min := %s; st_max := %s; st_unit := %s; st_default := %s; st_table := %s |}",
			cs(s.TypeName), s.Size, bo(s.ByteOrder), vt(s.ValueType), fb(s.Factor), fb(s.Offset), fb(s.Min), fb(s.Max), cs(s.Unit), fb(s.DefaultValue), cs(s.ValueTableName))
	}))
	fmt.Fprintf(&b, "f_cms := %s; ", list(len(f.Comments), func(i int) string {
		c := f.Comments[i]
		return fmt.Sprintf("{| cm_ref := %s; cm_text := %s |}", ref(int(c.Kind), c.NodeName, c.MessageID, c.SignalName, c.EnvVarName), cs(c.Text))
	}))
	fmt.Fprintf(&b, "f_ads := %s; ", list(len(f.Attributes), func(i int) string {
		a := f.Attributes[i]
		kind := []string{"AKGeneral", "AKNode", "AKMessage", "AKSignal", "AKEnvVar"}[a.Kind]
		var ty string
		switch a.Type {
		case dbc.AttributeInt:
			ty = fmt.Sprintf("ATInt %s %s", z(a.MinInt), z(a.MaxInt))
		case dbc.AttributeHex:
			ty = fmt.Sprintf("ATHex %d %d", a.MinHex, a.MaxHex)
		case dbc.AttributeFloat:
			ty = fmt.Sprintf("ATFloat %s %s", fb(a.MinFloat), fb(a.MaxFloat))
		case dbc.AttributeString:
			ty = "ATString"
		default:
			ty = "ATEnum " + css(a.EnumValues)
		}
		return fmt.Sprintf("{| ad_kind := %s; ad_name := %s; ad_type := %s |}", kind, cs(a.Name), ty)
	}))
	fmt.Fprintf(&b, "f_afs := %s; ", list(len(f.AttributeDefaults), func(i int) string {
		a := f.AttributeDefaults[i]
		return fmt.Sprintf("{| af_name := %s; af_value := %s |}", cs(a.AttributeName), val(int(a.Type), a.ValueInt, a.ValueHex, a.ValueFloat, a.ValueString))
	}))
	fmt.Fprintf(&b, "f_avs := %s; ", list(len(f.AttributeValues), func(i int) string {
		a := f.AttributeValues[i]
		return fmt.Sprintf("{| av_name := %s; av_ref := %s; av_value := %s |}", cs(a.AttributeName),
			ref(int(a.AttributeKind), a.NodeName, a.MessageID, a.SignalName, a.EnvVarName), val(int(a.Type), a.ValueInt, a.ValueHex, a.ValueFloat, a.ValueString))
	}))
	fmt.Fprintf(&b, "f_ves := %s; ", list(len(f.ValueEncodings), func(i int) string {
		v := f.ValueEncodings[i]
		r := "EREnvVar " + cs(v.EnvVarName)
		if v.Kind == dbc.ValueEncodingSignal {
			r = fmt.Sprintf("ERSignal %d %s", v.MessageID, cs(v.SignalName))
		}
		return fmt.Sprintf("{| ve_ref := %s; ve_values := %s |}", r, vds(v.Values))
	}))
	fmt.Fprintf(&b, "f_srs := %s; ", list(len(f.SignalTypeRefs), func(i int) string {
		r := f.SignalTypeRefs[i]
		return fmt.Sprintf("{| sr_id := %d; sr_signal := %s; sr_type := %s |}", r.MessageID, cs(r.SignalName), cs(r.TypeName))
	}))
	fmt.Fprintf(&b, "f_sgs := %s; ", list(len(f.SignalGroups), func(i int) string {
		g := f.SignalGroups[i]
		return fmt.Sprintf("{| sgp_id := %d; sgp_name := %s; sgp_rep := %d; sgp_signals := %s |}", g.MessageID, cs(g.GroupName), g.Repetitions, css(g.SignalNames))
	}))
	fmt.Fprintf(&b, "f_svs := %s; ", list(len(f.SignalExtValueTypes), func(i int) string {
		v := f.SignalExtValueTypes[i]
		ty := []string{"XInteger", "XFloat", "XDouble"}[v.ExtValueType]
		return fmt.Sprintf("{| sv_id := %d; sv_signal := %s; sv_type := %s |}", v.MessageID, cs(v.SignalName), ty)
	}))
	fmt.Fprintf(&b, "f_xms := %s |}", list(len(f.ExtendedMuxes), func(i int) string {
		x := f.ExtendedMuxes[i]
		rs := list(len(x.Ranges), func(j int) string { return fmt.Sprintf("(%d,%d)", x.Ranges[j].From, x.Ranges[j].To) })
		return fmt.Sprintf("{| xm_id := %d; xm_muxed := %s; xm_muxor := %s; xm_ranges := %s |}", x.MessageID, cs(x.MultiplexedName), cs(x.MultiplexorName), rs)
	}))
	return b.String()
}
