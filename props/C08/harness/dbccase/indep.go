package dbccase

import "unicode"

// An independent tokenizer: a straight port of the Coq lexer model (coq/C08/DbcLex.v), not a call
// into the repository's scanner, so that a changed scanner or parser cannot agree with itself.
// It only computes where tokens START (line, col under the scanner's convention: col counts the
// characters read on the line, a tab counts 5, a newline moves to column 0 of the next line) and
// the token kinds (same numbering as dbc.VerifToken).

// IndepToken is one token of the independent tokenizer.
type IndepToken struct {
	Kind      int
	Line, Col int
	Len       int // characters consumed, first one included
}

func iSpace(c rune) bool  { return c == ' ' || c == '\t' || c == '\n' || c == '\r' }
func iLetter(c rune) bool { return (c >= 'a' && c <= 'z') || (c >= 'A' && c <= 'Z') }

// iDigitRead: isNumber on a character that was read; iDigit: on a character that was peeked
// (peek cannot decode characters above U+FFFF, nor U+FFFD / U+0000).
func iDigitRead(c rune) bool { return unicode.IsDigit(c) }
func iDigit(c rune) bool     { return c < 0x10000 && c != 0xFFFD && c != 0 && unicode.IsDigit(c) }
func iHex(c rune) bool       { return iDigit(c) || (c >= 'a' && c <= 'f') || (c >= 'A' && c <= 'F') }
func iAlnum(c rune) bool     { return iLetter(c) || iDigit(c) || c == '_' || c == '-' }
func iPunct(c rune) bool {
	switch c {
	case ':', ',', '(', ')', '[', ']', '|', ';', '@', '+', '-':
		return true
	}
	return false
}

// scanNumber after the first character; returns (kind, consumed after first).
func iNumLoop(r []rune, first rune, fd bool) (int, int) {
	prev := first
	more, rng := false, false
	n := 0
	finish := func() int {
		if !more && (first == '-' || first == '+') {
			return 9
		}
		if rng {
			return 5
		}
		return 4
	}
	for n < len(r) {
		c := r[n]
		if first == '0' && (c == 'x' || c == 'X') {
			// scanHexNumber
			if n+1 < len(r) && iHex(r[n+1]) {
				n += 2
				for i := 0; i < 8 && n < len(r) && iHex(r[n]); i++ {
					n++
				}
				return 4, n
			}
			return 0, n
		}
		if !iDigit(c) && c != '.' {
			if (c == 'e' || c == 'E') && prev != '-' && prev != '+' && prev != '.' {
				// scanExpNumber
				if n+1 >= len(r) {
					return 0, n + 1
				}
				s := r[n+1]
				if s == '-' || s == '+' {
					if n+2 < len(r) && iDigit(r[n+2]) {
						n += 2
						for n < len(r) && iDigit(r[n]) {
							n++
						}
						return 4, n
					}
					return 0, n + 2
				}
				if iDigit(s) {
					n++
					for n < len(r) && iDigit(r[n]) {
						n++
					}
					return 4, n
				}
				return 0, n + 1
			}
			if c == '-' && fd && !rng && n+1 < len(r) && iDigit(r[n+1]) {
				n += 2
				rng = true
				continue
			}
			return finish(), n
		}
		if c == '.' && (prev == '-' || prev == '+') {
			return finish(), n
		}
		more = true
		prev = c
		n++
	}
	return finish(), n
}

// IndepTokens tokenizes the code points of a text.
func IndepTokens(text []byte) []IndepToken {
	rs := Cps(text)
	var out []IndepToken
	line, col := 1, 0
	startLine, startCol := 1, 0
	adv := func(c rune) {
		if c == '\n' {
			line++
			col = 0
		} else if c == '\t' {
			col += 5
		} else {
			col++
		}
	}
	i := 0
	for i < len(rs) {
		c := rs[i]
		adv(c)
		startLine, startCol = line, col
		rest := rs[i+1:]
		kind, n := 0, 0
		switch {
		case c == 0:
			kind = 1
		case iSpace(c):
			kind = 2
			for n < len(rest) && iSpace(rest[n]) {
				n++
			}
		case iLetter(c):
			for n < len(rest) && iAlnum(rest[n]) {
				n++
			}
			kind = 3 // ident / keyword / mux: the start is what matters here
		case iDigitRead(c) || c == '-' || c == '+':
			kind, n = iNumLoop(rest, c, iDigitRead(c))
		case c == '"':
			kind = 0
			for n < len(rest) {
				d := rest[n]
				n++
				if d == '"' {
					kind = 7
					break
				}
				if d == 0 {
					break
				}
			}
		case iPunct(c):
			kind = 9
		}
		for _, d := range rest[:n] {
			adv(d)
		}
		out = append(out, IndepToken{Kind: kind, Line: startLine, Col: startCol, Len: n + 1})
		i += n + 1
	}
	out = append(out, IndepToken{Kind: 1, Line: startLine, Col: startCol, Len: 0})
	return out
}

// PositionAtTokenStart: is (line, col) the recorded start of a non-space token (or of the
// end-of-input token) of the text, according to the independent tokenizer?
func PositionAtTokenStart(text []byte, line, col int) bool {
	for _, t := range IndepTokens(text) {
		if t.Kind != 2 && t.Line == line && t.Col == col {
			return true
		}
	}
	return false
}
