// Package dbccase holds what the C08 and C09 harnesses share: decoding of texts into the code
// points the scanner sees, the projection of a dbc.File (locations and fields that are dead for
// the entry's kind are not part of it), the document equivalence of property C08 evaluated on
// the implementation's own results, and the case records read by the OCaml model driver
// (props/C08/driver/c08_driver.ml).
package dbccase

import (
	"fmt"
	"math"
	"math/big"
	"strconv"
	"strings"
	"unicode"
	"unicode/utf8"

	"github.com/squadracorsepolito/acmelib/dbc"
)

// Cps decodes bytes exactly like bufio.Reader.ReadRune does (one U+FFFD per invalid byte).
func Cps(b []byte) []rune {
	var out []rune
	for len(b) > 0 {
		r, sz := utf8.DecodeRune(b)
		out = append(out, r)
		b = b[sz:]
	}
	return out
}

// UniDigits lists the distinct non-ASCII runes of the text that unicode.IsDigit accepts: the
// scanner's isNumber is unicode.IsDigit, the Coq lexer model takes this set as a parameter.
func UniDigits(b []byte) []rune {
	var out []rune
	seen := map[rune]bool{}
	for _, r := range Cps(b) {
		if r >= 0x80 && unicode.IsDigit(r) && !seen[r] {
			seen[r] = true
			out = append(out, r)
		}
	}
	return out
}

// Str renders a string as "s<n> cp cp ..." (code points as the scanner would read them).
func Str(s string) string {
	rs := Cps([]byte(s))
	var b strings.Builder
	fmt.Fprintf(&b, "s%d", len(rs))
	for _, r := range rs {
		fmt.Fprintf(&b, " %d", r)
	}
	return b.String()
}

func strs(l []string) string {
	var b strings.Builder
	fmt.Fprintf(&b, "%d", len(l))
	for _, s := range l {
		b.WriteString(" " + Str(s))
	}
	return b.String()
}

// F renders a float by its bit pattern.
func F(x float64) string { return fmt.Sprintf("f%d", math.Float64bits(x)) }

func b2i(b bool) int {
	if b {
		return 1
	}
	return 0
}

func valDescs(vs []*dbc.ValueDescription) string {
	var b strings.Builder
	fmt.Fprintf(&b, "%d", len(vs))
	for _, v := range vs {
		fmt.Fprintf(&b, " %d %s", v.ID, Str(v.Name))
	}
	return b.String()
}

// Sections in the order of the projection.
var Sections = []string{"VER", "NS", "BS", "BU", "VT", "BO", "TX", "EV", "ED", "ST", "CM", "AD", "AF", "AV", "VE", "SR", "SG", "SV", "XM"}

// numMode selects how numeric attribute values are rendered: exact representation (what the
// parser produced) or by value (property C08: "numeric attribute values compared by value").
type numMode int

const (
	exact numMode = iota
	byValue
)

func numByValueInt(v *big.Int) string { return "n" + v.String() }

func numFloat(x float64, m numMode) string {
	if m == exact {
		return F(x)
	}
	if math.IsNaN(x) || math.IsInf(x, 0) {
		return F(x)
	}
	// By value: a float is the number its shortest round-tripping decimal denotes (that decimal is
	// what the format carries; any decimal in the rounding interval is the same float64). When the
	// decimal is an integer literal it is compared with INT/HEX values as that integer, e.g. the
	// float 2^53+... printed as -46176283016639300 equals the integer -46176283016639300.
	t := strconv.FormatFloat(x, 'f', -1, 64)
	if !strings.Contains(t, ".") {
		bi, ok := new(big.Int).SetString(t, 10)
		if ok {
			return numByValueInt(bi)
		}
	}
	return F(x)
}

func attrDefault(d *dbc.AttributeDefault, m numMode) string {
	switch d.Type {
	case dbc.AttributeDefaultInt:
		if m == byValue {
			return numByValueInt(big.NewInt(int64(d.ValueInt)))
		}
		return fmt.Sprintf("i%d", d.ValueInt)
	case dbc.AttributeDefaultHex:
		if m == byValue {
			return numByValueInt(new(big.Int).SetUint64(uint64(d.ValueHex)))
		}
		return fmt.Sprintf("h%d", d.ValueHex)
	case dbc.AttributeDefaultFloat:
		return numFloat(d.ValueFloat, m)
	case dbc.AttributeDefaultString:
		return Str(d.ValueString)
	}
	return fmt.Sprintf("badtype%d", d.Type)
}

func attrValue(d *dbc.AttributeValue, m numMode) string {
	switch d.Type {
	case dbc.AttributeValueInt:
		if m == byValue {
			return numByValueInt(big.NewInt(int64(d.ValueInt)))
		}
		return fmt.Sprintf("i%d", d.ValueInt)
	case dbc.AttributeValueHex:
		if m == byValue {
			return numByValueInt(new(big.Int).SetUint64(uint64(d.ValueHex)))
		}
		return fmt.Sprintf("h%d", d.ValueHex)
	case dbc.AttributeValueFloat:
		return numFloat(d.ValueFloat, m)
	case dbc.AttributeValueString:
		return Str(d.ValueString)
	}
	return fmt.Sprintf("badtype%d", d.Type)
}

func sigMux(isMuxor, isMuxed bool, sw uint32) string {
	if isMuxed {
		return fmt.Sprintf("%d m%d", b2i(isMuxor), sw)
	}
	return fmt.Sprintf("%d -", b2i(isMuxor))
}

func project(f *dbc.File, m numMode, norm bool) map[string]string {
	p := map[string]string{}
	ver := f.Version
	if norm && ver == "" {
		ver = "_"
	}
	p["VER"] = Str(ver)
	switch {
	case f.NewSymbols != nil:
		p["NS"] = "some " + strs(f.NewSymbols.Symbols)
	case norm:
		p["NS"] = "some " + strs(dbc.VerifNewSymbols())
	default:
		p["NS"] = "none"
	}
	switch {
	case f.BitTiming != nil:
		p["BS"] = fmt.Sprintf("some %d %d %d", f.BitTiming.Baudrate, f.BitTiming.BitTimingReg1, f.BitTiming.BitTimingReg2)
	case norm:
		p["BS"] = "some 0 0 0"
	default:
		p["BS"] = "none"
	}
	switch {
	case f.Nodes != nil:
		p["BU"] = "some " + strs(f.Nodes.Names)
	case norm:
		p["BU"] = "some 0"
	default:
		p["BU"] = "none"
	}
	var b strings.Builder
	fmt.Fprintf(&b, "%d", len(f.ValueTables))
	for _, vt := range f.ValueTables {
		fmt.Fprintf(&b, " %s %s", Str(vt.Name), valDescs(vt.Values))
	}
	p["VT"] = b.String()

	b.Reset()
	fmt.Fprintf(&b, "%d", len(f.Messages))
	for _, msg := range f.Messages {
		fmt.Fprintf(&b, " %d %s %d %s %d", msg.ID, Str(msg.Name), msg.Size, Str(msg.Transmitter), len(msg.Signals))
		for _, s := range msg.Signals {
			fmt.Fprintf(&b, " %s %s %d %d %d %d %s %s %s %s %s %s", Str(s.Name), sigMux(s.IsMultiplexor, s.IsMultiplexed, s.MuxSwitchValue),
				s.StartBit, s.Size, s.ByteOrder, s.ValueType, F(s.Factor), F(s.Offset), F(s.Min), F(s.Max), Str(s.Unit), strs(s.Receivers))
		}
	}
	p["BO"] = b.String()

	b.Reset()
	fmt.Fprintf(&b, "%d", len(f.MessageTransmitters))
	for _, t := range f.MessageTransmitters {
		fmt.Fprintf(&b, " %d %s", t.MessageID, strs(t.Transmitters))
	}
	p["TX"] = b.String()

	b.Reset()
	fmt.Fprintf(&b, "%d", len(f.EnvVars))
	for _, e := range f.EnvVars {
		fmt.Fprintf(&b, " %s %d %s %s %s %s %d %d %s", Str(e.Name), e.Type, F(e.Min), F(e.Max), Str(e.Unit), F(e.InitialValue), e.ID, e.AccessType, strs(e.AccessNodes))
	}
	p["EV"] = b.String()

	b.Reset()
	fmt.Fprintf(&b, "%d", len(f.EnvVarDatas))
	for _, e := range f.EnvVarDatas {
		fmt.Fprintf(&b, " %s %d", Str(e.EnvVarName), e.DataSize)
	}
	p["ED"] = b.String()

	b.Reset()
	fmt.Fprintf(&b, "%d", len(f.SignalTypes))
	for _, s := range f.SignalTypes {
		fmt.Fprintf(&b, " %s %d %d %d %s %s %s %s %s %s %s", Str(s.TypeName), s.Size, s.ByteOrder, s.ValueType, F(s.Factor), F(s.Offset), F(s.Min), F(s.Max), Str(s.Unit), F(s.DefaultValue), Str(s.ValueTableName))
	}
	p["ST"] = b.String()

	b.Reset()
	fmt.Fprintf(&b, "%d", len(f.Comments))
	for _, c := range f.Comments {
		switch c.Kind {
		case dbc.CommentGeneral:
			fmt.Fprintf(&b, " g")
		case dbc.CommentNode:
			fmt.Fprintf(&b, " n %s", Str(c.NodeName))
		case dbc.CommentMessage:
			fmt.Fprintf(&b, " m %d", c.MessageID)
		case dbc.CommentSignal:
			fmt.Fprintf(&b, " s %d %s", c.MessageID, Str(c.SignalName))
		case dbc.CommentEnvVar:
			fmt.Fprintf(&b, " e %s", Str(c.EnvVarName))
		default:
			fmt.Fprintf(&b, " badkind%d", c.Kind)
		}
		fmt.Fprintf(&b, " %s", Str(c.Text))
	}
	p["CM"] = b.String()

	b.Reset()
	fmt.Fprintf(&b, "%d", len(f.Attributes))
	for _, a := range f.Attributes {
		fmt.Fprintf(&b, " %d %s", a.Kind, Str(a.Name))
		switch a.Type {
		case dbc.AttributeInt:
			fmt.Fprintf(&b, " int %d %d", a.MinInt, a.MaxInt)
		case dbc.AttributeHex:
			fmt.Fprintf(&b, " hex %d %d", a.MinHex, a.MaxHex)
		case dbc.AttributeFloat:
			fmt.Fprintf(&b, " float %s %s", F(a.MinFloat), F(a.MaxFloat))
		case dbc.AttributeString:
			fmt.Fprintf(&b, " string")
		case dbc.AttributeEnum:
			fmt.Fprintf(&b, " enum %s", strs(a.EnumValues))
		default:
			fmt.Fprintf(&b, " badtype%d", a.Type)
		}
	}
	p["AD"] = b.String()

	b.Reset()
	fmt.Fprintf(&b, "%d", len(f.AttributeDefaults))
	for _, a := range f.AttributeDefaults {
		fmt.Fprintf(&b, " %s %s", Str(a.AttributeName), attrDefault(a, m))
	}
	p["AF"] = b.String()

	b.Reset()
	fmt.Fprintf(&b, "%d", len(f.AttributeValues))
	for _, a := range f.AttributeValues {
		fmt.Fprintf(&b, " %s", Str(a.AttributeName))
		switch a.AttributeKind {
		case dbc.AttributeGeneral:
			fmt.Fprintf(&b, " g")
		case dbc.AttributeNode:
			fmt.Fprintf(&b, " n %s", Str(a.NodeName))
		case dbc.AttributeMessage:
			fmt.Fprintf(&b, " m %d", a.MessageID)
		case dbc.AttributeSignal:
			fmt.Fprintf(&b, " s %d %s", a.MessageID, Str(a.SignalName))
		case dbc.AttributeEnvVar:
			fmt.Fprintf(&b, " e %s", Str(a.EnvVarName))
		default:
			fmt.Fprintf(&b, " badkind%d", a.AttributeKind)
		}
		fmt.Fprintf(&b, " %s", attrValue(a, m))
	}
	p["AV"] = b.String()

	b.Reset()
	fmt.Fprintf(&b, "%d", len(f.ValueEncodings))
	for _, v := range f.ValueEncodings {
		switch v.Kind {
		case dbc.ValueEncodingSignal:
			fmt.Fprintf(&b, " s %d %s", v.MessageID, Str(v.SignalName))
		case dbc.ValueEncodingEnvVar:
			fmt.Fprintf(&b, " e %s", Str(v.EnvVarName))
		default:
			fmt.Fprintf(&b, " badkind%d", v.Kind)
		}
		fmt.Fprintf(&b, " %s", valDescs(v.Values))
	}
	p["VE"] = b.String()

	b.Reset()
	fmt.Fprintf(&b, "%d", len(f.SignalTypeRefs))
	for _, r := range f.SignalTypeRefs {
		fmt.Fprintf(&b, " %d %s %s", r.MessageID, Str(r.SignalName), Str(r.TypeName))
	}
	p["SR"] = b.String()

	b.Reset()
	fmt.Fprintf(&b, "%d", len(f.SignalGroups))
	for _, g := range f.SignalGroups {
		fmt.Fprintf(&b, " %d %s %d %s", g.MessageID, Str(g.GroupName), g.Repetitions, strs(g.SignalNames))
	}
	p["SG"] = b.String()

	b.Reset()
	fmt.Fprintf(&b, "%d", len(f.SignalExtValueTypes))
	for _, v := range f.SignalExtValueTypes {
		fmt.Fprintf(&b, " %d %s %d", v.MessageID, Str(v.SignalName), v.ExtValueType)
	}
	p["SV"] = b.String()

	b.Reset()
	fmt.Fprintf(&b, "%d", len(f.ExtendedMuxes))
	for _, x := range f.ExtendedMuxes {
		fmt.Fprintf(&b, " %d %s %s %d", x.MessageID, Str(x.MultiplexedName), Str(x.MultiplexorName), len(x.Ranges))
		for _, r := range x.Ranges {
			fmt.Fprintf(&b, " %d %d", r.From, r.To)
		}
	}
	p["XM"] = b.String()
	return p
}

// Project is the exact projection (what the model parser must reproduce token for token).
func Project(f *dbc.File) map[string]string { return project(f, exact, false) }

// Equivalent is the document equivalence of property C08, evaluated on two implementation
// results: same sections, entries, order and values after filling the writer's documented header
// defaults (version "" -> "_", absent NS_/BS_/BU_ -> default list / zero timing / no nodes),
// numeric attribute defaults and values compared by value. It returns the sections that differ.
func Equivalent(a, b *dbc.File) []string {
	pa, pb := project(a, byValue, true), project(b, byValue, true)
	var diff []string
	for _, s := range Sections {
		if pa[s] != pb[s] {
			diff = append(diff, s)
		}
	}
	return diff
}

// Floats lists every float64 of the document (for the model writer's format oracle).
func Floats(f *dbc.File) []float64 {
	var out []float64
	for _, m := range f.Messages {
		for _, s := range m.Signals {
			out = append(out, s.Factor, s.Offset, s.Min, s.Max)
		}
	}
	for _, e := range f.EnvVars {
		out = append(out, e.Min, e.Max, e.InitialValue)
	}
	for _, s := range f.SignalTypes {
		out = append(out, s.Factor, s.Offset, s.Min, s.Max, s.DefaultValue)
	}
	for _, a := range f.Attributes {
		if a.Type == dbc.AttributeFloat {
			out = append(out, a.MinFloat, a.MaxFloat)
		}
	}
	for _, a := range f.AttributeDefaults {
		if a.Type == dbc.AttributeDefaultFloat {
			out = append(out, a.ValueFloat)
		}
	}
	for _, a := range f.AttributeValues {
		if a.Type == dbc.AttributeValueFloat {
			out = append(out, a.ValueFloat)
		}
	}
	return out
}
