package dbccase

import (
	"bufio"
	"bytes"
	"fmt"
	"math"
	"strconv"
	"strings"

	"github.com/squadracorsepolito/acmelib/dbc"
)

// Outcome of one dbc.Parse call.
type Outcome struct {
	Class string // ok | syn | other | panic
	Line  int
	Col   int
	File  *dbc.File
	Err   error
	Panic string
	// syntax errors only: does the message start with "syntax error at <filename>:" ?
	NamesFile bool
}


// ClassifyErr sorts a parser error into syntax error (with position) / other.
func ClassifyErr(filename string, err error) Outcome {
	msg := err.Error()
	if strings.HasPrefix(msg, "syntax error at ") {
		rest := msg[len("syntax error at "):]
		o := Outcome{Class: "syn", Err: err, Line: -1, Col: -1}
		if strings.HasPrefix(rest, filename+":") {
			o.NamesFile = true
			var l, c int
			if n, _ := fmt.Sscanf(rest[len(filename)+1:], "%d:%d;", &l, &c); n == 2 {
				o.Line, o.Col = l, c
			}
		}
		return o
	}
	return Outcome{Class: "other", Err: err}
}

// ParseSafe runs dbc.Parse under recover.
func ParseSafe(filename string, text []byte, hex bool) (o Outcome) {
	defer func() {
		if r := recover(); r != nil {
			o = Outcome{Class: "panic", Panic: fmt.Sprint(r)}
		}
	}()
	f, err := dbc.Parse(filename, bytes.NewReader(text), hex)
	if err != nil {
		return ClassifyErr(filename, err)
	}
	return Outcome{Class: "ok", File: f}
}

// WriteSafe runs dbc.Write under recover.
func WriteSafe(f *dbc.File, hex bool) (text []byte, panicked string) {
	defer func() {
		if r := recover(); r != nil {
			panicked = fmt.Sprint(r)
		}
	}()
	var b bytes.Buffer
	dbc.Write(&b, f, hex)
	return b.Bytes(), ""
}

// CpsLine: the code points of a text as a record field (count, then the code points).
func CpsLine(text []byte) string { return cpsLine(Cps(text)) }

func cpsLine(rs []rune) string {
	var b strings.Builder
	b.WriteString(strconv.Itoa(len(rs)))
	for _, r := range rs {
		b.WriteByte(' ')
		b.WriteString(strconv.Itoa(int(r)))
	}
	return b.String()
}

// PositionInside checks a reported position against the text under the scanner's convention:
// line = 1 + newlines read so far, col = characters read on that line so far (a tab counts 5),
// a token that starts with a newline is reported at column 0 of the following line.
func PositionInside(text []byte, line, col int) bool {
	widths := []int{0}
	for _, r := range Cps(text) {
		if r == '\n' {
			widths = append(widths, 0)
			continue
		}
		w := 1
		if r == '\t' {
			w = 5
		}
		widths[len(widths)-1] += w
	}
	if line < 1 || line > len(widths) {
		return false
	}
	return col >= 0 && col <= widths[line-1]
}

// EmitCase writes one record for the model driver.
//
//	CASE id stream hex / TEXT / DOMAIN / DIGITS / TOK* / PRS* / PARSE / P.<SEC>* / FMT* / WTEXT / extra* / END
//
// DOMAIN 1: the model driver compares this record (0: implementation only). DIGITS: the
// non-ASCII characters of the text for which unicode.IsDigit holds (the model's [ud]).
func EmitCase(w *bufio.Writer, id int, stream string, hex bool, text []byte, o Outcome, extra []string) {
	fmt.Fprintf(w, "CASE %d %s %d\n", id, stream, b2i(hex))
	fmt.Fprintf(w, "TEXT %s\n", cpsLine(Cps(text)))
	fmt.Fprintf(w, "DOMAIN 1\n")
	fmt.Fprintf(w, "DIGITS %s\n", cpsLine(UniDigits(text)))
	toks := dbc.VerifScanAll(text)
	seen := map[string]bool{}
	for _, t := range toks {
		fmt.Fprintf(w, "TOK %d %d %d %s\n", t.Kind, t.Line, t.Col, cpsLine(Cps([]byte(t.Value))))
	}
	for _, t := range toks {
		if t.Kind == 4 && !seen[t.Value] {
			seen[t.Value] = true
			x, err := strconv.ParseFloat(t.Value, 64)
			if err != nil {
				fmt.Fprintf(w, "PRS %s err\n", cpsLine(Cps([]byte(t.Value))))
			} else {
				fmt.Fprintf(w, "PRS %s ok %d\n", cpsLine(Cps([]byte(t.Value))), math.Float64bits(x))
				// oracle law 3 (hypothesis of parse_output_expressible): no error => finite
				if math.IsInf(x, 0) || math.IsNaN(x) {
					fmt.Fprintf(w, "LAWFAIL parsefloat-finite %s\n", cpsLine(Cps([]byte(t.Value))))
				}
			}
		}
	}
	switch o.Class {
	case "ok":
		fmt.Fprintf(w, "PARSE ok\n")
		p := Project(o.File)
		for _, s := range Sections {
			fmt.Fprintf(w, "P.%s %s\n", s, p[s])
		}
		fseen := map[uint64]bool{}
		for _, x := range Floats(o.File) {
			bits := math.Float64bits(x)
			if !fseen[bits] {
				fseen[bits] = true
				ft := strconv.FormatFloat(x, 'f', -1, 64)
				fmt.Fprintf(w, "FMT %d %s\n", bits, cpsLine(Cps([]byte(ft))))
				// oracle laws 1 and 2 (oracle_ok): round trip and shape, for finite values
				if !math.IsInf(x, 0) && !math.IsNaN(x) {
					if y, err := strconv.ParseFloat(ft, 64); err != nil || math.Float64bits(y) != bits {
						fmt.Fprintf(w, "LAWFAIL format-parse-roundtrip %s\n", cpsLine(Cps([]byte(ft))))
					}
					if !plainNumber(ft) {
						fmt.Fprintf(w, "LAWFAIL format-shape %s\n", cpsLine(Cps([]byte(ft))))
					}
				}
			}
		}
		if len(text) <= 2500 {
			// the parsed document as a Gallina term, for the vm_compute cross-check (thorough tier)
			fmt.Fprintf(w, "COQAST %s\n", CoqFile(o.File))
		}
		wt, pan := WriteSafe(o.File, hex)
		if pan != "" {
			fmt.Fprintf(w, "WPANIC\n")
		} else {
			fmt.Fprintf(w, "WTEXT %s\n", cpsLine(Cps(wt)))
		}
	case "syn":
		fmt.Fprintf(w, "PARSE syn %d %d\n", o.Line, o.Col)
	case "other":
		fmt.Fprintf(w, "PARSE other\n")
	default:
		fmt.Fprintf(w, "PARSE panic\n")
	}
	for _, e := range extra {
		fmt.Fprintf(w, "%s\n", e)
	}
	fmt.Fprintf(w, "END\n")
}

// plainNumber: -?digit(digit|.)*  (Expr.plain_number)
func plainNumber(s string) bool {
	if strings.HasPrefix(s, "-") {
		s = s[1:]
	}
	if s == "" || s[0] < '0' || s[0] > '9' {
		return false
	}
	for i := 1; i < len(s); i++ {
		if (s[i] < '0' || s[i] > '9') && s[i] != '.' {
			return false
		}
	}
	return true
}

// Tables writes the static tables of package dbc for comparison with the model's tables.
func Tables(w *bufio.Writer) {
	ks, kk := dbc.VerifKeywords()
	for i, k := range ks {
		fmt.Fprintf(w, "KEYWORD %d %s\n", kk[i], cpsLine(Cps([]byte(k))))
	}
	ps, pk := dbc.VerifPuncts()
	for i, r := range ps {
		fmt.Fprintf(w, "PUNCT %d %d\n", pk[i], r)
	}
	for _, s := range dbc.VerifNewSymbols() {
		fmt.Fprintf(w, "NEWSYM %s\n", cpsLine(Cps([]byte(s))))
	}
	as, ak := dbc.VerifAccessTypes()
	for i, a := range as {
		fmt.Fprintf(w, "ACCESS %d %s\n", ak[i], cpsLine(Cps([]byte(a))))
	}
	fmt.Fprintf(w, "ENDTABLES\n")
}
