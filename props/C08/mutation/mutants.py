#!/usr/bin/env python3
"""Mutation self-test for C08 / C09 (development aid, not a registered command).
Applies small semantic mutants to the scratch worktree /tmp/wt/C08 (a detached git worktree of /repo's
main, created and removed by the script when absent),
checks that the repository's own test suite still passes on the mutant, runs the quick tier of
the check against it (VERIF_REPO) and reports whether a VIOLATION line was printed.
usage: mutants.py [C08|C09] [name...]"""
import os, re, subprocess, sys
WT = "/tmp/wt/C08"
ENV = dict(os.environ, GOFLAGS="-mod=mod", GOPROXY="off")
ENV.pop("GOTOOLCHAIN", None); ENV.pop("GOSUMDB", None)

M = {
 "C08": [
  ("writer-siggroup-drops-repetitions", "dbc/writer.go", "\t\tw.formatUint(sigGroup.Repetitions),", "\t\tw.formatUint(1),"),
  ("parser-discards-envvar-comment-name", "dbc/parser.go", "\t\t\tcom.EnvVarName = envvarName\n", "\t\t\t_ = envvarName\n"),
  ("scanner-hex-digits-limit-6", "dbc/scanner.go", "\tfor i := 0; i < 8; i++ {", "\tfor i := 0; i < 6; i++ {"),
  ("writer-hex-attribute-range-decimal", "dbc/writer.go",
   'w.print("%s %s %s", getKeyword(keywordAttributeHex), w.formatHexInt(att.MinHex), w.formatHexInt(att.MaxHex))',
   'w.print("%s %s %s", getKeyword(keywordAttributeHex), w.formatUint(att.MinHex), w.formatUint(att.MaxHex))'),
  ("writer-extmux-drops-comma", "dbc/writer.go", "\t\tif idx != 0 {\n\t\t\tw.print(\",\")\n\t\t}\n\t\tw.print(\" %s-%s\"", "\t\tif idx != 0 {\n\t\t\tw.print(\" \")\n\t\t}\n\t\tw.print(\" %s-%s\""),
  ("parser-sgtype-byteorder-swapped", "dbc/parser.go", "\t\tif byteOrder == 0 {\n\t\t\tsigType.ByteOrder = SignalBigEndian", "\t\tif byteOrder == 1 {\n\t\t\tsigType.ByteOrder = SignalBigEndian"),
  ("parser-valtable-skips-last-value", "dbc/parser.go", "\t\tvt.Values = append(vt.Values, vd)\n", "\t\tif len(vt.Values) < 2 {\n\t\t\tvt.Values = append(vt.Values, vd)\n\t\t}\n"),
  ("writer-float-precision-6", "dbc/writer.go", "strconv.FormatFloat(val, 'f', -1, 64)", "strconv.FormatFloat(val, 'f', 6, 64)"),
  ("writer-absent-nodes-write-placeholder", "dbc/writer.go", "\t\tw.writeNodes(&Nodes{})", "\t\tw.writeNodes(&Nodes{Names: []string{DummyNode}})"),
  # only visible outside the parser's image (a document without BU_ never comes out of the parser), and the text still parses to an equivalent document
  ("writer-absent-nodes-extra-blank", "dbc/writer.go", "\t\tw.writeNodes(&Nodes{})", "\t\tw.print(\"%s: \", getKeyword(keywordNode))\n\t\tw.newLine()\n\t\tw.newLine()"),
  ("scanner-ident-no-dash", "dbc/scanner.go", "return isLetter(ch) || isNumber(ch) || ch == '_' || ch == '-'", "return isLetter(ch) || isNumber(ch) || ch == '_'"),
 ],
 "C09": [
  ("importer-nil-nodes-check-removed", "importer.go", None, None),   # filled below (reverts abff5c9)
  ("parser-sign-indexes-empty-token", "dbc/parser.go",
   "\tif !t.isPunct(punctPlus) && !t.isPunct(punctMinus) {\n\t\treturn nil, p.errorf(`expected \"+\" or \"-\"`)",
   "\tsyntKind := getPunctKind(t.value)\n\tif t.kind != tokenPunct || (syntKind != punctPlus && syntKind != punctMinus) {\n\t\treturn nil, p.errorf(`expected \"+\" or \"-\"`)"),
  ("parser-error-at-token-end", "dbc/parser.go", "p.filename, p.currToken.startLine, p.currToken.startCol, msg, val)", "p.filename, p.currToken.endLine, p.currToken.endCol, msg, val)"),
  ("parser-error-column-off-by-one", "dbc/parser.go", "p.filename, p.currToken.startLine, p.currToken.startCol, msg, val)", "p.filename, p.currToken.startLine, p.currToken.startCol+1, msg, val)"),
  ("parser-stale-token-position-at-eof", "dbc/parser.go", "\tp.currToken = token\n\n\treturn token", "\tif !token.isEOF() || p.currToken == nil {\n\t\tp.currToken = token\n\t}\n\n\treturn token"),
  ("parser-error-at-previous-token", "dbc/parser.go",
   ["\tcurrToken *token\n", "\tp.currToken = token\n\n\treturn token", "p.filename, p.currToken.startLine, p.currToken.startCol, msg, val)"],
   ["\tcurrToken *token\n\tprevTok   *token\n", "\tp.prevTok = p.currToken\n\tif p.prevTok == nil {\n\t\tp.prevTok = token\n\t}\n\tp.currToken = token\n\n\treturn token", "p.filename, p.prevTok.startLine, p.prevTok.startCol, msg, val)"]),
  ("scanner-cr-resets-column", "dbc/scanner.go", "\tif ch == '\\n' {\n\t\ts.currLine++\n\t\ts.currCol = 0\n\t}", "\tif ch == '\\n' {\n\t\ts.currLine++\n\t\ts.currCol = 0\n\t}\n\tif ch == '\\r' {\n\t\ts.currCol = 0\n\t}"),
  ("scanner-column-counts-bytes", "dbc/scanner.go", "\ts.currCol++\n", "\ts.currCol += utf8.RuneLen(ch)\n"),
  ("scanner-tab-width-4", "dbc/scanner.go", "\t\ts.currCol += 4\n", "\t\ts.currCol += 3\n"),
  ("scanner-unclosed-string-is-eof", "dbc/scanner.go", "\t\t\treturn s.emitErrorToken(`unclosed string, missing closing \"`)", "\t\t\treturn s.emitToken(tokenEOF)"),
  ("importer-unknown-receiver-skipped", "importer.go",
   "\t\trecNode, err := i.bus.GetNodeInterfaceByNodeName(recName)\n\t\tif err != nil {\n\t\t\treturn i.errorf(dbcMsg, err)\n\t\t}",
   "\t\trecNode, err := i.bus.GetNodeInterfaceByNodeName(recName)\n\t\tif err != nil {\n\t\t\tcontinue\n\t\t}"),
  ("importer-group-range-error-kind", "importer.go",
   "\t\t\t\t\t\treturn nil, i.errorf(valRange, &GroupIDError{GroupID: int(j), Err: ErrOutOfBounds})",
   "\t\t\t\t\t\treturn nil, i.errorf(valRange, &GroupIDError{GroupID: int(j), Err: ErrIsNegative})"),
  ("importer-byte-order-check-dropped", "importer.go",
   "\t\tif dbcSig.ByteOrder != currByteOrder {\n\t\t\treturn i.errorf(",
   "\t\tif false && dbcSig.ByteOrder != currByteOrder {\n\t\t\treturn i.errorf("),
  ("parser-valtable-loop-no-progress", "dbc/parser.go", "\tvalID, err := p.parseUint(t.value)\n\tif err != nil {\n\t\treturn nil, p.errorf(\"cannot parse value description id as uint\")\n\t}",
   "\tvalID, err := p.parseUint(t.value)\n\tif err != nil {\n\t\tp.unscan()\n\t\treturn valDesc, nil\n\t}"),
 ],
}

def sh(cmd, cwd=None, env=ENV, timeout=1500):
    p = subprocess.run(cmd, cwd=cwd, env=env, shell=isinstance(cmd, str), stdout=subprocess.PIPE, stderr=subprocess.STDOUT, timeout=timeout)
    return p.returncode, p.stdout.decode("utf-8", "replace")

def main():
    pid = sys.argv[1] if len(sys.argv) > 1 else "C08"
    only = sys.argv[2:]
    created = not os.path.isdir(WT)
    if created:
        os.makedirs(os.path.dirname(WT), exist_ok=True)
        sh(["git", "-C", "/repo", "worktree", "add", "--detach", WT, "main"])
    sh(["git", "checkout", "-q", "."], cwd=WT); sh(["git", "reset", "-q", "--hard", "main"], cwd=WT)
    results = []
    for name, path, old, new in M[pid]:
        if only and name not in only:
            continue
        sh(["git", "checkout", "-q", "."], cwd=WT)
        if name == "importer-nil-nodes-check-removed":
            rc, out = sh("git show abff5c9 -- importer.go | git apply -R", cwd=WT)
            if rc != 0:
                results.append((name, "could not apply", "")); continue
        else:
            f = os.path.join(WT, path); s = open(f).read()
            pairs = list(zip(old, new)) if isinstance(old, list) else [(old, new)]
            if any(s.count(o) < 1 for o, _ in pairs):
                results.append((name, "pattern not found", "")); print(name, "pattern not found"); continue
            for o, n in pairs:
                s = s.replace(o, n, 1)
            open(f, "w").write(s)
        rc, out = sh(["go", "test", "-count=1", "./..."], cwd=WT)
        tests = "suite passes" if rc == 0 else "SUITE FAILS (mutant not admissible)"
        env = dict(ENV, VERIF_REPO=WT)
        rc2, out2 = sh(["./check", pid, "--tier", "quick"], cwd="/verif", env=env, timeout=1800)
        viol = [l for l in out2.split("\n") if l.startswith("VIOLATION") or l.startswith("  (")]
        verdict = "CAUGHT" if any(l.startswith("VIOLATION") for l in viol) else "MISSED"
        results.append((name, tests, verdict + " " + " | ".join(v[:160] for v in viol[:4])))
        print("%-42s %-20s %s" % results[-1], flush=True)
    sh(["git", "checkout", "-q", "."], cwd=WT)
    # the check must be silent on the unmutated tree
    rc2, out2 = sh(["./check", pid, "--tier", "quick"], cwd="/verif", env=dict(ENV, VERIF_REPO=WT), timeout=1800)
    print("%-42s %-20s %s" % ("(unmutated worktree)", "", "exit %d %s" % (rc2, out2.strip().split("\n")[-1])))
    if created:
        sh(["git", "-C", "/repo", "worktree", "remove", "--force", WT])

main()
