//go:build verif

package dbc

import (
	"bytes"
	"sort"
)

// Add-only hooks for the /verif checks C08/C09 (injected with `go build -overlay`, never
// committed to the repository): the real scanner run to the end of a text, and the static
// tables of the package, so that the Coq model's lexer and tables can be compared with them.

// VerifToken is one raw scanner token (space tokens included).
type VerifToken struct {
	Kind  int // tokenKind: 0 error 1 eof 2 space 3 ident 4 number 5 range 6 mux 7 string 8 keyword 9 punct
	Value string
	Line  int
	Col   int
}

// VerifScanAll runs the real scanner over data until the end-of-input token produced by a read
// error (empty value; a NUL character also yields an eof-kind token, with value "\x00").
func VerifScanAll(data []byte) []VerifToken {
	s := newScanner(bytes.NewReader(data))
	var out []VerifToken
	for i := 0; i <= len(data)+1; i++ {
		t := s.scan()
		out = append(out, VerifToken{Kind: int(t.kind), Value: t.value, Line: t.startLine, Col: t.startCol})
		if t.kind == tokenEOF && t.value == "" {
			break
		}
	}
	return out
}

// VerifKeywords lists the keyword table sorted by text with the keywordKind numbers.
func VerifKeywords() ([]string, []int) {
	var ks []string
	for k := range keywords {
		ks = append(ks, k)
	}
	sort.Strings(ks)
	kinds := make([]int, len(ks))
	for i, k := range ks {
		kinds[i] = int(keywords[k])
	}
	return ks, kinds
}

// VerifPuncts lists the punctuation runes sorted, with the punctKind numbers.
func VerifPuncts() ([]rune, []int) {
	var rs []rune
	for r := range punctKeywords {
		rs = append(rs, r)
	}
	sort.Slice(rs, func(i, j int) bool { return rs[i] < rs[j] })
	kinds := make([]int, len(rs))
	for i, r := range rs {
		kinds[i] = int(punctKeywords[r])
	}
	return rs, kinds
}

// VerifNewSymbols returns the default new-symbol list in order.
func VerifNewSymbols() []string { return append([]string(nil), newSymbolsValues...) }

// VerifAccessTypes lists the env-var access type names sorted, with their numbers.
func VerifAccessTypes() ([]string, []int) {
	var ks []string
	for k := range envVarAccessTypes {
		ks = append(ks, k)
	}
	sort.Strings(ks)
	kinds := make([]int, len(ks))
	for i, k := range ks {
		kinds[i] = int(envVarAccessTypes[k])
	}
	return ks, kinds
}
