import os, sys, importlib.util
import vlib
def setup():
    here = os.path.dirname(os.path.abspath(__file__))
    spec = importlib.util.spec_from_file_location("dbccheck", os.path.join(here, "dbccheck.py"))
    m = importlib.util.module_from_spec(spec); spec.loader.exec_module(m)
    m.build_driver()
