"""C09 — parsing and importing arbitrary text never crashes; syntax errors carry file:line:col.
Proof (coq/Properties/C09.v, model coq/C08): the model of dbc.Parse is total with explicit fuel
bounds and every syntax error position is the recorded start of a token, inside the text.
Absence of Go panics / hangs is exhibited by the harness only: every input runs in a child process
(recover + 10 s watchdog + memory guard + RLIMIT_AS) through dbc.Parse and acmelib.ImportDBCFile;
the model recomputes tokens, outcome and error position of every input (OCaml driver)."""
import importlib.util
import json
import os
import re
import vlib

PID = "C09"
HERE = os.path.dirname(os.path.abspath(__file__))
C08 = os.path.join(os.path.dirname(HERE), "C08")
_spec = importlib.util.spec_from_file_location("dbccheck", os.path.join(C08, "dbccheck.py"))
dbccheck = importlib.util.module_from_spec(_spec)
_spec.loader.exec_module(dbccheck)


def run(ctx):
    ctx.level = "proof"
    status = vlib.proof_status(PID, extra_targets=["C08/Extract.v", "C09/Extract.v"])
    ctx.proof_gate(status)
    drv = dbccheck.build_driver()
    exe, blog = dbccheck.build_harness(ctx, "c09")
    if exe is None:
        ctx.violation("harness-build-failed", "the C09 harness no longer builds against the repository: " + blog[-800:],
                      {"log": blog[-3000:]}, found_input=False)
        ctx.coverage.update({"evaluations": 0})
        return
    out = os.path.join(ctx.scratch, "out")
    if ctx.replay:
        r = json.load(open(ctx.replay))
        rep = r.get("replay") or {}
        hx = rep.get("input_hex")
        if hx is None:
            print("replay file has no input (proof/correspondence-level entry): " + json.dumps(rep)[:600])
            ctx.coverage.update({"evaluations": 0})
            return
        inp = os.path.join(ctx.scratch, "replay.hex")
        open(inp, "w").write(hx)
        rc, log = vlib.sh([exe, "replay", "-input", inp, "-hex"], env=dbccheck.harness_env(), timeout=120)
        print(log)
        m = re.search(r"signature (\S+)", log)
        if m or rc not in (0,):
            ctx.violation(m.group(1) if m else "c09-replay-failed", "replayed input still fails: " + log[-400:], rep, found_input=True)
        ctx.coverage.update({"evaluations": 1})
        return
    rc, log = vlib.sh([exe, "run", "-seed", str(ctx.seed), "-tier", ctx.tier, "-out", out],
                      env=dbccheck.harness_env(), timeout=3000)
    cases = os.path.join(out, "cases.txt")
    if rc != 0 or not os.path.exists(cases):
        ctx.violation("harness-run-failed", "harness run failed (rc=%d): %s" % (rc, log[-800:]), {"log": log[-3000:]}, found_input=False)
        ctx.coverage.update({"evaluations": 0})
        return
    summ = dbccheck.parse_summary(os.path.join(out, "summary.txt"))
    # importer range-expansion loop vs the Coq skeleton: records appended to the case file
    skel = os.path.join(out, "skeleton.txt")
    rcs, logs = vlib.sh([exe, "skeleton", "-seed", str(ctx.seed), "-n", str(400 if ctx.tier == "quick" else 20000), "-out", skel],
                        env=dbccheck.harness_env(), timeout=600)
    if rcs == 0 and os.path.exists(skel):
        with open(cases, "a") as fa:
            fa.write(open(skel).read())
    else:
        ctx.violation("harness-run-failed", "skeleton run failed: " + logs[-400:], {"log": logs[-2000:]}, found_input=False)
    # (1) panics, hangs, memory blow-ups, crashes, ill-positioned syntax errors: found inputs
    for head, detail in summ["fails"]:
        sig = head[0]
        fn = os.path.join(out, "fail-" + re.sub(r"[^A-Za-z0-9._+-]", "_", sig) + ".dbc")
        data = b""
        for cand in (fn,):
            if os.path.exists(cand):
                data = open(cand, "rb").read()
        if not data:   # the harness sanitises on its own; look for any file that starts with the prefix
            for f in sorted(os.listdir(out)):
                if f.startswith("fail-") and re.sub(r"[^A-Za-z0-9]", "", sig) == re.sub(r"[^A-Za-z0-9]", "", f[5:-4]):
                    data = open(os.path.join(out, f), "rb").read()
        # HANG and MEM are the same family (a runaway loop shows as either, depending on load)
        fam = re.sub(r"-(HANG|MEM)-", "-HANGMEM-", sig)
        ctx.violation("c09-" + fam, "dbc.Parse / ImportDBCFile break C09 (%s): %s" % (" ".join(head[1:]), detail),
                      {"input_hex": data.hex(), "input_text": data.decode("utf-8", "replace")[:2000], "signature": sig,
                       "how": "./check C09 --replay <this file>"}, found_input=True)
    # (2) model vs implementation on every record
    compared, mism, by_kind, mlog = dbccheck.run_driver(drv, cases, timeout=3000)
    nskel = 400 if ctx.tier == "quick" else 20000
    dbccheck.count_guard(ctx, PID, summ.get("total", -1), compared, need_skeleton=nskel, min_compared_ratio=0.95)
    ctx.min_evaluations = 9000 if ctx.tier == "quick" else 120000
    # (2a) a fifth of the records at least must have been recomputed in the parser's hexadecimal number mode
    if dbccheck.last_hexrecords * 5 < compared:
        ctx.violation("c09-hex-mode-count", "only %d of %d compared records are in the parser's hexadecimal number mode (a quarter is generated)"
                      % (dbccheck.last_hexrecords, compared), {}, found_input=False)
    # (2b) the importer's outcome class and error kind against the extracted model of the importer (coq/C10/Import.v):
    # the driver must have compared a fixed share of the inputs (a comparison that silently covers nothing is a failure)
    imp = dbccheck.last_import
    need_imp = 2000 if ctx.tier == "quick" else 25000
    if imp.get("compared", 0) < need_imp or imp.get("ok", 0) < need_imp // 4 or imp.get("err", 0) < need_imp // 4:
        ctx.violation("c09-import-model-count", "the comparison of ImportDBCFile with the model of the importer covered too little: %s "
                      "(at least %d documents, a quarter accepted and a quarter refused, are expected)" % (imp, need_imp),
                      {"import_comparison": imp}, found_input=False)
    for stream in ("corpus", "valid", "trunc-byte", "trunc-token", "confuse", "wellknown", "noheader", "boundary", "layout", "dupnames", "impchecks",
                   "rangeforms", "errtok", "valtable", "codepoints", "mux", "random-bytes", "random-cps"):
        if summ["hist"].get(stream, 0) <= 0:
            ctx.violation("c09-harness-stream-missing", "the generator stream %s produced no input" % stream, {"hist": summ["hist"]}, found_input=False)
    # the importer-level streams are written to reach the importer: nearly all of their inputs must get past dbc.Parse
    # (a generator slip - a message named like a multiplexer indicator - once turned a whole stream into syntax errors)
    for stream, share in (("valtable", 0.95), ("impchecks", 0.95), ("dupnames", 0.9), ("wellknown", 0.9), ("mux", 0.9), ("valid", 0.95)):
        n, okn = summ["hist"].get(stream, 0), summ.get("parsedof", {}).get(stream, 0)
        if n > 0 and okn < share * n:
            ctx.violation("c09-harness-stream-not-parseable", "stream %s: only %d of %d inputs are accepted by dbc.Parse (%.0f%% expected): "
                          "the stream no longer reaches the importer" % (stream, okn, n, 100 * share), {"parsedof": summ.get("parsedof")}, found_input=False)
    if mism != 0:
        for what, lines in sorted(by_kind.items()):
            both_syn = [l for l in lines if re.search(r"go \[syn \d+ \d+\] model \[syn \d+ \d+\]", l)]
            if what == "parse-outcome" and both_syn:
                ids = [l.split(" ", 2)[1] for l in both_syn[:400]]
                texts = dbccheck.texts_for_ids(cases, ids)
                best = min(texts, key=lambda k: len(texts[k])) if texts else None
                line = next((l for l in both_syn if best is not None and l.split(" ", 2)[1] == best), both_syn[0])
                data = texts.get(best, b"")
                ctx.violation("c09-error-position", "a syntax error is not reported at the start of the offending token "
                              "(implementation and model name different positions, %d case(s)); shortest: %s" % (len(both_syn), line[:500]),
                              {"first": both_syn[:3], "input_hex": data.hex(), "input_text": data.decode("utf-8", "replace")[:2000],
                               "how": "./check C09 --replay <this file> (prints the implementation's outcome; the model's position is in 'first')"},
                              found_input=True)
                lines = [l for l in lines if l not in both_syn]
                if not lines:
                    continue
            if what in ("import-class", "import-error-kind"):
                ids = [l.split(" ", 2)[1] for l in lines[:400]]
                texts = dbccheck.texts_for_ids(cases, ids)
                best = min(texts, key=lambda k: len(texts[k])) if texts else None
                line = next((l for l in lines if best is not None and l.split(" ", 2)[1] == best), lines[0])
                data = texts.get(best, b"")
                ctx.violation("c09-" + what, "ImportDBCFile and the Coq model of the importer (coq/C10/Import.v, extracted) disagree on the "
                              "%s of a parsed document (%d case(s)); shortest: %s" % (
                                  "outcome (accepted / refused)" if what == "import-class" else "kind of error", len(lines), line[:500]),
                              {"first": lines[:3], "input_hex": data.hex(), "input_text": data.decode("utf-8", "replace")[:2000],
                               "how": "./check C09 --replay <this file> prints the implementation's outcome"}, found_input=True)
                continue
            ctx.violation("c09-model-" + what, "the Coq model and the implementation disagree (%s, %d case(s)); the theorems of "
                          "Properties/C09.v no longer speak about this code; no crashing input was found: %s" % (what, len(lines), lines[0][:400]),
                          {"correspondence": what, "first": lines[:3]}, found_input=False)
        if mism < 0:
            ctx.violation("c09-model-driver-failed", "model driver failed: " + mlog[-600:], {"log": mlog[-3000:]}, found_input=False)
    total = summ.get("total", 0)
    samples = []
    try:
        with open(cases, encoding="utf-8", errors="replace") as f:
            n = 0
            for line in f:
                if line.startswith("TEXT ") and n % 997 == 5 and len(samples) < 4:
                    cps = [int(x) for x in line.split()[2:200]]
                    samples.append("".join(chr(c) if 32 <= c < 127 else "\\u{%x}" % c for c in cps))
                if line.startswith("TEXT "):
                    n += 1
    except Exception:
        pass
    nontrivial = sum(v for k, v in summ["hist"].items() if k not in ("random-bytes", "random-cps"))
    ctx.coverage.update({
        "evaluations": total,
        "records_compared_with_model": compared,
        "distinct_nontrivial": nontrivial,
        "rule": "inputs = valid grammar-generated files over every section; every truncation point (byte and token "
                "granularity) of small generated files and of testdata/*.dbc; token-level type confusion; the six "
                "well-known attributes declared with each value type and assigned each value form; files lacking each "
                "section / shuffled / duplicated statements; multiplexing corner cases (ranges to 2^32-1, From>To, missing or "
                "double multiplexor, nested) with selectors <= 16 bits (wider ones counted as excluded); boundary numbers; "
                "random bytes and random code points; the corpus of earlier defects. Each input: dbc.Parse and "
                "acmelib.ImportDBCFile in a child process under recover, 10 s watchdog, 1.5 GiB heap guard, RLIMIT_AS 6 GiB; "
                "outcome classes ok / syntax error (must start with the file name and lie inside the text) / other error / "
                "PANIC / HANG / MEM / CRASH; tokens, outcome and error position recomputed by the Coq model. "
                "non-trivial = input not from the two random streams (structured DBC text), counted per stream histogram",
        "distribution": summ["hist"],
        "outcome_classes": summ["class"],
        "excluded_wide_mux": summ.get("excluded-wide-mux", 0),
        "skeleton_cases_compared": dbccheck.last_skeleton,
        "model_mismatches": mism,
        "model_mismatch_kinds": {k: len(v) for k, v in by_kind.items()},
        "import_model_comparison": dbccheck.last_import,
        "records_in_hex_number_mode": dbccheck.last_hexrecords,
        "failures": [h[0] for h, _ in summ["fails"]],
        "samples": samples or ["(see cases.txt in scratch)"],
        "exhaustive": False,
        "trusted_base": [
            "Coq 8.16.1 kernel (coqc; coqchk in the thorough tier)",
            "axioms: none (Print Assumptions: Closed under the global context)" if not status["axioms"] else "axioms: " + ", ".join(status["axioms"]),
            "extraction (ExtrOcamlBasic, ExtrOcamlString) + OCaml 4.13.1 + props/C08/driver/c08_driver.ml",
            "Go harness props/C08/harness/cmd/c09 (generators, child-process isolation, classification, shrinking) and overlay hook props/C08/overlay/verif_dbc.go",
            "the theorems are about the model coq/C08/Dbc{Lex,Parse}.v (hand-written restatement of dbc/{scanner,parser}.go, tied by the record comparison) and, for the importer, about the skeleton coq/C09/ImportSkeleton.v of its two counter loops (the range expansion is compared with importMuxSignal on generated range lists; every other loop ranges over a slice or map); the rest of the importer is not modelled here: its totality is exhibited by execution only",
            "strconv.ParseFloat / unicode.IsDigit: oracle data per case",
        ],
    })
    ctx.assumptions = [
        "absence of panics / hangs in the Go code is shown by exploration only (partial by nature); multiplexor selectors wider than 16 bits are excluded as the property states",
        "Go runtime, bufio/utf8 decoding, strconv are trusted",
    ]
    if ctx.tier == "thorough":
        vm = dbccheck.vm_crosscheck(ctx, cases, want=80)
        ctx.coverage["vm_compute_crosscheck"] = {k: v for k, v in vm.items() if k != "log_tail"}
        if vm["mismatches"] or not vm["negative_detected"] or vm["cases"] == 0:
            ctx.violation("%s-vm-crosscheck" % PID.lower(), "the vm_compute cross-check inside Coq disagrees with the observed Go results "
                          "(or its negative test was not detected): %s" % (vm["mismatches"][:5] or vm["log_tail"][-300:]),
                          {"vm": vm}, found_input=False)
        ok, chk = vlib.coqchk(PID)
        ctx.coverage["coqchk"] = "ok" if ok else "FAILED"
        ctx.coverage["coqchk_tail"] = chk[-1500:]
        if not ok:
            ctx.proof_problems = (getattr(ctx, "proof_problems", []) or []) + ["coqchk failed: " + chk[-500:]]
