"""C10 — a successful DBC import is a faithful, valid model of the file.
Proof: coq/Properties/C10.v over the model coq/C10/{DbcDoc,BusModel,Import,Bits}.v.
Tie: the Go harness (props/C10/harness, public API only) generates DBC documents, imports them with
acmelib.ImportDBCFile, evaluates the property predicate / the shared invariant evaluators / the
DBC decode rule directly on the result, and hands the parser's AST of every document to the
extracted model (`import`), whose projected bus and decode table must equal the implementation's."""
import json
import os
import re
import sys
import vlib

sys.path.insert(0, os.path.dirname(os.path.abspath(__file__)))
import tokdiff  # noqa: E402

PID = "C10"
ERR = "( s657272"


def build_harness(ctx, prop_dir, exe_name):
    hdir = vlib.go_harness_dir(prop_dir, ctx.scratch)
    exe = os.path.join(ctx.scratch, exe_name)
    rc, log = vlib.sh(["go", "build", "-o", exe, "."], cwd=hdir, env=vlib.goenv(), timeout=900)
    return (exe if rc == 0 else None), log


def read_lines(path):
    """records of a result file (id -> token tree); the END marker is kept apart under the key None:
    its value is the announced number of records, or absent when the file is truncated"""
    d = {}
    if os.path.exists(path):
        for l in open(path):
            k, _, v = l.rstrip("\n").partition(" ")
            if k == "END":
                d[None] = v.strip()
            elif k:
                d[k] = v
    return d


def count_guard(ctx, prefix, summ, impl, model, compared):
    """the comparison counts only if both files are complete and every generated case was compared"""
    end_i, end_m = impl.pop(None, None), model.pop(None, None)
    probs = []
    if end_i is None or str(len(impl)) != end_i or len(impl) != summ.get("impl_lines"):
        probs.append("impl.txt: %d records, END marker %r, harness wrote %r" % (len(impl), end_i, summ.get("impl_lines")))
    if end_m is None or str(len(model)) != end_m or len(model) != summ.get("case_lines"):
        probs.append("model.txt: %d records, END marker %r, harness wrote %r case records" % (len(model), end_m, summ.get("case_lines")))
    if compared is not None and compared != len(impl):
        probs.append("%d of %d implementation records were compared with the model" % (compared, len(impl)))
    if probs:
        ctx.violation(prefix + "-driver-count", "the model comparison is incomplete: " + "; ".join(probs),
                      {"problems": probs}, found_input=False)


def classify_diff(path):
    """signature of a correspondence disagreement from the path of the first difference"""
    p = re.sub(r"\[[^\]]*\]", "", path)
    p = re.sub(r"/\d+", "", p)
    return "c10-correspondence-" + (p.strip("/").replace("/", "-") or "root")


def compare(ctx, impl, model, texts, prefix="c10"):
    """diff implementation and model outputs; returns (mismatches, agree_ok, agree_err, list)"""
    mism, ok, err, items = 0, 0, 0, []
    for cid, iv in impl.items():
        mv = model.get(cid)
        if mv is None:
            mism += 1
            items.append((cid, prefix + "-correspondence-model-missing", "the model driver produced no result"))
            continue
        if iv.startswith(ERR) and mv.startswith(ERR):
            err += 1
            continue
        if iv == mv:
            ok += 1
            continue
        mism += 1
        if iv.startswith(ERR) or mv.startswith(ERR):
            why = ""
            if mv.startswith(ERR):
                try:
                    why = tokdiff.parse(mv)[1]
                except Exception:
                    pass
            items.append((cid, prefix + "-correspondence-accept", "implementation %s, model %s %s" % (
                "refuses" if iv.startswith(ERR) else "accepts", "refuses" if mv.startswith(ERR) else "accepts", why)))
            continue
        try:
            d = tokdiff.first_diff(tokdiff.parse(iv), tokdiff.parse(mv))
        except Exception as ex:  # malformed line
            d = ("unparsable", str(ex), "")
        sig = classify_diff(d[0]).replace("c10-", prefix + "-", 1)
        items.append((cid, sig, "first difference at %s: implementation %r, model %r" % d))
    return mism, ok, err, items


def run(ctx):
    ctx.level = "proof"
    status = vlib.proof_status(PID, extra_targets=["C10/Extract.v"])
    ctx.proof_gate(status)
    drv = vlib.build_ocaml_driver("c10_driver", os.path.join(vlib.COQ, "extracted"),
                                  os.path.join(ctx.prop_dir, "driver", "c10_driver.ml"), only=["c10_model"])
    exe, blog = build_harness(ctx, ctx.prop_dir, "c10h")
    if exe is None:
        ctx.violation("c10-harness-build", "the harness no longer builds against the repository: " + blog[-800:],
                      {"log": blog[-3000:]}, found_input=False)
        ctx.coverage.update({"evaluations": 0})
        return
    out = os.path.join(ctx.scratch, "out")
    os.makedirs(out)
    cmd = [exe, "-seed", str(ctx.seed), "-tier", ctx.tier, "-out", out,
           "-testdata", os.path.join(vlib.repo(), "testdata")]
    if ctx.replay:
        r = json.load(open(ctx.replay))
        text = (r.get("replay") or {}).get("text")
        if text is None:
            print("replay file has no DBC text (proof/correspondence-only record): nothing to run")
            text = ""
        rp = os.path.join(ctx.scratch, "replay.dbc")
        open(rp, "w").write(text)
        cmd += ["-replay", rp]
    rc, log = vlib.sh(cmd, env=vlib.goenv(), timeout=3000)
    if ctx.replay:
        print(log)
    if rc != 0 or not os.path.exists(os.path.join(out, "summary.json")):
        m = re.search(r"panic: .*|fatal error: .*", log)
        ctx.violation("c10-harness-run", "harness run failed (%s): %s" % (m.group(0) if m else "rc=%d" % rc, log[-600:]),
                      {"log": log[-3000:]}, found_input=bool(m))
        ctx.coverage.update({"evaluations": 0})
        return
    summ = json.load(open(os.path.join(out, "summary.json")))
    rc2, mlog = vlib.sh("%s %s > %s" % (drv, os.path.join(out, "cases.txt"), os.path.join(out, "model.txt")), timeout=3000)
    impl = read_lines(os.path.join(out, "impl.txt"))
    model = read_lines(os.path.join(out, "model.txt"))
    if not ctx.replay:
        count_guard(ctx, "c10", summ, impl, model, None)
        ctx.min_evaluations = 1200 if ctx.tier == "quick" else 24000
    impl.pop(None, None)
    model.pop(None, None)
    mism, agree_ok, agree_err, items = compare(ctx, impl, model, None)
    if not ctx.replay and mism + agree_ok + agree_err != len(impl):
        ctx.violation("c10-driver-count", "%d of %d implementation records were compared" % (mism + agree_ok + agree_err, len(impl)),
                      {}, found_input=False)
    if rc2 != 0:
        ctx.violation("c10-model-driver", "model driver failed: " + mlog[-500:], {"log": mlog[-2000:]}, found_input=False)

    # property-level failures on the implementation (found input, minimised by the harness)
    failed_cases = set()
    for sig, f in sorted(summ["failures"].items()):
        failed_cases.add(f["case"])
        ctx.violation(sig, "ImportDBCFile breaks C10 (%s): %s" % (sig, f["detail"]),
                      {"text": f["text"], "detail": f["detail"], "case": f["case"],
                       "how": "./check C10 --replay <this file>"})
    # disagreements with the model: a property failure found above already convicts the code;
    # what is left is reported as correspondence loss
    cases_text = None
    by_sig = {}
    explained = 0
    known_open = {k["signature"] for k in ctx.known_open}
    for cid, sig, desc in items:
        # explained only by a predicate failure on this very case that is NOT a known finding (the model
        # mirrors the known D08 behaviour, so a D08 hit explains no disagreement)
        if any(s not in known_open for s in summ.get("failed_cases", {}).get(cid, [])):
            explained += 1
            continue
        by_sig.setdefault(sig, (cid, desc))
    if by_sig:
        for sig, (cid, desc) in sorted(by_sig.items()):
            ctx.violation(sig, "model and implementation disagree on case %s (%d disagreeing cases in all); the theorems of "
                          "Properties/C10.v no longer speak about this code: %s" % (cid, mism, desc),
                          {"case": cid, "correspondence": desc}, found_input=False)
    for cid, sig, desc in items[:6]:
        print("note: model/implementation difference on case %s [%s] %s" % (cid, sig, desc[:300]))
    if ctx.replay:
        print("model:", model.get("replay", "")[:3000])
        print("impl :", impl.get("replay", "")[:3000])
    ctx.coverage.update({
        "evaluations": summ["cases"],
        "imported": summ["imported"], "refused": summ["refused"], "parse_refused": summ["parse_refused"],
        "signals_checked": summ["signals"], "payload_decodes": summ["decodes"],
        "distinct_nontrivial": summ["nontrivial"],
        "rule": "cases = DBC documents: grammar-generated (nodes, shared/per-signal value tables, messages of 0..8 bytes in both "
                "byte orders with plain / simple / extended / nested multiplexing laid out from a position tree, comments, the "
                "four attribute types and HEX on the four object kinds with numeric defaults/values written as integer or "
                "decimal, well-known attributes, missing transmitter; one in five broken on purpose), sweeps with one message per "
                "(start, size, byte order) placement, and token-mutated files of /repo/testdata. Each is imported by "
                "ImportDBCFile; on success the bus is walked through public getters and (a) compared with what the file says "
                "(property predicate), (b) checked with the shared invariant evaluators, (c) decoded on 8 payloads per message "
                "against an independent implementation of the DBC bit numbering, (d) compared with the Coq model's import of "
                "the parser's AST. non-trivial = distinct document accepted by the importer with at least two signals",
        "distribution": summ["hist"],
        "model_agree_accepted": agree_ok, "model_agree_refused": agree_err, "model_mismatches": mism,
        "model_mismatches_on_cases_failing_the_predicate": explained,
        "model_mismatch_signatures": sorted(by_sig)[:20],
        "property_predicate_failures": sorted(summ["failures"]),
        "samples": (summ.get("samples") or [])[:2] or [t[:600] for t in list(impl)[:2]],
        "exhaustive": False,
        "trusted_base": [
            "Coq 8.16.1 kernel (coqc; coqchk in the thorough tier); vm_compute used for the finite start/size domain of import_decode_dbc",
            "axioms: none (Print Assumptions: Closed under the global context)" if not status["axioms"] else "axioms: " + ", ".join(status["axioms"]),
            "extraction (ExtrOcamlBasic, ExtrOcamlString; no Extract Constant/Inductive of our own) + OCaml 4.13.1 + props/C10/driver/c10_driver.ml (generic token reader/printer, zarith for decimal I/O)",
            "Go harness props/C10/harness (generator, DBC text emitter, bus walk, property predicate, independent DBC bit-numbering interpreter) and props/common/vinv (invariant evaluators)",
            "dbc.Parse: the model imports the AST the parser produced (C08 owns text<->AST); floats are exchanged as exact dyadic rationals (math.Frexp), never as decimal text",
            "the model coq/C10/Import.v is a hand-written restatement of importer.go and of the entity checks it relies on (InsertSignal, AddValue, AssignAttribute, AddSentMessage); tied by the projection-level correspondence above",
        ],
    })
    ctx.assumptions = [
        "integers of a document fit the Go field they are parsed into (uint32 ids/sizes, int attribute values)",
        "floats are finite; -0.0 is identified with 0.0; integers converted with float64(int) are below 2^53",
        "names are ASCII; multiplexer selectors are at most 16 bits wide (group arrays are allocated eagerly by the library)",
        "ties of the importer's unstable sort of signals by start bit do not influence the projection (equal start bits inside one layout are refused)",
    ]
    if ctx.tier == "thorough":
        ok, chk = vlib.coqchk(PID)
        ctx.coverage["coqchk"] = "ok" if ok else "FAILED"
        ctx.coverage["coqchk_tail"] = chk[-1500:]
        if not ok:
            ctx.proof_problems = (getattr(ctx, "proof_problems", []) or []) + ["coqchk failed: " + chk[-500:]]
