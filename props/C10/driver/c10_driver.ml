(* Driver around the extracted C10/C11 model (coq/C10/Tok.v: run_import, run_export_import, run_proj).
   Input : one case per line   "<mode> <case-id> <token tree>"   mode = I | X | P
   Output: one line per case   "<case-id> <token tree>"
   Token tree: "(" ... ")" lists, i<decimal>, s<hex bytes>, f<mantissa>:<exponent>.
   Only generic reading/printing happens here; every typed decoder is Coq code. *)
module BZ = Z
open C10_model

let rec pos_of_z (n : BZ.t) : positive =
  if BZ.equal n BZ.one then XH
  else if BZ.testbit n 0 then XI (pos_of_z (BZ.shift_right n 1))
  else XO (pos_of_z (BZ.shift_right n 1))
let coqz_of_z (n : BZ.t) : z =
  if BZ.sign n = 0 then Z0 else if BZ.sign n > 0 then Zpos (pos_of_z n) else Zneg (pos_of_z (BZ.neg n))
let rec z_of_pos = function
  | XH -> BZ.one
  | XO p -> BZ.shift_left (z_of_pos p) 1
  | XI p -> BZ.succ (BZ.shift_left (z_of_pos p) 1)
let z_of_coqz = function Z0 -> BZ.zero | Zpos p -> z_of_pos p | Zneg p -> BZ.neg (z_of_pos p)
let cz s = coqz_of_z (BZ.of_string s)
let zs z = BZ.to_string (z_of_coqz z)

let hexval c = match c with
  | '0'..'9' -> Char.code c - 48 | 'a'..'f' -> Char.code c - 87 | 'A'..'F' -> Char.code c - 55
  | _ -> failwith "bad hex"
let chars_of_hex (h : string) : char list =
  let n = String.length h / 2 in
  List.init n (fun i -> Char.chr (hexval h.[2*i] * 16 + hexval h.[2*i+1]))
let hex_of_chars (l : char list) : string =
  let b = Buffer.create 16 in
  List.iter (fun c -> Buffer.add_string b (Printf.sprintf "%02x" (Char.code c))) l;
  Buffer.contents b

(* parse a token list into one tree; returns (tree, rest) *)
let rec parse_tok (ts : string list) : tok * string list =
  match ts with
  | [] -> failwith "unexpected end"
  | "(" :: r ->
    let rec items acc r =
      match r with
      | ")" :: r' -> (TL (List.rev acc), r')
      | _ -> let (t, r') = parse_tok r in items (t :: acc) r'
    in items [] r
  | t :: r ->
    let body = String.sub t 1 (String.length t - 1) in
    (match t.[0] with
     | 'i' -> (TI (cz body), r)
     | 's' -> (TS (chars_of_hex body), r)
     | 'f' -> (match String.split_on_char ':' body with
         | [m; e] -> (TF { fm = cz m; fe = cz e }, r)
         | _ -> failwith "bad float")
     | _ -> failwith ("bad token " ^ t))

let rec print_tok b = function
  | TI z -> Buffer.add_char b 'i'; Buffer.add_string b (zs z)
  | TS s -> Buffer.add_char b 's'; Buffer.add_string b (hex_of_chars s)
  | TF f -> Buffer.add_char b 'f'; Buffer.add_string b (zs f.fm); Buffer.add_char b ':'; Buffer.add_string b (zs f.fe)
  | TL l -> Buffer.add_char b '(';
    List.iter (fun t -> Buffer.add_char b ' '; print_tok b t) l; Buffer.add_string b " )"

let () =
  let ic = open_in Sys.argv.(1) in
  let n = ref 0 and ended = ref false in
  (try while true do
      let line = input_line ic in
      if String.length line > 0 then begin
        match String.split_on_char ' ' line with
        | "END" :: k :: _ ->
          (* the harness' end marker: the file is complete only if it carries the number of records read *)
          if int_of_string k <> !n then begin
            prerr_endline (Printf.sprintf "case file announces %s records, %d read" k !n); exit 3 end;
          ended := true
        | mode :: id :: rest ->
          if !ended then begin prerr_endline "records after the END marker"; exit 3 end;
          let rest = List.filter (fun s -> s <> "") rest in
          let (t, _) = parse_tok rest in
          let out = match mode with
            | "I" -> run_import t
            | "X" -> run_export_import t
            | "P" -> run_proj t
            | _ -> failwith "bad mode" in
          let b = Buffer.create 4096 in
          print_tok b out;
          incr n;
          print_string id; print_char ' '; print_string (Buffer.contents b); print_newline ()
        | _ -> ()
      end
    done with End_of_file -> ());
  close_in ic;
  if not !ended then begin prerr_endline "case file without END marker (truncated?)"; exit 3 end;
  Printf.printf "END %d\n" !n
