package main

// The generated document at the level of the DBC grammar (what the file SAYS), its text emitter
// and the converters from/to the parser's AST.  Numbers of attribute defaults/values carry the
// textual form they are written in (integer or decimal), because the property is about both.

import (
	"fmt"
	"strconv"
	"strings"

	"github.com/squadracorsepolito/acmelib/dbc"
	"verif/c10/lib"
)

type GVal struct {
	ID   uint32
	Name string
}
type GSig struct {
	Name                     string
	Muxor, Muxed             bool
	Switch                   uint32
	Size, Start              uint32
	BE, Signed               bool
	Factor, Offset, Min, Max float64
	Unit                     string
	Receivers                []string
}
type GMsg struct {
	ID   uint32
	Name string
	Size uint32
	Tx   string
	Sigs []*GSig
}
type GValTable struct {
	Name string
	Vals []GVal
}
type GValEnc struct {
	Msg  uint32
	Sig  string
	Vals []GVal
}
type GComment struct {
	Kind int // 0 general 1 node 2 message 3 signal
	Text string
	Node string
	Msg  uint32
	Sig  string
}

// attribute types use the dbc numbering: 0 INT 1 FLOAT 2 STRING 3 ENUM 4 HEX
type GAttr struct {
	Kind       int
	Type       int
	Name       string
	MinI, MaxI int64
	MinF, MaxF float64
	Enum       []string
}

// number forms: 0 integer text, 1 decimal text, 2 string text
type GNum struct {
	Form int
	I    int64
	F    float64
	S    string
}

func (n GNum) asFloat() float64 {
	if n.Form == 0 {
		return float64(n.I)
	}
	return n.F
}

type GAttrDef struct {
	Name string
	V    GNum
}
type GAttrVal struct {
	Kind int
	Name string
	Node string
	Msg  uint32
	Sig  string
	V    GNum
}
type GExtMux struct {
	Msg          uint32
	Muxor, Muxed string
	Ranges       [][2]uint32
}
type GDoc struct {
	Nodes     []string
	ValTables []GValTable
	Msgs      []*GMsg
	Comments  []GComment
	Attrs     []GAttr
	AttrDefs  []GAttrDef
	AttrVals  []GAttrVal
	ValEncs   []GValEnc
	ExtMuxes  []GExtMux
	Tags      map[string]int // generator bookkeeping for the distribution histogram
	Mutated   bool           // the generator broke the document on purpose
	PadZeros  bool           // integers of BO_ / SG_ / VAL_ / VAL_TABLE_ written with leading zeros (still decimal)
}

// num renders an unsigned integer, zero-padded when the document asks for it (010 is ten, not eight)
func (d *GDoc) num(x uint32) string {
	if d.PadZeros {
		return strings.Repeat("0", 1+int(x%2)) + strconv.FormatUint(uint64(x), 10)
	}
	return strconv.FormatUint(uint64(x), 10)
}

func fmtF(f float64) string { return strconv.FormatFloat(f, 'f', -1, 64) }
func fmtNum(n GNum) string {
	switch n.Form {
	case 0:
		return strconv.FormatInt(n.I, 10)
	case 1:
		s := fmtF(n.F)
		if !strings.Contains(s, ".") {
			s += ".0"
		}
		return s
	default:
		return `"` + n.S + `"`
	}
}

var kindKw = []string{"", "BU_ ", "BO_ ", "SG_ "}

const header = `VERSION "_"

NS_:
	CM_
	BA_DEF_
	BA_
	VAL_
	VAL_TABLE_
	BA_DEF_DEF_
	SG_MUL_VAL_

BS_:

`

// Emit writes the document as DBC text.
func (d *GDoc) Emit() string {
	b := new(strings.Builder)
	b.WriteString(header)
	b.WriteString("BU_:")
	for _, n := range d.Nodes {
		b.WriteString(" " + n)
	}
	b.WriteString("\n\n")
	for _, vt := range d.ValTables {
		fmt.Fprintf(b, "VAL_TABLE_ %s", vt.Name)
		for _, v := range vt.Vals {
			fmt.Fprintf(b, " %s \"%s\"", d.num(v.ID), v.Name)
		}
		b.WriteString(";\n")
	}
	b.WriteString("\n")
	for _, m := range d.Msgs {
		fmt.Fprintf(b, "BO_ %s %s : %s %s\n", d.num(m.ID), m.Name, d.num(m.Size), m.Tx)
		for _, s := range m.Sigs {
			fmt.Fprintf(b, " SG_ %s", s.Name)
			if s.Muxed && s.Muxor {
				fmt.Fprintf(b, " m%dM", s.Switch)
			} else if s.Muxed {
				fmt.Fprintf(b, " m%d", s.Switch)
			} else if s.Muxor {
				b.WriteString(" M")
			}
			bo, sg := "1", "+"
			if s.BE {
				bo = "0"
			}
			if s.Signed {
				sg = "-"
			}
			fmt.Fprintf(b, " : %s|%s@%s%s (%s,%s) [%s|%s] \"%s\" %s\n", d.num(s.Start), d.num(s.Size), bo, sg,
				fmtF(s.Factor), fmtF(s.Offset), fmtF(s.Min), fmtF(s.Max), s.Unit, strings.Join(s.Receivers, ","))
		}
		b.WriteString("\n")
	}
	for _, c := range d.Comments {
		switch c.Kind {
		case 0:
			fmt.Fprintf(b, "CM_ \"%s\";\n", c.Text)
		case 1:
			fmt.Fprintf(b, "CM_ BU_ %s \"%s\";\n", c.Node, c.Text)
		case 2:
			fmt.Fprintf(b, "CM_ BO_ %d \"%s\";\n", c.Msg, c.Text)
		case 3:
			fmt.Fprintf(b, "CM_ SG_ %d %s \"%s\";\n", c.Msg, c.Sig, c.Text)
		}
	}
	for _, a := range d.Attrs {
		fmt.Fprintf(b, "BA_DEF_ %s\"%s\" ", kindKw[a.Kind], a.Name)
		switch a.Type {
		case 0:
			fmt.Fprintf(b, "INT %d %d", a.MinI, a.MaxI)
		case 4:
			fmt.Fprintf(b, "HEX %d %d", a.MinI, a.MaxI)
		case 1:
			fmt.Fprintf(b, "FLOAT %s %s", fmtF(a.MinF), fmtF(a.MaxF))
		case 2:
			b.WriteString("STRING")
		case 3:
			b.WriteString("ENUM ")
			for i, v := range a.Enum {
				if i > 0 {
					b.WriteString(",")
				}
				fmt.Fprintf(b, "\"%s\"", v)
			}
		}
		b.WriteString(";\n")
	}
	for _, a := range d.AttrDefs {
		fmt.Fprintf(b, "BA_DEF_DEF_ \"%s\" %s;\n", a.Name, fmtNum(a.V))
	}
	for _, a := range d.AttrVals {
		fmt.Fprintf(b, "BA_ \"%s\" ", a.Name)
		switch a.Kind {
		case 1:
			fmt.Fprintf(b, "BU_ %s ", a.Node)
		case 2:
			fmt.Fprintf(b, "BO_ %d ", a.Msg)
		case 3:
			fmt.Fprintf(b, "SG_ %d %s ", a.Msg, a.Sig)
		}
		b.WriteString(fmtNum(a.V) + ";\n")
	}
	for _, v := range d.ValEncs {
		fmt.Fprintf(b, "VAL_ %s %s", d.num(v.Msg), v.Sig)
		for _, x := range v.Vals {
			fmt.Fprintf(b, " %s \"%s\"", d.num(x.ID), x.Name)
		}
		b.WriteString(";\n")
	}
	for _, x := range d.ExtMuxes {
		fmt.Fprintf(b, "SG_MUL_VAL_ %d %s %s", x.Msg, x.Muxed, x.Muxor)
		for i, r := range x.Ranges {
			if i > 0 {
				b.WriteString(",")
			}
			fmt.Fprintf(b, " %d-%d", r[0], r[1])
		}
		b.WriteString(";\n")
	}
	return b.String()
}

// FromAST reads a parsed file back into the document form (used for mutated real files, where
// the parsed AST is the only description of what the file says).
func FromAST(f *dbc.File) *GDoc {
	d := &GDoc{Tags: map[string]int{}}
	if f.Nodes != nil {
		d.Nodes = append(d.Nodes, f.Nodes.Names...)
	}
	vals := func(l []*dbc.ValueDescription) []GVal {
		r := []GVal{}
		for _, v := range l {
			r = append(r, GVal{v.ID, v.Name})
		}
		return r
	}
	for _, vt := range f.ValueTables {
		d.ValTables = append(d.ValTables, GValTable{vt.Name, vals(vt.Values)})
	}
	for _, m := range f.Messages {
		gm := &GMsg{ID: m.ID, Name: m.Name, Size: m.Size, Tx: m.Transmitter}
		for _, s := range m.Signals {
			gm.Sigs = append(gm.Sigs, &GSig{Name: s.Name, Muxor: s.IsMultiplexor, Muxed: s.IsMultiplexed, Switch: s.MuxSwitchValue,
				Size: s.Size, Start: s.StartBit, BE: s.ByteOrder == dbc.SignalBigEndian, Signed: s.ValueType == dbc.SignalSigned,
				Factor: s.Factor, Offset: s.Offset, Min: s.Min, Max: s.Max, Unit: s.Unit, Receivers: append([]string{}, s.Receivers...)})
		}
		d.Msgs = append(d.Msgs, gm)
	}
	for _, c := range f.Comments {
		if int(c.Kind) <= 3 {
			d.Comments = append(d.Comments, GComment{int(c.Kind), c.Text, c.NodeName, c.MessageID, c.SignalName})
		}
	}
	for _, a := range f.Attributes {
		ga := GAttr{Kind: int(a.Kind), Type: int(a.Type), Name: a.Name, MinI: int64(a.MinInt), MaxI: int64(a.MaxInt),
			MinF: a.MinFloat, MaxF: a.MaxFloat, Enum: a.EnumValues}
		if a.Type == dbc.AttributeHex {
			ga.MinI, ga.MaxI = int64(a.MinHex), int64(a.MaxHex)
		}
		d.Attrs = append(d.Attrs, ga)
	}
	for _, a := range f.AttributeDefaults {
		n := GNum{}
		switch a.Type {
		case dbc.AttributeDefaultInt:
			n = GNum{Form: 0, I: int64(a.ValueInt)}
		case dbc.AttributeDefaultHex:
			n = GNum{Form: 0, I: int64(a.ValueHex)}
		case dbc.AttributeDefaultFloat:
			n = GNum{Form: 1, F: a.ValueFloat}
		default:
			n = GNum{Form: 2, S: a.ValueString}
		}
		d.AttrDefs = append(d.AttrDefs, GAttrDef{a.AttributeName, n})
	}
	for _, a := range f.AttributeValues {
		n := GNum{}
		switch a.Type {
		case dbc.AttributeValueInt:
			n = GNum{Form: 0, I: int64(a.ValueInt)}
		case dbc.AttributeValueHex:
			n = GNum{Form: 0, I: int64(a.ValueHex)}
		case dbc.AttributeValueFloat:
			n = GNum{Form: 1, F: a.ValueFloat}
		default:
			n = GNum{Form: 2, S: a.ValueString}
		}
		d.AttrVals = append(d.AttrVals, GAttrVal{int(a.AttributeKind), a.AttributeName, a.NodeName, a.MessageID, a.SignalName, n})
	}
	for _, v := range f.ValueEncodings {
		if v.Kind == dbc.ValueEncodingSignal {
			d.ValEncs = append(d.ValEncs, GValEnc{v.MessageID, v.SignalName, vals(v.Values)})
		}
	}
	for _, x := range f.ExtendedMuxes {
		g := GExtMux{Msg: x.MessageID, Muxor: x.MultiplexorName, Muxed: x.MultiplexedName}
		for _, r := range x.Ranges {
			g.Ranges = append(g.Ranges, [2]uint32{r.From, r.To})
		}
		d.ExtMuxes = append(d.ExtMuxes, g)
	}
	return d
}

// ASTTok serialises the parser's AST for the model (field order of coq/C10/Tok.v doc_of).
func ASTTok(name string, f *dbc.File) lib.Tok {
	T := lib.TL
	vals := func(l []*dbc.ValueDescription) lib.Tok {
		r := []lib.Tok{}
		for _, v := range l {
			r = append(r, T(lib.TI(int64(v.ID)), lib.TS(v.Name)))
		}
		return lib.TLs(r)
	}
	nodes := []string{}
	if f.Nodes != nil {
		nodes = f.Nodes.Names
	}
	vts := []lib.Tok{}
	for _, vt := range f.ValueTables {
		vts = append(vts, T(lib.TS(vt.Name), vals(vt.Values)))
	}
	msgs := []lib.Tok{}
	for _, m := range f.Messages {
		sg := []lib.Tok{}
		for _, s := range m.Signals {
			sg = append(sg, T(lib.TS(s.Name), lib.TB(s.IsMultiplexor), lib.TB(s.IsMultiplexed), lib.TI(int64(s.MuxSwitchValue)),
				lib.TI(int64(s.Size)), lib.TI(int64(s.StartBit)), lib.TB(s.ByteOrder == dbc.SignalBigEndian), lib.TB(s.ValueType == dbc.SignalSigned),
				lib.TF(s.Factor), lib.TF(s.Offset), lib.TF(s.Min), lib.TF(s.Max), lib.TS(s.Unit), lib.TStrs(s.Receivers)))
		}
		msgs = append(msgs, T(lib.TI(int64(m.ID)), lib.TS(m.Name), lib.TI(int64(m.Size)), lib.TS(m.Transmitter), lib.TLs(sg)))
	}
	cms := []lib.Tok{}
	for _, c := range f.Comments {
		cms = append(cms, T(lib.TI(int64(c.Kind)), lib.TS(c.Text), lib.TS(c.NodeName), lib.TI(int64(c.MessageID)), lib.TS(c.SignalName)))
	}
	ats := []lib.Tok{}
	for _, a := range f.Attributes {
		ats = append(ats, T(lib.TI(int64(a.Kind)), lib.TI(int64(a.Type)), lib.TS(a.Name), lib.TI(int64(a.MinInt)), lib.TI(int64(a.MaxInt)),
			lib.TI(int64(a.MinHex)), lib.TI(int64(a.MaxHex)), lib.TF(a.MinFloat), lib.TF(a.MaxFloat), lib.TStrs(a.EnumValues)))
	}
	ads := []lib.Tok{}
	for _, a := range f.AttributeDefaults {
		ads = append(ads, T(lib.TI(int64(a.Type)), lib.TS(a.AttributeName), lib.TS(a.ValueString), lib.TI(int64(a.ValueInt)), lib.TI(int64(a.ValueHex)), lib.TF(a.ValueFloat)))
	}
	avs := []lib.Tok{}
	for _, a := range f.AttributeValues {
		avs = append(avs, T(lib.TI(int64(a.AttributeKind)), lib.TI(int64(a.Type)), lib.TS(a.AttributeName), lib.TS(a.NodeName), lib.TI(int64(a.MessageID)),
			lib.TS(a.SignalName), lib.TS(a.ValueString), lib.TI(int64(a.ValueInt)), lib.TI(int64(a.ValueHex)), lib.TF(a.ValueFloat)))
	}
	ves := []lib.Tok{}
	for _, v := range f.ValueEncodings {
		ves = append(ves, T(lib.TB(v.Kind == dbc.ValueEncodingSignal), lib.TI(int64(v.MessageID)), lib.TS(v.SignalName), vals(v.Values)))
	}
	xms := []lib.Tok{}
	for _, x := range f.ExtendedMuxes {
		rs := []lib.Tok{}
		for _, r := range x.Ranges {
			rs = append(rs, T(lib.TI(int64(r.From)), lib.TI(int64(r.To))))
		}
		xms = append(xms, T(lib.TI(int64(x.MessageID)), lib.TS(x.MultiplexorName), lib.TS(x.MultiplexedName), lib.TLs(rs)))
	}
	return T(lib.TS(name), lib.TStrs(nodes), lib.TLs(vts), lib.TLs(msgs), lib.TLs(cms), lib.TLs(ats), lib.TLs(ads), lib.TLs(avs), lib.TLs(ves), lib.TLs(xms))
}
