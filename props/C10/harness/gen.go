package main

// DBC-level grammar generator.  Layouts are produced in the library's internal position
// numbering (a multiplexer = selector bits followed by the group region, every group its own
// non-overlapping layout) and then written with DBC start bits, so that every legal
// start bit / size / byte order occurs, Motorola signals narrower than a byte included.

import (
	"fmt"
	"sort"
	"strconv"
	"strings"

	"verif/c10/lib"
)

var unitPool = []string{"", "", "km/h", "degC", "%", "V", "rpm", " ", " km/h ", "  x", "a b", "m "}
var factorPool = []float64{1, 1, 1, 2, 0.5, 0.1, 0.25, 10, 0.001, 1.5}
var oneFractionPool = []float64{-0.5, -40.5, -0.1, -273.15, -1e-9, -2147483648.5, 0.5, 40.5, 1e-9}
var offsetPool = []float64{0, 0, 0, -40, 100, 0.5, -273.15, 7}

// boundary values for every numeric field (2^31, 2^32, 2^53, 2^63, 2^64, 1e19 and negatives)
var boundaryFloats = []float64{2147483647, 2147483648, 4294967295, 4294967296, 9007199254740992, 9007199254740993,
	9223372036854775807, 9223372036854775808, 18446744073709551615, 18446744073709551616, 1e19, 1e-9,
	-2147483648, -2147483649, -9007199254740992, -9223372036854775808, -1e19}
var boundaryInts = []int64{-9223372036854775807, -9007199254740992, -4294967296, -2147483649, -2147483648, -1, 0, 1,
	2147483647, 2147483648, 4294967295, 4294967296, 9007199254740992, 9223372036854775807}

func dbcOfPos(pos int, be bool) int {
	if !be {
		return pos
	}
	return pos + 7 - 2*(pos%8)
}

// abstract layout tree
type lnode struct {
	name       string
	pos, size  int // absolute position, size (for a multiplexer: selector width)
	mux        bool
	groupCount int
	kids       []*lkid
	enumVals   []GVal
	enumShared string
	oneBitFlag bool
}
type lkid struct {
	n      *lnode
	groups []int // sorted; len == groupCount means fixed
}

type gen struct {
	r        *lib.Rng
	d        *GDoc
	names    int
	lastStd  *GSig // last standard signal generated in this document (twins differ from it in one field)
	lastSize int
	// (longer-id message, shorter-id message, digits): decimal(longer id) = digits ++ decimal(shorter id)
	idPairs      []idPair
	forceComment map[*GSig]bool
}

type idPair struct {
	long, short *GMsg
	digits      string
}

// caseVariant returns a spelling of u that differs from it only by letter case ("" when u has no letter)
func caseVariant(u string, how int) string {
	var v string
	switch how {
	case 0:
		v = strings.ToUpper(u)
	case 1:
		v = strings.ToLower(u)
	default: // flip the first letter only
		b := []byte(u)
		for i, c := range b {
			if c >= 'a' && c <= 'z' {
				b[i] = c - 32
				break
			}
			if c >= 'A' && c <= 'Z' {
				b[i] = c + 32
				break
			}
		}
		v = string(b)
	}
	if v == u {
		v = strings.ToUpper(u)
	}
	if v == u {
		v = strings.ToLower(u)
	}
	if v == u {
		return ""
	}
	return v
}

// digit-extended names: for two messages whose ids are related by decimal(long) = digits ++ decimal(short), a signal
// of the short-id message is renamed to <name of a signal of the long-id message> ++ digits, so that the two
// (message id, signal name) pairs are distinct but their separator-less concatenations coincide; both get a comment
func (g *gen) digitExtendedNames() {
	d := g.d
	for _, p := range g.idPairs {
		if len(p.long.Sigs) == 0 || len(p.short.Sigs) == 0 {
			continue
		}
		sa := p.long.Sigs[g.r.Below(len(p.long.Sigs))]
		sb := p.short.Sigs[g.r.Below(len(p.short.Sigs))]
		nn := sa.Name + p.digits
		taken := false
		for _, m := range d.Msgs {
			if m.Name == nn {
				taken = true
			}
		}
		for _, s := range p.short.Sigs {
			if s.Name == nn {
				taken = true
			}
		}
		if taken {
			continue
		}
		old := sb.Name
		for i := range d.ValEncs {
			if d.ValEncs[i].Msg == p.short.ID && d.ValEncs[i].Sig == old {
				d.ValEncs[i].Sig = nn
			}
		}
		for i := range d.ExtMuxes {
			if d.ExtMuxes[i].Msg == p.short.ID {
				if d.ExtMuxes[i].Muxor == old {
					d.ExtMuxes[i].Muxor = nn
				}
				if d.ExtMuxes[i].Muxed == old {
					d.ExtMuxes[i].Muxed = nn
				}
			}
		}
		sb.Name = nn
		if g.r.Chance(2, 3) {
			g.forceComment[sa] = true
		}
		if g.r.Chance(2, 3) {
			g.forceComment[sb] = true
		}
		g.tag("sig-name-digit-extended-across-messages")
	}
}

func (g *gen) name(prefix string) string {
	g.names++
	return fmt.Sprintf("%s%d", prefix, g.names)
}

func (g *gen) tag(s string) { g.d.Tags[s]++ }

// a run of non-overlapping leaves inside [from, to)
func (g *gen) leaves(from, to, maxCount int) []*lnode {
	res := []*lnode{}
	cur := from
	for cur < to && len(res) < maxCount {
		if g.r.Chance(1, 3) {
			cur += g.r.Below(6)
		}
		if cur >= to {
			break
		}
		rem := to - cur
		size := 1 + g.r.Below(12)
		if g.lastSize > 0 && g.r.Chance(1, 3) {
			size = g.lastSize // runs of equal size, so that signals differing in one field only occur
		}
		switch g.r.Below(12) {
		case 0:
			size = 1
		case 1:
			size = 1 + g.r.Below(64)
		case 2:
			size = rem
		case 3:
			size = 8 - cur%8 // ends on a byte boundary
		}
		if size > rem {
			size = rem
		}
		if size > 64 {
			size = 64
		}
		res = append(res, &lnode{name: g.name("s"), pos: cur, size: size})
		g.lastSize = size
		cur += size
	}
	return res
}

// a multiplexer placed at pos with at most `avail` bits; depth limits nesting
func (g *gen) muxNode(pos, avail, depth int) *lnode {
	k := 1 + g.r.Below(2)
	if g.r.Chance(1, 6) {
		k = 3
	}
	if avail < k+1 {
		return nil
	}
	gsize := 1 + g.r.Below(avail-k)
	if gsize > 24 {
		gsize = 1 + g.r.Below(24)
	}
	m := &lnode{name: g.name("mx"), pos: pos, size: k, mux: true, groupCount: 1 << k}
	base := pos + k
	// columns of the group region
	cur := 0
	for cur < gsize {
		w := 1 + g.r.Below(8)
		if w > gsize-cur {
			w = gsize - cur
		}
		all := make([]int, m.groupCount)
		for i := range all {
			all[i] = i
		}
		switch c := g.r.Below(10); {
		case c < 2: // fixed signal
			m.kids = append(m.kids, &lkid{&lnode{name: g.name("fx"), pos: base + cur, size: w}, all})
			g.tag("mux-fixed-child")
		case c < 4 && m.groupCount > 2: // one signal in several groups, others private
			grp := []int{}
			for len(grp) < 2 || len(grp) == m.groupCount {
				grp = grp[:0]
				for id := 0; id < m.groupCount; id++ {
					if g.r.Chance(1, 2) {
						grp = append(grp, id)
					}
				}
			}
			m.kids = append(m.kids, &lkid{&lnode{name: g.name("mg"), pos: base + cur, size: w}, grp})
			g.tag("mux-multi-group-child")
			for id := 0; id < m.groupCount; id++ {
				in := false
				for _, x := range grp {
					if x == id {
						in = true
					}
				}
				if !in && g.r.Chance(1, 2) {
					m.kids = append(m.kids, &lkid{&lnode{name: g.name("p"), pos: base + cur, size: 1 + g.r.Below(w)}, []int{id}})
				}
			}
		case c < 5 && depth > 0 && w >= 2: // nested multiplexer in one group
			id := g.r.Below(m.groupCount)
			if nm := g.muxNode(base+cur, w, depth-1); nm != nil {
				m.kids = append(m.kids, &lkid{nm, []int{id}})
				g.tag("mux-nested")
			}
		default: // private signals per group
			for id := 0; id < m.groupCount; id++ {
				if g.r.Chance(2, 3) {
					sz := 1 + g.r.Below(w)
					off := g.r.Below(w - sz + 1)
					m.kids = append(m.kids, &lkid{&lnode{name: g.name("p"), pos: base + cur + off, size: sz}, []int{id}})
				}
			}
		}
		cur += w
	}
	if len(m.kids) == 0 {
		m.kids = append(m.kids, &lkid{&lnode{name: g.name("p"), pos: base, size: 1}, []int{0}})
	}
	return m
}

func muxEnd(n *lnode) int {
	if !n.mux {
		return n.pos + n.size
	}
	end := n.pos + n.size
	for _, k := range n.kids {
		if e := muxEnd(k.n); e > end {
			end = e
		}
	}
	return end
}

func countMux(n *lnode) int {
	c := 0
	if n.mux {
		c = 1
		for _, k := range n.kids {
			c += countMux(k.n)
		}
	}
	return c
}

// message layout: top-level items
func (g *gen) layout(bits int) []*lnode {
	if bits == 0 {
		return nil
	}
	mode := g.r.Below(10)
	if mode < 5 { // plain
		return g.leaves(0, bits, 1+g.r.Below(8))
	}
	res := []*lnode{}
	cur := 0
	nmux := 1
	if mode >= 8 {
		nmux = 2
	}
	for i := 0; i < nmux && cur < bits; i++ {
		if g.r.Chance(1, 2) {
			pre := g.leaves(cur, cur+g.r.Below(bits-cur+1)/2, 2)
			res = append(res, pre...)
			if len(pre) > 0 {
				cur = pre[len(pre)-1].pos + pre[len(pre)-1].size
			}
		}
		depth := 0
		if mode == 7 || mode == 9 {
			depth = 1 + g.r.Below(2)
		}
		if m := g.muxNode(cur, bits-cur, depth); m != nil {
			res = append(res, m)
			cur = muxEnd(m)
		}
	}
	if cur < bits && g.r.Chance(2, 3) {
		res = append(res, g.leaves(cur, bits, 3)...)
	}
	return res
}

func (g *gen) pickNodes(max int) []string {
	if len(g.d.Nodes) == 0 || g.r.Chance(1, 3) {
		return []string{"Vector__XXX"}
	}
	n := 1 + g.r.Below(max)
	res := []string{}
	seen := map[string]bool{}
	for i := 0; i < n; i++ {
		x := g.d.Nodes[g.r.Below(len(g.d.Nodes))]
		if !seen[x] {
			seen[x] = true
			res = append(res, x)
		}
	}
	return res
}

// flatten one layout node into DBC signals
func (g *gen) emitNode(m *GMsg, n *lnode, be bool, parent *lnode, groups []int, extended bool) {
	s := &GSig{Name: n.name, Size: uint32(n.size), Start: uint32(dbcOfPos(n.pos, be)), BE: be,
		Factor: 1, Offset: 0, Min: 0, Max: 0, Receivers: g.pickNodes(2)}
	if parent != nil {
		fixed := len(groups) == parent.groupCount
		if !(fixed && !extended) {
			s.Muxed = true
			s.Switch = uint32(groups[0])
		}
		if extended || (len(groups) > 1 && !fixed) {
			x := GExtMux{Msg: m.ID, Muxor: parent.name, Muxed: n.name}
			from, prev := groups[0], groups[0]
			for _, id := range groups[1:] {
				if id != prev+1 {
					x.Ranges = append(x.Ranges, [2]uint32{uint32(from), uint32(prev)})
					from = id
				}
				prev = id
			}
			x.Ranges = append(x.Ranges, [2]uint32{uint32(from), uint32(prev)})
			g.d.ExtMuxes = append(g.d.ExtMuxes, x)
		}
	}
	if n.mux {
		s.Muxor = true
		s.Max = float64(n.groupCount - 1)
		m.Sigs = append(m.Sigs, s)
		for _, k := range n.kids {
			g.emitNode(m, k.n, be, n, k.groups, extended)
		}
		return
	}
	// leaf: standard or enum
	switch c := g.r.Below(10); {
	case c < 3 && n.size <= 16: // enum
		cnt := 1 + g.r.Below(4)
		limit := 1 << uint(n.size)
		if g.r.Chance(1, 200) {
			limit *= 4 // value beyond the signal's range (D27: enum wider than the file's size)
			g.tag("enum-index-beyond-size")
		}
		vals := []GVal{}
		used := map[int]bool{}
		for i := 0; i < cnt; i++ {
			id := g.r.Below(limit)
			if used[id] {
				continue
			}
			used[id] = true
			vals = append(vals, GVal{uint32(id), g.name("V")})
		}
		if len(g.d.ValTables) > 0 && g.r.Chance(1, 3) {
			vt := g.d.ValTables[g.r.Below(len(g.d.ValTables))]
			ok := true
			for _, v := range vt.Vals {
				if int(v.ID) >= 1<<uint(n.size) {
					ok = false
				}
			}
			if ok {
				vals = append([]GVal{}, vt.Vals...)
				switch g.r.Below(6) {
				case 0: // same names as the table, one number different
					used := map[uint32]bool{}
					for _, v := range vals {
						used[v.ID] = true
					}
					for id := uint32(0); id < uint32(1)<<uint(n.size) && id < 64; id++ {
						if !used[id] {
							vals[g.r.Below(len(vals))].ID = id
							g.tag("enum-table-same-names-other-number")
							break
						}
					}
				case 1: // same numbers as the table, one name different
					vals[g.r.Below(len(vals))].Name = g.name("W")
					g.tag("enum-table-same-numbers-other-name")
				case 2: // a strict prefix of the table (in index order)
					sort.SliceStable(vals, func(i, j int) bool { return vals[i].ID < vals[j].ID })
					if len(vals) > 1 {
						vals = vals[:1+g.r.Below(len(vals)-1)]
						g.tag("enum-table-strict-prefix")
					}
				case 3: // the table plus one more value
					used := map[uint32]bool{}
					for _, v := range vals {
						used[v.ID] = true
					}
					for id := uint32(0); id < uint32(1)<<uint(n.size) && id < 64; id++ {
						if !used[id] {
							vals = append(vals, GVal{id, g.name("X")})
							g.tag("enum-table-extension")
							break
						}
					}
				}
				if g.r.Chance(1, 12) { // an empty VAL_ next to non-empty tables
					vals = []GVal{}
					g.tag("enum-empty-next-to-table")
				}
				if g.r.Chance(1, 2) { // VAL_ lines need not be in index order
					for i, j := 0, len(vals)-1; i < j; i, j = i+1, j-1 {
						vals[i], vals[j] = vals[j], vals[i]
					}
				}
				g.tag("enum-shared-table")
			}
		}
		g.d.ValEncs = append(g.d.ValEncs, GValEnc{m.ID, n.name, vals})
		mx := 0
		for _, v := range vals {
			if int(v.ID) > mx {
				mx = int(v.ID)
			}
		}
		s.Max = float64(mx)
		g.tag("sig-enum")
	default:
		s.Signed = g.r.Chance(1, 3)
		s.Factor = factorPool[g.r.Below(len(factorPool))]
		s.Offset = offsetPool[g.r.Below(len(offsetPool))]
		s.Unit = unitPool[g.r.Below(len(unitPool))]
		if n.size < 63 {
			s.Max = float64(int64(1)<<uint(n.size)-1)*s.Factor + s.Offset
			s.Min = s.Offset
		} else {
			s.Max = 1e15
		}
		if g.r.Chance(1, 6) { // exactly ONE of the four parameters fractional, of either sign
			s.Factor, s.Offset, s.Min, s.Max = float64(1+g.r.Below(3)), float64(g.r.Below(5)*10-20), 0, 0
			f := oneFractionPool[g.r.Below(len(oneFractionPool))]
			switch g.r.Below(4) {
			case 0:
				s.Offset = f
			case 1:
				s.Factor = f
			case 2:
				s.Min = f
			default:
				s.Max = f
			}
			g.tag("sig-one-fractional-parameter")
		}
		if g.r.Chance(1, 6) { // boundary values
			switch g.r.Below(4) {
			case 0:
				s.Max = boundaryFloats[g.r.Below(len(boundaryFloats))]
			case 1:
				s.Min = boundaryFloats[g.r.Below(len(boundaryFloats))]
			case 2:
				s.Offset = boundaryFloats[g.r.Below(len(boundaryFloats))]
			default:
				s.Factor = boundaryFloats[g.r.Below(len(boundaryFloats))]
			}
			g.tag("sig-boundary-number")
		}
		if n.size == 64 && g.r.Chance(1, 2) { // natural range of a 64-bit type
			if s.Signed {
				s.Factor, s.Offset, s.Min, s.Max = 1, 0, -9223372036854775808, 9223372036854775807
			} else {
				s.Factor, s.Offset, s.Min, s.Max = 1, 0, 0, 18446744073709551615
			}
			g.tag("sig-64bit-natural-range")
		}
		if n.size == 1 && !s.Signed {
			if g.r.Chance(1, 2) {
				s.Factor, s.Offset, s.Min, s.Max = 1, 0, 0, 1
				g.tag("sig-1bit-plain")
			} else {
				g.tag("sig-1bit-scaled")
			}
		}
		// a twin of an earlier signal of the same size that differs in exactly one field
		if l := g.lastStd; l != nil && int(l.Size) == n.size && g.r.Chance(1, 2) {
			s.Signed, s.Factor, s.Offset, s.Min, s.Max, s.Unit = l.Signed, l.Factor, l.Offset, l.Min, l.Max, l.Unit
			switch g.r.Below(6) {
			case 0:
				s.Signed = !s.Signed
				g.tag("sig-twin-sign")
			case 1:
				s.Min = s.Min - 1
				g.tag("sig-twin-min")
			case 2:
				s.Max = s.Max + 1
				g.tag("sig-twin-max")
			case 3:
				s.Factor = s.Factor * 2
				g.tag("sig-twin-factor")
			case 4:
				s.Offset = s.Offset + 3
				g.tag("sig-twin-offset")
			default:
				s.Unit = s.Unit + "x"
				g.tag("sig-twin-unit")
			}
		}
		// the unit of an earlier standard signal of the document in another letter case ("mV" / "MV" are two units)
		if l := g.lastStd; l != nil && g.r.Chance(1, 6) {
			if v := caseVariant(l.Unit, g.r.Below(3)); v != "" {
				s.Unit = v
				g.tag("sig-unit-case-variant")
			}
		}
		g.lastStd = s
		g.tag("sig-standard")
	}
	if be {
		if (n.pos)/8 == (n.pos+n.size-1)/8 {
			g.tag("sig-be-one-byte")
		} else {
			g.tag("sig-be-multi-byte")
		}
	}
	m.Sigs = append(m.Sigs, s)
}

var attrTypeNames = []string{"int", "float", "string", "enum", "hex"}

// Generate builds one document.
func Generate(r *lib.Rng) *GDoc {
	g := &gen{r: r, d: &GDoc{Tags: map[string]int{}}, forceComment: map[*GSig]bool{}}
	d := g.d
	nn := r.Below(7)
	for i := 0; i < nn; i++ {
		d.Nodes = append(d.Nodes, g.name("N"))
	}
	if nn > 0 && r.Chance(1, 12) {
		d.Nodes = append(d.Nodes[:1], append([]string{"Vector__XXX"}, d.Nodes[1:]...)...) // placeholder listed explicitly
		g.tag("dummy-listed")
	}
	for i := r.Below(3); i > 0; i-- {
		vt := GValTable{Name: g.name("VT")}
		used := map[int]bool{}
		for j := 1 + r.Below(4); j > 0; j-- {
			id := r.Below(8)
			if !used[id] {
				used[id] = true
				vt.Vals = append(vt.Vals, GVal{uint32(id), g.name("T")})
			}
		}
		d.ValTables = append(d.ValTables, vt)
	}
	nm := r.Below(6)
	usedID := map[uint32]bool{}
	for i := 0; i < nm; i++ {
		m := &GMsg{Name: g.name("M"), Size: uint32(r.Below(9))}
		for {
			m.ID = uint32(r.Below(2048))
			if r.Chance(1, 6) {
				m.ID = uint32(r.Next()) // any 32-bit id, extended-frame flag included
			}
			if !usedID[m.ID] {
				break
			}
		}
		if len(d.Msgs) > 0 && r.Chance(1, 4) { // an id whose decimal text is that of an earlier id with digits in front
			p := d.Msgs[r.Below(len(d.Msgs))]
			dg := strconv.Itoa(1 + r.Below(9))
			if r.Chance(1, 3) {
				dg += strconv.Itoa(r.Below(10))
			}
			if v, err := strconv.ParseUint(dg+strconv.FormatUint(uint64(p.ID), 10), 10, 32); err == nil && !usedID[uint32(v)] {
				m.ID = uint32(v)
				g.idPairs = append(g.idPairs, idPair{m, p, dg})
				g.tag("msg-id-digit-prefixed")
			}
		}
		usedID[m.ID] = true
		if len(d.Nodes) > 0 && !r.Chance(1, 4) {
			m.Tx = d.Nodes[r.Below(len(d.Nodes))]
		} else {
			m.Tx = "Vector__XXX"
			g.tag("msg-no-transmitter")
		}
		be := r.Chance(1, 2)
		items := g.layout(int(m.Size) * 8)
		muxes := 0
		for _, it := range items {
			muxes += countMux(it)
		}
		extended := muxes >= 2 || (muxes == 1 && r.Chance(1, 3))
		for _, it := range items {
			g.emitNode(m, it, be, nil, nil, extended)
		}
		switch {
		case muxes == 0:
			g.tag("msg-plain")
		case muxes == 1 && !extended:
			g.tag("msg-simple-mux")
		default:
			g.tag("msg-extended-mux")
		}
		if len(m.Sigs) > 0 {
			if be {
				g.tag("msg-big-endian")
			} else {
				g.tag("msg-little-endian")
			}
		}
		if r.Chance(1, 2) { // the file need not list signals in position order
			r2 := r.Fork()
			for i := len(m.Sigs) - 1; i > 0; i-- {
				j := r2.Below(i + 1)
				m.Sigs[i], m.Sigs[j] = m.Sigs[j], m.Sigs[i]
			}
		}
		d.Msgs = append(d.Msgs, m)
	}
	g.digitExtendedNames()
	// comments
	if r.Chance(1, 2) {
		d.Comments = append(d.Comments, GComment{Kind: 0, Text: "bus " + g.name("c")})
	}
	for _, n := range d.Nodes {
		if r.Chance(1, 3) && n != "Vector__XXX" {
			d.Comments = append(d.Comments, GComment{Kind: 1, Node: n, Text: "node comment " + n})
		}
	}
	for _, m := range d.Msgs {
		if r.Chance(1, 3) {
			d.Comments = append(d.Comments, GComment{Kind: 2, Msg: m.ID, Text: "message " + m.Name + " comment"})
		}
		for _, s := range m.Sigs {
			if c := r.Chance(1, 4); c || g.forceComment[s] {
				d.Comments = append(d.Comments, GComment{Kind: 3, Msg: m.ID, Sig: s.Name, Text: "signal " + s.Name})
			}
		}
	}
	g.attributes()
	g.invalidate()
	if g.r.Chance(1, 4) {
		g.d.PadZeros = true
		g.tag("doc-zero-padded-numbers")
	}
	return d
}

func (g *gen) numFor(typ int, i int64, f float64) GNum {
	// INT/HEX are written as integers; FLOAT in either form
	if typ == 1 {
		if f == float64(int64(f)) && g.r.Chance(1, 2) {
			g.tag("num-float-as-integer")
			return GNum{Form: 0, I: int64(f)}
		}
		g.tag("num-float-as-decimal")
		return GNum{Form: 1, F: f}
	}
	return GNum{Form: 0, I: i}
}

// the BA_DEF_ value list of a send-type attribute: the library's order, or (as other tools write it)
// permuted and with entries the library does not know
func (g *gen) sendTypeList(lib []string) []string {
	vals := append([]string{}, lib...)
	switch g.r.Below(3) {
	case 1:
		for i := len(vals) - 1; i > 0; i-- {
			j := g.r.Below(i + 1)
			vals[i], vals[j] = vals[j], vals[i]
		}
		g.tag("wellknown-sendtype-list-permuted")
	case 2:
		k := 1 + g.r.Below(len(vals)-1)
		vals = append(vals[:k], append([]string{"NotUsed", "Vendor specific"}, vals[k:]...)...)
		g.tag("wellknown-sendtype-list-extended")
	}
	return vals
}

func (g *gen) attributes() {
	r, d := g.r, g.d
	type target struct {
		kind      int
		node, sig string
		msg       uint32
	}
	targets := map[int][]target{0: {{kind: 0}}}
	for _, n := range d.Nodes {
		if n != "Vector__XXX" {
			targets[1] = append(targets[1], target{kind: 1, node: n})
		}
	}
	for _, m := range d.Msgs {
		targets[2] = append(targets[2], target{kind: 2, msg: m.ID})
		for _, s := range m.Sigs {
			targets[3] = append(targets[3], target{kind: 3, msg: m.ID, sig: s.Name})
		}
	}
	na := r.Below(7)
	for i := 0; i < na; i++ {
		a := GAttr{Kind: r.Below(4), Type: r.Below(5), Name: g.name("att")}
		var def GNum
		mkval := func() GNum { return GNum{} }
		switch a.Type {
		case 0, 4:
			a.MinI = int64(r.Below(20))
			if a.Type == 0 && r.Chance(1, 2) {
				a.MinI = -int64(r.Below(50))
			}
			a.MaxI = a.MinI + int64(r.Below(1000))
			pickI := func() int64 { return a.MinI + int64(r.Below(int(a.MaxI-a.MinI+1))) }
			if r.Chance(1, 3) { // bounds and values at 2^31, 2^32, 2^53, 2^63-1 (and negatives for INT)
				cands := []int64{}
				for _, b := range boundaryInts {
					if a.Type == 0 || (b >= 0 && b <= 4294967295) {
						cands = append(cands, b)
					}
				}
				i := r.Below(len(cands) - 1)
				j := i + 1 + r.Below(len(cands)-i-1)
				a.MinI, a.MaxI = cands[i], cands[j]
				inside := []int64{}
				for _, b := range cands {
					if b >= a.MinI && b <= a.MaxI {
						inside = append(inside, b)
					}
				}
				pickI = func() int64 { return inside[r.Below(len(inside))] }
				g.tag("attr-boundary-integers")
			}
			def = GNum{Form: 0, I: pickI()}
			mkval = func() GNum { return GNum{Form: 0, I: pickI()} }
		case 1:
			a.MinF = float64(r.Below(10)) - 5
			a.MaxF = a.MinF + float64(1+r.Below(100)) + 0.5
			pick := func() float64 {
				v := a.MinF + float64(r.Below(int(a.MaxF-a.MinF)))
				if r.Chance(1, 2) {
					v += 0.25
				}
				return v
			}
			def = g.numFor(1, 0, pick())
			mkval = func() GNum { return g.numFor(1, 0, pick()) }
		case 2:
			def = GNum{Form: 2, S: "def " + a.Name}
			mkval = func() GNum { return GNum{Form: 2, S: "val " + g.name("v")} }
		case 3:
			for j := 2 + r.Below(3); j > 0; j-- {
				a.Enum = append(a.Enum, g.name("E"))
			}
			def = GNum{Form: 2, S: a.Enum[0]}
			if r.Chance(1, 3) {
				def = GNum{Form: 2, S: a.Enum[r.Below(len(a.Enum))]}
			}
			mkval = func() GNum { return GNum{Form: 0, I: int64(r.Below(len(a.Enum)))} }
		}
		g.tag("attr-" + attrTypeNames[a.Type] + "-" + []string{"general", "node", "message", "signal"}[a.Kind])
		d.Attrs = append(d.Attrs, a)
		d.AttrDefs = append(d.AttrDefs, GAttrDef{a.Name, def})
		ts := targets[a.Kind]
		for _, t := range ts {
			if r.Chance(1, 2) {
				d.AttrVals = append(d.AttrVals, GAttrVal{Kind: t.kind, Name: a.Name, Node: t.node, Msg: t.msg, Sig: t.sig, V: mkval()})
			}
		}
	}
	// well-known attributes
	if len(targets[2]) > 0 && r.Chance(1, 2) {
		wk := []struct {
			name string
			max  int64
		}{{"GenMsgCycleTime", 3600000}, {"GenMsgDelayTime", 1000}, {"GenMsgStartDelayTime", 100000}}
		for _, w := range wk {
			if r.Chance(1, 2) {
				continue
			}
			// declared INT (the usual case), HEX, or - rarely, the importer refuses the value then - FLOAT
			wa := GAttr{Kind: 2, Type: 0, Name: w.name, MinI: 0, MaxI: w.max}
			switch r.Below(8) {
			case 0, 1, 2:
				wa.Type = 4
			case 3:
				wa.Type = 1
				wa.MinF, wa.MaxF = 0, float64(w.max)
			}
			g.tag("wellknown-msg-time-declared-" + attrTypeNames[wa.Type])
			d.Attrs = append(d.Attrs, wa)
			d.AttrDefs = append(d.AttrDefs, GAttrDef{w.name, GNum{Form: 0, I: 0}})
			for _, t := range targets[2] {
				if r.Chance(1, 2) {
					v := GNum{Form: 0, I: int64(r.Below(int(w.max) + 1))}
					if r.Chance(1, 12) { // written as a decimal: not an integer value any more
						v = GNum{Form: 1, F: float64(v.I) + 0.5}
						g.tag("wellknown-msg-time-as-decimal")
					}
					d.AttrVals = append(d.AttrVals, GAttrVal{Kind: 2, Name: w.name, Msg: t.msg, V: v})
					g.tag("wellknown-msg-time")
				}
			}
		}
		if r.Chance(1, 2) {
			vals := g.sendTypeList([]string{"NoMsgSendType", "Cyclic", "CyclicIfActive", "CyclicAndTriggered", "CyclicIfActiveAndTriggered"})
			d.Attrs = append(d.Attrs, GAttr{Kind: 2, Type: 3, Name: "GenMsgSendType", Enum: vals})
			d.AttrDefs = append(d.AttrDefs, GAttrDef{"GenMsgSendType", GNum{Form: 2, S: vals[0]}})
			for _, t := range targets[2] {
				if r.Chance(1, 2) {
					v := GNum{Form: 0, I: int64(r.Below(len(vals)))}
					if r.Chance(1, 3) { // the value written as a string
						v = GNum{Form: 2, S: vals[v.I]}
						g.tag("wellknown-sendtype-as-string")
					}
					d.AttrVals = append(d.AttrVals, GAttrVal{Kind: 2, Name: "GenMsgSendType", Msg: t.msg, V: v})
					g.tag("wellknown-msg-sendtype")
				}
			}
		}
	}
	if len(targets[3]) > 0 && r.Chance(1, 2) {
		if r.Chance(1, 2) {
			// declared FLOAT, INT or HEX (real files use all three), rarely ENUM or STRING; the value is
			// written as an integer or as a decimal whatever the declaration says
			sa := GAttr{Kind: 3, Type: 1, Name: "GenSigStartValue", MinF: 0, MaxF: 10000}
			sdef := g.numFor(1, 0, 0)
			switch r.Below(10) {
			case 0, 1, 2:
				sa.Type, sa.MinI, sa.MaxI, sdef = 0, 0, 10000, GNum{Form: 0, I: 0}
			case 3, 4, 5:
				sa.Type, sa.MinI, sa.MaxI, sdef = 4, 0, 10000, GNum{Form: 0, I: 0}
			case 6:
				sa.Type, sa.Enum, sdef = 3, []string{"Zero", "One", "Two"}, GNum{Form: 2, S: "Zero"}
			case 7:
				sa.Type, sdef = 2, GNum{Form: 2, S: "0"}
			}
			g.tag("wellknown-sig-startvalue-declared-" + attrTypeNames[sa.Type])
			d.Attrs = append(d.Attrs, sa)
			d.AttrDefs = append(d.AttrDefs, GAttrDef{"GenSigStartValue", sdef})
			for _, t := range targets[3] {
				if r.Chance(1, 3) {
					var v GNum
					switch sa.Type {
					case 1:
						f := float64(r.Below(1000))
						if r.Chance(1, 2) {
							f += 0.5
						}
						v = g.numFor(1, 0, f)
					case 0, 4:
						v = GNum{Form: 0, I: int64(1 + r.Below(1000))}
						if r.Chance(1, 4) {
							v = GNum{Form: 1, F: float64(v.I) + 0.5}
							g.tag("wellknown-sig-startvalue-decimal-for-integer-declaration")
						}
					case 3:
						v = GNum{Form: 0, I: int64(r.Below(3))}
					default:
						v = GNum{Form: 2, S: strconv.Itoa(r.Below(1000))}
					}
					d.AttrVals = append(d.AttrVals, GAttrVal{Kind: 3, Name: "GenSigStartValue", Msg: t.msg, Sig: t.sig, V: v})
					g.tag("wellknown-sig-startvalue")
				}
			}
		}
		if r.Chance(1, 2) {
			vals := g.sendTypeList([]string{"NoSigSendType", "Cyclic", "OnWrite", "OnWriteWithRepetition", "OnChange", "OnChangeWithRepetition", "IfActive", "IfActiveWithRepetition"})
			d.Attrs = append(d.Attrs, GAttr{Kind: 3, Type: 3, Name: "GenSigSendType", Enum: vals})
			d.AttrDefs = append(d.AttrDefs, GAttrDef{"GenSigSendType", GNum{Form: 2, S: vals[0]}})
			for _, t := range targets[3] {
				if r.Chance(1, 3) {
					v := GNum{Form: 0, I: int64(r.Below(len(vals)))}
					if r.Chance(1, 3) {
						v = GNum{Form: 2, S: vals[v.I]}
						g.tag("wellknown-sendtype-as-string")
					}
					d.AttrVals = append(d.AttrVals, GAttrVal{Kind: 3, Name: "GenSigSendType", Msg: t.msg, Sig: t.sig, V: v})
					g.tag("wellknown-sig-sendtype")
				}
			}
		}
	}
}

// invalidate turns about one document in five into one the importer should refuse (or that is
// at least unusual), so that the accept/refuse decision of model and code is compared as well.
func (g *gen) invalidate() {
	r, d := g.r, g.d
	if !r.Chance(1, 5) {
		g.tag("doc-valid")
		return
	}
	g.tag("doc-mutated")
	d.Mutated = true
	var msgs []*GMsg
	for _, m := range d.Msgs {
		if len(m.Sigs) > 0 {
			msgs = append(msgs, m)
		}
	}
	pickSig := func() (*GMsg, *GSig) {
		if len(msgs) == 0 {
			return nil, nil
		}
		m := msgs[r.Below(len(msgs))]
		return m, m.Sigs[r.Below(len(m.Sigs))]
	}
	switch r.Below(19) {
	case 15, 16, 17, 18: // overlapping signals, in every configuration: the importer must refuse
		// 15 contained, 16 containing / identical, 17 plain signal inside the multiplexer's span, 18 two signals of one group
		which := 15 + r.Below(4)
		for try := 0; try < 20; try++ {
			m, s1 := pickSig()
			if s1 == nil || len(m.Sigs) < 2 {
				continue
			}
			s2 := m.Sigs[r.Below(len(m.Sigs))]
			if s2 == s1 {
				continue
			}
			switch which {
			case 15:
				if s1.Size < 2 {
					continue
				}
				s2.Start, s2.BE, s2.Size = s1.Start, s1.BE, 1+uint32(r.Below(int(s1.Size)-1))
			case 16:
				s2.Start, s2.BE, s2.Size = s1.Start, s1.BE, s1.Size+uint32(r.Below(2))
			case 17:
				if !(s1.Muxed || s1.Muxor) || s2.Muxed || s2.Muxor {
					continue
				}
				s2.Start, s2.BE, s2.Size = s1.Start, s1.BE, s1.Size
			default:
				if !s1.Muxed || !s2.Muxed || s1.Muxor || s2.Muxor {
					continue
				}
				s2.Switch, s2.Start, s2.BE = s1.Switch, s1.Start, s1.BE
			}
			g.tag(fmt.Sprintf("doc-overlap-%d", which))
			return
		}
	case 14: // the multiplexor switch loses its M: the multiplexed signals have no switch any more
		for _, m := range msgs {
			for _, s := range m.Sigs {
				if s.Muxor && !s.Muxed {
					s.Muxor = false
					return
				}
			}
		}
	case 12: // a multiplexor switch of size 0
		for _, m := range msgs {
			for _, s := range m.Sigs {
				if s.Muxor {
					s.Size = 0
					return
				}
			}
		}
	case 13: // a nested multiplexer made the multiplexor of its own multiplexor
		muxor := map[string]bool{}
		for _, m := range msgs {
			for _, s := range m.Sigs {
				if s.Muxor {
					muxor[fmt.Sprintf("%d_%s", m.ID, s.Name)] = true
				}
			}
		}
		for i := range d.ExtMuxes {
			x := &d.ExtMuxes[i]
			if muxor[fmt.Sprintf("%d_%s", x.Msg, x.Muxed)] {
				x.Muxor, x.Muxed = x.Muxed, x.Muxor
				return
			}
		}
	case 0:
		if _, s := pickSig(); s != nil {
			s.Start++
		}
	case 1:
		if _, s := pickSig(); s != nil {
			s.Size++
		}
	case 2:
		if m, s := pickSig(); s != nil {
			s.Name = m.Sigs[0].Name
		}
	case 3:
		if _, s := pickSig(); s != nil {
			s.BE = !s.BE
		}
	case 4:
		if _, s := pickSig(); s != nil {
			s.Receivers = []string{"Nowhere"}
		}
	case 5:
		if len(d.Msgs) > 0 {
			d.Msgs[r.Below(len(d.Msgs))].Tx = "Nobody"
		}
	case 6:
		if len(d.Msgs) > 1 {
			d.Msgs[1].ID = d.Msgs[0].ID
		}
	case 7:
		if len(d.Msgs) > 1 {
			d.Msgs[1].Name = d.Msgs[0].Name
		}
	case 8:
		if len(d.Nodes) > 1 {
			d.Nodes[1] = d.Nodes[0]
		}
	case 9:
		if len(d.AttrVals) > 0 {
			v := &d.AttrVals[r.Below(len(d.AttrVals))]
			if v.V.Form == 0 {
				v.V.I += 100000
			}
		}
	case 10:
		if len(d.AttrDefs) > 0 {
			i := r.Below(len(d.AttrDefs))
			d.AttrDefs = append(d.AttrDefs[:i], d.AttrDefs[i+1:]...)
		}
	case 11:
		if _, s := pickSig(); s != nil {
			s.Size = 0
		}
	}
}
