package lib

import (
	"fmt"
	"regexp"
	"strings"
)

var busFields = []string{"desc", "attrs", "nodes", "messages"}
var msgFields = []string{"canid", "name", "size", "order", "cycle", "delay", "startdelay", "sendtype", "sender", "receivers", "desc", "attrs", "signals"}
var sigFields = []string{"name", "kind", "start", "size", "signed", "scale", "offset", "min", "max", "unit", "enum", "parent", "membership", "desc", "startval", "sendtype", "attrs"}

func label(path []string, i int) string {
	if len(path) == 0 && i < len(busFields) {
		return busFields[i]
	}
	if len(path) >= 2 && strings.HasPrefix(path[len(path)-2], "messages") && i < len(msgFields) {
		return msgFields[i]
	}
	if len(path) >= 2 && strings.HasPrefix(path[len(path)-2], "signals") && i < len(sigFields) {
		return sigFields[i]
	}
	return fmt.Sprint(i)
}

func nameOf(t Tok) string {
	if t.Kind == 'l' {
		for i := 0; i < len(t.L) && i < 2; i++ {
			if t.L[i].Kind == 's' {
				return t.L[i].S
			}
		}
	}
	return ""
}

// DiffTok returns the path of the first difference between two projections of a bus (TokBus)
// and both values; ok=true when they are equal.
func DiffTok(a, b Tok) (path string, av string, bv string, same bool) {
	p, x, y, same := diffTok(a, b, nil)
	return strings.Join(p, "/"), x, y, same
}

func diffTok(a, b Tok, path []string) ([]string, string, string, bool) {
	if a.Kind == 'l' && b.Kind == 'l' {
		for i := 0; i < len(a.L) && i < len(b.L); i++ {
			lab := label(path, i)
			if lab[0] >= '0' && lab[0] <= '9' {
				if n := nameOf(a.L[i]); n != "" {
					lab = fmt.Sprintf("%s[%s]", lab, n)
				}
			}
			if p, x, y, same := diffTok(a.L[i], b.L[i], append(append([]string{}, path...), lab)); !same {
				return p, x, y, false
			}
		}
		if len(a.L) != len(b.L) {
			return append(append([]string{}, path...), "#len"), fmt.Sprint(len(a.L)), fmt.Sprint(len(b.L)), false
		}
		return nil, "", "", true
	}
	if a.String() != b.String() {
		return path, show(a), show(b), false
	}
	return nil, "", "", true
}

func show(t Tok) string {
	switch t.Kind {
	case 'i':
		return fmt.Sprint(t.I)
	case 'u':
		return fmt.Sprint(t.U)
	case 's':
		return fmt.Sprintf("%q", t.S)
	case 'f':
		return fmt.Sprint(t.F)
	default:
		return t.String()
	}
}

// DiffTokAll returns every leaf difference between two projections (path, both values), at most max of them;
// lists of different length report `#len` and the differences of their common prefix.
func DiffTokAll(a, b Tok, max int) [][3]string {
	var out [][3]string
	var walk func(a, b Tok, path []string)
	walk = func(a, b Tok, path []string) {
		if len(out) >= max {
			return
		}
		if a.Kind == 'l' && b.Kind == 'l' {
			for i := 0; i < len(a.L) && i < len(b.L); i++ {
				lab := label(path, i)
				if lab[0] >= '0' && lab[0] <= '9' {
					if n := nameOf(a.L[i]); n != "" {
						lab = fmt.Sprintf("%s[%s]", lab, n)
					}
				}
				walk(a.L[i], b.L[i], append(append([]string{}, path...), lab))
			}
			if len(a.L) != len(b.L) && len(out) < max {
				out = append(out, [3]string{strings.Join(append(append([]string{}, path...), "#len"), "/"), fmt.Sprint(len(a.L)), fmt.Sprint(len(b.L))})
			}
			return
		}
		if a.String() != b.String() {
			out = append(out, [3]string{strings.Join(path, "/"), show(a), show(b)})
		}
	}
	walk(a, b, nil)
	return out
}

var idxRe = regexp.MustCompile(`\[[^\]]*\]|/\d+|^\d+`)

// DiffSignature turns a difference path into a classifier: indices and entity names dropped.
func DiffSignature(prefix, path string) string {
	p := idxRe.ReplaceAllString(path, "")
	p = strings.Trim(strings.ReplaceAll(p, "/", "-"), "-")
	p = strings.ReplaceAll(p, "--", "-")
	if p == "" {
		p = "root"
	}
	return prefix + "-" + p
}
