package lib

import (
	"bufio"
	"bytes"
	"fmt"
	"os"
)

// LineFile is a case / result file of the correspondence run: every record is one line, the number of
// lines is counted, and Finish writes the marker `END <n>` so that a truncated or half-written file
// cannot be mistaken for a complete one.  Errors of Create / Write / Flush / Close are kept.
type LineFile struct {
	f   *os.File
	w   *bufio.Writer
	N   int
	Err error
}

func CreateLineFile(path string) *LineFile {
	f, err := os.Create(path)
	lf := &LineFile{f: f, Err: err}
	if err == nil {
		lf.w = bufio.NewWriterSize(f, 1<<20)
	}
	return lf
}

func (l *LineFile) Write(p []byte) (int, error) {
	if l.Err != nil {
		return 0, l.Err
	}
	l.N += bytes.Count(p, []byte{'\n'})
	n, err := l.w.Write(p)
	if err != nil {
		l.Err = err
	}
	return n, err
}

// Finish writes the END marker, flushes and closes; it returns the first error seen on the file.
func (l *LineFile) Finish() error {
	if l.Err != nil {
		return l.Err
	}
	if _, err := fmt.Fprintf(l.w, "END %d\n", l.N); err != nil {
		return err
	}
	if err := l.w.Flush(); err != nil {
		return err
	}
	return l.f.Close()
}
