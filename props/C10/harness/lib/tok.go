// Package lib holds what the C10 and C11 harnesses share: the token-tree exchange format with
// the extracted Coq model (coq/C10/Tok.v), the walk of a Bus through public getters into the
// canonical projection, local evaluators of the model invariants, and the seeded PRNG.
package lib

import (
	"encoding/hex"
	"math"
	"strconv"
	"strings"
)

// Tok is a node of the token tree: exactly one of the variants is used.
type Tok struct {
	Kind byte // 'i', 'u', 's', 'f', 'l'
	I    int64
	U    uint64
	S    string
	F    float64
	L    []Tok
}

func TI(v int64) Tok   { return Tok{Kind: 'i', I: v} }
func TU(v uint64) Tok  { return Tok{Kind: 'u', U: v} }
func TS(s string) Tok  { return Tok{Kind: 's', S: s} }
func TF(f float64) Tok { return Tok{Kind: 'f', F: f} }
func TL(l ...Tok) Tok  { return Tok{Kind: 'l', L: l} }
func TLs(l []Tok) Tok  { return Tok{Kind: 'l', L: l} }
func TB(b bool) Tok {
	if b {
		return TI(1)
	}
	return TI(0)
}
func TStrs(l []string) Tok {
	r := make([]Tok, len(l))
	for i, s := range l {
		r[i] = TS(s)
	}
	return TLs(r)
}

// FloatParts returns the canonical dyadic form m * 2^e (m odd, or 0/0) of a finite double.
// -0 maps to 0; NaN/Inf (never produced by the generators) map to 0/0 with ok=false.
func FloatParts(f float64) (m int64, e int64, ok bool) {
	if math.IsNaN(f) || math.IsInf(f, 0) {
		return 0, 0, false
	}
	if f == 0 {
		return 0, 0, true
	}
	fr, ex := math.Frexp(f) // f = fr * 2^ex, 0.5 <= |fr| < 1
	m = int64(fr * (1 << 53))
	e = int64(ex) - 53
	for m%2 == 0 {
		m /= 2
		e++
	}
	return m, e, true
}

func (t Tok) write(b *strings.Builder) {
	switch t.Kind {
	case 'i':
		b.WriteByte('i')
		b.WriteString(strconv.FormatInt(t.I, 10))
	case 'u':
		b.WriteByte('i')
		b.WriteString(strconv.FormatUint(t.U, 10))
	case 's':
		b.WriteByte('s')
		b.WriteString(hex.EncodeToString([]byte(t.S)))
	case 'f':
		m, e, _ := FloatParts(t.F)
		b.WriteByte('f')
		b.WriteString(strconv.FormatInt(m, 10))
		b.WriteByte(':')
		b.WriteString(strconv.FormatInt(e, 10))
	default:
		b.WriteByte('(')
		for _, x := range t.L {
			b.WriteByte(' ')
			x.write(b)
		}
		b.WriteString(" )")
	}
}

func (t Tok) String() string {
	b := new(strings.Builder)
	t.write(b)
	return b.String()
}

// Rng is SplitMix64, the PRNG every choice of the harnesses derives from.
type Rng struct{ S uint64 }

func (r *Rng) Next() uint64 {
	r.S += 0x9E3779B97F4A7C15
	z := r.S
	z = (z ^ (z >> 30)) * 0xBF58476D1CE4E5B9
	z = (z ^ (z >> 27)) * 0x94D049BB133111EB
	return z ^ (z >> 31)
}
func (r *Rng) Below(n int) int {
	if n <= 0 {
		return 0
	}
	return int(r.Next() % uint64(n))
}
func (r *Rng) Chance(num, den int) bool { return r.Below(den) < num }
func (r *Rng) Range(lo, hi int) int     { return lo + r.Below(hi-lo+1) }
func (r *Rng) Fork() *Rng               { return &Rng{S: r.Next()} }
