package lib

import (
	"sort"
	"strings"

	"github.com/squadracorsepolito/acmelib"
)

// Canonical projection of a Bus, read through public getters only (mirrors coq/C10/BusModel.v
// proj_bus: names after the exporter's sanitising, signals of every depth as one flat list
// sorted by name, messages sorted by CAN-ID).

type PDef struct {
	Kind        int // 0 string, 1 int, 2 float, 3 enum
	S           string
	I, Mn, Mx   int64
	Hex         bool
	F, FMn, FMx float64
	Vals        []string
}
type PVal struct {
	Kind int // 0 string, 1 int, 2 float
	S    string
	I    int64
	F    float64
}
type PAsg struct {
	Name string
	Def  PDef
	Val  PVal
}
type PSig struct {
	Name                    string
	Kind                    int // 0 standard, 1 enum, 2 multiplexer
	Start, Size             int64
	Signed                  bool
	Scale, Offset, Min, Max float64
	Unit                    string
	Enum                    []PEnumVal
	Parent                  string
	Membership              []int64
	Desc                    string
	StartVal                float64
	SendType                int64
	Attrs                   []PAsg
	// not part of the projection
	Depth    int
	RawName  string
	GroupCnt int
	Top      bool
	TypeKind int // standard signals: 1 flag, 2 integer, 3 decimal, 0 custom; -1 otherwise
}
type PEnumVal struct {
	Index int64
	Name  string
}
type PMsg struct {
	CANID                              int64
	Name                               string
	Size                               int64
	Order                              int64 // 0 little endian, 1 big endian
	Cycle, Delay, StartDelay, SendType int64
	Sender                             string
	Receivers                          []string
	Desc                               string
	Attrs                              []PAsg
	Sigs                               []PSig
	Msg                                *acmelib.Message
}
type PNode struct {
	Name  string
	Desc  string
	Attrs []PAsg
	ID    int64
}
type PBus struct {
	Desc  string
	Attrs []PAsg
	Nodes []PNode
	Msgs  []PMsg
}

// ClearSpaces is helpers.go clearSpaces (the exporter's name sanitising).
func ClearSpaces(s string) string {
	return strings.ReplaceAll(strings.TrimSpace(s), " ", "_")
}

func walkAttrs(l []*acmelib.AttributeAssignment) []PAsg {
	res := []PAsg{}
	for _, a := range l {
		att := a.Attribute()
		p := PAsg{Name: ClearSpaces(att.Name())}
		switch att.Type() {
		case acmelib.AttributeTypeString:
			sa, _ := att.ToString()
			p.Def = PDef{Kind: 0, S: sa.DefValue()}
		case acmelib.AttributeTypeInteger:
			ia, _ := att.ToInteger()
			p.Def = PDef{Kind: 1, I: int64(ia.DefValue()), Mn: int64(ia.Min()), Mx: int64(ia.Max()), Hex: ia.IsHexFormat()}
		case acmelib.AttributeTypeFloat:
			fa, _ := att.ToFloat()
			p.Def = PDef{Kind: 2, F: fa.DefValue(), FMn: fa.Min(), FMx: fa.Max()}
		case acmelib.AttributeTypeEnum:
			ea, _ := att.ToEnum()
			p.Def = PDef{Kind: 3, S: ea.DefValue(), Vals: ea.Values()}
		}
		switch v := a.Value().(type) {
		case string:
			p.Val = PVal{Kind: 0, S: v}
		case int:
			p.Val = PVal{Kind: 1, I: int64(v)}
		case float64:
			p.Val = PVal{Kind: 2, F: v}
		default:
			p.Val = PVal{Kind: 9}
		}
		res = append(res, p)
	}
	sort.SliceStable(res, func(i, j int) bool { return res[i].Name < res[j].Name })
	return res
}

func walkSignal(sig acmelib.Signal, parent string, depth int, out *[]PSig, seen map[acmelib.EntityID]int, group int, groupCnt int) {
	if idx, ok := seen[sig.EntityID()]; ok {
		if group >= 0 {
			(*out)[idx].Membership = append((*out)[idx].Membership, int64(group))
		}
		return
	}
	p := PSig{Name: ClearSpaces(sig.Name()), RawName: sig.Name(), Start: int64(sig.GetStartBit()), Parent: parent,
		Desc: sig.Desc(), StartVal: sig.StartValue(), SendType: int64(sig.SendType()),
		Attrs: walkAttrs(sig.AttributeAssignments()), Depth: depth, Top: depth == 0,
		Scale: 1, Membership: []int64{}, Enum: []PEnumVal{}, TypeKind: -1}
	if group >= 0 {
		p.Membership = append(p.Membership, int64(group))
	}
	switch sig.Kind() {
	case acmelib.SignalKindStandard:
		ss, _ := sig.ToStandard()
		p.Kind = 0
		p.Size = int64(ss.GetSize())
		t := ss.Type()
		p.Signed, p.Scale, p.Offset, p.Min, p.Max = t.Signed(), t.Scale(), t.Offset(), t.Min(), t.Max()
		p.TypeKind = int(t.Kind())
		if u := ss.Unit(); u != nil {
			p.Unit = u.Symbol()
		}
	case acmelib.SignalKindEnum:
		es, _ := sig.ToEnum()
		p.Kind = 1
		p.Size = int64(es.GetSize())
		for _, v := range es.Enum().Values() {
			p.Enum = append(p.Enum, PEnumVal{int64(v.Index()), v.Name()})
		}
		sort.SliceStable(p.Enum, func(i, j int) bool { return p.Enum[i].Index < p.Enum[j].Index })
	case acmelib.SignalKindMultiplexer:
		ms, _ := sig.ToMultiplexer()
		p.Kind = 2
		p.Size = int64(ms.GetGroupCountSize())
		p.GroupCnt = ms.GroupCount()
	}
	seen[sig.EntityID()] = len(*out)
	*out = append(*out, p)
	if sig.Kind() == acmelib.SignalKindMultiplexer {
		ms, _ := sig.ToMultiplexer()
		for gid, grp := range ms.GetSignalGroups() {
			for _, c := range grp {
				walkSignal(c, p.Name, depth+1, out, seen, gid, ms.GroupCount())
			}
		}
	}
}

// WalkMessage projects one message.
func WalkMessage(m *acmelib.Message) PMsg {
	pm := PMsg{CANID: int64(m.GetCANID()), Name: ClearSpaces(m.Name()), Size: int64(m.SizeByte()),
		Cycle: int64(m.CycleTime()), Delay: int64(m.DelayTime()), StartDelay: int64(m.StartDelayTime()),
		SendType: int64(m.SendType()), Desc: m.Desc(), Attrs: walkAttrs(m.AttributeAssignments()), Msg: m,
		Receivers: []string{}, Sigs: []PSig{}}
	if s := m.SenderNodeInterface(); s != nil {
		pm.Sender = ClearSpaces(s.Node().Name())
	}
	for _, r := range m.Receivers() {
		pm.Receivers = append(pm.Receivers, ClearSpaces(r.Node().Name()))
	}
	sort.Strings(pm.Receivers)
	seen := map[acmelib.EntityID]int{}
	for _, s := range m.Signals() {
		walkSignal(s, "", 0, &pm.Sigs, seen, -1, 0)
	}
	if len(pm.Sigs) > 0 && m.ByteOrder() == acmelib.MessageByteOrderBigEndian {
		pm.Order = 1
	}
	sort.SliceStable(pm.Sigs, func(i, j int) bool { return pm.Sigs[i].Name < pm.Sigs[j].Name })
	return pm
}

// WalkBus projects a bus.
func WalkBus(b *acmelib.Bus) PBus {
	pb := PBus{Desc: b.Desc(), Attrs: walkAttrs(b.AttributeAssignments()), Nodes: []PNode{}, Msgs: []PMsg{}}
	for _, ni := range b.NodeInterfaces() {
		n := ni.Node()
		pb.Nodes = append(pb.Nodes, PNode{Name: ClearSpaces(n.Name()), Desc: n.Desc(), Attrs: walkAttrs(n.AttributeAssignments()), ID: int64(n.ID())})
		for _, m := range ni.SentMessages() {
			pb.Msgs = append(pb.Msgs, WalkMessage(m))
		}
	}
	sort.SliceStable(pb.Msgs, func(i, j int) bool { return pb.Msgs[i].CANID < pb.Msgs[j].CANID })
	return pb
}

func tokDef(d PDef) Tok {
	switch d.Kind {
	case 0:
		return TL(TI(0), TS(d.S))
	case 1:
		return TL(TI(1), TI(d.I), TI(d.Mn), TI(d.Mx), TB(d.Hex))
	case 2:
		return TL(TI(2), TF(d.F), TF(d.FMn), TF(d.FMx))
	default:
		return TL(TI(3), TS(d.S), TStrs(d.Vals))
	}
}
func tokVal(v PVal) Tok {
	switch v.Kind {
	case 0:
		return TL(TI(0), TS(v.S))
	case 1:
		return TL(TI(1), TI(v.I))
	default:
		return TL(TI(2), TF(v.F))
	}
}
func TokAsgs(l []PAsg) Tok {
	r := []Tok{}
	for _, a := range l {
		r = append(r, TL(TS(a.Name), tokDef(a.Def), tokVal(a.Val)))
	}
	return TLs(r)
}
func tokInts(l []int64) Tok {
	r := []Tok{}
	for _, v := range l {
		r = append(r, TI(v))
	}
	return TLs(r)
}
func TokSig(s PSig) Tok {
	ev := []Tok{}
	for _, e := range s.Enum {
		ev = append(ev, TL(TI(e.Index), TS(e.Name)))
	}
	return TL(TS(s.Name), TI(int64(s.Kind)), TI(s.Start), TI(s.Size), TB(s.Signed),
		TF(s.Scale), TF(s.Offset), TF(s.Min), TF(s.Max), TS(s.Unit), TLs(ev),
		TS(s.Parent), tokInts(s.Membership), TS(s.Desc), TF(s.StartVal), TI(s.SendType), TokAsgs(s.Attrs))
}
func TokMsg(m PMsg) Tok {
	sg := []Tok{}
	for _, s := range m.Sigs {
		sg = append(sg, TokSig(s))
	}
	return TL(TI(m.CANID), TS(m.Name), TI(m.Size), TI(m.Order), TI(m.Cycle), TI(m.Delay), TI(m.StartDelay),
		TI(m.SendType), TS(m.Sender), TStrs(m.Receivers), TS(m.Desc), TokAsgs(m.Attrs), TLs(sg))
}
func TokBus(b PBus) Tok {
	ns := []Tok{}
	for _, n := range b.Nodes {
		ns = append(ns, TL(TS(n.Name), TS(n.Desc), TokAsgs(n.Attrs)))
	}
	ms := []Tok{}
	for _, m := range b.Msgs {
		ms = append(ms, TokMsg(m))
	}
	return TL(TS(b.Desc), TokAsgs(b.Attrs), TLs(ns), TLs(ms))
}
