// Command c10 is the C10 harness: it generates DBC documents (grammar generator + mutated real
// files), imports each with acmelib.ImportDBCFile, evaluates the property predicate, the
// invariants and the decode rule on the result, and writes the cases (parser AST + payloads) and
// the implementation's projected results for the comparison with the extracted Coq model.
package main

import (
	"encoding/json"
	"flag"
	"fmt"
	"os"
	"path/filepath"
	"sort"
	"strings"

	"github.com/squadracorsepolito/acmelib"
	"github.com/squadracorsepolito/acmelib/dbc"
	"verif/c10/lib"
)

type failure struct {
	Case   string `json:"case"`
	Sig    string `json:"sig"`
	Detail string `json:"detail"`
	Text   string `json:"text"`
	Lines  int    `json:"lines"`
}

type summary struct {
	Cases        int                 `json:"cases"`
	Imported     int                 `json:"imported"`
	Refused      int                 `json:"refused"`
	ParseRefused int                 `json:"parse_refused"`
	Nontrivial   int                 `json:"nontrivial"`
	Signals      int                 `json:"signals"`
	Decodes      int                 `json:"decodes"`
	Hist         map[string]int      `json:"hist"`
	Failures     map[string]failure  `json:"failures"`
	Samples      []string            `json:"samples"`
	FailedCases  map[string][]string `json:"failed_cases"`
	RefusedValid map[string]string   `json:"refused_valid"`
	CaseLines    int                 `json:"case_lines"` // records written to cases.txt / impl.txt (END marker carries the same number)
	ImplLines    int                 `json:"impl_lines"`
}

func safeImport(name, text string) (bus *acmelib.Bus, err error, panicked string) {
	defer func() {
		if r := recover(); r != nil {
			panicked = fmt.Sprint(r)
		}
	}()
	bus, err = acmelib.ImportDBCFile(name, strings.NewReader(text))
	return
}

func safeParse(name, text string) (f *dbc.File, err error) {
	defer func() {
		if r := recover(); r != nil {
			err = fmt.Errorf("parser panic: %v", r)
		}
	}()
	return dbc.Parse(name, strings.NewReader(text), false)
}

type runner struct {
	sum     *summary
	cases   *lib.LineFile
	impl    *lib.LineFile
	texts   string
	seen    map[string]bool
	verbose bool
}

func (rn *runner) fail(id, text string, f finding) {
	if len(rn.sum.FailedCases[id]) < 8 {
		rn.sum.FailedCases[id] = append(rn.sum.FailedCases[id], f.Sig)
	}
	lines := strings.Count(text, "\n")
	if old, ok := rn.sum.Failures[f.Sig]; ok && old.Lines <= lines {
		return
	}
	rn.sum.Failures[f.Sig] = failure{Case: id, Sig: f.Sig, Detail: f.Detail, Text: text, Lines: lines}
}

// run one document text; doc is what the file says (nil: derive it from the parsed AST)
func (rn *runner) run(id, text string, doc *GDoc, payloads [][]byte) {
	rn.sum.Cases++
	name := "case.dbc"
	ast, perr := safeParse(name, text)
	bus, ierr, pan := safeImport(name, text)
	if pan != "" {
		rn.fail(id, text, finding{"c10-import-panic", "ImportDBCFile panics: " + pan})
	}
	if perr != nil {
		rn.sum.ParseRefused++
		if ierr == nil && pan == "" {
			rn.fail(id, text, finding{"c10-import-accepts-unparsable", "dbc.Parse refuses the text (" + perr.Error() + ") but ImportDBCFile succeeds"})
		}
		return
	}
	if doc == nil {
		doc = FromAST(ast)
	}
	pl := []lib.Tok{}
	for _, p := range payloads {
		bs := []lib.Tok{}
		for _, b := range p {
			bs = append(bs, lib.TI(int64(b)))
		}
		pl = append(pl, lib.TLs(bs))
	}
	fmt.Fprintf(rn.cases, "I %s %s\n", id, lib.TL(ASTTok(name, ast), lib.TLs(pl)).String())
	if pan != "" {
		fmt.Fprintf(rn.impl, "%s ( s70616e6963 )\n", id)
		return
	}
	if ierr != nil {
		rn.sum.Refused++
		if doc != nil && !doc.Mutated && strings.HasPrefix(id, "g") {
			e := ierr.Error()
			if i := strings.LastIndex(e, " : "); i >= 0 {
				e = e[i+3:]
			}
			rn.sum.Hist["refused-valid"]++
			if len(rn.sum.RefusedValid) < 40 {
				rn.sum.RefusedValid[id] = e
			}
		}
		fmt.Fprintf(rn.impl, "%s ( s657272 )\n", id)
		if rn.verbose {
			fmt.Println("import error:", ierr)
		}
		return
	}
	rn.sum.Imported++
	pb := lib.WalkBus(bus)
	nsig := 0
	for _, m := range pb.Msgs {
		nsig += len(m.Sigs)
	}
	rn.sum.Signals += nsig
	key := fmt.Sprint(len(pb.Nodes), len(pb.Msgs), nsig, len(doc.AttrVals), len(doc.ExtMuxes), len(doc.ValEncs))
	if nsig >= 2 && len(pb.Msgs) >= 1 && !rn.seen[text] {
		rn.seen[text] = true
		rn.sum.Nontrivial++
	}
	_ = key
	fs := CheckFaithful(doc, pb)
	fs = append(fs, CheckInvariants(bus, pb)...)
	dfs, dtok := CheckDecode(doc, pb, payloads)
	fs = append(fs, dfs...)
	rn.sum.Decodes += len(payloads) * len(pb.Msgs)
	for _, f := range fs {
		rn.fail(id, text, f)
		if rn.verbose {
			fmt.Printf("PROPERTY FAILURE %s: %s\n", f.Sig, f.Detail)
		}
	}
	fmt.Fprintf(rn.impl, "%s %s\n", id, lib.TL(lib.TS("ok"), lib.TokBus(pb), dtok).String())
	if len(rn.sum.Samples) < 3 && nsig >= 3 && rn.sum.Cases%37 == 5 {
		rn.sum.Samples = append(rn.sum.Samples, text)
	}
}

// signatures of the property failures of one text (what the file says is read from its AST)
func evaluate(text string, payloads [][]byte) map[string]string {
	res := map[string]string{}
	name := "case.dbc"
	ast, perr := safeParse(name, text)
	bus, ierr, pan := safeImport(name, text)
	if pan != "" {
		res["c10-import-panic"] = "ImportDBCFile panics: " + pan
		return res
	}
	if perr != nil || ierr != nil {
		return res
	}
	doc := FromAST(ast)
	pb := lib.WalkBus(bus)
	fs := CheckFaithful(doc, pb)
	fs = append(fs, CheckInvariants(bus, pb)...)
	dfs, _ := CheckDecode(doc, pb, payloads)
	for _, f := range append(fs, dfs...) {
		if _, ok := res[f.Sig]; !ok {
			res[f.Sig] = f.Detail
		}
	}
	return res
}

// shrink removes lines (whole messages first) while the failure with the given signature stays
func shrink(text, sig string, payloads [][]byte) (string, string) {
	lines := strings.Split(text, "\n")
	detail := ""
	try := func(cand []string) bool {
		if d, ok := evaluate(strings.Join(cand, "\n"), payloads)[sig]; ok {
			detail = d
			return true
		}
		return false
	}
	removable := func(l string) bool {
		s := strings.TrimSpace(l)
		for _, p := range []string{"SG_ ", "BO_ ", "BA_", "CM_", "VAL_", "SG_MUL_VAL_"} {
			if strings.HasPrefix(s, p) {
				return true
			}
		}
		return false
	}
	for pass := 0; pass < 3; pass++ {
		changed := false
		// whole message blocks
		for i := 0; i < len(lines); i++ {
			if strings.HasPrefix(lines[i], "BO_ ") {
				j := i + 1
				for j < len(lines) && strings.HasPrefix(lines[j], " SG_") {
					j++
				}
				cand := append(append([]string{}, lines[:i]...), lines[j:]...)
				if try(cand) {
					lines = cand
					changed = true
					i--
				}
			}
		}
		for i := 0; i < len(lines); i++ {
			if !removable(lines[i]) || strings.HasPrefix(lines[i], "BO_ ") {
				continue
			}
			cand := append(append([]string{}, lines[:i]...), lines[i+1:]...)
			if try(cand) {
				lines = cand
				changed = true
				i--
			}
		}
		if !changed {
			break
		}
	}
	return strings.Join(lines, "\n"), detail
}

func payloadsFor(r *lib.Rng, n int) [][]byte {
	res := [][]byte{}
	for i := 0; i < n; i++ {
		p := make([]byte, 8)
		v := r.Next()
		switch i {
		case 0:
			v = 0xFFFFFFFFFFFFFFFF
		case 1:
			v = 0x8040201008040201
		}
		for j := range p {
			p[j] = byte(v >> (8 * uint(j)))
		}
		res = append(res, p)
	}
	return res
}

// one message per placement: every start/size/order of an n-byte message
func placementDoc(bytes int, be bool, from, to int) *GDoc {
	d := &GDoc{Tags: map[string]int{}, Nodes: []string{"N1"}}
	k := 0
	id := uint32(1)
	for pos := 0; pos < bytes*8; pos++ {
		for size := 1; pos+size <= bytes*8; size++ {
			if k >= from && k < to {
				m := &GMsg{ID: id, Name: fmt.Sprintf("P%d", id), Size: uint32(bytes), Tx: "N1"}
				m.Sigs = []*GSig{{Name: fmt.Sprintf("s_%d_%d", pos, size), Size: uint32(size), Start: uint32(dbcOfPos(pos, be)), BE: be,
					Signed: size%3 == 0, Factor: 1, Offset: 0, Min: 0, Max: 0, Receivers: []string{dummy}}}
				if size == 1 {
					m.Sigs[0].Max = 1
					m.Sigs[0].Signed = false
				}
				d.Msgs = append(d.Msgs, m)
				id++
				if be {
					if pos/8 == (pos+size-1)/8 {
						d.Tags["sig-be-one-byte"]++
					} else {
						d.Tags["sig-be-multi-byte"]++
					}
				}
			}
			k++
		}
	}
	d.Tags["placement-sweep"] = len(d.Msgs)
	return d
}

// token-level mutations of a real file
func mutateText(r *lib.Rng, text string) string {
	lines := strings.Split(text, "\n")
	n := 1 + r.Below(2)
	for i := 0; i < n; i++ {
		li := r.Below(len(lines))
		l := lines[li]
		switch r.Below(7) {
		case 0: // tweak a number
			idx := []int{}
			for j := 0; j < len(l); j++ {
				if l[j] >= '0' && l[j] <= '9' {
					idx = append(idx, j)
				}
			}
			if len(idx) > 0 {
				j := idx[r.Below(len(idx))]
				b := []byte(l)
				b[j] = byte('0' + r.Below(10))
				lines[li] = string(b)
			}
		case 1:
			lines[li] = strings.Replace(l, "@1", "@0", 1)
		case 2:
			lines[li] = strings.Replace(l, "@0", "@1", 1)
		case 3: // duplicate the line
			lines = append(lines[:li+1], append([]string{l}, lines[li+1:]...)...)
		case 4: // delete the line
			if strings.HasPrefix(strings.TrimSpace(l), "SG_") || strings.HasPrefix(l, "BA_") || strings.HasPrefix(l, "CM_") || strings.HasPrefix(l, "VAL_") || strings.HasPrefix(l, "SG_MUL_VAL_") {
				lines = append(lines[:li], lines[li+1:]...)
			}
		case 5:
			lines[li] = strings.Replace(l, "+ (", "- (", 1)
		case 6:
			lines[li] = strings.Replace(l, "Vector__XXX", "node_0", 1)
		}
	}
	return strings.Join(lines, "\n")
}

func main() {
	seed := flag.Uint64("seed", 20260930, "seed")
	tier := flag.String("tier", "quick", "quick|thorough")
	out := flag.String("out", ".", "output directory")
	testdata := flag.String("testdata", "/repo/testdata", "directory of real DBC files to mutate")
	replay := flag.String("replay", "", "replay one DBC text file")
	only := flag.String("only", "", "run only the generated case with this id, verbosely")
	flag.Parse()

	sum := &summary{Hist: map[string]int{}, Failures: map[string]failure{}, RefusedValid: map[string]string{}, FailedCases: map[string][]string{}}
	rn := &runner{sum: sum, cases: lib.CreateLineFile(filepath.Join(*out, "cases.txt")), impl: lib.CreateLineFile(filepath.Join(*out, "impl.txt")), seen: map[string]bool{}}
	r := &lib.Rng{S: *seed}

	if *replay != "" {
		rn.verbose = true
		b, err := os.ReadFile(*replay)
		if err != nil {
			fmt.Println(err)
			os.Exit(2)
		}
		rn.run("replay", string(b), nil, payloadsFor(r, 8))
	} else {
		nGen, nMut, sweepStep := 1500, 400, 5
		if *tier == "thorough" {
			nGen, nMut, sweepStep = 40000, 8000, 1
		}
		for i := 0; i < nGen; i++ {
			cr := r.Fork()
			doc := Generate(cr)
			for k, v := range doc.Tags {
				sum.Hist[k] += v
			}
			id := fmt.Sprintf("g%d", i)
			if *only != "" {
				if id != *only {
					continue
				}
				rn.verbose = true
				fmt.Println(doc.Emit())
			}
			rn.run(id, doc.Emit(), doc, payloadsFor(cr, 8))
		}
		// placement sweep: all 2*2080 placements of an 8-byte message in the thorough tier, every
		// sweepStep-th chunk in the quick tier, plus every placement of a 2-byte message always
		chunk := 0
		for _, be := range []bool{false, true} {
			doc := placementDoc(2, be, 0, 1<<30)
			for k, v := range doc.Tags {
				sum.Hist[k] += v
			}
			rn.run(fmt.Sprintf("p2-%v", be), doc.Emit(), doc, payloadsFor(r.Fork(), 8))
			for from := 0; from < 2080; from += 104 {
				chunk++
				if chunk%sweepStep != int(*seed%uint64(sweepStep)) && sweepStep > 1 {
					continue
				}
				doc := placementDoc(8, be, from, from+104)
				for k, v := range doc.Tags {
					sum.Hist[k] += v
				}
				rn.run(fmt.Sprintf("p8-%v-%d", be, from), doc.Emit(), doc, payloadsFor(r.Fork(), 8))
			}
		}
		files, _ := filepath.Glob(filepath.Join(*testdata, "*.dbc"))
		sort.Strings(files)
		for _, f := range files {
			b, err := os.ReadFile(f)
			if err != nil {
				continue
			}
			text := strings.ReplaceAll(string(b), "\r\n", "\n")
			rn.run("real-"+filepath.Base(f), text, nil, payloadsFor(r.Fork(), 8))
			sum.Hist["real-file"]++
			for i := 0; i < nMut/len(files); i++ {
				cr := r.Fork()
				rn.run(fmt.Sprintf("mut-%s-%d", filepath.Base(f), i), mutateText(cr, text), nil, payloadsFor(cr, 8))
				sum.Hist["real-file-mutated"]++
			}
		}
	}
	// minimise the failing case kept for every signature
	if *replay == "" && *only == "" {
		pl := payloadsFor(&lib.Rng{S: *seed}, 8)
		for sig, f := range sum.Failures {
			if st, d := shrink(f.Text, sig, pl); d != "" {
				f.Text, f.Detail, f.Lines = st, d, strings.Count(st, "\n")
				sum.Failures[sig] = f
			}
		}
	}
	sum.CaseLines, sum.ImplLines = rn.cases.N, rn.impl.N
	if err := rn.cases.Finish(); err != nil {
		fmt.Println("cannot write cases.txt:", err)
		os.Exit(4)
	}
	if err := rn.impl.Finish(); err != nil {
		fmt.Println("cannot write impl.txt:", err)
		os.Exit(4)
	}
	js, _ := json.MarshalIndent(sum, "", " ")
	os.WriteFile(filepath.Join(*out, "summary.json"), js, 0644)
	fmt.Printf("cases=%d imported=%d refused=%d parse_refused=%d failures=%d\n", sum.Cases, sum.Imported, sum.Refused, sum.ParseRefused, len(sum.Failures))
}
