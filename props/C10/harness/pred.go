package main

// The C10 property predicate, evaluated directly on the implementation's result against what
// the document says (no model involved), the invariant evaluators, and the independent Go
// implementation of the DBC Intel/Motorola bit numbering used to judge SignalLayout.Decode.

import (
	"fmt"
	"math"
	"sort"
	"strings"

	"github.com/squadracorsepolito/acmelib"
	"verif/c10/lib"
	"verif/vinv"
)

type finding struct {
	Sig    string
	Detail string
}

const dummy = "Vector__XXX"

var wellKnown = map[string]bool{"GenMsgCycleTime": true, "GenMsgDelayTime": true, "GenMsgStartDelayTime": true,
	"GenMsgSendType": true, "GenSigStartValue": true, "GenSigSendType": true}

var msgSendTypes = []string{"NoMsgSendType", "Cyclic", "CyclicIfActive", "CyclicAndTriggered", "CyclicIfActiveAndTriggered"}
var sigSendTypes = []string{"NoSigSendType", "Cyclic", "OnWrite", "OnWriteWithRepetition", "OnChange", "OnChangeWithRepetition", "IfActive", "IfActiveWithRepetition"}

func indexOf(l []string, s string) int64 {
	for i, x := range l {
		if x == s {
			return int64(i)
		}
	}
	return 0
}

func dedup(l []string) []string {
	seen := map[string]bool{}
	r := []string{}
	for _, x := range l {
		if !seen[x] {
			seen[x] = true
			r = append(r, x)
		}
	}
	return r
}

// dbcRaw: the raw value the DBC rules prescribe (independent of the library).
func dbcRaw(data []byte, start, size int, be bool) uint64 {
	bit := func(n int) uint64 {
		if n < 0 || n/8 >= len(data) {
			return 0
		}
		return uint64(data[n/8]>>uint(n%8)) & 1
	}
	var v uint64
	if !be {
		for k := 0; k < size; k++ {
			v |= bit(start+k) << uint(k)
		}
		return v
	}
	n := start
	for k := 0; k < size; k++ {
		v = v<<1 | bit(n)
		if n%8 == 0 {
			n += 15
		} else {
			n--
		}
	}
	return v
}

type expectedAttr struct {
	def GAttr
	val GNum
}

// expected value of an attribute assignment as the projection shows it
func expectedVal(a GAttr, v GNum) (lib.PVal, bool) {
	switch a.Type {
	case 0, 4:
		if v.Form == 0 {
			return lib.PVal{Kind: 1, I: v.I}, true
		}
	case 1:
		if v.Form != 2 {
			return lib.PVal{Kind: 2, F: v.asFloat()}, true
		}
	case 2:
		if v.Form == 2 {
			return lib.PVal{Kind: 0, S: v.S}, true
		}
	case 3:
		vals := dedup(a.Enum)
		if v.Form == 0 && v.I >= 0 && int(v.I) < len(vals) {
			return lib.PVal{Kind: 0, S: vals[v.I]}, true
		}
		if v.Form == 2 {
			return lib.PVal{Kind: 0, S: v.S}, true
		}
	}
	return lib.PVal{}, false
}

func sameVal(a, b lib.PVal) bool {
	return a.Kind == b.Kind && a.S == b.S && a.I == b.I && a.F == b.F
}

func findAsg(l []lib.PAsg, name string) *lib.PAsg {
	for i := range l {
		if l[i].Name == name {
			return &l[i]
		}
	}
	return nil
}

// CheckFaithful is the property predicate of C10 (first sentence of the statement).
func CheckFaithful(d *GDoc, pb lib.PBus) []finding {
	var out []finding
	add := func(sig, f string, a ...any) { out = append(out, finding{sig, fmt.Sprintf(f, a...)}) }

	// nodes
	exp := []string{}
	for _, n := range d.Nodes {
		if n != dummy {
			exp = append(exp, n)
		}
	}
	for _, m := range d.Msgs {
		if m.Tx == dummy {
			exp = append(exp, dummy)
			break
		}
	}
	got := []string{}
	for _, n := range pb.Nodes {
		got = append(got, n.Name)
	}
	if strings.Join(exp, ",") != strings.Join(got, ",") {
		add("c10-nodes", "file nodes (+placeholder) %v, bus nodes %v", exp, got)
	}

	attrs := map[string]GAttr{}
	for _, a := range d.Attrs {
		attrs[a.Name] = a
	}
	defs := map[string]GNum{}
	for _, a := range d.AttrDefs {
		defs[a.Name] = a.V
	}
	// expected assignments per entity key
	type ekey struct {
		kind      int
		node, sig string
		msg       uint32
	}
	expAsg := map[ekey]map[string]GNum{}
	for _, v := range d.AttrVals {
		if _, ok := attrs[v.Name]; !ok || v.Kind > 3 {
			continue
		}
		k := ekey{kind: v.Kind}
		switch v.Kind {
		case 1:
			k.node = v.Node
		case 2:
			k.msg = v.Msg
		case 3:
			k.msg, k.sig = v.Msg, v.Sig
		}
		if expAsg[k] == nil {
			expAsg[k] = map[string]GNum{}
		}
		expAsg[k][v.Name] = v.V
	}
	checkAttrs := func(where string, k ekey, have []lib.PAsg) {
		n := 0
		for name, v := range expAsg[k] {
			if wellKnown[name] && (k.kind == 2 || k.kind == 3) {
				continue
			}
			n++
			a := attrs[name]
			ev, ok := expectedVal(a, v)
			if !ok {
				continue
			}
			g := findAsg(have, name)
			if g == nil {
				add("c10-attr-value-missing", "%s: attribute %q (%s) has value %s in the file, none on the entity", where, name, attrTypeNames[a.Type], fmtNum(v))
				continue
			}
			if !sameVal(ev, g.Val) {
				add("c10-attr-value-"+attrTypeNames[a.Type], "%s: attribute %q: file %s, entity %+v", where, name, fmtNum(v), g.Val)
			}
			// numeric defaults, whichever way they are written
			if dv, ok := defs[name]; ok {
				switch a.Type {
				case 0, 4:
					if dv.Form != 2 && g.Def.Kind == 1 && float64(g.Def.I) != dv.asFloat() {
						add("c10-attr-default-"+attrTypeNames[a.Type]+fmt.Sprintf("-form%d", dv.Form), "%s: attribute %q default: file %s, attribute %d", where, name, fmtNum(dv), g.Def.I)
					}
				case 1:
					if dv.Form != 2 && g.Def.Kind == 2 && g.Def.F != dv.asFloat() {
						add("c10-attr-default-float"+fmt.Sprintf("-form%d", dv.Form), "%s: attribute %q default: file %s, attribute %v", where, name, fmtNum(dv), g.Def.F)
					}
				}
			}
		}
		if len(have) != n {
			add("c10-attr-extra", "%s: %d attribute values in the file, %d on the entity", where, n, len(have))
		}
	}
	checkAttrs("bus", ekey{kind: 0}, pb.Attrs)
	for _, n := range pb.Nodes {
		if n.Name != dummy {
			checkAttrs("node "+n.Name, ekey{kind: 1, node: n.Name}, n.Attrs)
		}
	}

	nodeDesc, msgDesc, sigDesc := map[string]string{}, map[uint32]string{}, map[string]string{}
	for _, c := range d.Comments {
		switch c.Kind {
		case 1:
			nodeDesc[c.Node] = c.Text
		case 2:
			msgDesc[c.Msg] = c.Text
		case 3:
			sigDesc[fmt.Sprintf("%d_%s", c.Msg, c.Sig)] = c.Text
		}
	}
	valenc := map[string][]GVal{}
	for _, v := range d.ValEncs {
		valenc[fmt.Sprintf("%d_%s", v.Msg, v.Sig)] = v.Vals
	}

	// messages
	byID := map[int64]*lib.PMsg{}
	for i := range pb.Msgs {
		byID[pb.Msgs[i].CANID] = &pb.Msgs[i]
	}
	if len(pb.Msgs) != len(d.Msgs) {
		add("c10-messages", "file has %d messages, bus has %d", len(d.Msgs), len(pb.Msgs))
	}
	for _, m := range d.Msgs {
		pm := byID[int64(m.ID)]
		where := fmt.Sprintf("message %d %s", m.ID, m.Name)
		if pm == nil {
			add("c10-messages", "%s missing from the bus", where)
			continue
		}
		if pm.Name != m.Name || pm.Size != int64(m.Size) {
			add("c10-message-name-size", "%s: bus has %q size %d", where, pm.Name, pm.Size)
		}
		if pm.Sender != m.Tx {
			add("c10-message-sender", "%s: transmitter %q, bus sender %q", where, m.Tx, pm.Sender)
		}
		recs := []string{}
		for _, s := range m.Sigs {
			for _, r := range s.Receivers {
				if r != dummy {
					recs = append(recs, r)
				}
			}
		}
		recs = dedup(recs)
		sort.Strings(recs)
		if strings.Join(recs, ",") != strings.Join(pm.Receivers, ",") {
			add("c10-message-receivers", "%s: union of signal receivers %v, bus receivers %v", where, recs, pm.Receivers)
		}
		if pm.Desc != msgDesc[m.ID] {
			add("c10-message-comment", "%s: comment %q, bus %q", where, msgDesc[m.ID], pm.Desc)
		}
		checkAttrs(where, ekey{kind: 2, msg: m.ID}, pm.Attrs)
		// well-known message attributes land in the dedicated fields
		for name, v := range expAsg[ekey{kind: 2, msg: m.ID}] {
			if v.Form == 2 && name == "GenMsgSendType" && pm.SendType != indexOf(msgSendTypes, v.S) {
				add("c10-wellknown-msg-send-type", "%s: GenMsgSendType %q (written as a string), SendType() %d", where, v.S, pm.SendType)
			}
			if v.Form != 0 {
				continue
			}
			switch name {
			case "GenMsgCycleTime":
				if pm.Cycle != v.I {
					add("c10-wellknown-cycle-time", "%s: GenMsgCycleTime %d, CycleTime() %d", where, v.I, pm.Cycle)
				}
			case "GenMsgDelayTime":
				if pm.Delay != v.I {
					add("c10-wellknown-delay-time", "%s: GenMsgDelayTime %d, DelayTime() %d", where, v.I, pm.Delay)
				}
			case "GenMsgStartDelayTime":
				if pm.StartDelay != v.I {
					add("c10-wellknown-start-delay-time", "%s: GenMsgStartDelayTime %d, StartDelayTime() %d", where, v.I, pm.StartDelay)
				}
			case "GenMsgSendType":
				a := attrs[name]
				vals := dedup(a.Enum)
				if int(v.I) < len(vals) && pm.SendType != indexOf(msgSendTypes, vals[v.I]) {
					add("c10-wellknown-msg-send-type", "%s: GenMsgSendType %q (index %d of the file's list), SendType() %d", where, vals[v.I], v.I, pm.SendType)
				}
			}
		}
		if len(m.Sigs) > 0 {
			be := int64(0)
			if m.Sigs[0].BE {
				be = 1
			}
			if pm.Order != be {
				add("c10-message-byte-order", "%s: file byte order %d, bus %d", where, be, pm.Order)
			}
		}
		dupName := ""
		seenName := map[string]bool{}
		for _, s := range m.Sigs {
			if seenName[s.Name] {
				dupName = s.Name
			}
			seenName[s.Name] = true
		}
		if dupName != "" {
			// not a legal DBC message; accepting it cannot be faithful to both signals
			add("c10-duplicate-signal-name-accepted", "%s: the file has two signals named %q and the import succeeds", where, dupName)
			continue
		}
		if len(pm.Sigs) != len(m.Sigs) {
			names := []string{}
			for _, s := range pm.Sigs {
				names = append(names, s.Name)
			}
			add("c10-signal-count", "%s: %d signals in the file, %d in the bus %v", where, len(m.Sigs), len(pm.Sigs), names)
		}
		for _, s := range m.Sigs {
			sw := fmt.Sprintf("%s signal %s", where, s.Name)
			var ps *lib.PSig
			for i := range pm.Sigs {
				if pm.Sigs[i].Name == s.Name {
					ps = &pm.Sigs[i]
				}
			}
			if ps == nil {
				add("c10-signal-missing", "%s is not in the imported message", sw)
				continue
			}
			if int64(dbcOfPos(int(ps.Start), s.BE)) != int64(s.Start) {
				add("c10-signal-position", "%s: file start bit %d (be=%v), bus position %d = DBC start bit %d", sw, s.Start, s.BE, ps.Start, dbcOfPos(int(ps.Start), s.BE))
			}
			key := fmt.Sprintf("%d_%s", m.ID, s.Name)
			vals, hasEnum := valenc[key]
			if ps.Size != int64(s.Size) {
				switch {
				case hasEnum && !s.Muxor && ps.Kind == 1:
					mx := uint32(0)
					for _, v := range vals {
						if v.ID > mx {
							mx = v.ID
						}
					}
					if s.Size < 64 && uint64(mx) >= uint64(1)<<s.Size {
						add("c10-enum-wider-than-signal", "%s: size %d in the file but value %d needs more bits: bus size %d", sw, s.Size, mx, ps.Size)
					} else {
						add("c10-enum-shared-resized", "%s: size %d in the file, bus size %d (value table shared with a signal of another size)", sw, s.Size, ps.Size)
					}
				default:
					add("c10-signal-size", "%s: size %d in the file, bus size %d", sw, s.Size, ps.Size)
				}
			}
			if ps.Desc != sigDesc[key] {
				add("c10-signal-comment", "%s: comment %q, bus %q", sw, sigDesc[key], ps.Desc)
			}
			checkAttrs(sw, ekey{kind: 3, msg: m.ID, sig: s.Name}, ps.Attrs)
			for name, v := range expAsg[ekey{kind: 3, msg: m.ID, sig: s.Name}] {
				switch name {
				case "GenSigStartValue":
					// declared INT, HEX or FLOAT: the number is the start value, however it is written (an
					// ENUM declaration turns an integer into a label, a STRING one carries no number)
					if dt := attrs[name].Type; v.Form != 2 && (dt == 0 || dt == 1 || dt == 4) && ps.StartVal != v.asFloat() {
						add("c10-wellknown-start-value", "%s: GenSigStartValue %s, StartValue() %v", sw, fmtNum(v), ps.StartVal)
					}
				case "GenSigSendType":
					a := attrs[name]
					vl := dedup(a.Enum)
					if v.Form == 0 && int(v.I) < len(vl) && ps.SendType != indexOf(sigSendTypes, vl[v.I]) {
						add("c10-wellknown-sig-send-type", "%s: GenSigSendType %q (index %d of the file's list), SendType() %d", sw, vl[v.I], v.I, ps.SendType)
					}
					if v.Form == 2 && ps.SendType != indexOf(sigSendTypes, v.S) {
						add("c10-wellknown-sig-send-type", "%s: GenSigSendType %q (written as a string), SendType() %d", sw, v.S, ps.SendType)
					}
				}
			}
			// a multiplexed signal belongs to the groups the file names: its switch value, or the
			// SG_MUL_VAL_ ranges when the extended multiplexing section lists it
			if s.Muxed {
				exp := map[int64]bool{int64(s.Switch): true}
				for _, x := range d.ExtMuxes {
					if x.Msg == m.ID && x.Muxed == s.Name {
						exp = map[int64]bool{}
						for _, r := range x.Ranges {
							for g := int64(r[0]); g <= int64(r[1]) && g < 1<<16; g++ {
								exp[g] = true
							}
						}
					}
				}
				same := len(exp) == len(ps.Membership)
				for _, g := range ps.Membership {
					if !exp[g] {
						same = false
					}
				}
				if !same {
					add("c10-signal-mux-groups", "%s: multiplexed by the switch values %v in the file, member of the groups %v in the bus", sw, keysOf(exp), ps.Membership)
				}
			}
			switch {
			case s.Muxor:
				if ps.Kind != 2 {
					add("c10-signal-kind", "%s is a multiplexor switch in the file, kind %d in the bus", sw, ps.Kind)
				}
			case hasEnum:
				if ps.Kind != 1 {
					add("c10-signal-kind", "%s has a value table, kind %d in the bus", sw, ps.Kind)
					break
				}
				ev := append([]GVal{}, vals...)
				sort.SliceStable(ev, func(i, j int) bool { return ev[i].ID < ev[j].ID })
				same := len(ev) == len(ps.Enum)
				for i := 0; same && i < len(ev); i++ {
					same = int64(ev[i].ID) == ps.Enum[i].Index && ev[i].Name == ps.Enum[i].Name
				}
				if !same {
					add("c10-enum-values", "%s: value table %v, enum %v", sw, ev, ps.Enum)
				}
			default:
				if ps.Kind != 0 {
					add("c10-signal-kind", "%s is a plain signal, kind %d in the bus", sw, ps.Kind)
					break
				}
				if ps.Signed != s.Signed || ps.Scale != s.Factor || ps.Offset != s.Offset || ps.Min != s.Min || ps.Max != s.Max {
					sig := "c10-signal-type"
					if s.Size == 1 && !s.Signed {
						sig = "c10-flag-type-drops-scaling"
					}
					add(sig, "%s: file signed=%v factor=%v offset=%v min=%v max=%v, bus signed=%v scale=%v offset=%v min=%v max=%v",
						sw, s.Signed, s.Factor, s.Offset, s.Min, s.Max, ps.Signed, ps.Scale, ps.Offset, ps.Min, ps.Max)
				}
				if ps.Unit != s.Unit {
					add("c10-signal-unit", "%s: unit %q, bus %q", sw, s.Unit, ps.Unit)
				}
				// the kind of the conversion rule: flag only for (1,0) [0|1] on one unsigned bit, decimal as soon
				// as one of factor / offset / min / max has a fractional part (of either sign), integer otherwise
				if want := expectedTypeKind(s); ps.TypeKind != want {
					add("c10-signal-type-kind", "%s: (%v,%v) [%v|%v] size %d signed=%v needs type kind %d (1 flag, 2 integer, 3 decimal), bus has %d",
						sw, s.Factor, s.Offset, s.Min, s.Max, s.Size, s.Signed, want, ps.TypeKind)
				}
			}
		}
	}
	for _, n := range pb.Nodes {
		if n.Desc != nodeDesc[n.Name] && n.Name != dummy {
			add("c10-node-comment", "node %s: comment %q, bus %q", n.Name, nodeDesc[n.Name], n.Desc)
		}
	}
	return out
}

func hasFraction(x float64) bool { return x != math.Trunc(x) }

// expectedTypeKind: 1 flag, 2 integer, 3 decimal (acmelib.SignalTypeKind values)
func expectedTypeKind(s *GSig) int {
	if s.Size == 1 && !s.Signed && s.Factor == 1 && s.Offset == 0 && s.Min == 0 && s.Max == 1 {
		return 1
	}
	if hasFraction(s.Factor) || hasFraction(s.Offset) || hasFraction(s.Min) || hasFraction(s.Max) {
		return 3
	}
	return 2
}

func keysOf(m map[int64]bool) []int64 {
	r := []int64{}
	for k := range m {
		r = append(r, k)
	}
	sort.Slice(r, func(i, j int) bool { return r[i] < r[j] })
	return r
}

func clause(s string) string {
	if i := strings.Index(s, ":"); i > 0 {
		return strings.ReplaceAll(s[:i], "/", "-")
	}
	return "clause"
}

// CheckInvariants runs the shared evaluators of C01/C04/C05/C07 plus a local check of the
// signal registry (names unique over all depths, parent links) on an imported bus.
func CheckInvariants(bus *acmelib.Bus, pb lib.PBus) []finding {
	var out []finding
	for _, s := range vinv.CheckBus(bus) {
		out = append(out, finding{"c10-inv-" + clause(s), s})
	}
	for _, pm := range pb.Msgs {
		m := pm.Msg
		for _, s := range vinv.CheckMessageLayout(m) {
			out = append(out, finding{"c10-inv-c01-" + clause(s), fmt.Sprintf("message %q: %s", m.Name(), s)})
		}
		for _, sig := range m.Signals() {
			if mux, err := sig.ToMultiplexer(); err == nil {
				for _, s := range vinv.CheckMultiplexer(mux) {
					out = append(out, finding{"c10-inv-c07-" + clause(s), fmt.Sprintf("message %q: %s", m.Name(), s)})
				}
			}
		}
		seen := map[string]bool{}
		for _, ps := range pm.Sigs {
			if seen[ps.RawName] {
				out = append(out, finding{"c10-inv-c04-signal-name-duplicated", fmt.Sprintf("message %q holds two signals named %q", m.Name(), ps.RawName)})
			}
			seen[ps.RawName] = true
			if got, err := m.GetSignalByName(ps.RawName); err != nil || got.Name() != ps.RawName {
				out = append(out, finding{"c10-inv-c04-signal-lookup", fmt.Sprintf("message %q: GetSignalByName(%q) fails: %v", m.Name(), ps.RawName, err)})
			} else if got.ParentMessage() != m {
				out = append(out, finding{"c10-inv-c05-signal-parent", fmt.Sprintf("message %q: signal %q reports another parent message", m.Name(), ps.RawName)})
			}
		}
		for _, rn := range pm.Receivers {
			if _, err := bus.GetNodeInterfaceByNodeName(rn); err != nil {
				out = append(out, finding{"c10-inv-c05-receiver-not-on-bus", fmt.Sprintf("message %q: receiver %q is not a node of the bus", m.Name(), rn)})
			}
		}
	}
	return out
}

// CheckDecode: second sentence of C10.  Returns findings and the per-message decode table used
// for the correspondence with the model.
func CheckDecode(d *GDoc, pb lib.PBus, payloads [][]byte) ([]finding, lib.Tok) {
	var out []finding
	file := map[int64]*GMsg{}
	for _, m := range d.Msgs {
		file[int64(m.ID)] = m
	}
	msgToks := []lib.Tok{}
	for _, pm := range pb.Msgs {
		gm := file[pm.CANID]
		perPayload := []lib.Tok{}
		for _, p := range payloads {
			data := p[:pm.Size]
			raws := map[string]uint64{}
			phys := map[string]any{}
			func() {
				defer func() {
					if r := recover(); r != nil {
						out = append(out, finding{"c10-decode-panic", fmt.Sprintf("message %q: Decode panics: %v", pm.Name, r)})
					}
				}()
				for _, dec := range pm.Msg.SignalLayout().Decode(data) {
					if dec != nil {
						raws[lib.ClearSpaces(dec.Signal.Name())] = dec.RawValue
						phys[lib.ClearSpaces(dec.Signal.Name())] = dec.Value
					}
				}
			}()
			names := []string{}
			for n := range raws {
				names = append(names, n)
			}
			sort.Strings(names)
			row := []lib.Tok{}
			for _, n := range names {
				row = append(row, lib.TL(lib.TS(n), lib.TU(raws[n])))
			}
			perPayload = append(perPayload, lib.TLs(row))
			if gm == nil {
				continue
			}
			for _, s := range gm.Sigs {
				if s.Muxor || s.Muxed {
					continue
				}
				var ps *lib.PSig
				for i := range pm.Sigs {
					if pm.Sigs[i].Name == s.Name {
						ps = &pm.Sigs[i]
					}
				}
				if ps == nil || !ps.Top || ps.Size != int64(s.Size) || s.Size > 64 || s.Size == 0 {
					continue
				}
				got, ok := raws[s.Name]
				if !ok {
					out = append(out, finding{"c10-decode-missing", fmt.Sprintf("message %q: no decoding for top-level signal %q", pm.Name, s.Name)})
					continue
				}
				// physical value: a signal with a fractional conversion parameter decodes to raw*factor+offset as a float
				if ps.Kind == 0 && expectedTypeKind(s) == 3 {
					x := float64(got)
					if s.Signed && s.Size < 64 && got&(uint64(1)<<(s.Size-1)) != 0 {
						x = float64(int64(got | ^uint64(0)<<s.Size))
					} else if s.Signed && s.Size == 64 {
						x = float64(int64(got))
					}
					wantPhys := x*s.Factor + s.Offset
					if v, ok := phys[s.Name].(float64); !ok || (v != wantPhys && !(math.IsNaN(v) && math.IsNaN(wantPhys))) {
						out = append(out, finding{"c10-decode-physical", fmt.Sprintf("message %q signal %q (%v,%v) payload %x: raw %d decodes to %T %v, raw*factor+offset = %v", pm.Name, s.Name, s.Factor, s.Offset, data, got, phys[s.Name], phys[s.Name], wantPhys)})
					}
				}
				want := dbcRaw(data, int(s.Start), int(s.Size), s.BE)
				if got != want {
					pos := int(ps.Start)
					sig := "c10-decode-mismatch"
					// D08 exactly: big endian, one byte, asymmetric, AND the value read is the LSB-anchored one
					if s.BE && pos/8 == (pos+int(s.Size)-1)/8 && pos%8 != 8-pos%8-int(s.Size) && pos/8 < len(data) &&
						got == (uint64(data[pos/8])>>uint(pos%8))&(uint64(1)<<s.Size-1) {
						sig = "c10-decode-be-one-byte"
					}
					out = append(out, finding{sig, fmt.Sprintf("message %q signal %q %d|%d be=%v payload %x: Decode raw %d, DBC rule %d", pm.Name, s.Name, s.Start, s.Size, s.BE, data, got, want)})
				}
			}
		}
		msgToks = append(msgToks, lib.TLs(perPayload))
	}
	return out, lib.TLs(msgToks)
}
