#!/usr/bin/env python3
"""Mutation self-test for C10/C11 (development aid, not a registered command).
Each mutant is a small semantic edit of importer.go / exporter.go applied to a scratch worktree of
/repo under /tmp (removed afterwards).  A mutant counts only if the repository's own test suite
still passes on it; it is CAUGHT when the quick tier of the listed check prints a VIOLATION.
usage: props/C10/selftest/mutants.py [name ...]"""
import os
import subprocess
import sys

MUTANTS = [
    # (name, file, old, new, checks)
    ("import-startbit-be-off-by-one", "importer.go",
     "return startBit + 7 - 2*(startBit%8)", "return startBit + 7 - 2*(startBit%8) + (startBit/16)%2", ["C10", "C11"]),
    ("export-startbit-be-off-by-one", "exporter.go",
     "tmpStartBit := startBit + 7 - 2*(startBit%8)", "tmpStartBit := startBit + 7 - 2*(startBit%8) + 8*((startBit%8)/7)", ["C11"]),
    ("import-receivers-first-signal-only", "importer.go",
     "\t\tfor _, rec := range dbcSig.Receivers {\n\t\t\treceivers[rec] = true\n\t\t}",
     "\t\tif idx == 0 {\n\t\t\tfor _, rec := range dbcSig.Receivers {\n\t\t\t\treceivers[rec] = true\n\t\t\t}\n\t\t}", ["C10", "C11"]),
    ("import-factor-offset-swapped", "importer.go",
     "\tsigType.SetScale(dbcSig.Factor)\n\tsigType.SetOffset(dbcSig.Offset)",
     "\tsigType.SetScale(dbcSig.Offset)\n\tsigType.SetOffset(dbcSig.Factor)", ["C10", "C11"]),
    ("import-minmax-dropped-for-unsigned", "importer.go",
     "\tsigType.SetMin(dbcSig.Min)\n\tsigType.SetMax(dbcSig.Max)",
     "\tif signed {\n\t\tsigType.SetMin(dbcSig.Min)\n\t\tsigType.SetMax(dbcSig.Max)\n\t}", ["C10", "C11"]),
    ("export-cycle-time-dropped", "exporter.go",
     "if msg.cycleTime != 0 {", "if msg.cycleTime < 0 {", ["C11"]),
    ("export-enum-values-wrong-signal", "exporter.go",
     "dbcValEnc.SignalName = clearSpaces(enumSig.Name())",
     "dbcValEnc.SignalName = clearSpaces(enumSig.Name())\n\tif n := len(e.currDBCMsg.Signals); n > 0 {\n\t\tdbcValEnc.SignalName = e.currDBCMsg.Signals[n-1].Name\n\t}", ["C11"]),
    ("export-description-dropped-for-nested", "exporter.go",
     "\tif sig.Desc() != \"\" {", "\tif sig.Desc() != \"\" && sig.ParentMultiplexerSignal() == nil {", ["C11"]),
    ("import-comment-key-ignores-message", "importer.go",
     "\t\t\tkey := i.getSignalKey(dbcComm.MessageID, dbcComm.SignalName)\n\t\t\ti.sigDesc[key] = dbcComm.Text",
     "\t\t\tkey := i.getSignalKey(0, dbcComm.SignalName)\n\t\t\ti.sigDesc[key] = dbcComm.Text", ["C10"]),
    ("import-placeholder-never-removed", "importer.go",
     "if len(dummyNode.SentMessages()) == 0 {", "if len(dummyNode.SentMessages()) < 0 {", ["C10", "C11"]),
    ("import-float-attr-int-value-dropped", "importer.go",
     "\t\t\t\tvalue = float64(dbcAttVal.ValueInt)", "\t\t\t\tvalue = float64(0)", ["C10", "C11"]),
    ("import-mux-group-switch-bit-flipped", "importer.go",
     "groupIDs = append(groupIDs, int(tmpDBCSig.MuxSwitchValue))", "groupIDs = append(groupIDs, int(tmpDBCSig.MuxSwitchValue)^int(tmpDBCSig.MuxSwitchValue/4%2))", ["C10", "C11"]),
    ("export-mux-ranges-merge-gap", "exporter.go",
     "\t\t\tif next == curr+1 {", "\t\t\tif next <= curr+2 {", ["C11"]),
    ("import-enum-value-zero-skipped", "importer.go",
     "\t\tfor _, dbcVal := range dbcValEnc.Values {\n",
     "\t\tfor _, dbcVal := range dbcValEnc.Values {\n\t\t\tif dbcVal.ID == 0 && len(dbcValEnc.Values) > 1 {\n\t\t\t\tcontinue\n\t\t\t}\n", ["C10"]),
    ("import-sort-by-dbc-start-bit", "importer.go",
     "return i.getSignalStartBit(a) - i.getSignalStartBit(b) })", "return int(a.StartBit) - int(b.StartBit) })", ["C10", "C11"]),
    ("export-float-default-as-string", "exporter.go",
     "dbcAttDef.Type = dbc.AttributeDefaultFloat", "dbcAttDef.Type = dbc.AttributeDefaultString", ["C11"]),
    ("import-hex-default-from-hex-slot", "importer.go",
     "\tcase dbc.AttributeDefaultFloat:\n\t\treturn int(dbcAttDef.ValueFloat)\n\tdefault:\n\t\treturn dbcAttDef.ValueInt",
     "\tcase dbc.AttributeDefaultFloat:\n\t\treturn int(dbcAttDef.ValueFloat)\n\tdefault:\n\t\treturn int(dbcAttDef.ValueHex)", ["C10", "C11"]),
    ("export-signed-flag-inverted-for-size-1", "exporter.go",
     "\tif stdSig.typ.signed {", "\tif stdSig.typ.signed && stdSig.typ.size > 1 {", ["C11"]),
]


def sh(cmd, cwd=None, env=None):
    p = subprocess.run(cmd, cwd=cwd, env=env, shell=isinstance(cmd, str), stdout=subprocess.PIPE, stderr=subprocess.STDOUT)
    return p.returncode, p.stdout.decode("utf-8", "replace")


def main():
    only = set(sys.argv[1:])
    env = dict(os.environ, GOFLAGS="-mod=mod", GOPROXY="off")
    env.pop("GOTOOLCHAIN", None)
    env.pop("GOSUMDB", None)
    results = []
    for name, fname, old, new, checks in MUTANTS:
        if only and name not in only:
            continue
        wt = "/tmp/wt/mutC10"
        sh(["git", "-C", "/repo", "worktree", "remove", "--force", wt])
        rc, out = sh(["git", "-C", "/repo", "worktree", "add", "-q", "--detach", wt, "HEAD"])
        if rc != 0:
            print("cannot create worktree", out)
            return 2
        path = os.path.join(wt, fname)
        src = open(path).read()
        if src.count(old) != 1:
            results.append((name, "ANCHOR-NOT-FOUND(%d)" % src.count(old), ""))
            sh(["git", "-C", "/repo", "worktree", "remove", "--force", wt])
            continue
        open(path, "w").write(src.replace(old, new))
        rc, out = sh("go build ./... && go test -count=1 ./...", cwd=wt, env=env)
        if rc != 0:
            results.append((name, "KILLED-BY-TEST-SUITE", out[-200:].replace("\n", " ")))
            sh(["git", "-C", "/repo", "worktree", "remove", "--force", wt])
            continue
        verdicts = []
        for c in checks:
            e = dict(os.environ, VERIF_REPO=wt, VERIF_EVIDENCE_DIR="/tmp/wt/mutC10-evid")
            rc, out = sh(["./check", c, "--tier", "quick"], cwd="/verif", env=e)
            v = [l for l in out.split("\n") if l.startswith("VIOLATION")]
            sigs = [l.strip()[:90] for l in out.split("\n") if l.startswith("  (")]
            verdicts.append("%s:%s %s" % (c, "CAUGHT" if v else "missed", ";".join(s.split(")")[0] + ")" for s in sigs[:3])))
        results.append((name, "survives-tests", " | ".join(verdicts)))
        sh(["git", "-C", "/repo", "worktree", "remove", "--force", wt])
        sh("rm -rf /tmp/wt/mutC10-evid")
    for r in results:
        print("%-42s %-22s %s" % r)
    return 0


if __name__ == "__main__":
    sys.exit(main())
