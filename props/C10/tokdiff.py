"""Token-tree helpers shared by the C10 and C11 checks: parse the `( ... )` trees exchanged with
the Go harness / OCaml driver, decode them for display and find the first differing path."""


def parse(s):
    toks = s.split()
    pos = 0

    def go():
        nonlocal pos
        t = toks[pos]
        pos += 1
        if t == "(":
            l = []
            while toks[pos] != ")":
                l.append(go())
            pos += 1
            return l
        if t[0] == "i":
            return int(t[1:])
        if t[0] == "s":
            return "s:" + bytes.fromhex(t[1:]).decode("utf-8", "replace")
        if t[0] == "f":
            m, e = t[1:].split(":")
            return "f:%s*2^%s" % (m, e)
        return t
    return go()


BUS = ["desc", "attrs", "nodes", "messages"]
MSG = ["canid", "name", "size", "order", "cycle", "delay", "startdelay", "sendtype", "sender", "receivers",
       "desc", "attrs", "signals"]
SIG = ["name", "kind", "start", "size", "signed", "scale", "offset", "min", "max", "unit", "enum", "parent",
       "membership", "desc", "startval", "sendtype", "attrs"]


def label(path, i):
    """name the i-th field below `path` (a tuple of labels)"""
    if len(path) == 0:
        return ["status", "bus", "decodes"][i] if i < 3 else str(i)
    last = path[-1]
    if last == "bus" and i < len(BUS):
        return BUS[i]
    if len(path) >= 2 and path[-2] == "messages" and i < len(MSG):
        return MSG[i]
    if len(path) >= 2 and path[-2] == "signals" and i < len(SIG):
        return SIG[i]
    return str(i)


def name_of(x):
    if isinstance(x, list) and x:
        for c in x[:2]:
            if isinstance(c, str) and c.startswith("s:"):
                return c[2:]
    return None


def first_diff(a, b, path=()):
    """(path string, a, b) of the first difference, or None"""
    if isinstance(a, list) and isinstance(b, list):
        for i in range(min(len(a), len(b))):
            lab = label(path, i)
            n = name_of(a[i])
            if n is not None and lab.isdigit():
                lab = "%s[%s]" % (lab, n)
            d = first_diff(a[i], b[i], path + (lab,))
            if d:
                return d
        if len(a) != len(b):
            return ("/".join(path) + "/#len", len(a), len(b))
        return None
    if a != b:
        return ("/".join(path), a, b)
    return None
