"""C11 — export then import reproduces the DBC-expressible model.
Proof: coq/Properties/C11.v over coq/C10/{Export,Import,BusModel}.v (shared with C10).
Tie: the Go harness (props/C11/harness) builds buses by random construction histories through the
public API, exports each with ExportBus, imports the text with ImportDBCFile and compares the
canonical projections of both buses (the property predicate, Go against Go); the original bus is
also serialised for the extracted model, whose export -> text round trip -> import must give the
projection the implementation gives, and whose `proj_bus` must equal the harness' walk."""
import importlib.util
import json
import os
import re
import sys
import vlib

PID = "C11"
HERE = os.path.dirname(os.path.abspath(__file__))
C10 = os.path.join(os.path.dirname(HERE), "C10")
sys.path.insert(0, C10)
import tokdiff  # noqa: E402

_spec = importlib.util.spec_from_file_location("c10check", os.path.join(C10, "check.py"))
c10 = importlib.util.module_from_spec(_spec)
_spec.loader.exec_module(c10)


def run(ctx):
    ctx.level = "proof"
    status = vlib.proof_status(PID, extra_targets=["C10/Extract.v"])
    ctx.proof_gate(status)
    drv = vlib.build_ocaml_driver("c10_driver", os.path.join(vlib.COQ, "extracted"),
                                  os.path.join(C10, "driver", "c10_driver.ml"), only=["c10_model"])
    exe, blog = c10.build_harness(ctx, ctx.prop_dir, "c11h")
    if exe is None:
        ctx.violation("c11-harness-build", "the harness no longer builds against the repository: " + blog[-800:],
                      {"log": blog[-3000:]}, found_input=False)
        ctx.coverage.update({"evaluations": 0})
        return
    out = os.path.join(ctx.scratch, "out")
    os.makedirs(out)
    cmd = [exe, "-seed", str(ctx.seed), "-tier", ctx.tier, "-out", out]
    if ctx.replay:
        r = json.load(open(ctx.replay))
        cs = (r.get("replay") or {}).get("case_seed")
        if cs is None:
            print("replay file has no case seed (proof/correspondence-only record): nothing to run")
            cs = 1
        cmd += ["-replay", str(cs)]
    rc, log = vlib.sh(cmd, env=vlib.goenv(), timeout=3000)
    if ctx.replay:
        print(log)
    if rc != 0 or not os.path.exists(os.path.join(out, "summary.json")):
        m = re.search(r"panic: .*|fatal error: .*", log)
        ctx.violation("c11-harness-run", "harness run failed (%s): %s" % (m.group(0) if m else "rc=%d" % rc, log[-600:]),
                      {"log": log[-3000:]}, found_input=bool(m))
        ctx.coverage.update({"evaluations": 0})
        return
    summ = json.load(open(os.path.join(out, "summary.json")))
    rc2, mlog = vlib.sh("%s %s > %s" % (drv, os.path.join(out, "cases.txt"), os.path.join(out, "model.txt")), timeout=3000)
    if rc2 != 0:
        ctx.violation("c11-model-driver", "model driver failed: " + mlog[-500:], {"log": mlog[-2000:]}, found_input=False)
    impl = c10.read_lines(os.path.join(out, "impl.txt"))
    model = c10.read_lines(os.path.join(out, "model.txt"))
    if not ctx.replay:
        c10.count_guard(ctx, "c11", summ, impl, model, None)
        ctx.min_evaluations = 700 if ctx.tier == "quick" else 20000
    impl.pop(None, None)
    model.pop(None, None)
    # the model wraps export_import results as ( "ok" proj decodes ); projections of the original bus are bare
    mism, agree_ok, agree_err, items = c10.compare(ctx, impl, model, None, prefix="c11")
    if not ctx.replay and mism + agree_ok + agree_err != len(impl):
        ctx.violation("c11-driver-count", "%d of %d implementation records were compared" % (mism + agree_ok + agree_err, len(impl)),
                      {}, found_input=False)

    for sig, f in sorted(summ["failures"].items()):
        ctx.violation(sig, "ExportBus -> ImportDBCFile breaks C11 (%s): %s" % (sig, f["detail"]),
                      {"case_seed": f["seed"], "text": f["text"], "detail": f["detail"], "case": f["case"],
                       "how": "./check C11 --replay <this file>"})
    by_sig, explained = {}, 0
    known_open = {k["signature"] for k in ctx.known_open}
    for cid, sig, desc in items:
        base = cid[:-5] if cid.endswith("-proj") else cid
        # explained only by a predicate failure on this very case that is not a known finding
        if not cid.endswith("-proj") and any(s not in known_open for s in summ.get("failed_cases", {}).get(base, [])):
            explained += 1
            continue
        if cid.endswith("-proj"):
            sig = sig.replace("c11-correspondence", "c11-correspondence-projection")
        by_sig.setdefault(sig, (cid, desc))
    for sig, (cid, desc) in sorted(by_sig.items()):
        ctx.violation(sig, "model and implementation disagree on case %s (%d disagreeing results in all); the theorems of "
                      "Properties/C11.v no longer speak about this code: %s" % (cid, mism, desc),
                      {"case": cid, "correspondence": desc}, found_input=False)
    for cid, sig, desc in items[:6]:
        print("note: model/implementation difference on case %s [%s] %s" % (cid, sig, desc[:300]))
    if ctx.replay:
        print("model:", model.get("b0", "")[:3000])
        print("impl :", impl.get("b0", "")[:3000])
    ctx.coverage.update({
        "evaluations": summ["cases"],
        "expressible": summ["expressible"], "not_expressible": summ["not_expressible"],
        "round_tripped_exactly": summ["round_tripped"], "signals_compared": summ["signals"],
        "distinct_nontrivial": summ["nontrivial"],
        "rule": "cases = buses built through the public API by seeded random construction histories (0..6 nodes; per node up to 3 "
                "messages of 0..8 bytes, either byte order set before or after the signals, generated or static (also extended) "
                "CAN-IDs, attached to the sender before or after filling; standard / enum / multiplexer signals appended or "
                "inserted at free positions, multiplexers with 1/2/3/4/8 groups built with fixed, single- and multi-group "
                "children and nesting up to depth 2; shared signal types, units and enums incl. twin enums; string / integer / "
                "hex / float / enum attributes assigned to the bus, nodes, messages and signals; timing, send types, start "
                "values, descriptions; names with inner and surrounding blanks; later renames and compaction). Each bus is "
                "exported with ExportBus, imported back with ImportDBCFile and both buses are projected through public getters "
                "and compared field by field; the model runs export -> write/parse effect -> import on the serialised bus. "
                "non-trivial = distinct expressible bus with at least two signals",
        "distribution": summ["hist"],
        "model_agree_results": agree_ok + agree_err, "model_mismatches": mism,
        "model_mismatches_on_cases_failing_the_predicate": explained,
        "model_mismatch_signatures": sorted(by_sig)[:20],
        "property_predicate_failures": sorted(summ["failures"]),
        "samples": [s[:1500] for s in summ["samples"][:2]] or ["(no sample)"],
        "exhaustive": False,
        "trusted_base": [
            "Coq 8.16.1 kernel (coqc; coqchk in the thorough tier)",
            "axioms: none (Print Assumptions: Closed under the global context)" if not status["axioms"] else "axioms: " + ", ".join(status["axioms"]),
            "extraction (ExtrOcamlBasic, ExtrOcamlString) + OCaml 4.13.1 + props/C10/driver/c10_driver.ml (generic token reader/printer)",
            "Go harness props/C11/harness (history generator, expressibility test, serialisation of the bus) and props/C10/harness/lib (bus walk, projection diff)",
            "text_roundtrip (coq/C10/Export.v): the effect of dbc.Write followed by dbc.Parse on the exporter's sections is MODELLED, not proved here (C08's subject); the implementation side of the comparison goes through the real text",
            "the model coq/C10/Export.v / Import.v is a hand-written restatement of exporter.go / importer.go; tied by the projection-level correspondence above",
        ],
    })
    ctx.assumptions = [
        "DBC-expressible buses: sanitised names are identifiers (not keywords, not shaped like a multiplexer indicator), distinct per scope; texts are quote-free; distinct attributes have distinct names other than the well-known ones; CAN-IDs distinct; hex attribute bounds in [0, 2^32); a message that lists receivers has at least one signal",
        "floats are finite; -0.0 is identified with 0.0; integers converted with float64(int) are below 2^53",
    ]
    if ctx.tier == "thorough":
        ok, chk = vlib.coqchk(PID)
        ctx.coverage["coqchk"] = "ok" if ok else "FAILED"
        ctx.coverage["coqchk_tail"] = chk[-1500:]
        if not ok:
            ctx.proof_problems = (getattr(ctx, "proof_problems", []) or []) + ["coqchk failed: " + chk[-500:]]
