package main

// Random construction histories of a Bus through the public API (C11 quantifier): 0..6 nodes,
// messages of 0..8 bytes in both byte orders with generated or static CAN-IDs, standard / enum /
// multiplexer signals (several multiplexers per message, nesting, fixed and multi-group signals),
// shared types / units / enums, the four attribute types (and hex format) on every entity kind,
// names with blanks.  Operations that fail are simply skipped (the history is what succeeded).

import (
	"fmt"
	"math"

	"github.com/squadracorsepolito/acmelib"
	"verif/c10/lib"
)

type builder struct {
	r     *lib.Rng
	tags  map[string]int
	n     int
	atts  []acmelib.Attribute
	types []*acmelib.SignalType
	units []*acmelib.SignalUnit
	enums []*acmelib.SignalEnum
}

func (b *builder) tag(s string) { b.tags[s]++ }

// names: sometimes with inner blanks and surrounding spaces (sanitised by the exporter)
func (b *builder) name(prefix string) string {
	b.n++
	switch b.r.Below(8) {
	case 0:
		b.tag("name-with-blanks")
		return fmt.Sprintf("%s %d", prefix, b.n)
	case 1:
		b.tag("name-with-blanks")
		return fmt.Sprintf(" %s %d x ", prefix, b.n)
	case 2: // runs of blanks: every blank becomes an underscore of its own
		b.tag("name-with-runs-of-blanks")
		return fmt.Sprintf("%s  %d", prefix, b.n)
	case 3: // runs of blanks inside, blanks and tabs around (trimmed)
		b.tag("name-with-runs-of-blanks")
		return fmt.Sprintf("\t %s   %d  y \t", prefix, b.n)
	default:
		return fmt.Sprintf("%s_%d", prefix, b.n)
	}
}

var descPool = []string{"", "", "a description", "line one\nline two", "with, punctuation; and: symbols (1|2) [x]", "  padded  "}

// free text as it reaches a DBC string: line breaks of every kind, tabs, trailing blanks, a percent sign,
// non-ASCII letters (a backslash makes the text inexpressible: such cases are run, their differences tolerated)
var textPool = []string{"saved on Windows\r\nsecond line", "lone\rcarriage return", "\n", "tab\there", "trailing  ", "100 % of it",
	"Gr\u00fc\u00dfe \u00b0C \u00b5s", "\r\n", "a\r\n\r\nb"}

func (b *builder) text(plain []string) string {
	switch b.r.Below(12) {
	case 0, 1, 2:
		b.tag("text-special")
		return textPool[b.r.Below(len(textPool))]
	case 3:
		if b.r.Chance(1, 6) {
			b.tag("text-backslash")
			return "back\\slash"
		}
	}
	return plain[b.r.Below(len(plain))]
}

func (b *builder) desc() string { return b.text(descPool) }

// a dedicated time field: usually inside the range the exporter declares for its well-known attribute (0..max),
// one time in three at the bound or beyond it (the setters do not validate)
func (b *builder) fieldVal(inside, max int) int {
	if !b.r.Chance(1, 3) {
		return inside
	}
	b.tag("wellknown-at-or-beyond-declared-bounds")
	return []int{max, max + 1, 2 * max, max - 1, -1, -max}[b.r.Below(6)]
}

func (b *builder) floatVal() float64 {
	pool := []float64{0, 1, -1, 0.5, 0.1, 2, 10, 100, -40, 273.15, 0.001, 1e6, 3.75, -0.25, 65535}
	if b.r.Chance(1, 5) { // boundaries: 2^31, 2^32, 2^53, 2^63, 2^64, 1e19 and negatives
		b.tag("float-boundary")
		pool = []float64{2147483647, 2147483648, 4294967295, 4294967296, 9007199254740992, 9223372036854775807,
			9223372036854775808, 18446744073709551615, 18446744073709551616, 1e19, 1e-9,
			-2147483649, -9007199254740992, -9223372036854775808, -1e19}
	}
	return pool[b.r.Below(len(pool))]
}

// a fraction in [0,1) with 1..12 decimals
func (b *builder) frac() float64 {
	digits := 1 + b.r.Below(12)
	p := 1
	for i := 0; i < digits; i++ {
		p *= 10
	}
	return float64(b.r.Below(p)) / float64(p)
}

// limits (and a default inside them) of a float attribute that are not multiples of 0.5: an integer part of any
// sign plus a fraction of up to 12 decimals, one time in four tiny limits (below 1e-6 in magnitude)
func (b *builder) fracLimits() (mn, mx, d float64) {
	if b.r.Chance(1, 4) {
		mn = float64(b.r.Below(2000)-1000) * 1e-9
		mx = mn + float64(1+b.r.Below(1000))*1e-9
	} else {
		mn = float64(b.r.Below(40)-20) + b.frac()
		mx = mn + float64(b.r.Below(3)) + b.frac()
		if mx <= mn {
			mx = mn + 1e-7
		}
	}
	switch b.r.Below(3) {
	case 0:
		d = mn
	case 1:
		d = mx
	default:
		d = mn + (mx-mn)*b.frac()
		if d < mn || d > mx {
			d = mn
		}
	}
	return
}

var boundaryInts = []int{-9223372036854775807, -9007199254740992, -4294967296, -2147483649, -2147483648, -1, 0, 1,
	2147483647, 2147483648, 4294967295, 4294967296, 9007199254740992, 9223372036854775807}

func (b *builder) makeAttributes() {
	n := b.r.Below(7)
	for i := 0; i < n; i++ {
		name := b.name("att")
		switch b.r.Below(5) {
		case 0:
			b.atts = append(b.atts, acmelib.NewStringAttribute(name, b.text([]string{"", "dflt", "two words"})))
			b.tag("attr-string")
		case 1:
			mn := b.r.Below(100) - 50
			mx := mn + b.r.Below(1000)
			def := mn + b.r.Below(mx-mn+1)
			if b.r.Chance(1, 3) { // bounds at 2^31, 2^32, 2^53, 2^63-1 and negatives
				i := b.r.Below(len(boundaryInts) - 1)
				j := i + 1 + b.r.Below(len(boundaryInts)-i-1)
				mn, mx = boundaryInts[i], boundaryInts[j]
				def = boundaryInts[i+b.r.Below(j-i+1)]
				b.tag("attr-int-boundary")
			}
			a, err := acmelib.NewIntegerAttribute(name, def, mn, mx)
			if err == nil {
				b.atts = append(b.atts, a)
				b.tag("attr-int")
			}
		case 2:
			mn := b.r.Below(50)
			mx := mn + b.r.Below(70000)
			if b.r.Chance(1, 4) {
				mx = []int{2147483647, 2147483648, 4294967295}[b.r.Below(3)]
				b.tag("attr-hex-boundary")
			}
			if b.r.Chance(1, 12) { // a hex attribute with a negative lower bound (not a uint32)
				mn = -1 - b.r.Below(5)
				b.tag("attr-hex-negative-min")
			}
			a, err := acmelib.NewIntegerAttribute(name, mn+b.r.Below(mx-mn+1), mn, mx)
			if err == nil {
				a.SetFormatHex()
				b.atts = append(b.atts, a)
				b.tag("attr-hex")
			}
		case 3:
			mn := float64(b.r.Below(20)) - 10
			mx := mn + float64(1+b.r.Below(200)) + 0.5
			d := mn + float64(b.r.Below(int(mx-mn)))
			if b.r.Chance(1, 2) {
				d += 0.25
			}
			if b.r.Chance(1, 2) {
				// limits with a fractional part of up to 12 decimals (or tiny limits below 1e-6) and the
				// default on a limit or anywhere between: the BA_DEF_ limits must round trip digit for digit
				mn, mx, d = b.fracLimits()
				b.tag("attr-float-fractional-limits")
			}
			a, err := acmelib.NewFloatAttribute(name, d, mn, mx)
			if err == nil {
				b.atts = append(b.atts, a)
				b.tag("attr-float")
			}
		case 4:
			vals := []string{}
			for j := 2 + b.r.Below(3); j > 0; j-- {
				b.n++
				vals = append(vals, fmt.Sprintf("E%d", b.n))
			}
			a, err := acmelib.NewEnumAttribute(name, vals...)
			if err == nil {
				b.atts = append(b.atts, a)
				b.tag("attr-enum")
			}
		}
	}
}

type assignable interface {
	AssignAttribute(acmelib.Attribute, any) error
}

func (b *builder) assignSome(e assignable, kind string) {
	for _, a := range b.atts {
		if !b.r.Chance(1, 4) {
			continue
		}
		var v any
		switch a.Type() {
		case acmelib.AttributeTypeString:
			v = b.text([]string{"", "v", "some text"})
		case acmelib.AttributeTypeInteger:
			ia, _ := a.ToInteger()
			if span := ia.Max() - ia.Min(); span > 0 && span < 1<<40 {
				v = ia.Min() + b.r.Below(span+1)
			} else { // huge range: a boundary value inside it
				v = ia.Min()
				for _, c := range boundaryInts {
					if c >= ia.Min() && c <= ia.Max() && b.r.Chance(1, 3) {
						v = c
					}
				}
			}
		case acmelib.AttributeTypeFloat:
			fa, _ := a.ToFloat()
			if fa.Min() != math.Trunc(fa.Min()) || 2*fa.Max() != math.Trunc(2*fa.Max()) || fa.Max()-fa.Min() < 1 {
				// fractional limits: the value on the lower limit, on the upper limit or between them
				switch b.r.Below(3) {
				case 0:
					v = fa.Min()
				case 1:
					v = fa.Max()
				default:
					f := fa.Min() + (fa.Max()-fa.Min())*b.frac()
					if f < fa.Min() || f > fa.Max() {
						f = fa.Min()
					}
					v = f
				}
				b.tag("assign-float-on-or-near-fractional-limit")
				break
			}
			f := fa.Min() + float64(b.r.Below(int(fa.Max()-fa.Min())))
			if b.r.Chance(1, 2) {
				f += 0.5
			}
			v = f
		case acmelib.AttributeTypeEnum:
			ea, _ := a.ToEnum()
			vs := ea.Values()
			v = vs[b.r.Below(len(vs))]
		}
		if err := e.AssignAttribute(a, v); err == nil {
			b.tag("assign-" + kind + "-" + a.Type().String())
		}
	}
}

func (b *builder) makePools() {
	for i := 1 + b.r.Below(4); i > 0; i-- {
		size := 1 + b.r.Below(16)
		if b.r.Chance(1, 8) {
			size = 1 + b.r.Below(64)
		}
		signed := b.r.Chance(1, 3)
		var t *acmelib.SignalType
		var err error
		switch b.r.Below(4) {
		case 0:
			t, err = acmelib.NewIntegerSignalType(b.name("int_t"), size, signed)
		case 1:
			t, err = acmelib.NewDecimalSignalType(b.name("dec_t"), size, signed)
			if err == nil && b.r.Chance(1, 2) {
				t.SetScale(b.floatVal())
				t.SetOffset(b.floatVal())
			}
		case 2:
			t, err = acmelib.NewCustomSignalType(b.name("cus_t"), size, signed, b.floatVal(), b.floatVal(), b.floatVal(), b.floatVal())
		default:
			t = acmelib.NewFlagSignalType(b.name("flag_t"))
		}
		if err == nil {
			b.types = append(b.types, t)
		}
	}
	// natural 64-bit types and twins of a custom type that differ in exactly one field
	if b.r.Chance(1, 3) {
		if t, err := acmelib.NewIntegerSignalType(b.name("u64_t"), 64, b.r.Chance(1, 2)); err == nil {
			b.types = append(b.types, t)
			b.tag("type-64bit")
		}
	}
	if b.r.Chance(1, 2) {
		size, signed := 1+b.r.Below(12), b.r.Chance(1, 2)
		mn, mx, sc, of := b.floatVal(), b.floatVal(), b.floatVal(), b.floatVal()
		if base, err := acmelib.NewCustomSignalType(b.name("base_t"), size, signed, mn, mx, sc, of); err == nil {
			b.types = append(b.types, base)
			for k := 1 + b.r.Below(3); k > 0; k-- {
				s2, g2, mn2, mx2, sc2, of2 := size, signed, mn, mx, sc, of
				switch b.r.Below(6) {
				case 0:
					s2++
				case 1:
					g2 = !g2
				case 2:
					mn2 = mn2 - 1
				case 3:
					mx2 = mx2 + 1
				case 4:
					sc2 = sc2 * 2
				default:
					of2 = of2 + 3
				}
				if tw, err := acmelib.NewCustomSignalType(b.name("twin_t"), s2, g2, mn2, mx2, sc2, of2); err == nil {
					b.types = append(b.types, tw)
					b.tag("type-twin")
				}
			}
		}
	}
	for _, sym := range []string{"km/h", "degC", "%", "", "m s", " ", " km/h ", "x ", "\u00b0C", "m\ts", "1\r\n2", "rpm\r"} {
		if b.r.Chance(1, 2) {
			b.units = append(b.units, acmelib.NewSignalUnit(b.name("unit"), acmelib.SignalUnitKindCustom, sym))
		}
	}
	for i := b.r.Below(4); i > 0; i-- {
		e := acmelib.NewSignalEnum(b.name("enum"))
		used := map[int]bool{}
		for j := b.r.Below(5); j > 0; j-- {
			idx := b.r.Below(16)
			if b.r.Chance(1, 10) {
				idx = b.r.Below(300)
			}
			if !used[idx] {
				used[idx] = true
				b.n++
				vn := fmt.Sprintf("VAL %d", b.n)
				if b.r.Chance(1, 6) {
					vn = fmt.Sprintf("%s %d", textPool[b.r.Below(len(textPool))], b.n)
					b.tag("text-special")
				}
				e.AddValue(acmelib.NewSignalEnumValue(vn, idx))
			}
		}
		if b.r.Chance(1, 3) {
			e.SetMinSize(1 + b.r.Below(8))
		}
		b.enums = append(b.enums, e)
	}
	if b.r.Chance(1, 3) {
		// two enums whose value lists are prefix / extension of one another (same names and indexes), listed in
		// either order, sometimes with different minimum sizes; a third one equal to the shorter
		short := acmelib.NewSignalEnum(b.name("enum_short"))
		long := acmelib.NewSignalEnum(b.name("enum_long"))
		n := 1 + b.r.Below(3)
		for i := 0; i < n+1+b.r.Below(2); i++ {
			nm := []string{"OFF", "ON", "ERROR", "SNA", "INIT"}[i]
			if i < n {
				short.AddValue(acmelib.NewSignalEnumValue(nm, i))
			}
			long.AddValue(acmelib.NewSignalEnumValue(nm, i))
		}
		if b.r.Chance(1, 3) {
			short.SetMinSize(3 + b.r.Below(4))
		}
		if b.r.Chance(1, 3) {
			long.SetMinSize(3 + b.r.Below(4))
		}
		if b.r.Chance(1, 2) {
			b.enums = append([]*acmelib.SignalEnum{long, short}, b.enums...)
		} else {
			b.enums = append([]*acmelib.SignalEnum{short, long}, b.enums...)
		}
		b.tag("enum-prefix-pair")
	}
	if len(b.enums) >= 2 && b.r.Chance(1, 3) {
		// two distinct enums with the same values (DBC can only tell them apart by use)
		if c, err := b.enums[0].Clone(); err == nil {
			c.SetMinSize(b.enums[0].MinSize() + 2)
			b.enums = append(b.enums, c)
			b.tag("enum-twin")
		}
	}
}

// a leaf signal
func (b *builder) leaf() acmelib.Signal {
	var sig acmelib.Signal
	if len(b.enums) > 0 && b.r.Chance(1, 3) {
		en := b.enums[b.r.Below(len(b.enums))]
		if b.tags["enum-prefix-pair"] > 0 && b.r.Chance(1, 2) { // the prefix / extension pair sits in front
			en = b.enums[b.r.Below(2)]
		}
		s, err := acmelib.NewEnumSignal(b.name("en"), en)
		if err != nil {
			return nil
		}
		sig = s
		b.tag("sig-enum")
	} else {
		s, err := acmelib.NewStandardSignal(b.name("st"), b.types[b.r.Below(len(b.types))])
		if err != nil {
			return nil
		}
		if len(b.units) > 0 && b.r.Chance(1, 2) {
			s.SetUnit(b.units[b.r.Below(len(b.units))])
		}
		sig = s
		b.tag("sig-standard")
	}
	b.decorate(sig)
	return sig
}

func (b *builder) decorate(sig acmelib.Signal) {
	sig.SetDesc(b.desc())
	if b.r.Chance(1, 4) {
		sig.SetStartValue([]float64{1, 2.5, 100, 0.125}[b.r.Below(4)])
		if b.r.Chance(1, 3) { // at and beyond the bounds the exporter declares for GenSigStartValue (0..10000)
			sig.SetStartValue([]float64{10000, 10000.5, 10001, 20000, -1, -2.5, 9999.875, 1e6}[b.r.Below(8)])
			b.tag("wellknown-at-or-beyond-declared-bounds")
		}
		b.tag("sig-start-value")
	}
	if b.r.Chance(1, 4) {
		sig.SetSendType(acmelib.SignalSendType(b.r.Below(8)))
		b.tag("sig-send-type")
	}
	b.assignSome(sig, "signal")
}

// a multiplexer with children; depth limits nesting
func (b *builder) mux(maxBits, depth int) *acmelib.MultiplexerSignal {
	counts := []int{1, 2, 2, 3, 4, 4, 8}
	gc := counts[b.r.Below(len(counts))]
	sel := 1
	for (1 << sel) < gc {
		sel++
	}
	if maxBits < sel+1 {
		return nil
	}
	gs := 1 + b.r.Below(min(maxBits-sel, 24))
	m, err := acmelib.NewMultiplexerSignal(b.name("mux"), gc, gs)
	if err != nil {
		return nil
	}
	b.decorate(m)
	tries := 2 + b.r.Below(6)
	for i := 0; i < tries; i++ {
		var child acmelib.Signal
		if depth > 0 && b.r.Chance(1, 4) {
			if c := b.mux(gs, depth-1); c != nil {
				child = c
				b.tag("mux-nested")
			}
		}
		if child == nil {
			child = b.leaf()
		}
		if child == nil || child.GetSize() > gs {
			continue
		}
		pos := b.r.Below(gs - child.GetSize() + 1)
		var err error
		switch k := b.r.Below(4); {
		case k == 0:
			err = m.InsertSignal(child, pos)
			if err == nil {
				b.tag("mux-fixed-child")
			}
		case k == 1 && gc > 2:
			ids := []int{}
			for id := 0; id < gc; id++ {
				if b.r.Chance(1, 2) {
					ids = append(ids, id)
				}
			}
			if len(ids) == 0 {
				ids = []int{0}
			}
			err = m.InsertSignal(child, pos, ids...)
			if err == nil && len(ids) > 1 {
				b.tag("mux-multi-group-child")
			}
		default:
			err = m.InsertSignal(child, pos, b.r.Below(gc))
		}
		_ = err
	}
	b.tag(fmt.Sprintf("mux-groupcount-%d", gc))
	return m
}

func freePositions(m *acmelib.Message, size int) []int {
	total := m.SizeByte() * 8
	res := []int{}
	for p := 0; p+size <= total; p++ {
		ok := true
		for _, s := range m.Signals() {
			if p < s.GetStartBit()+s.GetSize() && s.GetStartBit() < p+size {
				ok = false
				break
			}
		}
		if ok {
			res = append(res, p)
		}
	}
	return res
}

// Build runs one random construction history.
func Build(r *lib.Rng) (*acmelib.Bus, map[string]int) {
	b := &builder{r: r, tags: map[string]int{}}
	bus := acmelib.NewBus(b.name("bus"))
	bus.SetDesc(b.desc())
	b.makeAttributes()
	b.makePools()
	b.assignSome(bus, "bus")

	nn := r.Below(7)
	usedNode := map[int]bool{}
	var ifaces []*acmelib.NodeInterface
	for i := 0; i < nn; i++ {
		id := r.Below(16)
		if r.Chance(1, 10) {
			id = r.Below(2000)
		}
		if usedNode[id] {
			continue
		}
		usedNode[id] = true
		node := acmelib.NewNode(b.name("node"), acmelib.NodeID(id), 1)
		node.SetDesc(b.desc())
		b.assignSome(node, "node")
		ni := node.Interfaces()[0]
		if err := bus.AddNodeInterface(ni); err == nil {
			ifaces = append(ifaces, ni)
		}
	}
	b.tag(fmt.Sprintf("nodes-%d", len(ifaces)))
	for _, ni := range ifaces {
		nm := r.Below(4)
		for j := 0; j < nm; j++ {
			size := r.Below(9)
			msg := acmelib.NewMessage(b.name("msg"), acmelib.MessageID(1+r.Below(120)), size)
			b.tag(fmt.Sprintf("msg-size-%d", size))
			early := r.Chance(1, 2)
			if early {
				if ni.AddSentMessage(msg) != nil {
					continue
				}
			}
			if r.Chance(1, 3) {
				if msg.SetStaticCANID(acmelib.CANID(r.Below(1<<11))) == nil {
					b.tag("msg-static-canid")
				}
			} else if r.Chance(1, 12) {
				if msg.SetStaticCANID(acmelib.CANID(0x80000000|uint32(r.Below(1<<29)))) == nil {
					b.tag("msg-static-canid-extended")
				}
			}
			be := r.Chance(1, 2)
			orderEarly := r.Chance(1, 2)
			if be && orderEarly {
				msg.SetByteOrder(acmelib.MessageByteOrderBigEndian)
			}
			// signals
			mode := r.Below(10)
			nsig := r.Below(7)
			muxes := 0
			for k := 0; k < nsig; k++ {
				var sig acmelib.Signal
				if mode >= 5 && muxes < 1+mode%2 && r.Chance(1, 2) {
					depth := 0
					if mode >= 8 {
						depth = 1 + r.Below(2)
					}
					if m := b.mux(size*8, depth); m != nil {
						sig = m
						muxes++
					}
				}
				if sig == nil {
					sig = b.leaf()
				}
				if sig == nil {
					continue
				}
				if r.Chance(1, 3) {
					msg.AppendSignal(sig)
					continue
				}
				free := freePositions(msg, sig.GetSize())
				if len(free) == 0 {
					continue
				}
				pos := free[r.Below(len(free))]
				if r.Chance(1, 2) {
					pos = free[0]
				}
				msg.InsertSignal(sig, pos)
			}
			if be && !orderEarly {
				msg.SetByteOrder(acmelib.MessageByteOrderBigEndian)
			}
			if len(msg.Signals()) > 0 {
				if be {
					b.tag("msg-big-endian")
				} else {
					b.tag("msg-little-endian")
				}
			}
			switch {
			case muxes == 0:
				b.tag("msg-no-mux")
			case muxes == 1:
				b.tag("msg-one-mux")
			default:
				b.tag("msg-several-mux")
			}
			msg.SetDesc(b.desc())
			if r.Chance(1, 3) {
				msg.SetCycleTime(b.fieldVal(1+r.Below(5000), 3600000))
				b.tag("msg-cycle-time")
			}
			if r.Chance(1, 4) {
				msg.SetDelayTime(b.fieldVal(1+r.Below(1000), 1000))
			}
			if r.Chance(1, 4) {
				msg.SetStartDelayTime(b.fieldVal(1+r.Below(10000), 100000))
			}
			if r.Chance(1, 3) {
				msg.SetSendType(acmelib.MessageSendType(r.Below(5)))
				b.tag("msg-send-type")
			}
			b.assignSome(msg, "message")
			for _, rec := range ifaces {
				// DBC lists receivers per signal: a message without signals rarely gets one
				if len(msg.Signals()) == 0 && !r.Chance(1, 10) {
					continue
				}
				if rec != ni && r.Chance(1, 3) {
					if msg.AddReceiver(rec) == nil {
						b.tag("msg-receiver")
					}
				}
			}
			if !early {
				if ni.AddSentMessage(msg) != nil {
					continue
				}
			}
			// a few later edits of the history
			if r.Chance(1, 6) {
				msg.CompactSignals()
				b.tag("edit-compact")
			}
			if r.Chance(1, 8) {
				if msg.UpdateName(b.name("renamed msg")) == nil {
					b.tag("edit-rename-message")
				}
			}
			if sigs := msg.Signals(); len(sigs) > 0 && r.Chance(1, 8) {
				if sigs[r.Below(len(sigs))].UpdateName(b.name("renamed sig")) == nil {
					b.tag("edit-rename-signal")
				}
			}
		}
	}
	return bus, b.tags
}
