module verif/c11

go 1.24.0

require github.com/squadracorsepolito/acmelib v0.0.0

require verif/c10 v0.0.0

require verif/vinv v0.0.0

require (
	github.com/jaevor/go-nanoid v1.4.0 // indirect
	github.com/karrick/godirwalk v1.17.0 // indirect
	github.com/mattn/go-runewidth v0.0.9 // indirect
	github.com/nao1215/markdown v0.4.0 // indirect
	github.com/olekukonko/tablewriter v0.0.5 // indirect
	golang.org/x/exp v0.0.0-20240506185415-9bf2ced13842 // indirect
	google.golang.org/protobuf v1.34.1 // indirect
)

replace github.com/squadracorsepolito/acmelib => /repo

replace verif/c10 => /verif/props/C10/harness

replace verif/vinv => /verif/props/common/vinv
