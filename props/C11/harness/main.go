// Command c11 is the C11 harness: buses built by random construction histories through the
// public API are exported with acmelib.ExportBus, the text is imported back with
// acmelib.ImportDBCFile and the canonical projections of both buses are compared (the property
// predicate, Go against Go).  The original bus is also serialised for the extracted Coq model,
// whose `export`/`import` composition must yield the same projection as the implementation.
package main

import (
	"encoding/json"
	"flag"
	"fmt"
	"os"
	"path/filepath"
	"regexp"
	"sort"
	"strings"

	"github.com/squadracorsepolito/acmelib"
	"verif/c10/lib"
	"verif/vinv"
)

type failure struct {
	Case   string `json:"case"`
	Sig    string `json:"sig"`
	Detail string `json:"detail"`
	Text   string `json:"text"`
	Seed   uint64 `json:"seed"`
	Size   int    `json:"size"`
}

type summary struct {
	Cases          int                 `json:"cases"`
	Expressible    int                 `json:"expressible"`
	RoundTripped   int                 `json:"round_tripped"`
	Nontrivial     int                 `json:"nontrivial"`
	Signals        int                 `json:"signals"`
	Hist           map[string]int      `json:"hist"`
	Failures       map[string]failure  `json:"failures"`
	FailedCases    map[string][]string `json:"failed_cases"`
	Samples        []string            `json:"samples"`
	NotExpressible map[string]int      `json:"not_expressible"`
	CaseLines      int                 `json:"case_lines"`
	ImplLines      int                 `json:"impl_lines"`
}

var identRe = regexp.MustCompile(`^[A-Za-z][A-Za-z0-9_-]*$`)
var muxIndRe = regexp.MustCompile(`^(m[0-9]+M?|M)$`)
var keywords = map[string]bool{"VERSION": true, "NS_": true, "BS_": true, "BU_": true, "VAL_TABLE_": true, "BO_": true, "SG_": true,
	"BO_TX_BU_": true, "EV_": true, "ENVVAR_DATA_": true, "SGTYPE_": true, "CM_": true, "BA_DEF_": true, "BA_DEF_DEF_": true, "BA_": true,
	"VAL_": true, "SIG_GROUP_": true, "SIG_VALTYPE_": true, "SG_MUL_VAL_": true, "INT": true, "HEX": true, "FLOAT": true, "STRING": true, "ENUM": true}

var wellKnown = map[string]bool{"GenMsgCycleTime": true, "GenMsgDelayTime": true, "GenMsgStartDelayTime": true,
	"GenMsgSendType": true, "GenSigStartValue": true, "GenSigSendType": true}

func identOK(s string) bool {
	return identRe.MatchString(s) && !muxIndRe.MatchString(s) && !keywords[s]
}
func textOK(s string) bool { return !strings.ContainsAny(s, "\"\\") }

// expressible: the "DBC-expressible" proviso of C11 (decidable form of names_ok/well_formed of
// coq/C11/Proofs.v); returns the first reason when it fails
func expressible(bus *acmelib.Bus, pb lib.PBus) string {
	if !textOK(pb.Desc) {
		return "quote-in-text"
	}
	seenNode := map[string]bool{}
	for _, n := range pb.Nodes {
		if !identOK(n.Name) || n.Name == "Vector__XXX" {
			return "node-name"
		}
		if seenNode[n.Name] {
			return "node-name-clash"
		}
		seenNode[n.Name] = true
		if !textOK(n.Desc) {
			return "quote-in-text"
		}
	}
	attIdent := map[string]string{}
	checkAttrs := func(l []lib.PAsg, raw []*acmelib.AttributeAssignment) string {
		for _, a := range raw {
			n := lib.ClearSpaces(a.Attribute().Name())
			if n == "" || strings.ContainsAny(n, " \t\n\"") || wellKnown[n] {
				return "attribute-name"
			}
			if id, ok := attIdent[n]; ok && id != string(a.Attribute().EntityID()) {
				return "attribute-name-clash"
			}
			attIdent[n] = string(a.Attribute().EntityID())
		}
		for _, a := range l {
			if a.Def.Kind == 1 && a.Def.Hex && (a.Def.Mn < 0 || a.Def.Mx >= 1<<32) {
				return "hex-attribute-range"
			}
			if !textOK(a.Def.S) || !textOK(a.Val.S) {
				return "quote-in-text"
			}
			for _, v := range a.Def.Vals {
				if !textOK(v) {
					return "quote-in-text"
				}
			}
		}
		return ""
	}
	if r := checkAttrs(pb.Attrs, bus.AttributeAssignments()); r != "" {
		return r
	}
	for i, ni := range bus.NodeInterfaces() {
		if r := checkAttrs(pb.Nodes[i].Attrs, ni.Node().AttributeAssignments()); r != "" {
			return r
		}
	}
	seenID := map[int64]bool{}
	for _, m := range pb.Msgs {
		if seenID[m.CANID] {
			return "can-id-clash"
		}
		seenID[m.CANID] = true
		if !identOK(m.Name) {
			return "message-name"
		}
		if len(m.Sigs) == 0 && len(m.Receivers) > 0 {
			return "receivers-without-signals" // DBC lists receivers per signal
		}
		if !textOK(m.Desc) {
			return "quote-in-text"
		}
		if r := checkAttrs(m.Attrs, m.Msg.AttributeAssignments()); r != "" {
			return r
		}
		seenSig := map[string]bool{}
		for _, s := range m.Sigs {
			if !identOK(s.Name) {
				return "signal-name"
			}
			if seenSig[s.Name] {
				return "signal-name-clash"
			}
			seenSig[s.Name] = true
			if !textOK(s.Desc) || !textOK(s.Unit) {
				return "quote-in-text"
			}
			for _, e := range s.Enum {
				if e.Index < 0 || !textOK(e.Name) {
					return "enum-value"
				}
			}
			if sig, err := m.Msg.GetSignalByName(s.RawName); err == nil {
				if r := checkAttrs(s.Attrs, sig.AttributeAssignments()); r != "" {
					return r
				}
			}
		}
	}
	// same sanitised message name twice under one sender
	for _, ni := range bus.NodeInterfaces() {
		seen := map[string]bool{}
		for _, m := range ni.SentMessages() {
			n := lib.ClearSpaces(m.Name())
			if seen[n] {
				return "message-name-clash"
			}
			seen[n] = true
		}
	}
	return ""
}

// BusTok serialises the original bus for the model (field order of coq/C10/Tok.v bus_of).
func BusTok(bus *acmelib.Bus) lib.Tok {
	T := lib.TL
	asg := func(l []*acmelib.AttributeAssignment) lib.Tok {
		r := []lib.Tok{}
		for _, a := range l {
			att := a.Attribute()
			var def lib.Tok
			switch att.Type() {
			case acmelib.AttributeTypeString:
				sa, _ := att.ToString()
				def = T(lib.TI(0), lib.TS(sa.DefValue()))
			case acmelib.AttributeTypeInteger:
				ia, _ := att.ToInteger()
				def = T(lib.TI(1), lib.TI(int64(ia.DefValue())), lib.TI(int64(ia.Min())), lib.TI(int64(ia.Max())), lib.TB(ia.IsHexFormat()))
			case acmelib.AttributeTypeFloat:
				fa, _ := att.ToFloat()
				def = T(lib.TI(2), lib.TF(fa.DefValue()), lib.TF(fa.Min()), lib.TF(fa.Max()))
			default:
				ea, _ := att.ToEnum()
				def = T(lib.TI(3), lib.TS(ea.DefValue()), lib.TStrs(ea.Values()))
			}
			var val lib.Tok
			switch v := a.Value().(type) {
			case string:
				val = T(lib.TI(0), lib.TS(v))
			case int:
				val = T(lib.TI(1), lib.TI(int64(v)))
			case float64:
				val = T(lib.TI(2), lib.TF(v))
			}
			r = append(r, T(lib.TS(att.Name()), def, val))
		}
		return lib.TLs(r)
	}
	enumIdx := map[acmelib.EntityID]int{}
	enums := []lib.Tok{}
	enumOf := func(e *acmelib.SignalEnum) int64 {
		if i, ok := enumIdx[e.EntityID()]; ok {
			return int64(i)
		}
		vs := []lib.Tok{}
		for _, v := range e.Values() {
			vs = append(vs, T(lib.TI(int64(v.Index())), lib.TS(v.Name())))
		}
		enumIdx[e.EntityID()] = len(enums)
		enums = append(enums, T(lib.TS(e.Name()), lib.TLs(vs), lib.TI(int64(e.MaxIndex())), lib.TI(int64(e.MinSize()))))
		return int64(len(enums) - 1)
	}
	nodes := []lib.Tok{}
	msgs := []lib.Tok{}
	for _, ni := range bus.NodeInterfaces() {
		n := ni.Node()
		nodes = append(nodes, T(lib.TS(n.Name()), lib.TI(int64(n.ID())), lib.TS(n.Desc()), asg(n.AttributeAssignments())))
		for _, m := range ni.SentMessages() {
			ids := map[acmelib.EntityID]int64{}
			sigs := []lib.Tok{}
			var walk func(s acmelib.Signal, parent int64, groups []int64)
			walk = func(s acmelib.Signal, parent int64, groups []int64) {
				id := int64(len(ids))
				ids[s.EntityID()] = id
				gs := []lib.Tok{}
				for _, g := range groups {
					gs = append(gs, lib.TI(g))
				}
				kind, size, signed, enum, gc, gsz := int64(0), int64(0), false, int64(0), int64(0), int64(0)
				scale, offset, mn, mx, unit := 1.0, 0.0, 0.0, 0.0, ""
				switch s.Kind() {
				case acmelib.SignalKindStandard:
					ss, _ := s.ToStandard()
					t := ss.Type()
					size, signed, scale, offset, mn, mx = int64(t.Size()), t.Signed(), t.Scale(), t.Offset(), t.Min(), t.Max()
					if u := ss.Unit(); u != nil {
						unit = u.Symbol()
					}
				case acmelib.SignalKindEnum:
					es, _ := s.ToEnum()
					kind, enum = 1, enumOf(es.Enum())
				case acmelib.SignalKindMultiplexer:
					ms, _ := s.ToMultiplexer()
					kind, gc, gsz = 2, int64(ms.GroupCount()), int64(ms.GroupSize())
				}
				sigs = append(sigs, T(lib.TI(id), lib.TS(s.Name()), lib.TI(kind), lib.TI(int64(s.GetRelativeStartPos())), lib.TI(parent), lib.TLs(gs),
					lib.TI(size), lib.TB(signed), lib.TF(scale), lib.TF(offset), lib.TF(mn), lib.TF(mx), lib.TS(unit), lib.TI(enum), lib.TI(gc), lib.TI(gsz),
					lib.TS(s.Desc()), lib.TF(s.StartValue()), lib.TI(int64(s.SendType())), asg(s.AttributeAssignments())))
				if s.Kind() == acmelib.SignalKindMultiplexer {
					ms, _ := s.ToMultiplexer()
					member := map[acmelib.EntityID][]int64{}
					order := []acmelib.Signal{}
					for gid, grp := range ms.GetSignalGroups() {
						for _, c := range grp {
							if _, ok := member[c.EntityID()]; !ok {
								order = append(order, c)
							}
							member[c.EntityID()] = append(member[c.EntityID()], int64(gid))
						}
					}
					for _, c := range order {
						g := member[c.EntityID()]
						if len(g) == ms.GroupCount() {
							g = nil // held by every group: fixed
						}
						walk(c, id, g)
					}
				}
			}
			for _, s := range m.Signals() {
				walk(s, -1, nil)
			}
			recs := []string{}
			for _, rc := range m.Receivers() {
				recs = append(recs, rc.Node().Name())
			}
			order := int64(0)
			if m.ByteOrder() == acmelib.MessageByteOrderBigEndian {
				order = 1
			}
			msgs = append(msgs, T(lib.TI(int64(m.GetCANID())), lib.TS(m.Name()), lib.TI(int64(m.SizeByte())), lib.TI(order),
				lib.TI(int64(m.CycleTime())), lib.TI(int64(m.DelayTime())), lib.TI(int64(m.StartDelayTime())), lib.TI(int64(m.SendType())),
				lib.TS(n.Name()), lib.TStrs(recs), lib.TS(m.Desc()), asg(m.AttributeAssignments()), lib.TLs(sigs)))
		}
	}
	return T(lib.TS(bus.Name()), lib.TS(bus.Desc()), asg(bus.AttributeAssignments()), lib.TLs(nodes), lib.TLs(enums), lib.TLs(msgs))
}

func safeExport(bus *acmelib.Bus) (text string, pan string) {
	defer func() {
		if r := recover(); r != nil {
			pan = fmt.Sprint(r)
		}
	}()
	b := new(strings.Builder)
	acmelib.ExportBus(b, bus)
	return b.String(), ""
}

func safeImport(text string) (bus *acmelib.Bus, err error, pan string) {
	defer func() {
		if r := recover(); r != nil {
			pan = fmt.Sprint(r)
		}
	}()
	bus, err = acmelib.ImportDBCFile("roundtrip.dbc", strings.NewReader(text))
	return
}

// the property predicate on one bus; returns findings (signature -> detail) and the re-imported projection
func roundTrip(bus *acmelib.Bus, pb lib.PBus) (map[string]string, string, *lib.PBus) {
	res := map[string]string{}
	text, pan := safeExport(bus)
	if pan != "" {
		res["c11-export-panic"] = "ExportBus panics: " + pan
		return res, text, nil
	}
	bus2, err, pan := safeImport(text)
	if pan != "" {
		res["c11-import-panic"] = "ImportDBCFile panics on the exported text: " + pan
		return res, text, nil
	}
	if err != nil {
		e := err.Error()
		sig := "c11-import-refuses-export"
		switch {
		case strings.Contains(e, "syntax error"):
			sig = "c11-export-not-parsable"
			for _, sec := range []string{"BO_", "SG_", "BA_DEF_DEF_", "BA_DEF_", "BA_", "VAL_TABLE_", "VAL_", "CM_", "SG_MUL_VAL_", "BU_"} {
				if line := errorLine(text, e); strings.HasPrefix(strings.TrimSpace(line), sec) {
					sig += "-" + strings.Trim(sec, "_")
					break
				}
			}
		case strings.Contains(e, "extended multiplexing"):
			sig += "-extended-multiplexing-required"
		case strings.Contains(e, "attribute default"):
			sig += "-attribute-default"
		case strings.Contains(e, "is zero") || strings.Contains(e, "groupSize"):
			sig += "-empty-multiplexer"
		case strings.Contains(e, "lower then") || strings.Contains(e, "greater then"):
			sig += "-attribute-range"
		}
		res[sig] = "the exported text is refused: " + e + " | line: " + strings.TrimSpace(errorLine(text, e))
		return res, text, nil
	}
	pb2 := lib.WalkBus(bus2)
	// every difference of the case is reported (one entry per signature, the first path of each kept)
	for _, d := range lib.DiffTokAll(lib.TokBus(pb), lib.TokBus(pb2), 40) {
		sig := lib.DiffSignature("c11", d[0])
		if _, ok := res[sig]; !ok {
			res[sig] = fmt.Sprintf("%s: original %s, after export+import %s", d[0], d[1], d[2])
		}
	}
	return res, text, &pb2
}

var lineRe = regexp.MustCompile(`:(\d+):(\d+)`)

func errorLine(text, e string) string {
	m := lineRe.FindStringSubmatch(e)
	if m == nil {
		return ""
	}
	var n int
	fmt.Sscan(m[1], &n)
	lines := strings.Split(text, "\n")
	if n >= 1 && n <= len(lines) {
		return lines[n-1]
	}
	return ""
}

// reclassify gives the three format/API limits their own, narrow signatures (each needs the
// shape named here, anything else keeps its generic signature and stays a violation)
func reclassify(fs map[string]string, bus *acmelib.Bus, pb lib.PBus) map[string]string {
	res := map[string]string{}
	for sig, d := range fs {
		switch {
		case strings.HasPrefix(sig, "c11-import-refuses-export") && strings.Contains(d, "can id error") && strings.Contains(d, "is duplicated"):
			seen := map[int64]bool{}
			dup := false
			for _, m := range pb.Msgs {
				if seen[m.CANID] {
					dup = true
				}
				seen[m.CANID] = true
			}
			if dup {
				sig = "c11-can-id-clash-refused"
			}
		case strings.HasPrefix(sig, "c11-import-refuses-export") && (strings.Contains(d, "greater then") || strings.Contains(d, "lower then")):
			// only when the refused line IS the BA_DEF_ of a hex attribute with a negative bound
			for name := range negativeHexNames(pb) {
				if strings.Contains(d, "| line: BA_DEF_") && strings.Contains(d, "\""+name+"\" HEX ") {
					sig = "c11-hex-attribute-negative-bound"
				}
			}
		case strings.HasSuffix(sig, "-attrs") || sig == "c11-attrs" || sig == "c11-nodes":
			// only a difference AT such an attribute (its definition, element 1 of the assignment)
			for name := range negativeHexNames(pb) {
				if strings.Contains(d, "["+name+"]/1/") {
					sig = "c11-hex-attribute-negative-bound"
				}
			}
		case sig == "c11-messages-receivers-#len" || sig == "c11-messages-receivers":
			// only when the message concerned has no signal to carry the receivers
			for _, m := range pb.Msgs {
				if len(m.Sigs) == 0 && len(m.Receivers) > 0 && strings.Contains(d, "["+m.Name+"]") {
					sig = "c11-receivers-without-signals"
				}
			}
		}
		res[sig] = d
	}
	return res
}

// negativeHexNames: the (sanitised) names of the hex-format integer attributes with a negative bound
func negativeHexNames(pb lib.PBus) map[string]bool {
	out := map[string]bool{}
	add := func(l []lib.PAsg) {
		for _, a := range l {
			if a.Def.Kind == 1 && a.Def.Hex && (a.Def.Mn < 0 || a.Def.Mx < 0) {
				out[lib.ClearSpaces(a.Name)] = true
			}
		}
	}
	add(pb.Attrs)
	for _, n := range pb.Nodes {
		add(n.Attrs)
	}
	for _, m := range pb.Msgs {
		add(m.Attrs)
		for _, s := range m.Sigs {
			add(s.Attrs)
		}
	}
	return out
}

func hasNegativeHex(bus *acmelib.Bus, pb lib.PBus) bool {
	neg := func(l []lib.PAsg) bool {
		for _, a := range l {
			if a.Def.Kind == 1 && a.Def.Hex && a.Def.Mn < 0 {
				return true
			}
		}
		return false
	}
	if neg(pb.Attrs) {
		return true
	}
	for _, n := range pb.Nodes {
		if neg(n.Attrs) {
			return true
		}
	}
	for _, m := range pb.Msgs {
		if neg(m.Attrs) {
			return true
		}
		for _, s := range m.Sigs {
			if neg(s.Attrs) {
				return true
			}
		}
	}
	return false
}

func busSize(pb lib.PBus) int {
	n := len(pb.Nodes)
	for _, m := range pb.Msgs {
		n += 1 + len(m.Sigs) + len(m.Attrs)
		for _, s := range m.Sigs {
			n += len(s.Attrs)
		}
	}
	return n
}

func main() {
	seed := flag.Uint64("seed", 20260930, "seed")
	tier := flag.String("tier", "quick", "quick|thorough")
	out := flag.String("out", ".", "output directory")
	replay := flag.Uint64("replay", 0, "replay the case built from this case seed")
	flag.Parse()

	sum := &summary{Hist: map[string]int{}, Failures: map[string]failure{}, FailedCases: map[string][]string{}, NotExpressible: map[string]int{}}
	cases, impl := lib.CreateLineFile(filepath.Join(*out, "cases.txt")), lib.CreateLineFile(filepath.Join(*out, "impl.txt"))
	r := &lib.Rng{S: *seed}
	n := 1500
	if *tier == "thorough" {
		n = 40000
	}
	if *replay != 0 {
		n = 1
	}
	seen := map[string]bool{}
	for i := 0; i < n; i++ {
		cseed := r.Next()
		if *replay != 0 {
			cseed = *replay
		}
		id := fmt.Sprintf("b%d", i)
		bus, tags := Build(&lib.Rng{S: cseed})
		sum.Cases++
		pb := lib.WalkBus(bus)
		why := expressible(bus, pb)
		// the original bus is checked with the shared invariant evaluators as well: a broken original is
		// reported (it is the library's public API that built it), never used to discard the case
		origBroken := vinv.CheckBus(bus)
		for _, m := range pb.Msgs {
			origBroken = append(origBroken, vinv.CheckMessageLayout(m.Msg)...)
		}
		for k, v := range tags {
			sum.Hist[k] += v
		}
		btok := BusTok(bus)
		fmt.Fprintf(cases, "X %s %s\n", id, lib.TL(btok).String())
		fmt.Fprintf(cases, "P %s-proj %s\n", id, lib.TL(btok).String())
		fmt.Fprintf(impl, "%s-proj %s\n", id, lib.TokBus(pb).String())
		fs, text, pb2 := roundTrip(bus, pb)
		if pb2 != nil {
			empty := make([]lib.Tok, len(pb2.Msgs))
			for k := range empty {
				empty[k] = lib.TLs(nil)
			}
			fmt.Fprintf(impl, "%s %s\n", id, lib.TL(lib.TS("ok"), lib.TokBus(*pb2), lib.TLs(empty)).String())
		} else {
			fmt.Fprintf(impl, "%s ( s657272 )\n", id)
		}
		if *replay != 0 {
			fmt.Println(text)
			fmt.Println("expressible:", why == "", why)
			for k, v := range fs {
				fmt.Printf("PROPERTY FAILURE %s: %s\n", k, v)
			}
		}
		if why != "" {
			sum.NotExpressible[why]++
		} else {
			sum.Expressible++
		}
		for _, s := range origBroken {
			c := s
			if i := strings.Index(s, ":"); i > 0 {
				c = s[:i]
			}
			fs["c11-original-"+strings.ReplaceAll(c, "/", "-")] = "the bus built through the public API breaks an invariant before export: " + s
		}
		fs = reclassify(fs, bus, pb)
		nsig := 0
		for _, m := range pb.Msgs {
			nsig += len(m.Sigs)
		}
		sum.Signals += nsig
		if len(fs) == 0 {
			sum.RoundTripped++
		}
		if nsig >= 2 && !seen[text] {
			seen[text] = true
			sum.Nontrivial++
		}
		sz := busSize(pb)
		for sig, d := range fs {
			sum.FailedCases[id] = append(sum.FailedCases[id], sig)
			if old, ok := sum.Failures[sig]; !ok || sz < old.Size {
				sum.Failures[sig] = failure{Case: id, Sig: sig, Detail: d, Text: text, Seed: cseed, Size: sz}
			}
		}
		if len(sum.Samples) < 2 && nsig >= 4 && i%29 == 3 {
			sum.Samples = append(sum.Samples, text)
		}
	}
	sum.CaseLines, sum.ImplLines = cases.N, impl.N
	if err := cases.Finish(); err != nil {
		fmt.Println("cannot write cases.txt:", err)
		os.Exit(4)
	}
	if err := impl.Finish(); err != nil {
		fmt.Println("cannot write impl.txt:", err)
		os.Exit(4)
	}
	keys := []string{}
	for k := range sum.Failures {
		keys = append(keys, k)
	}
	sort.Strings(keys)
	js, _ := json.MarshalIndent(sum, "", " ")
	os.WriteFile(filepath.Join(*out, "summary.json"), js, 0644)
	fmt.Printf("cases=%d expressible=%d round_tripped=%d failures=%v\n", sum.Cases, sum.Expressible, sum.RoundTripped, keys)
}
