import os
import vlib


def setup():
    here = os.path.dirname(os.path.abspath(__file__))
    vlib.build_ocaml_driver("c10_driver", os.path.join(vlib.COQ, "extracted"),
                            os.path.join(os.path.dirname(here), "C10", "driver", "c10_driver.ml"), only=["c10_model"])
