"""C12 — save then load reproduces the network in all three encodings; SaveNetwork writes exactly
the requested encodings and refuses a missing writer.

Proof: coq/Properties/C12.v (model coq/C12: Proto, NetModel, Save, Load).
Tie: the Go harness (props/C12/harness, public API + two add-only accessors) builds networks by
random construction histories, saves them with every non-empty encoding subset, loads every
written encoding and (a) evaluates the property predicate Go-against-Go (full projection,
GetCANID, Decode, ExportBus), (b) dumps the protobuf tree and the loaded projection, which the
extracted Coq model recomputes (save / load) in props/C12/driver."""
import json
import os
import re
import vlib

PID = "C12"
HERE = os.path.dirname(os.path.abspath(__file__))


def build_harness(ctx):
    h = vlib.go_harness_dir(os.path.join(vlib.VERIF, "props", "C12"), ctx.scratch)
    ov = vlib.overlay_json(ctx.scratch, {
        "verif_c12_hooks.go": os.path.join(vlib.VERIF, "props", "C12", "overlay", "verif_c12_hooks.go")})
    exe = os.path.join(ctx.scratch, "c12_harness")
    rc, log = vlib.sh(["go", "build", "-tags", "verif", "-overlay", ov, "-o", exe, "."], cwd=h, env=vlib.goenv(), timeout=900)
    return (exe if rc == 0 else None), log


MEM_LIMIT = 4 << 30     # address-space limit of every child (harness, driver)


def run_limited(cmd, env=None, timeout=600, cwd=None):
    """Run a child under RLIMIT_AS and a hard wall-clock timeout; returns (rc, output)."""
    import resource
    import subprocess

    def lim():
        resource.setrlimit(resource.RLIMIT_AS, (MEM_LIMIT, MEM_LIMIT))
    try:
        p = subprocess.run(cmd, cwd=cwd, env=env, stdout=subprocess.PIPE, stderr=subprocess.STDOUT,
                           timeout=timeout, preexec_fn=lim)
        return p.returncode, p.stdout.decode("utf-8", "replace")
    except subprocess.TimeoutExpired as ex:
        return 124, (ex.stdout or b"").decode("utf-8", "replace") + "\n[killed: timeout after %ss]" % timeout


def count_records(path):
    """Complete records of a case file per kind, and the number of END markers (what the driver must have visited)."""
    n = {"N": 0, "P": 0, "L": 0, "B": 0, "END": 0}
    if os.path.exists(path):
        with open(path, "rb") as f:
            for line in f:
                line = line.rstrip(b"\n")
                if line.startswith(b"END"):
                    n["END"] += 1
                elif len(line) > 2 and line[:1] in (b"N", b"P", b"L", b"B") and line[1:2] == b" " and line.endswith(b")"):
                    n[line[:1].decode()] += 1
    return n


def driver_count_problem(mlog, want):
    """None when the driver visited exactly the records of the case file, else a description."""
    m = re.search(r"RECORDS N (\d+) P (\d+) L (\d+) B (\d+) END (\d+)", mlog)
    if not m:
        return "the driver printed no RECORDS line"
    got = dict(zip(("N", "P", "L", "B", "END"), map(int, m.groups())))
    if got != want:
        return "the driver visited %s, the case file holds %s" % (got, want)
    return None


def build_driver():
    return vlib.build_ocaml_driver("c12_driver", os.path.join(vlib.COQ, "extracted"),
                                   os.path.join(HERE, "driver", "c12_driver.ml"), extra_pkgs=("zarith", "unix"),
                                   only=["c12_model"])


def merge_summaries(parts):
    d = {"hist": {}, "fails": [], "samples": [], "cases": 0, "nontrivial": 0, "evaluations": 0}
    for p in parts:
        for k, v in p["hist"].items():
            d["hist"][k] = d["hist"].get(k, 0) + v
        d["fails"] += p["fails"]
        d["samples"] += p["samples"]
        for k in ("cases", "nontrivial", "evaluations"):
            d[k] += p.get(k, 0)
    return d


def parse_summary(path):
    d = {"hist": {}, "fails": [], "samples": []}
    if not os.path.exists(path):
        return d
    for line in open(path, encoding="utf-8", errors="replace"):
        line = line.rstrip("\n")
        p = line.split(" ", 2)
        if p[0] == "hist":
            d["hist"][p[1]] = int(p[2])
        elif p[0] == "FAIL":
            sig, replay, desc = line[5:].split(" ## ", 2)
            d["fails"].append((sig, replay, desc))
        elif p[0] == "sample":
            d["samples"].append(line[7:][:1500])
        elif len(p) == 2 and p[1].lstrip("-").isdigit():
            d[p[0]] = int(p[1])
    return d


def run(ctx):
    ctx.level = "proof"
    status = vlib.proof_status(PID, extra_targets=["C12/Extract.v", "C12/VmCheck.v"])
    ctx.proof_gate(status)
    drv = build_driver()
    exe, blog = build_harness(ctx)
    if exe is None:
        ctx.violation("harness-build-failed", "Go harness does not build against the repository: " + blog[-800:],
                      {"log": blog[-3000:]}, found_input=False)
        ctx.coverage.update({"evaluations": 0})
        return
    out = os.path.join(ctx.scratch, "c12_cases.txt")
    env = vlib.goenv()
    ncases = 150 if ctx.tier == "quick" else 12000
    quick = ctx.tier == "quick"
    env.update({"VERIF_SEED": str(ctx.seed), "VERIF_CASES": str(ncases), "VERIF_BUDGET_S": "50" if quick else "1500",
                "VERIF_DRIVER_BUDGET_S": "40" if quick else "1500"})
    if ctx.replay:
        r = json.load(open(ctx.replay))
        rs = (r.get("replay") or {}).get("case_seed")
        if rs:
            env["VERIF_REPLAY"] = str(rs)
    rc, log = run_limited([exe, "c12", out], env=env, timeout=90 if quick else 3000)
    if rc != 0 or not os.path.exists(out + ".summary"):
        m = re.search(r"panic: .*|fatal error: .*", log)
        ctx.violation("impl-run-failed", "harness run failed (%s): %s" % (m.group(0) if m else "rc=%d" % rc, log[-800:]),
                      {"log": log[-3000:]}, found_input=bool(m))
        ctx.coverage.update({"evaluations": 0})
        return
    summ = parse_summary(out + ".summary")
    # ---- property predicate failures on the implementation (found input)
    for sig, replay, desc in summ["fails"]:
        ctx.violation(sig, "C12 fails on the implementation: " + desc,
                      {"case_seed": replay, "how": "./check C12 --replay <this file> (rebuilds the network from case_seed)", "detail": desc})
    # ---- model side
    rc2, mlog = run_limited([drv, out], env=env, timeout=80 if quick else 3000)
    m = re.search(r"CHECKS (\d+) MISMATCHES (\d+) WFFAIL (\d+)", mlog)
    checks, mism, wff = (int(m.group(1)), int(m.group(2)), int(m.group(3))) if m else (0, -1, -1)
    if checks <= 0 and not ctx.replay:
        ctx.violation("c12-no-model-checks", "the model side of the check did not run (driver rc=%s): %s" % (rc2, mlog[-600:]),
                      {"driver_output": mlog[-3000:]}, found_input=False)
    mb = re.search(r"BUILDS (\d+)", mlog)
    if checks > 0 and not ctx.replay and summ.get("cases", 0) >= 40 and (not mb or int(mb.group(1)) == 0):
        ctx.violation("c12-no-builder-replays", "no op log of a bottom-up built network was replayed by the builder model",
                      {"driver_output": mlog[-2000:]}, found_input=False)
    want = count_records(out)
    if not ctx.replay:
        prob = driver_count_problem(mlog, want)
        if prob or want["END"] != 1:
            ctx.violation("c12-driver-count", "model side incomplete: %s (END markers in the case file: %d)" % (prob or "counts agree", want["END"]),
                          {"driver_output": mlog[-2000:]}, found_input=False)
        # every leg has a floor: networks, model-compared records, builder replays (half of an undisturbed run)
        floor_cases = ncases // 2
        if summ.get("cases", 0) < floor_cases or want["L"] < 3 * floor_cases or want["B"] < floor_cases // 8:
            ctx.violation("c12-too-few-evaluations", "the run covered too little: %d networks (floor %d), %d load records (floor %d), %d builder logs (floor %d); budget exhausted: %s"
                          % (summ.get("cases", 0), floor_cases, want["L"], 3 * floor_cases, want["B"], floor_cases // 8, bool(summ["hist"].get("budget-exhausted"))),
                          {}, found_input=False)
        ctx.min_evaluations = 6 * floor_cases
    known_sigs = {k["signature"] for k in ctx.known_open}
    new_fails = [f for f in summ["fails"] if f[0] not in known_sigs]
    if (mism != 0 or wff != 0) and not new_fails:
        first = "\n".join(l for l in mlog.split("\n") if l.startswith(("MISMATCH", "MODELRT", "WFFAIL", "DRIVERERR")))[:1500]
        ctx.violation("c12-correspondence", "model and implementation disagree (%s mismatches, %s wf failures); the theorems of "
                      "Properties/C12.v no longer speak about this code: %s" % (mism, wff, first),
                      {"correspondence": "props/C12 save/load comparison", "driver_output": mlog[:4000]}, found_input=False)
    if ctx.replay:
        print(mlog[-3000:])
    ctx.coverage.update({
        "evaluations": summ.get("evaluations", 0),
        "networks": summ.get("cases", 0),
        "distinct_nontrivial": summ.get("nontrivial", 0),
        "rule": "case = one network built through the public API by a seeded random construction history (attributes of the "
                "four types, signal types/units/enums, custom and default CAN-ID builders, 1-3 buses, nodes with 1-4 interfaces "
                "attached to different buses, messages with static/derived CAN-IDs, receivers incl. unattached interfaces, "
                "standard/enum/multiplexer signals nested up to depth 3 with fixed, single- and multi-group members, "
                "assignments on buses/nodes/messages/signals); evaluations = (network, encoding mask 1..7, selected encoding) "
                "save+load runs plus the 128 (mask, writers present) selection runs; non-trivial = distinct network with >= 1 "
                "bus, >= 1 message and >= 2 signals",
        "distribution": summ["hist"],
        "model_checks": checks,
        "records_in_case_file_and_visited_by_the_driver": want,
        "model_mismatches": mism,
        "model_wf_failures": wff,
        "budget_exhausted": bool(summ["hist"].get("budget-exhausted")) or "BUDGET exhausted" in mlog,
        "hypotheses_on_api_built_networks": (lambda md: {"wfb_true": summ.get("cases", 0) - sum(1 for l in mlog.split("\n") if l.startswith("WFFAIL orig")),
                                                          "in_domain_true": int(md.group(1)), "in_domain_false": int(md.group(2))} if md else {})(re.search(r"DOMAIN in (\d+) out (\d+)", mlog)),
        "builder_replays": (lambda mb: {"networks_built_bottom_up_with_op_log": int(mb.group(1)) if mb else 0,
                                        "what": "calls logged by the flat generator replayed by the extracted builder model (coq/C12/Builder.v build); "
                                                "the built network must equal the observed one (mismatches are counted in model_mismatches); "
                                                "theorem built_wf: every such network satisfies wfb"})(re.search(r"BUILDS (\d+)", mlog)),
        "property_predicate_failures": sorted(s for s, _, _ in summ["fails"]),
        "samples": summ["samples"][:2] or ["(no sample)"],
        "exhaustive": False,
        "trusted_base": [
            "Coq 8.16.1 kernel (coqc; coqchk in the thorough tier)",
            ("axioms: none (Print Assumptions: Closed under the global context)" if not status["axioms"] else "axioms: " + ", ".join(status["axioms"])),
            "extraction (ExtrOcamlBasic, ExtrOcamlString; no Extract Constant/Inductive of our own) + OCaml 4.13.1 + props/C12/driver/c12_driver.ml (s-expression reader/printer, zarith for decimal I/O)",
            "Go harness props/C12/harness (generator, projection through public getters, protobuf tree dump) and the add-only accessors props/C12/overlay/verif_c12_hooks.go (isDefCANIDBuilder, fixedSignals)",
            "the protobuf library's wire/JSON/text codecs are not modelled: the model starts at the message tree the codecs deliver",
            "thorough tier: a sample of the cases is re-checked by Eval vm_compute inside Coq (coq/C12/VmCheck.v, props/C12/vmcheck.py): for that sample extraction, OCaml and the driver are not trusted",
            "model coq/C12/{Proto,NetModel,Save,Load}.v is a hand-written restatement of saver.go/loader.go; tied by the tree-level and projection-level comparison above",
        ],
    })
    ctx.assumptions = [
        "in_domain: Go ints within the wire ranges (uint32 / int32), start value not negative zero",
        "orders produced by Go map iteration or sort ties are compared as multisets (determinism is C15)",
    ]
    if ctx.tier == "thorough" or os.environ.get("VERIF_VMCHECK"):
        import importlib.util
        spec = importlib.util.spec_from_file_location("c12_vmcheck", os.path.join(HERE, "vmcheck.py"))
        vm = importlib.util.module_from_spec(spec)
        spec.loader.exec_module(vm)
        vm.cross_check(ctx, PID, out, want=24, need_n=True)
    if ctx.tier == "thorough":
        ok, chk = vlib.coqchk(PID)
        ctx.coverage["coqchk"] = "ok" if ok else "FAILED"
        ctx.coverage["coqchk_tail"] = chk[-1500:]
        if not ok:
            ctx.proof_problems = (getattr(ctx, "proof_problems", []) or []) + ["coqchk failed: " + chk[-500:]]
