(* Correspondence driver for C12/C13.
   Reads the case file written by the Go harness (one record per line):
     N <case> <net-sexp>            projection of the network built through the public API
     P <case> <enc> <pnet-sexp>     protobuf tree as unmarshalled from the bytes of encoding <enc>
     L <case> <enc> (ok <net-sexp>) | (err)      outcome of acmelib.LoadNetwork on those bytes
   and recomputes with the extracted Coq model:
     save(N) against every P of the case           (lines "MISMATCH save ...")
     load(P) against the L outcome                 (lines "MISMATCH load ...")
     load(save(N)) = N  and wfb of every model-loaded network (theorem instances; "MODELRT"/"WFFAIL").
   Lists whose order is not part of the observable (Go map iteration / sort ties) are compared
   after sorting both sides; `*` (time.Now() in the model) matches any time. *)
module BZ = Z
open C12_model

(* ---------------------------------------------------------------- numbers, strings *)
let rec pos_of_z (n : BZ.t) : positive =
  if BZ.equal n BZ.one then XH
  else if BZ.testbit n 0 then XI (pos_of_z (BZ.shift_right n 1))
  else XO (pos_of_z (BZ.shift_right n 1))
let coqz_of_z (n : BZ.t) : z =
  if BZ.sign n = 0 then Z0 else if BZ.sign n > 0 then Zpos (pos_of_z n) else Zneg (pos_of_z (BZ.neg n))
let rec z_of_pos = function
  | XH -> BZ.one
  | XO p -> BZ.shift_left (z_of_pos p) 1
  | XI p -> BZ.succ (BZ.shift_left (z_of_pos p) 1)
let z_of_coqz = function Z0 -> BZ.zero | Zpos p -> z_of_pos p | Zneg p -> BZ.neg (z_of_pos p)
let cz s = coqz_of_z (BZ.of_string s)
let zs z = BZ.to_string (z_of_coqz z)

let chars_of_string s = List.init (String.length s) (String.get s)
let string_of_chars l = String.init (List.length l) (List.nth l)
let string_of_chars l =
  let b = Buffer.create 16 in List.iter (Buffer.add_char b) l; Buffer.contents b

let hexd c = match c with
  | '0'..'9' -> Char.code c - 48 | 'a'..'f' -> Char.code c - 87 | 'A'..'F' -> Char.code c - 55
  | _ -> failwith "bad hex"
let unhex (a : string) : char list =
  (* a = "s" ^ hex *)
  let n = (String.length a - 1) / 2 in
  List.init n (fun i -> Char.chr (hexd a.[1 + 2 * i] * 16 + hexd a.[2 + 2 * i]))
let hex (l : char list) : string =
  let b = Buffer.create 16 in
  Buffer.add_char b 's';
  List.iter (fun c -> Buffer.add_string b (Printf.sprintf "%02x" (Char.code c))) l;
  Buffer.contents b

(* ---------------------------------------------------------------- s-expressions *)
type sx = A of string | L of sx list

let parse_sx (s : string) (start : int) : sx =
  let n = String.length s in
  let i = ref start in
  let rec skip () = if !i < n && (s.[!i] = ' ' || s.[!i] = '\t') then (incr i; skip ()) in
  let rec item () =
    skip ();
    if !i >= n then failwith "eof in sexp";
    if s.[!i] = '(' then begin
      incr i;
      let acc = ref [] in
      let rec loop () =
        skip ();
        if !i >= n then failwith "eof in list";
        if s.[!i] = ')' then incr i else (acc := item () :: !acc; loop ()) in
      loop ();
      L (List.rev !acc)
    end else begin
      let j = !i in
      while !i < n && s.[!i] <> ' ' && s.[!i] <> '(' && s.[!i] <> ')' do incr i done;
      A (String.sub s j (!i - j))
    end in
  item ()

let rec print_sx b = function
  | A a -> Buffer.add_string b a
  | L l -> Buffer.add_char b '(';
    List.iteri (fun i x -> if i > 0 then Buffer.add_char b ' '; print_sx b x) l;
    Buffer.add_char b ')'
let sx_to_string x = let b = Buffer.create 1024 in print_sx b x; Buffer.contents b

(* lists compared as multisets: the children (after the tag) are sorted by their printed form *)
let unordered = ["buses"; "ifaces"; "msgs"; "builders"; "nodes"; "types"; "units"; "enums"; "attrs";
                 "as"; "pas"; "recs"; "children"; "vals"]
let rec canon = function
  | A a -> A a
  | L (A tag :: rest) when List.mem tag unordered ->
    let rest = List.map canon rest in
    let keyed = List.map (fun x -> (sx_to_string x, x)) rest in
    let keyed = List.sort (fun (a, _) (b, _) -> compare a b) keyed in
    L (A tag :: List.map snd keyed)
  | L l -> L (List.map canon l)

let rec sx_match a b = match a, b with
  | A "*", _ | _, A "*" -> true
  | A x, A y -> x = y
  | L x, L y -> List.length x = List.length y && List.for_all2 sx_match x y
  | _ -> false

(* first differing place, for the report *)
let rec sx_diff path a b = match a, b with
  | A "*", _ | _, A "*" -> None
  | A x, A y -> if x = y then None else Some (path, x, y)
  | L x, L y ->
    if List.length x <> List.length y then
      Some (path, Printf.sprintf "<%d items>" (List.length x), Printf.sprintf "<%d items>" (List.length y))
    else begin
      let tag = match x with A t :: _ -> t | _ -> "" in
      let rec go i xs ys = match xs, ys with
        | p :: xr, q :: yr -> (match sx_diff (path ^ "/" ^ tag ^ "[" ^ string_of_int i ^ "]") p q with
            | Some d -> Some d | None -> go (i + 1) xr yr)
        | _ -> None in
      go 0 x y
    end
  | A x, L _ -> Some (path, x, "<list>")
  | L _, A y -> Some (path, "<list>", y)

(* ---------------------------------------------------------------- decoding helpers *)
let atom = function A a -> a | L _ -> failwith "atom expected"
let str x = unhex (atom x)
let num x = cz (atom x)
let boolean x = atom x <> "0"
let tagged tag = function
  | L (A t :: rest) when t = tag -> rest
  | x -> failwith ("expected (" ^ tag ^ " ...) got " ^ String.sub (sx_to_string x) 0 (min 60 (String.length (sx_to_string x))))
let sb b = A (if b then "1" else "0")
let sz z = A (zs z)
let ss s = A (hex s)

let now_time : z * z = (Zneg XH, Zneg XH)

let time_of = function
  | L [A "t"; s; n] -> (num s, num n)
  | _ -> failwith "time"
let sx_time (t : z * z) = if t = now_time then A "*" else L [A "t"; sz (fst t); sz (snd t)]

(* ---------------------------------------------------------------- net <-> sexp *)
let ent_of x = match tagged "e" x with
  | [i; n; d; t] -> { e_id = str i; e_name = str n; e_desc = str d; e_time = time_of t }
  | _ -> failwith "entity"
let sx_ent e = L [A "e"; ss e.e_id; ss e.e_name; ss e.e_desc; sx_time e.e_time]

let aval_of = function
  | L [A "s"; v] -> AVStr (str v)
  | L [A "i"; v] -> AVInt (num v)
  | L [A "f"; v] -> AVFlt (num v)
  | _ -> failwith "aval"
let sx_aval = function
  | AVStr s -> L [A "s"; ss s] | AVInt z -> L [A "i"; sz z] | AVFlt f -> L [A "f"; sz f]
let assigns_of x = List.map (fun a -> match tagged "a" a with
    | [i; v] -> { as_attr = str i; as_val = aval_of v } | _ -> failwith "assign") (tagged "as" x)
let sx_assigns l = L (A "as" :: List.map (fun a -> L [A "a"; ss a.as_attr; sx_aval a.as_val]) l)

let head_of x = match tagged "h" x with
  | [e; send; start; asg; pos] ->
    { sh_ent = ent_of e; sh_send = num send; sh_start = num start; sh_attrs = assigns_of asg; sh_pos = num pos }
  | _ -> failwith "head"
let sx_head h = L [A "h"; sx_ent h.sh_ent; sz h.sh_send; sz h.sh_start; sx_assigns h.sh_attrs; sz h.sh_pos]

let rec sig_of x : sig0 = match x with
  | L [A "std"; h; t; u] -> SStd (head_of h, str t, str u)
  | L [A "enum"; h; e] -> SEnum (head_of h, str e)
  | L [A "mux"; h; c; z; ch; gr] ->
    let children = List.map (fun c -> match tagged "c" c with
        | [fx; s] -> (boolean fx, sig_of s) | _ -> failwith "child") (tagged "children" ch) in
    let find id = List.find (fun (_, s) -> sig_id s = id) children in
    let groups = List.map (fun g -> List.map (fun i -> find (str i)) (tagged "g" g)) (tagged "groups" gr) in
    SMux (head_of h, num c, num z, groups)
  | _ -> failwith "sig"
let rec sx_sig (s : sig0) = match s with
  | SStd (h, t, u) -> L [A "std"; sx_head h; ss t; ss u]
  | SEnum (h, e) -> L [A "enum"; sx_head h; ss e]
  | SMux (h, c, z, groups) ->
    let seen = Hashtbl.create 16 in
    let children = List.concat_map (fun g -> List.filter_map (fun (fx, c) ->
        let id = sig_id c in
        if Hashtbl.mem seen id then None else (Hashtbl.add seen id (); Some (L [A "c"; sb fx; sx_sig c]))) g) groups in
    L [A "mux"; sx_head h; sz c; sz z; L (A "children" :: children);
       L (A "groups" :: List.map (fun g -> L (A "g" :: List.map (fun (_, c) -> ss (sig_id c)) g)) groups)]

let msg_of x = match tagged "msg" x with
  | [e; id; size; st; has; prio; bo; cyc; send; del; sdel; recs; sigs; asg] ->
    { m_ent = ent_of e; m_id = num id; m_size = num size; m_static = num st; m_has_static = boolean has;
      m_prio = num prio; m_bo = num bo; m_cycle = num cyc; m_send = num send; m_delay = num del;
      m_startdelay = num sdel;
      m_receivers = List.map (fun r -> match tagged "r" r with [n; k] -> (str n, num k) | _ -> failwith "rec") (tagged "recs" recs);
      m_signals = List.map sig_of (tagged "sigs" sigs); m_attrs = assigns_of asg }
  | _ -> failwith "msg"
let sx_msg m =
  L [A "msg"; sx_ent m.m_ent; sz m.m_id; sz m.m_size; sz m.m_static; sb m.m_has_static; sz m.m_prio; sz m.m_bo;
     sz m.m_cycle; sz m.m_send; sz m.m_delay; sz m.m_startdelay;
     L (A "recs" :: List.map (fun (n, k) -> L [A "r"; ss n; sz k]) m.m_receivers);
     L (A "sigs" :: List.map sx_sig m.m_signals); sx_assigns m.m_attrs]

let iface_of x = match tagged "if" x with
  | [n; k; msgs] -> { if_node = str n; if_number = num k; if_msgs = List.map msg_of (tagged "msgs" msgs) }
  | _ -> failwith "iface"
let sx_iface i = L [A "if"; ss i.if_node; sz i.if_number; L (A "msgs" :: List.map sx_msg i.if_msgs)]

let bus_of x = match tagged "bus" x with
  | [e; baud; ty; bld; ifs; asg] ->
    { b_ent = ent_of e; b_baud = num baud; b_type = num ty; b_builder = str bld;
      b_ifaces = List.map iface_of (tagged "ifaces" ifs); b_attrs = assigns_of asg }
  | _ -> failwith "bus"
let sx_bus b = L [A "bus"; sx_ent b.b_ent; sz b.b_baud; sz b.b_type; ss b.b_builder;
                  L (A "ifaces" :: List.map sx_iface b.b_ifaces); sx_assigns b.b_attrs]

let builder_of x = match tagged "cb" x with
  | e :: ops -> { cb_ent = ent_of e; cb_ops = List.map (fun o -> match tagged "op" o with
      | [k; f; l] -> ((num k, num f), num l) | _ -> failwith "op") ops }
  | _ -> failwith "builder"
let sx_builder b = L (A "cb" :: sx_ent b.cb_ent :: List.map (fun ((k, f), l) -> L [A "op"; sz k; sz f; sz l]) b.cb_ops)

let node_of_sx x = match tagged "nd" x with
  | [e; id; cnt; asg] -> { nd_ent = ent_of e; nd_id = num id; nd_ifcount = num cnt; nd_attrs = assigns_of asg }
  | _ -> failwith "node"
let sx_node n = L [A "nd"; sx_ent n.nd_ent; sz n.nd_id; sz n.nd_ifcount; sx_assigns n.nd_attrs]

let type_of x = match tagged "ty" x with
  | [e; k; size; sg; mn; mx; sc; off] ->
    { st_ent = ent_of e; st_kind = num k; st_size = num size; st_signed = boolean sg; st_min = num mn;
      st_max = num mx; st_scale = num sc; st_offset = num off }
  | _ -> failwith "type"
let sx_type t = L [A "ty"; sx_ent t.st_ent; sz t.st_kind; sz t.st_size; sb t.st_signed; sz t.st_min; sz t.st_max;
                   sz t.st_scale; sz t.st_offset]

let unit_of x = match tagged "un" x with
  | [e; k; sym] -> { su_ent = ent_of e; su_kind = num k; su_symbol = str sym }
  | _ -> failwith "unit"
let sx_unit u = L [A "un"; sx_ent u.su_ent; sz u.su_kind; ss u.su_symbol]

let enum_of x = match tagged "en" x with
  | [e; ms; vals] ->
    { se_ent = ent_of e; se_minsize = num ms;
      se_values = List.map (fun v -> match tagged "v" v with [ve; i] -> (ent_of ve, num i) | _ -> failwith "val") (tagged "vals" vals) }
  | _ -> failwith "enum"
let sx_enum e = L [A "en"; sx_ent e.se_ent; sz e.se_minsize;
                   L (A "vals" :: List.map (fun (ve, i) -> L [A "v"; sx_ent ve; sz i]) e.se_values)]

let attrbody_of body = match body with
  | L [A "str"; d] -> ABString (str d)
  | L [A "int"; d; mn; mx; hx] -> ABInt (num d, num mn, num mx, boolean hx)
  | L [A "flt"; d; mn; mx] -> ABFloat (num d, num mn, num mx)
  | L (A "enm" :: d :: vals) -> ABEnum (str d, List.map str vals)
  | _ -> failwith "attr body"
let attr_of x = match tagged "at" x with
  | [e; body] -> { at_ent = ent_of e; at_body = attrbody_of body }
  | _ -> failwith "attr"
let sx_attr a = L [A "at"; sx_ent a.at_ent;
                   (match a.at_body with
                    | ABString d -> L [A "str"; ss d]
                    | ABInt (d, mn, mx, hx) -> L [A "int"; sz d; sz mn; sz mx; sb hx]
                    | ABFloat (d, mn, mx) -> L [A "flt"; sz d; sz mn; sz mx]
                    | ABEnum (d, vals) -> L (A "enm" :: ss d :: List.map ss vals))]

let net_of x = match tagged "net" x with
  | [e; buses; blds; nodes; types; units; enums; attrs] ->
    { n_ent = ent_of e; n_buses = List.map bus_of (tagged "buses" buses);
      n_builders = List.map builder_of (tagged "builders" blds);
      n_nodes = List.map node_of_sx (tagged "nodes" nodes); n_types = List.map type_of (tagged "types" types);
      n_units = List.map unit_of (tagged "units" units); n_enums = List.map enum_of (tagged "enums" enums);
      n_attrs = List.map attr_of (tagged "attrs" attrs) }
  | _ -> failwith "net"
let sx_net n =
  L [A "net"; sx_ent n.n_ent; L (A "buses" :: List.map sx_bus n.n_buses);
     L (A "builders" :: List.map sx_builder n.n_builders); L (A "nodes" :: List.map sx_node n.n_nodes);
     L (A "types" :: List.map sx_type n.n_types); L (A "units" :: List.map sx_unit n.n_units);
     L (A "enums" :: List.map sx_enum n.n_enums); L (A "attrs" :: List.map sx_attr n.n_attrs)]

(* ---------------------------------------------------------------- op log of the flat generator -> builder ops *)
let op_of x = match x with
  | L [A "defattr"; e; body] -> ODefAttr (ent_of e, attrbody_of body)
  | L [A "deftype"; t] -> ODefType (type_of t)
  | L [A "defunit"; u] -> ODefUnit (unit_of u)
  | L [A "defenum"; e; ms; vals] ->
    ODefEnum (ent_of e, List.map (fun v -> match tagged "v" v with [ve; i] -> (ent_of ve, num i) | _ -> failwith "val") (tagged "vals" vals), num ms)
  | L [A "defnode"; e; id; cnt; asg] -> ODefNode (ent_of e, num id, num cnt, assigns_of asg)
  | L [A "defbuilder"; b] -> ODefBuilder (builder_of b)
  | L [A "newmsg"; m; asg] -> ONewMessage (msg_of m, assigns_of asg)
  | L [A "insert"; s; asg; pos] -> OInsertSignal (sig_of s, assigns_of asg, num pos)
  | L [A "newiface"; n; k] -> ONewIface (str n, num k)
  | L [A "addsent"; recs] ->
    OAddSentMessage (List.map (fun r -> match tagged "r" r with [n; k] -> (str n, num k) | _ -> failwith "rec") (tagged "recs" recs))
  | L [A "newbus"; e; baud; bld; asg] -> ONewBus (ent_of e, num baud, str bld, assigns_of asg)
  | L [A "addiface"] -> OAddNodeInterface
  | L [A "addbus"] -> OAddBus
  | _ -> failwith "op"

(* ---------------------------------------------------------------- pnet <-> sexp *)
let pent_of = function
  | L [A "none"] -> None
  | L [A "pe"; i; k; n; d; t] ->
    Some { pe_id = str i; pe_kind = num k; pe_name = str n; pe_desc = str d;
           pe_time = (match t with L [A "none"] -> None | t -> Some (time_of t)) }
  | _ -> failwith "pentity"
let sx_pent = function
  | None -> L [A "none"]
  | Some e -> L [A "pe"; ss e.pe_id; sz e.pe_kind; ss e.pe_name; ss e.pe_desc;
                 (match e.pe_time with None -> L [A "none"] | Some t -> L [A "t"; sz (fst t); sz (snd t)])]

let passigns_of x = List.map (fun a -> match tagged "pa" a with
    | [e; i; v] -> { pas_entity_id = str e; pas_attr_id = str i;
                     pas_val = (match v with
                         | L [A "none"] -> PAVNone | L [A "s"; v] -> PAVString (str v)
                         | L [A "i"; v] -> PAVInt (num v) | L [A "f"; v] -> PAVDouble (num v)
                         | _ -> failwith "pval") }
    | _ -> failwith "passign") (tagged "pas" x)
let sx_passigns l = L (A "pas" :: List.map (fun a ->
    L [A "pa"; ss a.pas_entity_id; ss a.pas_attr_id;
       (match a.pas_val with PAVNone -> L [A "none"] | PAVString s -> L [A "s"; ss s]
                           | PAVInt z -> L [A "i"; sz z] | PAVDouble f -> L [A "f"; sz f])]) l)

let ref_of x = match tagged "ref" x with [i; p] -> { prf_id = str i; prf_pos = num p } | _ -> failwith "ref"
let sx_ref r = L [A "ref"; ss r.prf_id; sz r.prf_pos]

let rec psig_of x = match tagged "psig" x with
  | [e; k; send; start; asg; body] ->
    PSig (pent_of e, num k, num send, num start, passigns_of asg,
          (match body with
           | L [A "none"] -> PSBNone
           | L [A "std"; t; u] -> PSBStd (str t, str u)
           | L [A "enum"; e] -> PSBEnum (str e)
           | L [A "mux"; sigs; fixed; c; z; groups] ->
             PSBMux (List.map psig_of (tagged "sigs" sigs), List.map str (tagged "fixed" fixed), num c, num z,
                     List.map (fun g -> List.map ref_of (tagged "g" g)) (tagged "groups" groups))
           | _ -> failwith "psig body"))
  | _ -> failwith "psig"
let rec sx_psig (PSig (e, k, send, start, asg, body)) =
  L [A "psig"; sx_pent e; sz k; sz send; sz start; sx_passigns asg;
     (match body with
      | PSBNone -> L [A "none"]
      | PSBStd (t, u) -> L [A "std"; ss t; ss u]
      | PSBEnum e -> L [A "enum"; ss e]
      | PSBMux (sigs, fixed, c, z, groups) ->
        L [A "mux"; L (A "sigs" :: List.map sx_psig sigs); L (A "fixed" :: List.map ss fixed); sz c; sz z;
           L (A "groups" :: List.map (fun g -> L (A "g" :: List.map sx_ref g)) groups)])]

let pmsg_of x = match tagged "pmsg" x with
  | [e; sigs; payload; size; id; st; has; prio; bo; cyc; send; del; sdel; recs; asg] ->
    { pm_ent = pent_of e; pm_signals = List.map psig_of (tagged "sigs" sigs);
      pm_payload = (match payload with L [A "none"] -> None | p -> Some (List.map ref_of (tagged "payload" p)));
      pm_size = num size; pm_id = num id; pm_static = num st; pm_has_static = boolean has; pm_prio = num prio;
      pm_bo = num bo; pm_cycle = num cyc; pm_send = num send; pm_delay = num del; pm_startdelay = num sdel;
      pm_receivers = List.map (fun r -> match tagged "r" r with
          | [n; k] -> { prc_node = str n; prc_number = num k } | _ -> failwith "prec") (tagged "recs" recs);
      pm_attrs = passigns_of asg }
  | _ -> failwith "pmsg"
let sx_pmsg m =
  L [A "pmsg"; sx_pent m.pm_ent; L (A "sigs" :: List.map sx_psig m.pm_signals);
     (match m.pm_payload with None -> L [A "none"] | Some p -> L (A "payload" :: List.map sx_ref p));
     sz m.pm_size; sz m.pm_id; sz m.pm_static; sb m.pm_has_static; sz m.pm_prio; sz m.pm_bo; sz m.pm_cycle;
     sz m.pm_send; sz m.pm_delay; sz m.pm_startdelay;
     L (A "recs" :: List.map (fun r -> L [A "r"; ss r.prc_node; sz r.prc_number]) m.pm_receivers);
     sx_passigns m.pm_attrs]

let pif_of x = match tagged "pif" x with
  | [k; n; msgs] -> { pif_number = num k; pif_node = str n; pif_msgs = List.map pmsg_of (tagged "msgs" msgs) }
  | _ -> failwith "pif"
let sx_pif i = L [A "pif"; sz i.pif_number; ss i.pif_node; L (A "msgs" :: List.map sx_pmsg i.pif_msgs)]

let pbus_of x = match tagged "pbus" x with
  | [e; ifs; baud; ty; bld; asg] ->
    { pb_ent = pent_of e; pb_ifaces = List.map pif_of (tagged "ifaces" ifs); pb_baud = num baud; pb_type = num ty;
      pb_builder = str bld; pb_attrs = passigns_of asg }
  | _ -> failwith "pbus"
let sx_pbus b = L [A "pbus"; sx_pent b.pb_ent; L (A "ifaces" :: List.map sx_pif b.pb_ifaces); sz b.pb_baud;
                   sz b.pb_type; ss b.pb_builder; sx_passigns b.pb_attrs]

let pnet_of x = match tagged "pnet" x with
  | [e; buses; blds; nodes; types; units; enums; attrs] ->
    { pn_ent = pent_of e; pn_buses = List.map pbus_of (tagged "buses" buses);
      pn_builders = List.map (fun b -> match tagged "pcb" b with
          | e :: ops -> { pcb_ent = pent_of e; pcb_ops = List.map (fun o -> match tagged "op" o with
              | [k; f; l] -> { pop_kind = num k; pop_from = num f; pop_len = num l } | _ -> failwith "pop") ops }
          | _ -> failwith "pcb") (tagged "builders" blds);
      pn_nodes = List.map (fun n -> match tagged "pnd" n with
          | [e; id; cnt; asg] -> { pnd_ent = pent_of e; pnd_id = num id; pnd_ifcount = num cnt; pnd_attrs = passigns_of asg }
          | _ -> failwith "pnd") (tagged "nodes" nodes);
      pn_types = List.map (fun t -> match tagged "pty" t with
          | [e; k; size; sg; mn; mx; sc; off] ->
            { pst_ent = pent_of e; pst_kind = num k; pst_size = num size; pst_signed = boolean sg; pst_min = num mn;
              pst_max = num mx; pst_scale = num sc; pst_offset = num off }
          | _ -> failwith "pty") (tagged "types" types);
      pn_units = List.map (fun u -> match tagged "pun" u with
          | [e; k; sym] -> { psu_ent = pent_of e; psu_kind = num k; psu_symbol = str sym }
          | _ -> failwith "pun") (tagged "units" units);
      pn_enums = List.map (fun en -> match tagged "pen" en with
          | [e; ms; vals] ->
            { psn_ent = pent_of e; psn_minsize = num ms;
              psn_values = List.map (fun v -> match tagged "v" v with
                  | [ve; i] -> { pev_ent = pent_of ve; pev_index = num i } | _ -> failwith "pev") (tagged "vals" vals) }
          | _ -> failwith "pen") (tagged "enums" enums);
      pn_attrs = List.map (fun a -> match tagged "pat" a with
          | [e; ty; body] ->
            { pat_ent = pent_of e; pat_type = num ty;
              pat_body = (match body with
                  | L [A "none"] -> PABNone
                  | L [A "str"; d] -> PABString (str d)
                  | L [A "int"; d; mn; mx; hx] -> PABInt (num d, num mn, num mx, boolean hx)
                  | L [A "flt"; d; mn; mx] -> PABFloat (num d, num mn, num mx)
                  | L (A "enm" :: d :: vals) -> PABEnum (str d, List.map str vals)
                  | _ -> failwith "pat body") }
          | _ -> failwith "pat") (tagged "attrs" attrs) }
  | _ -> failwith "pnet"

let sx_pnet p =
  L [A "pnet"; sx_pent p.pn_ent; L (A "buses" :: List.map sx_pbus p.pn_buses);
     L (A "builders" :: List.map (fun b -> L (A "pcb" :: sx_pent b.pcb_ent ::
                                              List.map (fun o -> L [A "op"; sz o.pop_kind; sz o.pop_from; sz o.pop_len]) b.pcb_ops)) p.pn_builders);
     L (A "nodes" :: List.map (fun n -> L [A "pnd"; sx_pent n.pnd_ent; sz n.pnd_id; sz n.pnd_ifcount; sx_passigns n.pnd_attrs]) p.pn_nodes);
     L (A "types" :: List.map (fun t -> L [A "pty"; sx_pent t.pst_ent; sz t.pst_kind; sz t.pst_size; sb t.pst_signed;
                                           sz t.pst_min; sz t.pst_max; sz t.pst_scale; sz t.pst_offset]) p.pn_types);
     L (A "units" :: List.map (fun u -> L [A "pun"; sx_pent u.psu_ent; sz u.psu_kind; ss u.psu_symbol]) p.pn_units);
     L (A "enums" :: List.map (fun e -> L [A "pen"; sx_pent e.psn_ent; sz e.psn_minsize;
                                           L (A "vals" :: List.map (fun v -> L [A "v"; sx_pent v.pev_ent; sz v.pev_index]) e.psn_values)]) p.pn_enums);
     L (A "attrs" :: List.map (fun a -> L [A "pat"; sx_pent a.pat_ent; sz a.pat_type;
                                           (match a.pat_body with
                                            | PABNone -> L [A "none"]
                                            | PABString d -> L [A "str"; ss d]
                                            | PABInt (d, mn, mx, hx) -> L [A "int"; sz d; sz mn; sz mx; sb hx]
                                            | PABFloat (d, mn, mx) -> L [A "flt"; sz d; sz mn; sz mx]
                                            | PABEnum (d, vals) -> L (A "enm" :: ss d :: List.map ss vals))]) p.pn_attrs)]

(* largest group count of a tree: the boolean wfb is quadratic in it (fixed members x groups), so the
   theorem instance wfb(load p) is only re-evaluated below a bound (counted in WFSKIP) *)
let rec psig_maxcount (PSig (_, _, _, _, _, body)) = match body with
  | PSBMux (sigs, _, c, _, _) -> List.fold_left (fun m s -> max m (psig_maxcount s)) (BZ.to_int (z_of_coqz c)) sigs
  | _ -> 0
let pnet_maxcount p =
  List.fold_left (fun m b -> List.fold_left (fun m i -> List.fold_left (fun m pm ->
      List.fold_left (fun m s -> max m (psig_maxcount s)) m pm.pm_signals) m i.pif_msgs) m b.pb_ifaces) 0 p.pn_buses

(* cost of running the list based model loader on a tree: Message.InsertSignal compares the names of the
   flattened tree pairwise, and a fixed member of a multiplexer occurs once per group in the flattened tree, so
   the cost is about (group count x fixed members + other refs)^2.  Inputs above the bound are not run through
   the model (counted in MODELSKIP); the Go side is still judged by its own outcome classes. *)
let rec psig_flat_size (PSig (_, _, _, _, _, body)) = match body with
  | PSBMux (sigs, fixed, c, _, groups) ->
    let refs = List.fold_left (fun m g -> m + List.length g) 0 groups in
    let inner = List.fold_left (fun m s -> max m (psig_flat_size s)) 1 sigs in
    let c = z_of_coqz c in
    if BZ.gt c (BZ.of_int 70000) && BZ.equal c (BZ.of_int (List.length groups)) then max_int / 4
    else (min (BZ.to_int c) 70000 * (List.length fixed) + refs + 1) * inner
  | _ -> 1
let pnet_cost p =
  List.fold_left (fun m b -> List.fold_left (fun m i -> List.fold_left (fun m pm ->
      List.fold_left (fun m s -> max m (psig_flat_size s)) m pm.pm_signals) m i.pif_msgs) m b.pb_ifaces) 0 p.pn_buses

(* ---------------------------------------------------------------- main *)
let cause_name = function
  | MissingField -> "MissingField" | MissingOneof -> "MissingOneof" | InvalidOneof -> "InvalidOneof"
  | NotFound -> "NotFound" | Duplicated -> "Duplicated" | Negative -> "Negative" | OutOfBounds -> "OutOfBounds"
  | IsZero -> "IsZero" | IsNil -> "IsNil" | NoSpaceLeft -> "NoSpaceLeft" | Intersect -> "Intersect"
  | InvalidType -> "InvalidType" | TooBig -> "TooBig" | GreaterThan -> "GreaterThan" | LowerThan -> "LowerThan"
  | ReceiverIsSender -> "ReceiverIsSender"

let split3 line =
  (* "K id rest" *)
  let i1 = String.index line ' ' in
  let i2 = String.index_from line (i1 + 1) ' ' in
  (String.sub line 0 i1, String.sub line (i1 + 1) (i2 - i1 - 1), i2 + 1)

let () =
  let ic = open_in Sys.argv.(1) in
  let verbose = Array.length Sys.argv > 2 && Sys.argv.(2) = "-v" in
  let nets : (string, net * sx) Hashtbl.t = Hashtbl.create 64 in
  let pnets : (string, pNet) Hashtbl.t = Hashtbl.create 64 in
  let checks = ref 0 and bad = ref 0 and wffail = ref 0 and wfskip = ref 0 and modelskip = ref 0 and indom = ref 0 and outdom = ref 0 and loads_ok = ref 0 and loads_err = ref 0 and builds = ref 0 and nrec = ref 0 and prec = ref 0 and lrec = ref 0 and brec = ref 0 and endseen = ref 0 in
  let causes : (string, int) Hashtbl.t = Hashtbl.create 16 in
  let report kind id detail =
    incr bad;
    if !bad <= 40 then Printf.printf "MISMATCH %s %s %s\n" kind id detail in
  let diff_str a b = match sx_diff "" a b with
    | Some (p, x, y) -> Printf.sprintf "at %s: impl=%s model=%s" p x y
    | None -> "(no structural difference?)" in
  let budget = try float_of_string (Sys.getenv "VERIF_DRIVER_BUDGET_S") with _ -> 1e9 in
  let t0 = Unix.gettimeofday () in
  let records = ref 0 in
  (try while true do
      let line = input_line ic in
      incr records;
      if Unix.gettimeofday () -. t0 > budget then begin
        Printf.printf "BUDGET exhausted after %d records\n" !records; raise End_of_file end;
      (* a record cut short by a killed harness (no closing parenthesis) is not a record *)
      if String.length line >= 3 && String.sub line 0 3 = "END" then incr endseen;
      if String.length line > 2 && line.[String.length line - 1] = ')' then begin
        let kind, id, off = split3 line in
        (try match kind with
          | "N" ->
            incr nrec;
            let sx = parse_sx line off in
            let n = net_of sx in
            Hashtbl.reset nets;
            Hashtbl.replace nets id (n, canon sx);
            incr checks;
            (* theorem instance: load (save n) = Ok n' with the same projection; n well-formed *)
            (match load now_time (save n) with
             | Ok n' ->
               let a = canon (sx_net (prune n')) and b = canon (sx_net (prune n)) in
               if not (sx_match a b) then begin
                 incr bad; Printf.printf "MODELRT %s model load(save n) differs from n %s\n" id (diff_str b a) end
             | Err c -> incr bad; Printf.printf "MODELRT %s model load(save n) = Err %s\n" id (cause_name c));
            if not (wfb n) then begin incr wffail; Printf.printf "WFFAIL orig %s the projected original network is not well-formed in the model\n" id end;
            (* the hypotheses of load_save, evaluated on the network built through the API *)
            if in_domain n then incr indom else incr outdom
          | "B" ->
            incr brec;
            (* the calls the flat generator made: the builder model must reach the observed network *)
            let sx = parse_sx line off in
            (match tagged "ops" sx, Hashtbl.find_opt nets id with
             | e :: ops, Some (n, _) ->
               incr checks; incr builds;
               (* the hypothesis ids_fresh of built_wf, on the ids the library drew for this construction *)
               let ids = List.map string_of_chars (supplied_ids (ent_of e) (List.map op_of ops)) in
               if List.length (List.sort_uniq compare ids) <> List.length ids then
                 report "build-ids" id "the entity ids supplied to the logged calls are not pairwise distinct (hypothesis ids_fresh)";
               (match build (ent_of e) (List.map op_of ops) with
                | Some n' ->
                  let a = canon (sx_net (prune n)) and b = canon (sx_net (prune n')) in
                  if not (sx_match a b) then report "build" id (diff_str a b);
                  if not (wfb n') then begin incr wffail; Printf.printf "WFFAIL build %s built network is not well-formed\n" id end
                | None -> report "build-outcome" id "the builder model refuses a call sequence the implementation accepted")
             | _ -> failwith "B record without N record")
          | "P" ->
            incr prec;
            let sp = String.index_from line off ' ' in
            let enc = String.sub line off (sp - off) in
            let sx = parse_sx line (sp + 1) in
            let p = pnet_of sx in
            Hashtbl.replace pnets (id ^ "/" ^ enc) p;
            (match Hashtbl.find_opt nets id with
             | Some (n, _) ->
               incr checks;
               let a = canon sx and b = canon (sx_pnet (save n)) in
               if not (sx_match a b) then report "save" (id ^ "/" ^ enc) (diff_str a b)
             | None -> ())
          | "L" ->
            incr lrec;
            let sp = String.index_from line off ' ' in
            let enc = String.sub line off (sp - off) in
            let sx = parse_sx line (sp + 1) in
            let p = Hashtbl.find pnets (id ^ "/" ^ enc) in
            Hashtbl.remove pnets (id ^ "/" ^ enc);
            if pnet_cost p > 6_000 then begin incr modelskip; raise Exit end;
            incr checks;
            let m = load now_time p in
            (match m with
             | Ok n' -> incr loads_ok;
               if pnet_maxcount p > 300 then incr wfskip
               else if not (wfb n') then begin incr wffail; Printf.printf "WFFAIL load %s/%s model-loaded network is not well-formed\n" id enc end
             | Err c -> incr loads_err;
               let k = cause_name c in
               Hashtbl.replace causes k (1 + (try Hashtbl.find causes k with Not_found -> 0)));
            (match sx, m with
             | L [A "ok"; g; L (A "received" :: rc)], Ok n' ->
               let a = canon g and b = canon (sx_net (prune n')) in
               if not (sx_match a b) then report "load" (id ^ "/" ^ enc) (diff_str a b);
               (* the converse relation (ReceivedMessages) registered by the loader, as a set *)
               let got = List.sort_uniq compare (List.map sx_to_string rc) in
               let want = List.sort_uniq compare (List.map (fun ((n, k), m) -> sx_to_string (L [A "rm"; ss n; sz k; ss m])) (received_rel p)) in
               if got <> want then
                 report "received" (id ^ "/" ^ enc) (Printf.sprintf "ReceivedMessages relation: impl has %d pairs, model %d" (List.length got) (List.length want))
             | L [A "err"], Err _ -> ()
             | L [A "unreadable"], _ -> ()   (* the harness reported the panic of the getters on this network *)
             | L (A "ok" :: _), Err c -> report "load-outcome" (id ^ "/" ^ enc) ("impl=ok model=Err " ^ cause_name c)
             | L [A "err"], Ok _ -> report "load-outcome" (id ^ "/" ^ enc) "impl=err model=Ok"
             | _ -> failwith "bad L record");
            if verbose then Printf.printf "L %s/%s model=%s\n" id enc (match m with Ok n' -> sx_to_string (sx_net (prune n')) | Err c -> "Err " ^ cause_name c)
          | _ -> ()
        with
        | Exit -> ()
        | Failure msg -> incr bad; Printf.printf "DRIVERERR %s %s %s\n" kind id msg
        | Not_found -> incr bad; Printf.printf "DRIVERERR %s %s not-found\n" kind id)
      end
    done with End_of_file -> ());
  Hashtbl.iter (fun k v -> Printf.printf "CAUSE %s %d\n" k v) causes;
  Printf.printf "LOADS ok %d err %d\n" !loads_ok !loads_err;
  Printf.printf "WFSKIP %d\n" !wfskip;
  Printf.printf "DOMAIN in %d out %d\n" !indom !outdom;
  Printf.printf "MODELSKIP %d\n" !modelskip;
  Printf.printf "BUILDS %d\n" !builds;
  Printf.printf "RECORDS N %d P %d L %d B %d END %d\n" !nrec !prec !lrec !brec !endseen;
  Printf.printf "CHECKS %d MISMATCHES %d WFFAIL %d\n" !checks !bad !wffail
