package main

import (
	"bufio"
	"bytes"
	"errors"
	"fmt"
	"io"
	"math"
	"os"
	"sort"
	"strings"
	"time"

	"github.com/squadracorsepolito/acmelib"
	pb "github.com/squadracorsepolito/acmelib/proto/gen/go/acmelib/v1"
	"google.golang.org/protobuf/encoding/protojson"
	"google.golang.org/protobuf/encoding/prototext"
	"google.golang.org/protobuf/proto"
)

var encNames = map[acmelib.SaveEncoding]string{acmelib.SaveEncodingWire: "wire", acmelib.SaveEncodingJSON: "json", acmelib.SaveEncodingText: "text"}
var encList = []acmelib.SaveEncoding{acmelib.SaveEncodingWire, acmelib.SaveEncodingJSON, acmelib.SaveEncodingText}

func unmarshalAs(data []byte, enc acmelib.SaveEncoding) (*pb.Network, error) {
	p := &pb.Network{}
	var err error
	switch enc {
	case acmelib.SaveEncodingWire:
		err = proto.Unmarshal(data, p)
	case acmelib.SaveEncodingJSON:
		err = protojson.Unmarshal(data, p)
	case acmelib.SaveEncodingText:
		err = prototext.Unmarshal(data, p)
	}
	return p, err
}

// loadOutcome is what one guarded call of LoadNetwork produced.
type loadOutcome struct {
	net     *acmelib.Network
	err     error
	panicV  any
	stack   string
	hang    bool
	elapsed time.Duration
}

func guardedLoad(data []byte, enc acmelib.SaveEncoding, limit time.Duration) loadOutcome {
	ch := make(chan loadOutcome, 1)
	t0 := time.Now()
	go func() {
		var o loadOutcome
		defer func() {
			if r := recover(); r != nil {
				o.panicV = r
				o.stack = panicSite()
			}
			o.elapsed = time.Since(t0)
			ch <- o
		}()
		o.net, o.err = acmelib.LoadNetwork(bytes.NewReader(data), enc)
	}()
	select {
	case o := <-ch:
		return o
	case <-time.After(limit):
		return loadOutcome{hang: true, elapsed: limit}
	}
}

// derived observables of a network: CAN-ID of every message, decodings of fixed payloads,
// DBC text of every bus (line multiset: the exporter's ordering is another property's business)
func derived(n *acmelib.Network, payloads [][]byte) (out []string, failed string) {
	defer func() {
		if r := recover(); r != nil {
			failed = fmt.Sprint(r)
		}
	}()
	for _, b := range n.Buses() {
		for _, ni := range b.NodeInterfaces() {
			for _, m := range ni.SentMessages() {
				out = append(out, fmt.Sprintf("canid %s %d", m.EntityID(), m.GetCANID()))
				for pi, data := range payloads {
					for _, d := range m.SignalLayout().Decode(data) {
						if d == nil {
							continue
						}
						val := fmt.Sprint(d.Value)
						if f, ok := d.Value.(float64); ok {
							val = fmt.Sprintf("f%x", math.Float64bits(f))
						}
						out = append(out, fmt.Sprintf("decode %s p%d %s raw=%d %s %s unit=%q", m.EntityID(), pi, d.Signal.EntityID(), d.RawValue, d.ValueType, val, d.Unit))
					}
				}
			}
		}
		var buf bytes.Buffer
		acmelib.ExportBus(&buf, b)
		lines := strings.Split(buf.String(), "\n")
		sort.Strings(lines)
		out = append(out, "dbc "+b.EntityID().String()+" "+strings.Join(lines, "\n"))
	}
	sort.Strings(out)
	return out, ""
}

type c12Stats struct {
	cases, nontrivial, evaluations int
	hist                           map[string]int
	fails                          map[string]string // signature -> description (shortest case kept)
	failSize                       map[string]int
	failReplay                     map[string]string
	samples                        []string
}

func (st *c12Stats) fail(sig, desc string, size int, replay string) {
	if old, ok := st.failSize[sig]; ok && old <= size {
		return
	}
	st.fails[sig] = desc
	st.failSize[sig] = size
	st.failReplay[sig] = replay
}

type nullWriter struct{ n int }

func (w *nullWriter) Write(p []byte) (int, error) { w.n += len(p); return len(p), nil }

func runC12(seed uint64, ncases int, outPath string, replaySeed uint64, hasReplay bool) {
	f, err := os.Create(outPath)
	if err != nil {
		panic(err)
	}
	defer f.Close()
	out := bufio.NewWriterSize(f, 1<<20)
	defer out.Flush()
	st := &c12Stats{hist: map[string]int{}, fails: map[string]string{}, failSize: map[string]int{}, failReplay: map[string]string{}}
	master := &rng{s: seed}
	seen := map[string]bool{}

	// ---- encoding selection: every mask 0..15 x every subset of present writers, on a small network
	{
		w := genWorld(seed^0x5151, false)
		for mask := 0; mask < 16; mask++ {
			for pres := 0; pres < 8; pres++ {
				ws := [3]*nullWriter{{}, {}, {}}
				var a, b, c io.Writer // untyped nil when absent
				if pres&1 != 0 {
					a = ws[0]
				}
				if pres&2 != 0 {
					b = ws[1]
				}
				if pres&4 != 0 {
					c = ws[2]
				}
				err := saveWith(w.net, acmelib.SaveEncoding(mask), a, b, c)
				written := 0
				for i := 0; i < 3; i++ {
					if ws[i].n > 0 {
						written |= 1 << i
					}
				}
				fmt.Fprintf(out, "W %d %d %d %s\n", mask, pres, written, B(err == nil).Atom)
				st.evaluations++
				// the property's own reading: success <=> every selected writer present; then exactly
				// the selected encodings are written; a refusal is an ArgumentError wrapping ErrIsNil
				sel := mask & 7
				want := sel&^pres == 0
				if (err == nil) != want {
					st.fail("c12-writer-selection", fmt.Sprintf("SaveNetwork(mask=%d, writers present=%03b) returned err=%v", mask, pres, err), 0, fmt.Sprintf("mask=%d present=%d", mask, pres))
				}
				if err == nil && written != sel {
					st.fail("c12-writes-exactly-selected", fmt.Sprintf("SaveNetwork(mask=%d, present=%03b) wrote encodings %03b", mask, pres, written), 0, fmt.Sprintf("mask=%d present=%d", mask, pres))
				}
				if err != nil {
					var ae *acmelib.ArgumentError
					if !errors.As(err, &ae) || !errors.Is(err, acmelib.ErrIsNil) {
						st.fail("c12-refusal-kind", fmt.Sprintf("SaveNetwork(mask=%d, present=%03b) refused with %T %v, not ArgumentError/ErrIsNil", mask, pres, err, err), 0, fmt.Sprintf("mask=%d present=%d", mask, pres))
					}
					if written&^sel != 0 {
						st.fail("c12-writes-unselected", fmt.Sprintf("SaveNetwork(mask=%d, present=%03b) wrote unselected encodings %03b", mask, pres, written), 0, "")
					}
				}
			}
		}
	}

	payloads := [][]byte{{0, 0, 0, 0, 0, 0, 0, 0}, {0xff, 0xff, 0xff, 0xff, 0xff, 0xff, 0xff, 0xff}, {0x12, 0x34, 0x56, 0x78, 0x9a, 0xbc, 0xde, 0xf0}, nil}

	budget := time.Duration(envInt("VERIF_BUDGET_S", 100000)) * time.Second
	started := time.Now()
	for ci := 0; ci < ncases; ci++ {
		cseed := master.next()
		if time.Since(started) > budget {
			st.hist["budget-exhausted"] = 1
			break
		}
		out.Flush()
		if hasReplay {
			cseed = replaySeed
		}
		rich := ci%5 != 0
		// a quarter of the networks (decided by the case seed, so that a replay rebuilds the same one) are built
		// bottom-up with an op log that the builder model replays (record B)
		var w *world
		var opLog *SX
		if cseed%4 == 3 {
			w, opLog = genFlat(cseed)
		} else {
			w = genWorld(cseed, rich)
		}
		id := fmt.Sprintf("c%d", ci)
		rp := make([]byte, 8)
		pr := &rng{s: cseed ^ 0xabcdef}
		for i := range rp {
			rp[i] = byte(pr.next())
		}
		payloads[3] = rp

		origSX, col := dumpNet(w.net)
		origCanon := Canon(origSX).String()
		origRecv := Canon(dumpReceivedOpt(col, true))
		size := len(origCanon)
		fmt.Fprintf(out, "N %s %s\n", id, origSX.String())
		if opLog != nil {
			fmt.Fprintf(out, "B %s %s\n", id, opLog.String())
		}
		st.cases++
		for k, v := range w.hist {
			st.hist[k] += v
		}
		st.hist[fmt.Sprintf("buses=%d", len(w.buses))]++
		st.hist[fmt.Sprintf("mux-depth=%d", w.maxDepth)]++
		nt := len(w.buses) >= 1 && len(col.msgs) >= 1 && len(col.sigs) >= 2
		if nt && !seen[origCanon] {
			seen[origCanon] = true
			st.nontrivial++
		}
		if len(st.samples) < 2 && nt && size < 6000 {
			st.samples = append(st.samples, origSX.String())
		}
		origDerived, origFail := derived(w.net, payloads)
		replay := fmt.Sprintf("%d", cseed)

		for mask := 1; mask <= 7; mask++ {
			var bufs [3]bytes.Buffer
			if err := acmelib.SaveNetwork(w.net, acmelib.SaveEncoding(mask), &bufs[0], &bufs[1], &bufs[2]); err != nil {
				st.fail("c12-save-error", fmt.Sprintf("SaveNetwork(mask=%d) failed: %v", mask, err), size, replay)
				continue
			}
			for i, enc := range encList {
				sel := mask&(1<<i) != 0
				if sel != (bufs[i].Len() > 0) {
					st.fail("c12-writes-exactly-selected", fmt.Sprintf("mask=%d: encoding %s selected=%v but %d bytes written", mask, encNames[enc], sel, bufs[i].Len()), size, replay)
				}
				if !sel {
					continue
				}
				st.evaluations++
				data := bufs[i].Bytes()
				eid := encNames[enc]
				o := guardedLoad(data, enc, 20*time.Second)
				// the property predicate, Go against Go
				switch {
				case o.panicV != nil:
					st.fail("c12-load-panic@"+o.stack, fmt.Sprintf("LoadNetwork(%s) of a saved network panicked: %v at %s", eid, o.panicV, o.stack), size, replay)
				case o.hang:
					st.fail("c12-load-hang", fmt.Sprintf("LoadNetwork(%s) of a saved network did not return", eid), size, replay)
				case o.err != nil:
					st.fail("c12-load-error:"+errClass(o.err), fmt.Sprintf("LoadNetwork(%s) refuses what SaveNetwork wrote: %v", eid, o.err), size, replay)
				default:
					gotSX, gotCol := dumpLoadedNet(o.net)
					if d := Diff("", Canon(origSX), Canon(gotSX)); d != "" {
						st.fail("c12-roundtrip:"+diffClass(d), fmt.Sprintf("save/load (%s) changes the network: original vs loaded differ at %s", eid, d), size, replay)
					}
					// the converse of the receiver relation (interfaces list what they receive) is restored too
					if d := Diff("", origRecv, Canon(dumpReceivedOpt(gotCol, true))); d != "" {
						st.fail("c12-roundtrip:received-messages", fmt.Sprintf("save/load (%s) changes which interfaces list which messages as received: %s", eid, d), size, replay)
					}
					if origFail == "" {
						got, gf := derived(o.net, payloads)
						if gf != "" {
							st.fail("c12-derived-panic", "derived observable panics on the loaded network only: "+gf, size, replay)
						} else if len(got) != len(origDerived) {
							st.fail("c12-derived", fmt.Sprintf("derived observables (%s): %d vs %d items", eid, len(origDerived), len(got)), size, replay)
						} else {
							for k := range got {
								if got[k] != origDerived[k] {
									st.fail("c12-derived:"+strings.SplitN(got[k], " ", 2)[0], fmt.Sprintf("derived observable differs after save/load (%s): %.300s vs %.300s", eid, origDerived[k], got[k]), size, replay)
									break
								}
							}
						}
					}
				}
				// the tree and the outcome, for the model (once per encoding and case: mask 7)
				if mask == 7 {
					p, err := unmarshalAs(data, enc)
					if err != nil {
						st.fail("c12-unmarshal", fmt.Sprintf("%s bytes written by SaveNetwork do not unmarshal: %v", eid, err), size, replay)
						continue
					}
					fmt.Fprintf(out, "P %s %s %s\n", id, eid, dumpPNet(p).String())
					if o.panicV == nil && !o.hang {
						if o.err != nil {
							fmt.Fprintf(out, "L %s %s (err)\n", id, eid)
						} else {
							gotSX, gcol := dumpLoadedNet(o.net)
							fmt.Fprintf(out, "L %s %s (ok %s %s)\n", id, eid, gotSX.String(), dumpReceived(gcol).String())
						}
					}
				}
			}
		}
		if hasReplay {
			break
		}
	}
	if !hasReplay {
		outOfDomain(st)
	}
	// end marker: a case file without it was cut short
	fmt.Fprintf(out, "END %d\n", st.cases)
	if err := out.Flush(); err != nil {
		panic(err)
	}
	writeSummary(outPath+".summary", st)
}

// outOfDomain builds, for each exclusion of the model's in_domain, a small network through the public API that
// violates exactly that one, and reports whether save + load (wire) reproduces it.  The save format cannot carry
// these values (uint32 / int32 fields, a zero field reads as absent): the failures are recorded findings.
func outOfDomain(st *c12Stats) {
	type ood struct {
		kind   string
		expect string // the differences the recorded finding consists of (path: original vs loaded), joined by " | "
		build  func() *acmelib.Network
	}
	base := func() (*acmelib.Network, *acmelib.Bus, *acmelib.Message) {
		n := acmelib.NewNetwork("ood")
		b := acmelib.NewBus("bus")
		n.AddBus(b)
		nd := acmelib.NewNode("node", 1, 1)
		b.AddNodeInterface(nd.Interfaces()[0])
		m := acmelib.NewMessage("msg", 1, 8)
		nd.Interfaces()[0].AddSentMessage(m)
		return n, b, m
	}
	cases := []ood{
		{"int-beyond-int32", "/net[2]/buses[1]/bus[6]/as[1]/a[2]/i[1]: 34359738368 vs 0 | /net[8]/attrs[1]/at[2]/int[3]: 1099511627776 vs 0", func() *acmelib.Network {
			n, b, _ := base()
			a, _ := acmelib.NewIntegerAttribute("att", 0, 0, 1<<40)
			b.AssignAttribute(a, 1<<35)
			return n
		}},
		{"int-beyond-uint32", "/net[2]/buses[1]/bus[2]: 1099511627776 vs 0", func() *acmelib.Network {
			n, b, _ := base()
			b.SetBaudrate(1 << 40)
			return n
		}},
		{"enum-min-size-zero", "/net[7]/enums[1]/en[2]: 0 vs 1", func() *acmelib.Network {
			n, _, m := base()
			e := acmelib.NewSignalEnum("enum")
			e.SetMinSize(0)
			s, _ := acmelib.NewEnumSignal("sig", e)
			m.AppendSignal(s)
			return n
		}},
		{"start-value-negative-zero", "/net[2]/buses[1]/bus[5]/ifaces[1]/if[3]/msgs[1]/msg[13]/sigs[1]/std[1]/h[3]: 9223372036854775808 vs 0", func() *acmelib.Network {
			n, _, m := base()
			s, _ := acmelib.NewStandardSignal("sig", acmelib.NewFlagSignalType("flag"))
			s.SetStartValue(math.Copysign(0, -1))
			m.AppendSignal(s)
			return n
		}},
		{"enum-constants-out-of-range", "/net[2]/buses[1]/bus[5]/ifaces[1]/if[3]/msgs[1]/msg[6]: 7 vs 0 | /net[2]/buses[1]/bus[5]/ifaces[1]/if[3]/msgs[1]/msg[7]: 5 vs 0 | /net[2]/buses[1]/bus[5]/ifaces[1]/if[3]/msgs[1]/msg[9]: 9 vs 0 | /net[2]/buses[1]/bus[5]/ifaces[1]/if[3]/msgs[1]/msg[13]/sigs[1]/std[1]/h[2]: 20 vs 0 | /net[6]/units[1]/un[2]: 9 vs 0", func() *acmelib.Network {
			n, _, m := base()
			m.SetPriority(acmelib.MessagePriority(7))
			m.SetByteOrder(acmelib.MessageByteOrder(5))
			m.SetSendType(acmelib.MessageSendType(9))
			s, _ := acmelib.NewStandardSignal("sig", acmelib.NewFlagSignalType("flag"))
			s.SetSendType(acmelib.SignalSendType(20))
			s.SetUnit(acmelib.NewSignalUnit("unit", acmelib.SignalUnitKind(9), "x"))
			m.AppendSignal(s)
			return n
		}},
		{"bus-type", "/net[2]/buses[1]/bus[3]: 3 vs 0", func() *acmelib.Network {
			n, b, _ := base()
			b.SetType(acmelib.BusType(3))
			return n
		}},
		{"negative-ints", "/net[2]/buses[1]/bus[2]: -1 vs 4294967295 | /net[2]/buses[1]/bus[5]/ifaces[1]/if[3]/msgs[1]/msg[8]: -2 vs 4294967294 | /net[2]/buses[1]/bus[5]/ifaces[1]/if[3]/msgs[1]/msg[10]: -3 vs 4294967293 | /net[2]/buses[1]/bus[5]/ifaces[1]/if[3]/msgs[1]/msg[11]: -4 vs 4294967292", func() *acmelib.Network {
			n, b, m := base()
			b.SetBaudrate(-1)
			m.SetCycleTime(-2)
			m.SetDelayTime(-3)
			m.SetStartDelayTime(-4)
			return n
		}},
		{"invalid-utf8-name", "(SaveNetwork refuses the network)", func() *acmelib.Network {
			n, b, _ := base()
			b.SetDesc("bad \xff\xfe bytes")
			return n
		}},
		{"unattached-interface-messages", "/unattached[1]: 1 vs 0", func() *acmelib.Network {
			// the node of the attached interface has a second interface that is attached to no bus and sends a message:
			// reachable through Node.Interfaces(), but the save format holds messages under bus interfaces only
			n := acmelib.NewNetwork("ood")
			b := acmelib.NewBus("bus")
			n.AddBus(b)
			nd := acmelib.NewNode("node", 1, 2)
			b.AddNodeInterface(nd.Interfaces()[0])
			nd.Interfaces()[0].AddSentMessage(acmelib.NewMessage("msg", 1, 8))
			nd.Interfaces()[1].AddSentMessage(acmelib.NewMessage("detached_msg", 2, 8))
			return n
		}},
	}
	// messages sent by interfaces that are attached to no bus, of the nodes the network reaches
	unattached := func(col *collector) *SX {
		k := 0
		for _, nd := range col.nodes {
			for _, ni := range nd.Interfaces() {
				if ni.ParentBus() == nil {
					k += len(ni.SentMessages())
				}
			}
		}
		return T("unattached", I(int64(k)))
	}
	for _, c := range cases {
		n := c.build()
		st.evaluations++
		st.hist["out-of-domain-"+c.kind]++
		var buf bytes.Buffer
		if err := acmelib.SaveNetwork(n, acmelib.SaveEncodingWire, &buf, nil, nil); err != nil {
			st.fail("c12-domain-save-error:"+c.kind, fmt.Sprintf("SaveNetwork fails on the out-of-domain network (%s): %v", c.kind, err), 0, "ood:"+c.kind)
			continue
		}
		o := guardedLoad(buf.Bytes(), acmelib.SaveEncodingWire, 20*time.Second)
		if o.panicV != nil || o.hang || o.err != nil {
			st.fail("c12-domain-load-failure:"+c.kind, fmt.Sprintf("LoadNetwork fails on the save of the out-of-domain network (%s): %v %v", c.kind, o.err, o.panicV), 0, "ood:"+c.kind)
			continue
		}
		a, acol := dumpNet(n)
		g, gcol := dumpLoadedNet(o.net)
		// the recorded finding is exactly: the one out-of-domain field comes back as the documented value and
		// nothing else differs; any other difference keeps its own signature
		diffs := DiffAll("", Canon(a), Canon(g), nil)
		diffs = DiffAll("", unattached(acol), unattached(gcol), diffs)
		switch {
		case len(diffs) == 0:
			st.hist["out-of-domain-reproduced-"+c.kind]++
		case strings.Join(diffs, " | ") == c.expect:
			st.fail("c12-domain:"+c.kind, fmt.Sprintf("value outside the ranges of the save format is not reproduced (%s): %s", c.kind, c.expect), 0, "ood:"+c.kind)
		default:
			st.fail("c12-domain-unexpected:"+c.kind+":"+diffClass(diffs[0]), fmt.Sprintf("save + load of the out-of-domain network (%s) differs in another way than the recorded loss %q: %s", c.kind, c.expect, strings.Join(diffs, " | ")), 0, "ood:"+c.kind)
		}
	}
}

func saveWith(n *acmelib.Network, enc acmelib.SaveEncoding, a, b, c io.Writer) error {
	return acmelib.SaveNetwork(n, enc, a, b, c)
}

// errClass names the sentinel (and the outermost typed error) of a load error.
func errClass(err error) string {
	names := []struct {
		e error
		n string
	}{{acmelib.ErrIsDuplicated, "duplicated"}, {acmelib.ErrNotFound, "not-found"}, {acmelib.ErrIsNegative, "negative"},
		{acmelib.ErrOutOfBounds, "out-of-bounds"}, {acmelib.ErrIsZero, "zero"}, {acmelib.ErrIsNil, "nil"},
		{acmelib.ErrNoSpaceLeft, "no-space"}, {acmelib.ErrIntersect, "intersect"}, {acmelib.ErrInvalidType, "invalid-type"},
		{acmelib.ErrReceiverIsSender, "receiver-is-sender"}, {acmelib.ErrTooSmall, "too-small"}, {acmelib.ErrTooBig, "too-big"}}
	cls := "other"
	for _, x := range names {
		if errors.Is(err, x.e) {
			cls = x.n
			break
		}
	}
	var eid *acmelib.EntityIDError
	if errors.As(err, &eid) {
		cls = "entity-id-" + cls
	}
	return cls
}

// diffClass keeps the tags of a difference path and drops the indexes: the kind of field that differs.
func diffClass(d string) string {
	path := strings.SplitN(d, ":", 2)[0]
	var b strings.Builder
	depth := 0
	for _, c := range path {
		switch {
		case c == '[':
			depth++
		case c == ']':
			depth--
		case depth == 0:
			b.WriteRune(c)
		}
	}
	parts := strings.Split(b.String(), "/")
	if len(parts) > 4 {
		parts = parts[len(parts)-4:]
	}
	idx := ""
	if i := strings.LastIndex(path, "["); i >= 0 {
		idx = path[i:]
	}
	return strings.Join(parts, "/") + idx
}

func writeSummary(path string, st *c12Stats) {
	f, err := os.Create(path)
	if err != nil {
		panic(err)
	}
	defer f.Close()
	fmt.Fprintf(f, "cases %d\nnontrivial %d\nevaluations %d\n", st.cases, st.nontrivial, st.evaluations)
	keys := []string{}
	for k := range st.hist {
		keys = append(keys, k)
	}
	sort.Strings(keys)
	for _, k := range keys {
		fmt.Fprintf(f, "hist %s %d\n", k, st.hist[k])
	}
	for _, s := range st.samples {
		fmt.Fprintf(f, "sample %s\n", s)
	}
	sigs := []string{}
	for k := range st.fails {
		sigs = append(sigs, k)
	}
	sort.Strings(sigs)
	for _, k := range sigs {
		fmt.Fprintf(f, "FAIL %s ## %s ## %s\n", strings.ReplaceAll(k, " ", "_"), strings.ReplaceAll(st.failReplay[k], "\n", " "), strings.ReplaceAll(st.fails[k], "\n", " | "))
	}
}
