package main

import (
	"bufio"
	"bytes"
	"context"
	"encoding/hex"
	"fmt"
	"hash/fnv"
	"math"
	"os"
	"os/exec"
	"sort"
	"strings"
	"syscall"
	"time"

	"github.com/squadracorsepolito/acmelib"
	pb "github.com/squadracorsepolito/acmelib/proto/gen/go/acmelib/v1"
	"google.golang.org/protobuf/encoding/protojson"
	"google.golang.org/protobuf/encoding/prototext"
	"google.golang.org/protobuf/proto"
	"google.golang.org/protobuf/types/known/timestamppb"
	"verif/vinv"
)

// ------------------------------------------------------------------------------------------
// sites of a protobuf tree
// ------------------------------------------------------------------------------------------

type sites struct {
	ents      []**pb.Entity
	entOwners []string
	sigs      []*pb.Signal
	sigLists  []*[]*pb.Signal
	msgs      []*pb.Message
	msgLists  []*[]*pb.Message
	ifaces    []*pb.NodeInterface
	ifLists   []*[]*pb.NodeInterface
	muxes     []*pb.MultiplexerSignal
	payloads  []*pb.SignalPayload
	assigns   []*pb.AttributeAssignment
	asLists   []*[]*pb.AttributeAssignment
	u32       []*uint32
	u32Names  []string
	idFields  []*string
	idKinds   []string
	allIDs    []string
	kindIDs   map[string][]string
}

func (s *sites) ent(slot **pb.Entity, owner string) {
	s.ents = append(s.ents, slot)
	s.entOwners = append(s.entOwners, owner)
	if *slot != nil {
		s.allIDs = append(s.allIDs, (*slot).EntityId)
		s.kindIDs[owner] = append(s.kindIDs[owner], (*slot).EntityId)
	}
}
func (s *sites) num(p *uint32, name string) { s.u32 = append(s.u32, p); s.u32Names = append(s.u32Names, name) }
func (s *sites) id(p *string, kind string)  { s.idFields = append(s.idFields, p); s.idKinds = append(s.idKinds, kind) }
func (s *sites) asg(l *[]*pb.AttributeAssignment) {
	s.asLists = append(s.asLists, l)
	for _, a := range *l {
		s.assigns = append(s.assigns, a)
		s.id(&a.AttributeEntityId, "attr")
	}
}
func (s *sites) payload(p *pb.SignalPayload) {
	if p == nil {
		return
	}
	s.payloads = append(s.payloads, p)
	for _, r := range p.Refs {
		s.id(&r.SignalEntityId, "sig")
		s.num(&r.RelStartBit, "rel_start_bit")
	}
}
func (s *sites) sigList(l *[]*pb.Signal) {
	s.sigLists = append(s.sigLists, l)
	for _, x := range *l {
		s.sig(x)
	}
}
func (s *sites) sig(x *pb.Signal) {
	s.sigs = append(s.sigs, x)
	s.ent(&x.Entity, "sig")
	s.asg(&x.AttributeAssignments)
	switch b := x.Signal.(type) {
	case *pb.Signal_Standard:
		s.id(&b.Standard.TypeEntityId, "type")
		s.id(&b.Standard.UnitEntityId, "unit")
	case *pb.Signal_Enum:
		s.id(&b.Enum.EnumEntityId, "enum")
	case *pb.Signal_Multiplexer:
		m := b.Multiplexer
		s.muxes = append(s.muxes, m)
		s.num(&m.GroupCount, "group_count")
		s.num(&m.GroupSize, "group_size")
		for i := range m.FixedSignalEntityIds {
			s.id(&m.FixedSignalEntityIds[i], "sig")
		}
		for _, g := range m.Groups {
			s.payload(g)
		}
		s.sigList(&m.Signals)
	}
}

func collect(n *pb.Network) *sites {
	s := &sites{kindIDs: map[string][]string{}}
	s.ent(&n.Entity, "net")
	for _, cb := range n.CanidBuilders {
		s.ent(&cb.Entity, "builder")
		for _, op := range cb.Operations {
			s.num(&op.From, "op_from")
			s.num(&op.Len, "op_len")
		}
	}
	for _, a := range n.Attributes {
		s.ent(&a.Entity, "attr")
	}
	for _, nd := range n.Nodes {
		s.ent(&nd.Entity, "node")
		s.num(&nd.NodeId, "node_id")
		s.num(&nd.InterfaceCount, "interface_count")
		s.asg(&nd.AttributeAssignments)
	}
	for _, t := range n.SignalTypes {
		s.ent(&t.Entity, "type")
		s.num(&t.Size, "type_size")
	}
	for _, u := range n.SignalUnits {
		s.ent(&u.Entity, "unit")
	}
	for _, e := range n.SignalEnums {
		s.ent(&e.Entity, "enum")
		s.num(&e.MinSize, "min_size")
		for _, v := range e.Values {
			s.ent(&v.Entity, "enumval")
			s.num(&v.Index, "enum_index")
		}
	}
	for _, b := range n.Buses {
		s.ent(&b.Entity, "bus")
		s.num(&b.Baudrate, "baudrate")
		s.id(&b.CanidBuilderEntityId, "builder")
		s.asg(&b.AttributeAssignments)
		s.ifLists = append(s.ifLists, &b.NodeInterfaces)
		for _, ni := range b.NodeInterfaces {
			s.ifaces = append(s.ifaces, ni)
			s.id(&ni.NodeEntityId, "node")
			s.msgLists = append(s.msgLists, &ni.Messages)
			for _, m := range ni.Messages {
				s.msgs = append(s.msgs, m)
				s.ent(&m.Entity, "msg")
				s.num(&m.SizeByte, "size_byte")
				s.num(&m.MessageId, "message_id")
				s.num(&m.StaticCanId, "static_can_id")
				s.num(&m.CycleTime, "cycle_time")
				s.asg(&m.AttributeAssignments)
				s.payload(m.Payload)
				for _, r := range m.Receivers {
					s.id(&r.NodeEntityId, "node")
					s.num(&r.NodeInterfaceNumber, "receiver_iface")
				}
				s.sigList(&m.Signals)
			}
		}
	}
	return s
}

// ------------------------------------------------------------------------------------------
// tree-level mutations: each returns a description ("" = not applicable here)
// ------------------------------------------------------------------------------------------

type mutation struct {
	name string
	f    func(r *rng, n *pb.Network, s *sites) string
}

// mutations that need a multiplexer apply to few sites: they are tried more often
var mutationWeight = map[string]int{"mux-groups": 4, "nested-name-clash": 3, "deep-name-clash": 4, "group-count-boundary": 4, "cross-mux-ref": 4, "retarget-id": 3, "size-fields": 4, "overlap-in-shared-group": 5, "enum-numbers": 3, "second-interface-of-node-on-bus": 4, "duplicate-key": 3, "duplicate-number-key": 3, "drop-definition": 5}

func pickMutation(r *rng) mutation {
	total := 0
	for _, m := range mutations {
		w := mutationWeight[m.name]
		if w == 0 {
			w = 1
		}
		total += w
	}
	x := r.below(total)
	for _, m := range mutations {
		w := mutationWeight[m.name]
		if w == 0 {
			w = 1
		}
		if x < w {
			return m
		}
		x -= w
	}
	return mutations[0]
}

func pickID(r *rng, s *sites, kind string) string {
	switch r.below(10) {
	case 0:
		return "no-such-entity"
	case 1:
		return ""
	case 2, 3, 4:
		if len(s.allIDs) > 0 {
			return s.allIDs[r.below(len(s.allIDs))]
		}
	}
	if l := s.kindIDs[kind]; len(l) > 0 {
		return l[r.below(len(l))]
	}
	return "no-such-entity"
}

var u32Pool = []uint32{0, 1, 2, 7, 8, 9, 63, 64, 65, 255, 4096, 65535, 65536, 1<<31 - 1, 1 << 31, math.MaxUint32}

var mutations = []mutation{
	{"delete-entity", func(r *rng, n *pb.Network, s *sites) string {
		i := r.below(len(s.ents))
		if *s.ents[i] == nil {
			return ""
		}
		*s.ents[i] = nil
		return "entity of a " + s.entOwners[i] + " deleted"
	}},
	{"drop-definition", func(r *rng, n *pb.Network, s *sites) string {
		// a definition is removed from its table while the references to its id stay (dangling id).  The valid save
		// that defines it was loaded earlier in this process: nothing of an earlier load may satisfy the reference.
		for t := 0; t < 12; t++ {
			switch r.below(7) {
			case 0:
				if k := len(n.SignalTypes); k > 0 {
					i := r.below(k)
					n.SignalTypes = append(n.SignalTypes[:i:i], n.SignalTypes[i+1:]...)
					return "signal type removed, references kept"
				}
			case 1:
				if k := len(n.SignalUnits); k > 0 {
					i := r.below(k)
					n.SignalUnits = append(n.SignalUnits[:i:i], n.SignalUnits[i+1:]...)
					return "signal unit removed, references kept"
				}
			case 2:
				if k := len(n.SignalEnums); k > 0 {
					i := r.below(k)
					n.SignalEnums = append(n.SignalEnums[:i:i], n.SignalEnums[i+1:]...)
					return "signal enum removed, references kept"
				}
			case 3:
				if k := len(n.Attributes); k > 0 {
					i := r.below(k)
					n.Attributes = append(n.Attributes[:i:i], n.Attributes[i+1:]...)
					return "attribute removed, references kept"
				}
			case 4:
				if k := len(n.Nodes); k > 0 {
					i := r.below(k)
					n.Nodes = append(n.Nodes[:i:i], n.Nodes[i+1:]...)
					return "node removed, references kept"
				}
			case 5:
				if k := len(n.CanidBuilders); k > 0 {
					i := r.below(k)
					n.CanidBuilders = append(n.CanidBuilders[:i:i], n.CanidBuilders[i+1:]...)
					return "CAN-ID builder removed, references kept"
				}
			case 6:
				if len(s.sigLists) > 0 {
					l := s.sigLists[r.below(len(s.sigLists))]
					if k := len(*l); k > 0 {
						i := r.below(k)
						*l = append((*l)[:i:i], (*l)[i+1:]...)
						return "signal removed from a signal list, payload / group references kept"
					}
				}
			}
		}
		return ""
	}},
	{"delete-payload", func(r *rng, n *pb.Network, s *sites) string {
		if len(s.msgs) == 0 {
			return ""
		}
		s.msgs[r.below(len(s.msgs))].Payload = nil
		return "message payload deleted"
	}},
	{"clear-oneof", func(r *rng, n *pb.Network, s *sites) string {
		switch r.below(3) {
		case 0:
			if len(s.sigs) > 0 {
				s.sigs[r.below(len(s.sigs))].Signal = nil
				return "signal oneof cleared"
			}
		case 1:
			if len(n.Attributes) > 0 {
				n.Attributes[r.below(len(n.Attributes))].Attribute = nil
				return "attribute oneof cleared"
			}
		case 2:
			if len(s.assigns) > 0 {
				s.assigns[r.below(len(s.assigns))].Value = nil
				return "assignment value cleared"
			}
		}
		return ""
	}},
	{"change-kind", func(r *rng, n *pb.Network, s *sites) string {
		if r.chance(60) && len(s.sigs) > 0 {
			x := s.sigs[r.below(len(s.sigs))]
			x.Kind = pb.SignalKind(r.below(5))
			return fmt.Sprintf("signal kind set to %d", x.Kind)
		}
		if len(n.Attributes) > 0 {
			a := n.Attributes[r.below(len(n.Attributes))]
			a.Type = pb.AttributeType(r.below(6))
			return fmt.Sprintf("attribute type set to %d", a.Type)
		}
		return ""
	}},
	{"swap-arm", func(r *rng, n *pb.Network, s *sites) string {
		switch r.below(3) {
		case 0:
			if len(s.sigs) > 0 {
				x := s.sigs[r.below(len(s.sigs))]
				switch r.below(3) {
				case 0:
					x.Signal = &pb.Signal_Standard{Standard: &pb.StandardSignal{TypeEntityId: pickID(r, s, "type"), UnitEntityId: pickID(r, s, "unit")}}
				case 1:
					x.Signal = &pb.Signal_Enum{Enum: &pb.EnumSignal{EnumEntityId: pickID(r, s, "enum")}}
				case 2:
					x.Signal = &pb.Signal_Multiplexer{Multiplexer: &pb.MultiplexerSignal{GroupCount: uint32(r.below(4)), GroupSize: uint32(r.below(9))}}
				}
				if r.chance(50) {
					switch x.Signal.(type) {
					case *pb.Signal_Standard:
						x.Kind = pb.SignalKind_SIGNAL_KIND_STANDARD
					case *pb.Signal_Enum:
						x.Kind = pb.SignalKind_SIGNAL_KIND_ENUM
					case *pb.Signal_Multiplexer:
						x.Kind = pb.SignalKind_SIGNAL_KIND_MULTIPLEXER
					}
				}
				return "signal oneof arm replaced"
			}
		case 1:
			if len(n.Attributes) > 0 {
				a := n.Attributes[r.below(len(n.Attributes))]
				switch r.below(4) {
				case 0:
					a.Attribute = &pb.Attribute_StringAttribute{StringAttribute: &pb.StringAttribute{DefValue: "x"}}
				case 1:
					a.Attribute = &pb.Attribute_IntegerAttribute{IntegerAttribute: &pb.IntegerAttribute{DefValue: int32(r.below(9) - 4), Min: int32(r.below(9) - 4), Max: int32(r.below(9) - 4)}}
				case 2:
					a.Attribute = &pb.Attribute_FloatAttribute{FloatAttribute: &pb.FloatAttribute{DefValue: floatPool[r.below(len(floatPool))], Min: floatPool[r.below(len(floatPool))], Max: floatPool[r.below(len(floatPool))]}}
				case 3:
					a.Attribute = &pb.Attribute_EnumAttribute{EnumAttribute: &pb.EnumAttribute{DefValue: "A", Values: []string{"A", "B"}[:r.below(3)]}}
				}
				return "attribute oneof arm replaced"
			}
		case 2:
			if len(s.assigns) > 0 {
				a := s.assigns[r.below(len(s.assigns))]
				switch r.below(3) {
				case 0:
					a.Value = &pb.AttributeAssignment_ValueString{ValueString: []string{"", "V1", "nope"}[r.below(3)]}
				case 1:
					a.Value = &pb.AttributeAssignment_ValueInt{ValueInt: []int32{0, -1, math.MaxInt32, math.MinInt32, 5}[r.below(5)]}
				case 2:
					a.Value = &pb.AttributeAssignment_ValueDouble{ValueDouble: []float64{0, math.NaN(), math.Inf(1), -1e308, 2.5}[r.below(5)]}
				}
				return "assignment value arm replaced"
			}
		}
		return ""
	}},
	{"retarget-id", func(r *rng, n *pb.Network, s *sites) string {
		if len(s.idFields) == 0 {
			return ""
		}
		i := r.below(len(s.idFields))
		*s.idFields[i] = pickID(r, s, s.idKinds[i])
		return "reference to a " + s.idKinds[i] + " retargeted"
	}},
	{"duplicate-element", func(r *rng, n *pb.Network, s *sites) string {
		switch r.below(11) {
		case 0:
			if len(n.Buses) > 0 {
				n.Buses = append(n.Buses, proto.Clone(n.Buses[r.below(len(n.Buses))]).(*pb.Bus))
				return "bus duplicated"
			}
		case 1:
			if len(s.ifaces) > 0 && len(s.ifLists) > 0 {
				l := s.ifLists[r.below(len(s.ifLists))]
				*l = append(*l, proto.Clone(s.ifaces[r.below(len(s.ifaces))]).(*pb.NodeInterface))
				return "node interface duplicated (same or other bus)"
			}
		case 2:
			if len(s.msgs) > 0 && len(s.msgLists) > 0 {
				l := s.msgLists[r.below(len(s.msgLists))]
				*l = append(*l, proto.Clone(s.msgs[r.below(len(s.msgs))]).(*pb.Message))
				return "message duplicated (same or other interface)"
			}
		case 3:
			if len(s.sigs) > 0 && len(s.sigLists) > 0 {
				l := s.sigLists[r.below(len(s.sigLists))]
				*l = append(*l, proto.Clone(s.sigs[r.below(len(s.sigs))]).(*pb.Signal))
				return "signal duplicated (same or other list)"
			}
		case 4:
			if len(n.SignalEnums) > 0 {
				e := n.SignalEnums[r.below(len(n.SignalEnums))]
				if len(e.Values) > 0 {
					e.Values = append(e.Values, proto.Clone(e.Values[r.below(len(e.Values))]).(*pb.SignalEnumValue))
					return "enum value duplicated"
				}
			}
		case 5:
			if len(n.Attributes) > 0 {
				n.Attributes = append(n.Attributes, proto.Clone(n.Attributes[r.below(len(n.Attributes))]).(*pb.Attribute))
				return "attribute duplicated"
			}
		case 6:
			if len(n.Nodes) > 0 {
				n.Nodes = append(n.Nodes, proto.Clone(n.Nodes[r.below(len(n.Nodes))]).(*pb.Node))
				return "node duplicated"
			}
		case 7:
			if len(s.payloads) > 0 {
				p := s.payloads[r.below(len(s.payloads))]
				if len(p.Refs) > 0 {
					c := proto.Clone(p.Refs[r.below(len(p.Refs))]).(*pb.SignalPayloadRef)
					if r.chance(50) {
						c.RelStartBit += uint32(r.below(4))
					}
					p.Refs = append(p.Refs, c)
					return "payload ref duplicated"
				}
			}
		case 8:
			if len(s.msgs) > 0 {
				m := s.msgs[r.below(len(s.msgs))]
				if len(m.Receivers) > 0 {
					c := proto.Clone(m.Receivers[r.below(len(m.Receivers))]).(*pb.MessageReceiver)
					if r.chance(50) {
						c.NodeInterfaceNumber = uint32(r.below(3))
					}
					m.Receivers = append(m.Receivers, c)
					return "receiver duplicated (maybe other interface of the node)"
				}
			}
		case 9:
			if len(s.assigns) > 0 && len(s.asLists) > 0 {
				l := s.asLists[r.below(len(s.asLists))]
				*l = append(*l, proto.Clone(s.assigns[r.below(len(s.assigns))]).(*pb.AttributeAssignment))
				return "assignment duplicated (same or other entity)"
			}
		case 10:
			if len(n.SignalTypes) > 0 {
				n.SignalTypes = append(n.SignalTypes, proto.Clone(n.SignalTypes[r.below(len(n.SignalTypes))]).(*pb.SignalType))
				return "signal type duplicated"
			}
		}
		return ""
	}},
	{"number-out-of-range", func(r *rng, n *pb.Network, s *sites) string {
		if len(s.u32) == 0 {
			return ""
		}
		i := r.below(len(s.u32))
		v := u32Pool[r.below(len(u32Pool))]
		*s.u32[i] = v
		return fmt.Sprintf("%s set to %d", s.u32Names[i], v)
	}},
	{"iface-number", func(r *rng, n *pb.Network, s *sites) string {
		if len(s.ifaces) == 0 {
			return ""
		}
		ni := s.ifaces[r.below(len(s.ifaces))]
		ni.Number = []int32{-1, 0, 1, 2, 3, 100, math.MaxInt32, math.MinInt32}[r.below(8)]
		return fmt.Sprintf("interface number set to %d", ni.Number)
	}},
	{"empty-values", func(r *rng, n *pb.Network, s *sites) string {
		cands := []*pb.EnumAttribute{}
		for _, a := range n.Attributes {
			if e := a.GetEnumAttribute(); e != nil {
				cands = append(cands, e)
			}
		}
		switch r.below(4) {
		case 0:
			if len(cands) > 0 {
				cands[r.below(len(cands))].Values = nil
				return "enum attribute values emptied"
			}
		case 1:
			if len(cands) > 0 {
				cands[r.below(len(cands))].DefValue = "not-a-value"
				return "enum attribute default not among the values"
			}
		case 2:
			if len(cands) > 0 {
				e := cands[r.below(len(cands))]
				e.Values = append(e.Values, e.DefValue, e.DefValue)
				return "enum attribute default listed several times"
			}
		case 3:
			if len(n.SignalEnums) > 0 {
				n.SignalEnums[r.below(len(n.SignalEnums))].Values = nil
				return "signal enum values emptied"
			}
		}
		return ""
	}},
	{"overlap-positions", func(r *rng, n *pb.Network, s *sites) string {
		cands := []*pb.SignalPayload{}
		for _, p := range s.payloads {
			if len(p.Refs) >= 2 {
				cands = append(cands, p)
			}
		}
		if len(cands) == 0 {
			return ""
		}
		p := cands[r.below(len(cands))]
		i, j := r.below(len(p.Refs)), r.below(len(p.Refs))
		if i == j {
			j = (i + 1) % len(p.Refs)
		}
		p.Refs[i].RelStartBit = p.Refs[j].RelStartBit + uint32(r.below(3))
		return "two payload refs made to overlap"
	}},
	{"duplicate-key", func(r *rng, n *pb.Network, s *sites) string {
		live := []int{}
		for i, e := range s.ents {
			if *e != nil {
				live = append(live, i)
			}
		}
		if len(live) < 2 {
			return ""
		}
		a, b := live[r.below(len(live))], live[r.below(len(live))]
		if a == b {
			return ""
		}
		// mostly a sibling of the same kind; in a third of the cases an entity of ANOTHER kind (ids are unique over
		// the whole network, names only among siblings)
		if r.chance(35) {
			for t := 0; t < 8 && s.entOwners[a] == s.entOwners[b]; t++ {
				b = live[r.below(len(live))]
			}
			if a != b && s.entOwners[a] != s.entOwners[b] {
				(*s.ents[a]).EntityId = (*s.ents[b]).EntityId
				return "entity id of a " + s.entOwners[a] + " set to the id of a " + s.entOwners[b] + " (another kind)"
			}
		}
		for t := 0; t < 8 && s.entOwners[a] != s.entOwners[b]; t++ {
			b = live[r.below(len(live))]
		}
		if a == b {
			return ""
		}
		if r.chance(50) {
			(*s.ents[a]).Name = (*s.ents[b]).Name
			return "name of a " + s.entOwners[a] + " set to the name of a " + s.entOwners[b]
		}
		(*s.ents[a]).EntityId = (*s.ents[b]).EntityId
		return "entity id of a " + s.entOwners[a] + " set to the id of a " + s.entOwners[b]
	}},
	{"duplicate-number-key", func(r *rng, n *pb.Network, s *sites) string {
		switch r.below(4) {
		case 0:
			if len(n.Nodes) >= 2 {
				n.Nodes[r.below(len(n.Nodes))].NodeId = n.Nodes[r.below(len(n.Nodes))].NodeId
				return "node id duplicated"
			}
		case 1:
			if len(s.msgs) >= 2 {
				a, b := s.msgs[r.below(len(s.msgs))], s.msgs[r.below(len(s.msgs))]
				a.MessageId = b.MessageId
				return "message id duplicated"
			}
		case 2:
			if len(s.msgs) >= 2 {
				a, b := s.msgs[r.below(len(s.msgs))], s.msgs[r.below(len(s.msgs))]
				a.HasStaticCanId, b.HasStaticCanId = true, true
				a.StaticCanId = b.StaticCanId
				return "static CAN-ID duplicated"
			}
		case 3:
			if len(n.SignalEnums) > 0 {
				e := n.SignalEnums[r.below(len(n.SignalEnums))]
				if len(e.Values) >= 1 && r.chance(50) {
					// a further value whose index equals the HIGHEST index of the enum (boundary of a max-index fast path)
					mx := e.Values[0]
					for _, v := range e.Values {
						if v.Index > mx.Index {
							mx = v
						}
					}
					c := proto.Clone(mx).(*pb.SignalEnumValue)
					if c.Entity != nil {
						c.Entity.EntityId = fmt.Sprintf("dupidx%d", r.below(1<<30))
						c.Entity.Name = fmt.Sprintf("DUPIDX_%d", r.below(1<<30))
					}
					if r.chance(50) {
						e.Values = append(e.Values, c)
					} else {
						e.Values = append([]*pb.SignalEnumValue{c}, e.Values...)
					}
					return "enum value added whose index equals the highest index of the enum"
				}
				if len(e.Values) >= 2 {
					e.Values[r.below(len(e.Values))].Index = e.Values[r.below(len(e.Values))].Index
					return "enum value index duplicated"
				}
			}
		}
		return ""
	}},
	{"timestamp", func(r *rng, n *pb.Network, s *sites) string {
		i := r.below(len(s.ents))
		if *s.ents[i] == nil {
			return ""
		}
		switch r.below(3) {
		case 0:
			(*s.ents[i]).CreateTime = nil
		case 1:
			(*s.ents[i]).CreateTime = &timestamppb.Timestamp{Seconds: 1, Nanos: -5}
		case 2:
			(*s.ents[i]).CreateTime = &timestamppb.Timestamp{Seconds: math.MaxInt64, Nanos: 0}
		}
		return "creation time removed / invalid"
	}},
	{"receiver", func(r *rng, n *pb.Network, s *sites) string {
		if len(s.ifaces) == 0 {
			return ""
		}
		ni := s.ifaces[r.below(len(s.ifaces))]
		if len(ni.Messages) == 0 {
			return ""
		}
		m := ni.Messages[r.below(len(ni.Messages))]
		if r.chance(50) {
			m.Receivers = append(m.Receivers, &pb.MessageReceiver{NodeEntityId: ni.NodeEntityId, NodeInterfaceNumber: uint32(ni.Number)})
			return "sender listed as receiver"
		}
		other := s.ifaces[r.below(len(s.ifaces))]
		m.Receivers = append(m.Receivers, &pb.MessageReceiver{NodeEntityId: other.NodeEntityId, NodeInterfaceNumber: 0},
			&pb.MessageReceiver{NodeEntityId: other.NodeEntityId, NodeInterfaceNumber: 1})
		return "two interfaces of one node listed as receivers"
	}},
	{"mux-groups", func(r *rng, n *pb.Network, s *sites) string {
		if len(s.muxes) == 0 {
			return ""
		}
		m := s.muxes[r.below(len(s.muxes))]
		switch r.below(6) {
		case 0:
			extra := &pb.SignalPayload{}
			if len(m.Groups) > 0 && r.chance(70) {
				extra = proto.Clone(m.Groups[r.below(len(m.Groups))]).(*pb.SignalPayload)
			}
			m.Groups = append(m.Groups, extra)
			return "group added beyond the group count"
		case 1:
			if len(m.Groups) > 0 {
				g := m.Groups[r.below(len(m.Groups))]
				if len(g.Refs) > 0 {
					i := r.below(len(g.Refs))
					g.Refs = append(g.Refs[:i:i], g.Refs[i+1:]...)
					return "ref removed from one group"
				}
			}
		case 2:
			if len(m.Signals) > 0 {
				m.FixedSignalEntityIds = append(m.FixedSignalEntityIds, m.Signals[r.below(len(m.Signals))].GetEntity().GetEntityId())
				return "grouped signal listed as fixed"
			}
		case 3:
			if len(m.FixedSignalEntityIds) > 0 {
				i := r.below(len(m.FixedSignalEntityIds))
				m.FixedSignalEntityIds = append(m.FixedSignalEntityIds[:i:i], m.FixedSignalEntityIds[i+1:]...)
				return "fixed signal no longer listed as fixed"
			}
		case 4:
			if len(m.Groups) > 0 {
				g := m.Groups[r.below(len(m.Groups))]
				if len(g.Refs) > 0 {
					g.Refs[r.below(len(g.Refs))].RelStartBit += uint32(1 + r.below(6))
					return "position of a signal changed in one group only"
				}
			}
		case 5:
			if len(m.Groups) > 1 {
				m.Groups = m.Groups[:len(m.Groups)-1]
				return "last group dropped"
			}
		}
		return ""
	}},
	{"interface-under-two-buses", func(r *rng, n *pb.Network, s *sites) string {
		// the same (node, interface number) listed again, without messages, under the same or another bus
		if len(s.ifaces) == 0 || len(s.ifLists) == 0 {
			return ""
		}
		src := s.ifaces[r.below(len(s.ifaces))]
		l := s.ifLists[r.below(len(s.ifLists))]
		*l = append(*l, &pb.NodeInterface{Number: src.Number, NodeEntityId: src.NodeEntityId})
		return "interface listed a second time (no messages), same or other bus"
	}},
	{"second-interface-of-node-on-bus", func(r *rng, n *pb.Network, s *sites) string {
		// a bus lists a SECOND, different interface of a node it already holds an interface of
		// (Bus.AddNodeInterface refuses it: node names and ids are unique within a bus)
		counts := map[string]uint32{}
		for _, nd := range n.Nodes {
			if nd.Entity != nil {
				counts[nd.Entity.EntityId] = nd.InterfaceCount
			}
		}
		for t := 0; t < 20 && len(n.Buses) > 0; t++ {
			b := n.Buses[r.below(len(n.Buses))]
			if len(b.NodeInterfaces) == 0 {
				continue
			}
			src := b.NodeInterfaces[r.below(len(b.NodeInterfaces))]
			cnt := counts[src.NodeEntityId]
			if cnt < 2 && !r.chance(20) {
				continue
			}
			span := int32(max(cnt, 2))
			num := (src.Number + 1 + int32(r.below(int(span)-1))) % span
			if num == src.Number {
				num = src.Number + 1
			}
			b.NodeInterfaces = append(b.NodeInterfaces, &pb.NodeInterface{Number: num, NodeEntityId: src.NodeEntityId})
			return fmt.Sprintf("bus lists interface %d of a node whose interface %d it already holds", num, src.Number)
		}
		return ""
	}},
	{"deep-name-clash", func(r *rng, n *pb.Network, s *sites) string {
		// inside ONE top-level multiplexer: a signal held by an inner multiplexer takes the name of a signal
		// held by an enclosing multiplexer, of the top-level multiplexer itself, or of a sibling inner multiplexer
		type node struct {
			sig   *pb.Signal
			depth int
			path  []*pb.Signal // enclosing multiplexers, outermost first
		}
		var tops []*pb.Signal
		for _, m := range s.msgs {
			for _, x := range m.Signals {
				if mx := x.GetMultiplexer(); mx != nil {
					for _, c := range mx.Signals {
						if c.GetMultiplexer() != nil && len(c.GetMultiplexer().Signals) > 0 {
							tops = append(tops, x)
							break
						}
					}
				}
			}
		}
		if len(tops) == 0 {
			return ""
		}
		top := tops[r.below(len(tops))]
		var all []node
		var walk func(x *pb.Signal, depth int, path []*pb.Signal)
		walk = func(x *pb.Signal, depth int, path []*pb.Signal) {
			all = append(all, node{x, depth, path})
			if mx := x.GetMultiplexer(); mx != nil {
				for _, c := range mx.Signals {
					walk(c, depth+1, append(append([]*pb.Signal(nil), path...), x))
				}
			}
		}
		walk(top, 0, nil)
		for t := 0; t < 40; t++ {
			a, b := all[r.below(len(all))], all[r.below(len(all))]
			if a.depth < 2 || a.sig == b.sig || a.sig.Entity == nil || b.sig.Entity == nil || b.depth >= a.depth && b.depth != a.depth {
				continue
			}
			if a.sig.Entity.EntityId == b.sig.Entity.EntityId || a.sig.Entity.Name == b.sig.Entity.Name {
				continue
			}
			// same depth only when held by different inner multiplexers (siblings)
			if b.depth == a.depth && len(a.path) > 0 && len(b.path) > 0 && a.path[len(a.path)-1] == b.path[len(b.path)-1] {
				continue
			}
			a.sig.Entity.Name = b.sig.Entity.Name
			return fmt.Sprintf("signal at depth %d of a multiplexer tree renamed to the name of a signal at depth %d of the same tree", a.depth, b.depth)
		}
		return ""
	}},
	{"size-fields", func(r *rng, n *pb.Network, s *sites) string {
		// huge size / count fields, alone and jointly (message size with the size of a type used in it, group
		// size with group count, interface count): whatever the loader allocates from them before it checks them
		big := []uint32{9, 64, 65, 1 << 16, 1<<16 + 1, 1 << 24, 1 << 29, 1<<31 - 1, 1 << 31, math.MaxUint32}
		pick := func() uint32 { return big[r.below(len(big))] }
		done := []string{}
		k := 1 + r.below(3)
		for t := 0; t < 12 && len(done) < k; t++ {
			switch r.below(7) {
			case 0:
				if len(s.msgs) > 0 {
					m := s.msgs[r.below(len(s.msgs))]
					m.SizeByte = pick()
					done = append(done, fmt.Sprintf("size_byte=%d", m.SizeByte))
					// ... and the type of one of its standard signals
					if r.chance(70) {
						for _, x := range m.Signals {
							if st := x.GetStandard(); st != nil {
								for _, ty := range n.SignalTypes {
									if ty.GetEntity().GetEntityId() == st.TypeEntityId {
										ty.Size = pick()
										done = append(done, fmt.Sprintf("type.size=%d (used in that message)", ty.Size))
									}
								}
								break
							}
						}
					}
				}
			case 1:
				if len(n.SignalTypes) > 0 {
					ty := n.SignalTypes[r.below(len(n.SignalTypes))]
					ty.Size = pick()
					done = append(done, fmt.Sprintf("type.size=%d", ty.Size))
				}
			case 2:
				if len(n.SignalEnums) > 0 {
					e := n.SignalEnums[r.below(len(n.SignalEnums))]
					e.MinSize = pick()
					done = append(done, fmt.Sprintf("enum.min_size=%d", e.MinSize))
				}
			case 3:
				if len(s.muxes) > 0 {
					m := s.muxes[r.below(len(s.muxes))]
					m.GroupSize = pick()
					done = append(done, fmt.Sprintf("group_size=%d", m.GroupSize))
				}
			case 4:
				if len(s.muxes) > 0 {
					m := s.muxes[r.below(len(s.muxes))]
					m.GroupCount = pick()
					done = append(done, fmt.Sprintf("group_count=%d", m.GroupCount))
				}
			case 5:
				if len(n.Nodes) > 0 {
					nd := n.Nodes[r.below(len(n.Nodes))]
					nd.InterfaceCount = pick()
					done = append(done, fmt.Sprintf("interface_count=%d", nd.InterfaceCount))
				}
			case 6:
				if len(s.payloads) > 0 {
					p := s.payloads[r.below(len(s.payloads))]
					if len(p.Refs) > 0 {
						p.Refs[r.below(len(p.Refs))].RelStartBit = pick()
						done = append(done, "rel_start_bit huge")
					}
				}
			}
		}
		if len(done) == 0 {
			return ""
		}
		return strings.Join(done, ", ")
	}},
	{"cross-mux-ref", func(r *rng, n *pb.Network, s *sites) string {
		// a group ref of one multiplexer names a signal held by ANOTHER multiplexer of the file
		// (sibling, other message, enclosing or nested), or such a signal is listed again in its signals
		if len(s.muxes) < 2 {
			return ""
		}
		for t := 0; t < 20; t++ {
			a, b := s.muxes[r.below(len(s.muxes))], s.muxes[r.below(len(s.muxes))]
			if a == b || len(a.Signals) == 0 {
				continue
			}
			src := a.Signals[r.below(len(a.Signals))]
			if src.Entity == nil {
				continue
			}
			if r.chance(70) {
				var refs []*pb.SignalPayloadRef
				for _, g := range b.Groups {
					refs = append(refs, g.Refs...)
				}
				if len(refs) == 0 {
					if len(b.Groups) == 0 {
						continue
					}
					b.Groups[0].Refs = append(b.Groups[0].Refs, &pb.SignalPayloadRef{SignalEntityId: src.Entity.EntityId, RelStartBit: 0})
					return "group ref added that names a signal of another multiplexer"
				}
				refs[r.below(len(refs))].SignalEntityId = src.Entity.EntityId
				return "group ref retargeted to a signal of another multiplexer"
			}
			b.Signals = append(b.Signals, proto.Clone(src).(*pb.Signal))
			if len(b.Groups) > 0 && r.chance(50) {
				b.Groups[0].Refs = append(b.Groups[0].Refs, &pb.SignalPayloadRef{SignalEntityId: src.Entity.EntityId, RelStartBit: uint32(r.below(8))})
			}
			return "signal of another multiplexer listed again (same entity id) in this multiplexer"
		}
		return ""
	}},
	{"overlap-in-shared-group", func(r *rng, n *pb.Network, s *sites) string {
		// a signal held by one group is referenced from a further group where it overlaps a signal of that group
		// (start bits at most 2 apart): the loader must run the per-group overlap check also for a signal that
		// another group already holds
		for t := 0; t < 30 && len(s.muxes) > 0; t++ {
			m := s.muxes[r.below(len(s.muxes))]
			if len(m.Groups) < 2 {
				continue
			}
			fixed := map[string]bool{}
			for _, id := range m.FixedSignalEntityIds {
				fixed[id] = true
			}
			gi := r.below(len(m.Groups))
			g := m.Groups[gi]
			in := map[string]bool{}
			for _, x := range g.Refs {
				in[x.SignalEntityId] = true
			}
			var cands []*pb.SignalPayloadRef
			for gj, h := range m.Groups {
				if gj == gi {
					continue
				}
				for _, y := range h.Refs {
					if fixed[y.SignalEntityId] || in[y.SignalEntityId] {
						continue
					}
					for _, x := range g.Refs {
						if d := int(y.RelStartBit) - int(x.RelStartBit); d >= -2 && d <= 2 {
							cands = append(cands, y)
							break
						}
					}
				}
			}
			if len(cands) == 0 {
				continue
			}
			y := cands[r.below(len(cands))]
			g.Refs = append(g.Refs, &pb.SignalPayloadRef{SignalEntityId: y.SignalEntityId, RelStartBit: y.RelStartBit})
			return "signal of another group referenced from a further group where it overlaps a signal of that group"
		}
		return ""
	}},
	{"group-count-boundary", func(r *rng, n *pb.Network, s *sites) string {
		// the groups list has exactly group_count + 1 (or - 1) entries; the extra one holds a non-fixed signal
		if len(s.muxes) == 0 {
			return ""
		}
		m := s.muxes[r.below(len(s.muxes))]
		fixed := map[string]bool{}
		for _, f := range m.FixedSignalEntityIds {
			fixed[f] = true
		}
		var src *pb.SignalPayload
		for _, g := range m.Groups {
			for _, ref := range g.Refs {
				if !fixed[ref.SignalEntityId] {
					src = g
				}
			}
		}
		switch r.below(4) {
		case 0, 1:
			if src == nil {
				return ""
			}
			if m.GroupCount > 64 {
				m.GroupCount = uint32(len(m.Groups)) // keep the boundary case small: the point is the exact count
			}
			for uint32(len(m.Groups)) <= m.GroupCount && len(m.Groups) < 80 {
				m.Groups = append(m.Groups, proto.Clone(src).(*pb.SignalPayload))
			}
			return "groups list has group_count + 1 entries, the last one holding a non-fixed signal"
		case 2:
			if m.GroupCount >= 1 && uint32(len(m.Groups)) == m.GroupCount && src != nil {
				m.GroupCount--
				return "group_count lowered by one (one group too many)"
			}
		case 3:
			m.GroupCount++
			return "group_count raised by one (one group missing)"
		}
		return ""
	}},
	{"nested-name-clash", func(r *rng, n *pb.Network, s *sites) string {
		// a multiplexed signal takes the name of a signal at another level of the same message
		cands := []*pb.Message{}
		for _, m := range s.msgs {
			for _, x := range m.Signals {
				if x.GetMultiplexer() != nil && len(x.GetMultiplexer().Signals) > 0 {
					cands = append(cands, m)
					break
				}
			}
		}
		if len(cands) == 0 {
			return ""
		}
		m := cands[r.below(len(cands))]
		type lv struct {
			sig   *pb.Signal
			level int
			top   int
		}
		all := []lv{}
		var walk func(x *pb.Signal, level, top int)
		walk = func(x *pb.Signal, level, top int) {
			all = append(all, lv{x, level, top})
			if mx := x.GetMultiplexer(); mx != nil {
				for _, c := range mx.Signals {
					walk(c, level+1, top)
				}
			}
		}
		for i, x := range m.Signals {
			walk(x, 0, i)
		}
		for t := 0; t < 20; t++ {
			a, b := all[r.below(len(all))], all[r.below(len(all))]
			if a.level == 0 || a.sig == b.sig || a.level == b.level && a.top == b.top || a.sig.Entity == nil || b.sig.Entity == nil {
				continue
			}
			if a.sig.Entity.EntityId == b.sig.Entity.EntityId {
				continue
			}
			a.sig.Entity.Name = b.sig.Entity.Name
			return fmt.Sprintf("multiplexed signal at depth %d renamed to the name of a signal at depth %d of the same message", a.level, b.level)
		}
		return ""
	}},
	{"drop-or-add-ref", func(r *rng, n *pb.Network, s *sites) string {
		if len(s.payloads) == 0 {
			return ""
		}
		p := s.payloads[r.below(len(s.payloads))]
		if r.chance(50) && len(p.Refs) > 0 {
			i := r.below(len(p.Refs))
			p.Refs = append(p.Refs[:i:i], p.Refs[i+1:]...)
			return "payload ref dropped"
		}
		p.Refs = append(p.Refs, &pb.SignalPayloadRef{SignalEntityId: pickID(r, s, "sig"), RelStartBit: uint32(r.below(64))})
		return "payload ref added"
	}},
	{"static-flag", func(r *rng, n *pb.Network, s *sites) string {
		if len(s.msgs) == 0 {
			return ""
		}
		m := s.msgs[r.below(len(s.msgs))]
		m.HasStaticCanId = !m.HasStaticCanId
		return "has_static_can_id flipped"
	}},
	{"enum-numbers", func(r *rng, n *pb.Network, s *sites) string {
		switch r.below(6) {
		case 0:
			if len(s.msgs) > 0 {
				m := s.msgs[r.below(len(s.msgs))]
				m.Priority = pb.MessagePriority(r.below(9) - 2)
				m.ByteOrder = pb.MessageByteOrder(r.below(5))
				m.SendType = pb.MessageSendType(r.below(8))
				return "message enum fields set to undefined numbers"
			}
		case 1:
			if len(s.sigs) > 0 {
				s.sigs[r.below(len(s.sigs))].SendType = pb.SignalSendType(r.below(12))
				return "signal send type set to an undefined number"
			}
		case 2:
			if len(n.Buses) > 0 {
				n.Buses[r.below(len(n.Buses))].Type = pb.BusType(r.below(5))
				return "bus type set to an undefined number"
			}
		case 3:
			if len(n.SignalTypes) > 0 {
				n.SignalTypes[r.below(len(n.SignalTypes))].Kind = pb.SignalTypeKind(r.below(8))
				return "signal type kind set to an undefined number"
			}
		case 4:
			// the kind of a CAN-ID builder operation: unspecified (0), every defined number, undefined ones
			var ops []*pb.CANIDBuilderOp
			for _, cb := range n.CanidBuilders {
				ops = append(ops, cb.Operations...)
			}
			if len(ops) > 0 {
				op := ops[r.below(len(ops))]
				op.Kind = pb.CANIDBuilderOpKind([]int32{0, 0, 1, 2, 3, 4, 5, 7, 100, -1}[r.below(10)])
				return fmt.Sprintf("CAN-ID builder operation kind set to %d", op.Kind)
			}
		case 5:
			if len(n.SignalUnits) > 0 {
				u := n.SignalUnits[r.below(len(n.SignalUnits))]
				u.Kind = pb.SignalUnitKind([]int32{0, 1, 2, 3, 4, 5, 9, -1}[r.below(8)])
				return fmt.Sprintf("signal unit kind set to %d", u.Kind)
			}
		}
		return ""
	}},
	{"attribute-bounds", func(r *rng, n *pb.Network, s *sites) string {
		for t := 0; t < 6 && len(n.Attributes) > 0; t++ {
			a := n.Attributes[r.below(len(n.Attributes))]
			if ia := a.GetIntegerAttribute(); ia != nil {
				switch r.below(3) {
				case 0:
					ia.Min, ia.Max = ia.Max+1, ia.Min-1
				case 1:
					ia.DefValue = ia.Max + 1
				case 2:
					ia.DefValue = ia.Min - 1
				}
				return "integer attribute bounds made inconsistent"
			}
			if fa := a.GetFloatAttribute(); fa != nil {
				switch r.below(4) {
				case 0:
					fa.Min, fa.Max = fa.Max+1, fa.Min-1
				case 1:
					fa.DefValue = math.NaN()
				case 2:
					fa.Min = math.NaN()
				case 3:
					fa.DefValue = fa.Max + 1
				}
				return "float attribute bounds made inconsistent"
			}
		}
		return ""
	}},
}

// ------------------------------------------------------------------------------------------
// byte / character level mutations
// ------------------------------------------------------------------------------------------

func mutateBytes(r *rng, data []byte, textual bool) ([]byte, string) {
	d := append([]byte(nil), data...)
	if len(d) == 0 {
		return []byte{byte(r.next())}, "one random byte"
	}
	structural := []byte("{}[]\":,<> \n0123456789-.eE+truefalsnu")
	switch r.below(8) {
	case 0:
		n := 1 + r.below(4)
		for i := 0; i < n; i++ {
			p := r.below(len(d))
			if textual {
				d[p] = structural[r.below(len(structural))]
			} else {
				d[p] ^= 1 << uint(r.below(8))
			}
		}
		return d, fmt.Sprintf("%d byte(s) altered", n)
	case 1:
		return d[:r.below(len(d))], "truncated"
	case 2:
		a := r.below(len(d))
		b := a + r.below(len(d)-a)
		return append(d[:a:a], d[b:]...), "range deleted"
	case 3:
		a := r.below(len(d))
		ins := make([]byte, 1+r.below(8))
		for i := range ins {
			if textual {
				ins[i] = structural[r.below(len(structural))]
			} else {
				ins[i] = byte(r.next())
			}
		}
		return append(d[:a:a], append(ins, d[a:]...)...), "bytes inserted"
	case 4:
		a := r.below(len(d))
		b := a + r.below(min(len(d)-a, 200))
		return append(d[:b:b], append(append([]byte(nil), d[a:b]...), d[b:]...)...), "range duplicated"
	case 5:
		p := r.below(len(d))
		d[p] = byte(r.next())
		return d, "one byte randomised"
	case 6:
		if textual {
			lines := bytes.Split(d, []byte("\n"))
			i := r.below(len(lines))
			lines = append(lines[:i:i], lines[i+1:]...)
			return bytes.Join(lines, []byte("\n")), "one line deleted"
		}
		p := r.below(len(d))
		d[p] = 0xff
		return d, "byte set to 0xff (varint continuation)"
	default:
		if textual {
			lines := bytes.Split(d, []byte("\n"))
			i, j := r.below(len(lines)), r.below(len(lines))
			lines[i], lines[j] = lines[j], lines[i]
			return bytes.Join(lines, []byte("\n")), "two lines swapped"
		}
		a := r.below(len(d))
		b := a + r.below(min(len(d)-a, 16))
		for i := a; i < b; i++ {
			d[i] = 0
		}
		return d, "range zeroed"
	}
}

// ------------------------------------------------------------------------------------------
// invariants of a loaded network (shared evaluators + id uniqueness)
// ------------------------------------------------------------------------------------------

func invariants(n *acmelib.Network) (out []string, panicked string) {
	defer func() {
		if r := recover(); r != nil {
			panicked = fmt.Sprint(r) + " at " + panicSite()
		}
	}()
	for _, b := range vinv.CheckNetwork(n) {
		// the receiver relation is evaluated below, witness by witness (the shared evaluator names the class only)
		if c := clause(b); c == "c05-message-receiver-link" || c == "c05-receiver-link" {
			continue
		}
		out = append(out, b)
	}
	_, col := dumpNet(n)
	for _, m := range col.msgs {
		out = append(out, vinv.CheckMessageLayout(m)...)
		out = append(out, vinv.CheckMessageRegistry(m)...)
		// local equivalent (until the shared registry check covers it): names unique at every depth
		names := map[string]acmelib.EntityID{}
		var walk func(s acmelib.Signal)
		seen := map[acmelib.EntityID]bool{}
		walk = func(s acmelib.Signal) {
			if seen[s.EntityID()] {
				return
			}
			seen[s.EntityID()] = true
			if other, ok := names[s.Name()]; ok && other != s.EntityID() {
				out = append(out, fmt.Sprintf("c04-signal-names-unique: message %q holds two signals named %q", m.Name(), s.Name()))
			}
			names[s.Name()] = s.EntityID()
			if got, err := m.GetSignalByName(s.Name()); err != nil || got.EntityID() != s.EntityID() {
				out = append(out, fmt.Sprintf("c04-signal-name-lookup: message %q: GetSignalByName(%q) does not return the signal of that name", m.Name(), s.Name()))
			}
			if s.ParentMessage() != m {
				out = append(out, fmt.Sprintf("c05-signal-message-link: signal %q inside message %q reports another parent message", s.Name(), m.Name()))
			}
			if ms, err := s.ToMultiplexer(); err == nil && s.Kind() == acmelib.SignalKindMultiplexer {
				// every group of every multiplexer: sorted, pairwise disjoint, inside the group size (C07)
				for _, b := range vinv.CheckMultiplexer(ms) {
					out = append(out, "c07-mux-"+b)
				}
				for _, g := range ms.GetSignalGroups() {
					for _, c := range g {
						if c.ParentMultiplexerSignal() != ms {
							out = append(out, fmt.Sprintf("c05-signal-mux-link: signal %q in a group of %q reports another parent multiplexer", c.Name(), ms.Name()))
						}
						walk(c)
					}
				}
			}
		}
		for _, s := range m.Signals() {
			walk(s)
		}
	}
	for _, e := range col.enums {
		out = append(out, vinv.CheckEnum(e)...)
	}
	// entity ids are unique over everything reachable
	ids := map[acmelib.EntityID]string{}
	add := func(id acmelib.EntityID, what string) {
		if prev, ok := ids[id]; ok {
			out = append(out, fmt.Sprintf("c04-entity-ids-unique: %s and %s share the entity id %q", prev, what, id))
		}
		ids[id] = what
	}
	add(n.EntityID(), "network")
	for _, b := range n.Buses() {
		add(b.EntityID(), "bus")
	}
	for _, x := range col.nodes {
		add(x.EntityID(), "node")
	}
	for _, x := range col.msgs {
		add(x.EntityID(), "message")
	}
	for _, x := range col.sigs {
		add(x.EntityID(), "signal")
	}
	for _, x := range col.types {
		add(x.EntityID(), "type")
	}
	for _, x := range col.units {
		add(x.EntityID(), "unit")
	}
	for _, x := range col.enums {
		add(x.EntityID(), "enum")
		for _, v := range x.Values() {
			add(v.EntityID(), "enum value")
		}
	}
	for _, x := range col.attrs {
		add(x.EntityID(), "attribute")
	}
	for _, x := range col.builders {
		add(x.EntityID(), "builder")
	}
	// a message is sent by the interface that lists it, an interface sits on the bus that lists it
	for _, b := range n.Buses() {
		for _, ni := range b.NodeInterfaces() {
			for _, m := range ni.SentMessages() {
				if m.SenderNodeInterface() != ni {
					out = append(out, "c05-message-sender-link: a listed message reports another sender interface")
				}
				for _, rc := range m.Receivers() {
					if rc == ni {
						out = append(out, "c05-receiver-is-sender: an interface receives a message it sends")
					}
				}
			}
		}
	}
	// interface <-> bus, for EVERY interface of every node met (not only those a bus lists)
	for _, nd := range col.nodes {
		for _, ni := range nd.Interfaces() {
			pb := ni.ParentBus()
			if pb == nil {
				continue
			}
			listed := false
			for _, x := range pb.NodeInterfaces() {
				if x == ni {
					listed = true
				}
			}
			if !listed {
				out = append(out, fmt.Sprintf("c05-iface-bus-link-not-listed: interface %q/%d reports bus %q as parent, the bus does not list it", nd.Name(), ni.Number(), pb.Name()))
			}
		}
	}
	// the receiver relation and its converse, over every message and every interface of every node met.
	// Recorded finding D22 (receivers keyed by node): interface A of a node is replaced in Receivers() by a second
	// interface B of the SAME node while A keeps listing the message as received.  Only that witness carries the
	// recorded clause; any other broken link has its own clause.
	for _, m := range col.msgs {
		for _, rc := range m.Receivers() {
			found := false
			for _, rm := range rc.ReceivedMessages() {
				if rm == m {
					found = true
				}
			}
			if !found {
				out = append(out, fmt.Sprintf("c05-receiver-not-registered: message %q lists receiver %q/%d which does not list it as received", m.Name(), rc.Node().Name(), rc.Number()))
			}
		}
	}
	for _, nd := range col.nodes {
		for _, ni := range nd.Interfaces() {
			for _, rm := range ni.ReceivedMessages() {
				found, sameNodeOther := false, false
				for _, rc := range rm.Receivers() {
					if rc == ni {
						found = true
					} else if rc.Node() == nd {
						sameNodeOther = true
					}
				}
				if found {
					continue
				}
				if sameNodeOther {
					out = append(out, fmt.Sprintf("c05-received-but-replaced-by-second-interface-of-same-node: interface %q/%d lists message %q as received, the message lists another interface of that node instead", nd.Name(), ni.Number(), rm.Name()))
				} else {
					out = append(out, fmt.Sprintf("c05-received-message-does-not-list-receiver: interface %q/%d lists message %q as received, the message lists no interface of that node", nd.Name(), ni.Number(), rm.Name()))
				}
			}
		}
	}
	return out, ""
}

// exercise uses a loaded network the way a caller would, under recover: CAN-ID of every message, operations and
// result of every CAN-ID builder, decoding of two payloads, DBC export of every bus, String, SaveNetwork in the
// three encodings.  Returns (site, description) of the first panic or save error, ("", "") otherwise.
func exercise(n *acmelib.Network) (site, what string) {
	step := "start"
	defer func() {
		if r := recover(); r != nil {
			site = step + ":" + panicSite() + ":" + panicClass(r)
			what = fmt.Sprintf("%s panics: %v in %s", step, r, panicSite())
		}
	}()
	payloads := [][]byte{{0, 0, 0, 0, 0, 0, 0, 0}, {0xff, 0xa5, 0x5a, 0x0f, 0xf0, 0x33, 0xcc, 0x81}}
	for _, b := range n.Buses() {
		step = "Bus.CANIDBuilder"
		if cb := b.CANIDBuilder(); cb != nil {
			step = "CANIDBuilder.Operations"
			for _, op := range cb.Operations() {
				_ = op.Kind()
				_ = op.From()
				_ = op.Len()
			}
			step = "CANIDBuilder.Calculate"
			_ = cb.Calculate(acmelib.MessagePriorityLow, 1, 1)
			step = "CANIDBuilder.String"
			_ = cb.String()
		}
		for _, ni := range b.NodeInterfaces() {
			for _, m := range ni.SentMessages() {
				step = "Message.GetCANID"
				_ = m.GetCANID()
				step = "SignalLayout.Decode"
				for _, data := range payloads {
					_ = m.SignalLayout().Decode(data)
				}
			}
		}
		step = "ExportBus"
		var buf bytes.Buffer
		acmelib.ExportBus(&buf, b)
	}
	step = "Network.String"
	_ = n.String()
	step = "SaveNetwork"
	var w, j, t bytes.Buffer
	if err := acmelib.SaveNetwork(n, acmelib.SaveEncodingWire|acmelib.SaveEncodingJSON|acmelib.SaveEncodingText, &w, &j, &t); err != nil {
		return "SaveNetwork:error", "SaveNetwork of the loaded network fails: " + err.Error()
	}
	return "", ""
}

func safeLoadedRecord(n *acmelib.Network) (rec string, panicked string) {
	defer func() {
		if r := recover(); r != nil {
			panicked = fmt.Sprint(r)
		}
	}()
	gotSX, gcol := dumpLoadedNet(n)
	return gotSX.String() + " " + dumpReceived(gcol).String(), ""
}

func panicClass(r any) string {
	msg := fmt.Sprint(r)
	switch {
	case strings.Contains(msg, "nil pointer"):
		return "nil-pointer"
	case strings.Contains(msg, "index out of range"), strings.Contains(msg, "slice bounds"):
		return "index-out-of-range"
	}
	return "other"
}

func clause(s string) string {
	if i := strings.Index(s, ":"); i > 0 {
		return s[:i]
	}
	return s
}

// ------------------------------------------------------------------------------------------
// isolation of inputs with huge size / count fields
// ------------------------------------------------------------------------------------------

// maxSizeField is the largest size or count field of a tree: what the loader may allocate from.
func maxSizeField(n *pb.Network) uint32 {
	mx := maxCounts(n)
	up := func(v uint32) {
		if v > mx {
			mx = v
		}
	}
	for _, t := range n.SignalTypes {
		up(t.Size)
	}
	for _, e := range n.SignalEnums {
		up(e.MinSize)
	}
	var walk func(s *pb.Signal)
	walk = func(s *pb.Signal) {
		if m := s.GetMultiplexer(); m != nil {
			up(m.GroupSize)
			up(uint32(len(m.Groups)))
			for _, c := range m.Signals {
				walk(c)
			}
		}
	}
	for _, b := range n.Buses {
		for _, ni := range b.NodeInterfaces {
			for _, m := range ni.Messages {
				up(m.SizeByte)
				for _, sg := range m.Signals {
					walk(sg)
				}
			}
		}
	}
	return mx
}

// hugeFieldsKey names the kinds of size / count fields above 2^16 in a tree.
func hugeFieldsKey(n *pb.Network) string {
	set := map[string]bool{}
	mark := func(name string, v uint32) {
		if v > 1<<16 {
			set[name] = true
		}
	}
	for _, nd := range n.Nodes {
		mark("interface_count", nd.InterfaceCount)
	}
	for _, t := range n.SignalTypes {
		mark("type.size", t.Size)
	}
	for _, e := range n.SignalEnums {
		mark("min_size", e.MinSize)
	}
	var walk func(s *pb.Signal)
	walk = func(s *pb.Signal) {
		if m := s.GetMultiplexer(); m != nil {
			mark("group_size", m.GroupSize)
			mark("group_count", m.GroupCount)
			mark("groups", uint32(len(m.Groups)))
			for _, c := range m.Signals {
				walk(c)
			}
		}
	}
	for _, b := range n.Buses {
		for _, ni := range b.NodeInterfaces {
			for _, m := range ni.Messages {
				mark("size_byte", m.SizeByte)
				for _, sg := range m.Signals {
					walk(sg)
				}
			}
		}
	}
	keys := []string{}
	for k := range set {
		keys = append(keys, k)
	}
	sort.Strings(keys)
	return strings.Join(keys, "+")
}

// isolatedOutcome is what a one-shot child (mode c13one) reported, or how it died.
type isolatedOutcome struct {
	class string // "error", "ok", "panic", "hang", "fatal"
	site  string
	msg   string
}

func runIsolated(dir string, in c13Input, watchdog time.Duration) isolatedOutcome {
	tmp := dir + ".one"
	if err := os.WriteFile(tmp, in.data, 0o600); err != nil {
		return isolatedOutcome{class: "fatal", site: "harness", msg: err.Error()}
	}
	defer os.Remove(tmp)
	ctx, cancel := context.WithTimeout(context.Background(), watchdog+15*time.Second)
	defer cancel()
	cmd := exec.CommandContext(ctx, os.Args[0], "c13one", encNames[in.enc], tmp)
	cmd.Env = append(os.Environ(), "VERIF_WATCHDOG_S="+fmt.Sprint(int(watchdog/time.Second)))
	outb, err := cmd.CombinedOutput()
	text := string(outb)
	for _, line := range strings.Split(text, "\n") {
		if strings.HasPrefix(line, "OUTCOME ") {
			f := strings.SplitN(line, " ", 4)
			o := isolatedOutcome{class: f[1]}
			if len(f) > 2 {
				o.site = f[2]
			}
			if len(f) > 3 {
				o.msg = f[3]
			}
			return o
		}
	}
	// no outcome line: the child died
	o := isolatedOutcome{class: "fatal", site: "unknown", msg: "exit: " + fmt.Sprint(err)}
	if ctx.Err() != nil {
		o.msg = "killed after " + fmt.Sprint(watchdog+15*time.Second)
		o.class = "hang"
	}
	for _, line := range strings.Split(text, "\n") {
		if strings.HasPrefix(line, "fatal error: ") || strings.HasPrefix(line, "runtime: out of memory") {
			o.msg = line
			break
		}
	}
	// the acmelib function the loader called when the process died: the frame just below the first loader frame
	frames := []string{}
	for _, line := range strings.Split(text, "\n") {
		if i := strings.Index(line, "squadracorsepolito/acmelib."); i >= 0 && !strings.Contains(line, "/proto/") && !strings.HasPrefix(line, "\t") {
			fn := line[i+len("squadracorsepolito/acmelib."):]
			if j := strings.LastIndex(fn, "("); j > 0 {
				fn = fn[:j]
			}
			frames = append(frames, fn)
		}
	}
	for i, fn := range frames {
		if strings.HasPrefix(fn, "(*loader).") {
			if i > 0 {
				o.site = frames[i-1]
			} else {
				o.site = fn
			}
			break
		}
	}
	return o
}

// runC13One is the one-shot child: load one input, print the outcome class.  It lowers its own
// address-space limit to 1.5 GiB: whatever needs more for a few kilobytes of input is reported.
func runC13One(encName, path string) {
	lim := syscall.Rlimit{Cur: 1536 << 20, Max: 1536 << 20}
	var cur syscall.Rlimit
	if syscall.Getrlimit(syscall.RLIMIT_AS, &cur) == nil && (cur.Cur == ^uint64(0) || cur.Cur > lim.Cur) {
		lim.Max = cur.Max
		syscall.Setrlimit(syscall.RLIMIT_AS, &lim)
	}
	data, err := os.ReadFile(path)
	if err != nil {
		fmt.Println("OUTCOME fatal harness", err)
		return
	}
	var enc acmelib.SaveEncoding
	for e, nme := range encNames {
		if nme == encName {
			enc = e
		}
	}
	o := guardedLoad(data, enc, time.Duration(envInt("VERIF_WATCHDOG_S", 20))*time.Second)
	switch {
	case o.panicV != nil:
		fmt.Printf("OUTCOME panic %s %v\n", o.stack, o.panicV)
	case o.hang:
		fmt.Println("OUTCOME hang - -")
	case o.err != nil:
		fmt.Printf("OUTCOME error %s -\n", errClass(o.err))
	default:
		fmt.Println("OUTCOME ok - -")
	}
}

// ------------------------------------------------------------------------------------------
// runner
// ------------------------------------------------------------------------------------------

type c13Input struct {
	id    string
	enc   acmelib.SaveEncoding
	data  []byte
	descr string
}

func runC13(seed uint64, ncases int, outPath string, replay string) {
	f, err := os.Create(outPath)
	if err != nil {
		panic(err)
	}
	defer f.Close()
	out := bufio.NewWriterSize(f, 1<<20)
	defer out.Flush()
	progress, _ := os.Create(outPath + ".progress")
	defer progress.Close()
	st := &c12Stats{hist: map[string]int{}, fails: map[string]string{}, failSize: map[string]int{}, failReplay: map[string]string{}}
	seen := map[uint64]bool{}
	master := &rng{s: seed ^ 0xC13C13}

	skipUntil := os.Getenv("VERIF_SKIP_UNTIL") // "<case id> <encoding>": resume after the input that killed the previous child
	skipping := skipUntil != ""
	budget := time.Duration(envInt("VERIF_BUDGET_S", 100000)) * time.Second
	watchdog := time.Duration(envInt("VERIF_WATCHDOG_S", 20)) * time.Second
	started := time.Now()
	overBudget := func() bool {
		if time.Since(started) > budget {
			st.hist["budget-exhausted"] = 1
			return true
		}
		return false
	}
	fatalByFields := map[string]int{}
	evaluate := func(in c13Input) {
		eid := encNames[in.enc]
		if skipping {
			if in.id+" "+eid == skipUntil {
				skipping = false
			}
			st.hist["skipped-before-resume"]++
			return
		}
		if overBudget() {
			return
		}
		st.evaluations++
		out.Flush()
		if st.evaluations%200 == 0 {
			writeSummary(outPath+".partial", st)
		}
		hsh := fnv.New64a()
		hsh.Write([]byte(eid))
		hsh.Write(in.data)
		key := hsh.Sum64()
		fresh := !seen[key]
		seen[key] = true
		// the input is logged before the call: a process death is attributed to it (one line, overwritten)
		progress.Seek(0, 0)
		progress.Truncate(0)
		fmt.Fprintf(progress, "%s %s %s %s\n", in.id, eid, hex.EncodeToString(in.data), strings.ReplaceAll(in.descr, "\n", " "))
		replayObj := fmt.Sprintf("%s %s", eid, hex.EncodeToString(in.data))
		tree, uerr := unmarshalAs(in.data, in.enc)
		size := len(in.data)
		if uerr == nil && maxSizeField(tree) > 1<<16 {
			// whatever the loader allocates from a huge size / count field happens in a one-shot child
			// (memory limit inherited): a fatal error there is an outcome, not the end of the run
			hk := hugeFieldsKey(tree)
			if fatalByFields[hk] >= 2 {
				st.hist["isolated-skipped-same-huge-fields-already-fatal-twice"]++
				return
			}
			st.hist["isolated-huge-size-field"]++
			iso := runIsolated(outPath, in, watchdog)
			if iso.class == "fatal" || iso.class == "hang" {
				fatalByFields[hk]++
			}
			switch iso.class {
			case "error":
				st.hist["outcome-error"]++
				st.hist["error-"+iso.site]++
				fmt.Fprintf(out, "P %s %s %s\n", in.id, eid, dumpPNet(tree).String())
				fmt.Fprintf(out, "L %s %s (err)\n", in.id, eid)
				if fresh {
					st.nontrivial++
				}
			case "ok":
				st.hist["outcome-ok"]++
				st.hist["outcome-ok-huge-count-not-projected"]++
			case "panic":
				st.hist["outcome-PANIC"]++
				st.fail("c13-panic@"+iso.site+":isolated", fmt.Sprintf("LoadNetwork(%s) panics: %s in %s; input: %s", eid, iso.msg, iso.site, in.descr), size, replayObj)
			case "hang":
				st.hist["outcome-HANG"]++
				st.fail("c13-hang", fmt.Sprintf("LoadNetwork(%s) did not return (%s); input: %s", eid, iso.msg, in.descr), size, replayObj)
			default:
				st.hist["outcome-FATAL"]++
				kind := "fatal"
				if strings.Contains(iso.msg, "out of memory") || strings.Contains(iso.msg, "cannot allocate") {
					kind = "out-of-memory"
				}
				// the field the allocation is made from: the interface count when the process dies creating the
				// node's interfaces, otherwise every huge field of the input
				field := hk
				if strings.Contains(iso.site, "newNodeFromEntity") && strings.Contains("+"+hk+"+", "+interface_count+") {
					field = "interface_count"
				}
				st.fail("c13-fatal@"+iso.site+":"+kind+"+"+field, fmt.Sprintf("LoadNetwork(%s) brings the process down (%s) in %s under a 4 GiB address-space limit; input (%d bytes): %s", eid, iso.msg, iso.site, size, in.descr), size, replayObj)
			}
			return
		}
		o := guardedLoad(in.data, in.enc, watchdog)
		switch {
		case o.panicV != nil:
			st.hist["outcome-PANIC"]++
			msg := fmt.Sprint(o.panicV)
			cls := "other"
			for _, k := range []string{"nil pointer", "index out of range", "slice bounds", "nil map", "interface conversion", "makeslice", "out of memory"} {
				if strings.Contains(msg, k) {
					cls = strings.ReplaceAll(k, " ", "-")
				}
			}
			st.fail("c13-panic@"+o.stack+":"+cls, fmt.Sprintf("LoadNetwork(%s) panics: %v in %s; input: %s", eid, o.panicV, o.stack, in.descr), size, replayObj)
		case o.hang:
			st.hist["outcome-HANG"]++
			st.fail("c13-hang", fmt.Sprintf("LoadNetwork(%s) did not return within %v; input: %s", eid, watchdog, in.descr), size, replayObj)
		case o.err != nil:
			st.hist["outcome-error"]++
			st.hist["error-"+errClass(o.err)]++
		default:
			st.hist["outcome-ok"]++
			if uerr != nil {
				st.fail("c13-accepts-undecodable", fmt.Sprintf("LoadNetwork(%s) succeeds on bytes the decoder rejects (%v)", eid, uerr), size, replayObj)
			}
			if tree != nil && maxCounts(tree) > 1<<16 {
				st.hist["outcome-ok-huge-count-not-projected"]++
				return
			}
			broken, pan := invariants(o.net)
			if pan != "" {
				st.fail("c13-invariant-eval-panic", fmt.Sprintf("reading the network loaded from (%s) panics: %s; input: %s", eid, pan, in.descr), size, replayObj)
			}
			cl := map[string]bool{}
			for _, b := range broken {
				if c := clause(b); !cl[c] {
					cl[c] = true
					st.fail("c13-inv:"+c, fmt.Sprintf("LoadNetwork(%s) succeeds with a network that breaks %s; input: %s", eid, b, in.descr), size, replayObj)
				}
			}
			if len(broken) > 0 {
				st.hist["outcome-ok-invariant-broken"]++
			}
			// a loaded network must be usable: computed CAN-IDs, decoding, DBC export, String, saving again
			if site, what := exercise(o.net); what != "" {
				st.hist["outcome-ok-unusable"]++
				st.fail("c13-unusable@"+site, fmt.Sprintf("LoadNetwork(%s) succeeds with a network that cannot be used: %s; input: %s", eid, what, in.descr), size, replayObj)
			}
		}
		if uerr != nil {
			st.hist["decoder-rejects"]++
			return
		}
		if fresh {
			st.nontrivial++
		}
		if o.panicV == nil && !o.hang {
			fmt.Fprintf(out, "P %s %s %s\n", in.id, eid, dumpPNet(tree).String())
			if o.err != nil {
				fmt.Fprintf(out, "L %s %s (err)\n", in.id, eid)
			} else {
				// the projection reads the whole network through its getters: a panic there was reported above
				// (c13-invariant-eval-panic); no record then, the P record is dropped by the driver with its case
				if rec, pan := safeLoadedRecord(o.net); pan == "" {
					fmt.Fprintf(out, "L %s %s (ok %s)\n", in.id, eid, rec)
				} else {
					st.hist["loaded-network-not-projectable"]++
					fmt.Fprintf(out, "L %s %s (unreadable)\n", in.id, eid)
				}
			}
		}
	}

	if replay != "" {
		parts := strings.SplitN(strings.TrimSpace(replay), " ", 2)
		var enc acmelib.SaveEncoding
		for e, nme := range encNames {
			if nme == parts[0] {
				enc = e
			}
		}
		data, _ := hex.DecodeString(parts[1])
		evaluate(c13Input{id: "replay", enc: enc, data: data, descr: "replayed input"})
		for k, v := range st.hist {
			fmt.Printf("%s %d\n", k, v)
		}
		writeSummary(outPath+".summary", st)
		return
	}

	treeCases := ncases * 3 / 10 // each yields 3 inputs
	byteCases := ncases - 3*treeCases
	var bases []*pb.Network
	var baseBytes [][3][]byte
	nb := 12 + ncases/200
	deep := 0
	for i := 0; i < nb || (deep*3 < len(bases) && i < 4*nb); i++ {
		w := genWorld(master.next(), i%4 != 0)
		if i >= nb && w.maxDepth < 2 {
			continue // extra draws only to reach one third of bases with nested multiplexers
		}
		if w.maxDepth >= 2 {
			deep++
		}
		var bufs [3]bytes.Buffer
		if err := acmelib.SaveNetwork(w.net, 7, &bufs[0], &bufs[1], &bufs[2]); err != nil {
			continue
		}
		p := &pb.Network{}
		if err := proto.Unmarshal(bufs[0].Bytes(), p); err != nil {
			continue
		}
		bases = append(bases, p)
		baseBytes = append(baseBytes, [3][]byte{bufs[0].Bytes(), bufs[1].Bytes(), bufs[2].Bytes()})
		for k, v := range w.hist {
			st.hist["base-"+k] += v
		}
	}
	st.cases = 0

	// ---- sequences of loads in one process: every valid base save is loaded first (also after a resume, where the
	// earlier inputs are skipped), so that the mutated saves that follow - in particular those with a dangling id
	// (drop-definition, retarget-id) - are loaded by a process that has already seen the definitions they lack.
	// Each later load is judged on its own (model comparison), exactly as if it had been the first.
	for bi, bb := range baseBytes {
		for e, enc := range []acmelib.SaveEncoding{acmelib.SaveEncodingWire, acmelib.SaveEncodingJSON, acmelib.SaveEncodingText} {
			if skipping {
				guardedLoad(bb[e], enc, watchdog)
			}
			evaluate(c13Input{fmt.Sprintf("b%d", bi), enc, bb[e], "valid save of a generated network (loaded before its mutants)"})
		}
	}

	// ---- tiny inputs, exhaustively: every input of length 0 and 1, the 2-byte inputs (all of them when
	// VERIF_TINY_ALL is set = thorough tier; otherwise those starting with a byte that means something to one of the
	// decoders or to the BOM handling, plus random ones), every 1-3 byte prefix of a valid save and of a BOM
	encs := []acmelib.SaveEncoding{acmelib.SaveEncodingWire, acmelib.SaveEncodingJSON, acmelib.SaveEncodingText}
	tiny := func(data []byte, descr string) {
		for _, e := range encs {
			evaluate(c13Input{"y" + hex.EncodeToString(data), e, data, descr})
		}
		st.hist["tiny-inputs"]++
	}
	tiny([]byte{}, "empty input")
	for a := 0; a < 256; a++ {
		tiny([]byte{byte(a)}, "1-byte input")
	}
	firsts := []int{0xEF, 0xFE, 0xFF, 0x00, 0x7B, 0x5B, 0x0A, 0x08, 0x12, 0x1A, 0x22}
	if os.Getenv("VERIF_TINY_ALL") != "" {
		firsts = firsts[:0]
		for a := 0; a < 256; a++ {
			firsts = append(firsts, a)
		}
	}
	for _, a := range firsts {
		if !skipping && overBudget() {
			break
		}
		for b := 0; b < 256; b++ {
			tiny([]byte{byte(a), byte(b)}, "2-byte input")
		}
	}
	{
		r := &rng{s: master.next()}
		for i := 0; i < 200; i++ {
			tiny([]byte{byte(r.below(256)), byte(r.below(256))}, "2-byte input (random)")
		}
		bom := []byte{0xEF, 0xBB, 0xBF}
		for k := 1; k <= 3; k++ {
			tiny(bom[:k], "prefix of a byte order mark")
		}
		for bi, bb := range baseBytes {
			if bi >= 6 {
				break
			}
			for e := 0; e < 3; e++ {
				for k := 1; k <= 3 && k <= len(bb[e]); k++ {
					tiny(append([]byte{}, bb[e][:k]...), "prefix of a valid save")
					tiny(append(append([]byte{}, bom...), bb[e][:k]...), "byte order mark + prefix of a valid save")
				}
			}
		}
	}

	// ---- tree-level mutations, each written in the three encodings
	for ci := 0; ci < treeCases; ci++ {
		r := &rng{s: master.next()}
		if !skipping && overBudget() {
			break
		}
		base := bases[r.below(len(bases))]
		tree := proto.Clone(base).(*pb.Network)
		k := 1
		if x := r.below(10); x >= 6 {
			k = 2
		} else if x == 9 {
			k = 3
		}
		descr := []string{}
		for tries := 0; len(descr) < k && tries < 20; tries++ {
			mu := pickMutation(r)
			if d := mu.f(r, tree, collect(tree)); d != "" {
				descr = append(descr, mu.name+": "+d)
				st.hist["mut-"+mu.name]++
			}
		}
		if len(descr) == 0 {
			continue
		}
		st.cases++
		id := fmt.Sprintf("t%d", ci)
		if len(st.samples) < 3 {
			st.samples = append(st.samples, strings.Join(descr, "; "))
		}
		if data, err := proto.Marshal(tree); err == nil {
			evaluate(c13Input{id, acmelib.SaveEncodingWire, data, strings.Join(descr, "; ")})
		} else {
			st.hist["marshal-error-wire"]++
		}
		if data, err := (protojson.MarshalOptions{Multiline: true}).Marshal(tree); err == nil {
			evaluate(c13Input{id, acmelib.SaveEncodingJSON, data, strings.Join(descr, "; ")})
		} else {
			st.hist["marshal-error-json"]++
		}
		if data, err := (prototext.MarshalOptions{Multiline: true}).Marshal(tree); err == nil {
			evaluate(c13Input{id, acmelib.SaveEncodingText, data, strings.Join(descr, "; ")})
		} else {
			st.hist["marshal-error-text"]++
		}
	}

	// ---- byte / character level mutations and random bytes
	for ci := 0; ci < byteCases; ci++ {
		r := &rng{s: master.next()}
		if !skipping && overBudget() {
			break
		}
		ei := r.below(3)
		enc := encList[ei]
		id := fmt.Sprintf("b%d", ci)
		st.cases++
		if r.chance(12) {
			data := make([]byte, r.below(48))
			for i := range data {
				data[i] = byte(r.next())
			}
			st.hist["mut-random-bytes"]++
			evaluate(c13Input{id, enc, data, "random bytes"})
			continue
		}
		bi := r.below(len(baseBytes))
		data, d := mutateBytes(r, baseBytes[bi][ei], ei != 0)
		if r.chance(25) {
			var d2 string
			data, d2 = mutateBytes(r, data, ei != 0)
			d += "; " + d2
		}
		st.hist["mut-bytes-"+encNames[enc]]++
		evaluate(c13Input{id, enc, data, "byte level: " + d})
	}
	// the empty input, in each encoding
	for _, enc := range encList {
		st.cases++
		evaluate(c13Input{"empty", enc, []byte{}, "empty input"})
	}
	keys := []string{}
	for k := range st.hist {
		keys = append(keys, k)
	}
	sort.Strings(keys)
	fmt.Fprintf(out, "END %d\n", st.cases)
	if err := out.Flush(); err != nil {
		panic(err)
	}
	writeSummary(outPath+".summary", st)
}
