package main

func runC13(seed uint64, ncases int, outPath string, replay string) {}
