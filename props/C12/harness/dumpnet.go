package main

import (
	"math"
	"time"

	"github.com/squadracorsepolito/acmelib"
)

// Projection of a Go network onto the model's `net` (coq/C12/NetModel.v), through the public
// getters plus the two overlay accessors.  Shared definitions are collected by walking the
// network (a Go network has no tables).

type entityLike interface {
	EntityID() acmelib.EntityID
	Name() string
	Desc() string
	CreateTime() time.Time
}

func dEnt(e entityLike) *SX {
	t := e.CreateTime()
	return T("e", S(e.EntityID().String()), S(e.Name()), S(e.Desc()), T("t", I(t.Unix()), I(int64(t.Nanosecond()))))
}

func f64(v float64) *SX { return U(math.Float64bits(v)) }

type collector struct {
	builders []*acmelib.CANIDBuilder
	nodes    []*acmelib.Node
	types    []*acmelib.SignalType
	units    []*acmelib.SignalUnit
	enums    []*acmelib.SignalEnum
	attrs    []acmelib.Attribute
	seen     map[acmelib.EntityID]bool
	msgs     []*acmelib.Message
	sigs     []acmelib.Signal
}

func (c *collector) once(id acmelib.EntityID) bool {
	if c.seen[id] {
		return false
	}
	c.seen[id] = true
	return true
}

func (c *collector) assigns(l []*acmelib.AttributeAssignment) *SX {
	out := T("as")
	for _, a := range l {
		att := a.Attribute()
		if c.once("attr:" + att.EntityID()) {
			c.attrs = append(c.attrs, att)
		}
		var v *SX
		switch x := a.Value().(type) {
		case int:
			v = T("i", I(int64(x)))
		case float64:
			v = T("f", f64(x))
		case string:
			v = T("s", S(x))
		default:
			v = T("unknown")
		}
		out.List = append(out.List, T("a", S(att.EntityID().String()), v))
	}
	return out
}

func (c *collector) head(s acmelib.Signal) *SX {
	return T("h", dEnt(s), I(int64(s.SendType())), f64(s.StartValue()), c.assigns(s.AttributeAssignments()), I(int64(s.GetRelativeStartPos())))
}

func (c *collector) signal(s acmelib.Signal) *SX {
	if c.once("sig:" + s.EntityID()) {
		c.sigs = append(c.sigs, s)
	}
	switch s.Kind() {
	case acmelib.SignalKindStandard:
		ss, err := s.ToStandard()
		if err != nil {
			return T("badsig")
		}
		t := ss.Type()
		if c.once("type:" + t.EntityID()) {
			c.types = append(c.types, t)
		}
		unit := ""
		if u := ss.Unit(); u != nil {
			unit = u.EntityID().String()
			if c.once("unit:" + u.EntityID()) {
				c.units = append(c.units, u)
			}
		}
		return T("std", c.head(s), S(t.EntityID().String()), S(unit))
	case acmelib.SignalKindEnum:
		es, err := s.ToEnum()
		if err != nil {
			return T("badsig")
		}
		e := es.Enum()
		if c.once("enum:" + e.EntityID()) {
			c.enums = append(c.enums, e)
		}
		return T("enum", c.head(s), S(e.EntityID().String()))
	case acmelib.SignalKindMultiplexer:
		ms, err := s.ToMultiplexer()
		if err != nil {
			return T("badsig")
		}
		children := T("children")
		groups := T("groups")
		done := map[acmelib.EntityID]bool{}
		for _, g := range ms.GetSignalGroups() {
			gx := T("g")
			for _, ch := range g {
				gx.List = append(gx.List, S(ch.EntityID().String()))
				if !done[ch.EntityID()] {
					done[ch.EntityID()] = true
					children.List = append(children.List, T("c", B(acmelib.VerifMuxIsFixed(ms, ch.EntityID())), c.signal(ch)))
				}
			}
			groups.List = append(groups.List, gx)
		}
		return T("mux", c.head(s), I(int64(ms.GroupCount())), I(int64(ms.GroupSize())), children, groups)
	}
	return T("badsig")
}

func (c *collector) node(nd *acmelib.Node) {
	if c.once("node:" + nd.EntityID()) {
		c.nodes = append(c.nodes, nd)
	}
}

func (c *collector) message(m *acmelib.Message) *SX {
	c.msgs = append(c.msgs, m)
	static := uint32(0)
	if m.HasStaticCANID() {
		static = uint32(m.GetCANID())
	}
	recs := T("recs")
	for _, rc := range m.Receivers() {
		c.node(rc.Node())
		recs.List = append(recs.List, T("r", S(rc.Node().EntityID().String()), I(int64(rc.Number()))))
	}
	sigs := T("sigs")
	for _, s := range m.Signals() {
		sigs.List = append(sigs.List, c.signal(s))
	}
	return T("msg", dEnt(m), U(uint64(m.ID())), I(int64(m.SizeByte())), U(uint64(static)), B(m.HasStaticCANID()),
		I(int64(m.Priority())), I(int64(m.ByteOrder())), I(int64(m.CycleTime())), I(int64(m.SendType())),
		I(int64(m.DelayTime())), I(int64(m.StartDelayTime())), recs, sigs, c.assigns(m.AttributeAssignments()))
}

// dumpNet projects a network built through the API: every bus refers to its CAN-ID builder (the
// one it was created with included: it can be edited in place and is saved like any other).
func dumpNet(n *acmelib.Network) (*SX, *collector) { return dumpNetOpt(n, false) }

// dumpLoadedNet projects a network returned by LoadNetwork: a bus whose save named no builder
// (files written before the builder was always saved) has a fresh default builder that is not part
// of the file; it is projected as "no builder".
func dumpLoadedNet(n *acmelib.Network) (*SX, *collector) { return dumpNetOpt(n, true) }

func dumpNetOpt(n *acmelib.Network, loaded bool) (*SX, *collector) {
	c := &collector{seen: map[acmelib.EntityID]bool{}}
	buses := T("buses")
	for _, b := range n.Buses() {
		builder := ""
		if !(loaded && acmelib.VerifBusHasDefaultCANIDBuilder(b)) {
			if cb := b.CANIDBuilder(); cb != nil {
				builder = cb.EntityID().String()
				if c.once("builder:" + cb.EntityID()) {
					c.builders = append(c.builders, cb)
				}
			} else {
				builder = "<nil>"
			}
		}
		ifs := T("ifaces")
		for _, ni := range b.NodeInterfaces() {
			c.node(ni.Node())
			msgs := T("msgs")
			for _, m := range ni.SentMessages() {
				msgs.List = append(msgs.List, c.message(m))
			}
			ifs.List = append(ifs.List, T("if", S(ni.Node().EntityID().String()), I(int64(ni.Number())), msgs))
		}
		buses.List = append(buses.List, T("bus", dEnt(b), I(int64(b.Baudrate())), I(int64(b.Type())), S(builder), ifs,
			c.assigns(b.AttributeAssignments())))
	}
	nodes := T("nodes")
	for i := 0; i < len(c.nodes); i++ { // node assignments may add attributes, nothing adds nodes
		nd := c.nodes[i]
		nodes.List = append(nodes.List, T("nd", dEnt(nd), U(uint64(nd.ID())), I(int64(len(nd.Interfaces()))), c.assigns(nd.AttributeAssignments())))
	}
	builders := T("builders")
	for _, cb := range c.builders {
		x := T("cb", dEnt(cb))
		for _, op := range cb.Operations() {
			x.List = append(x.List, T("op", I(int64(op.Kind())), I(int64(op.From())), I(int64(op.Len()))))
		}
		builders.List = append(builders.List, x)
	}
	types := T("types")
	for _, t := range c.types {
		types.List = append(types.List, T("ty", dEnt(t), I(int64(t.Kind())), I(int64(t.Size())), B(t.Signed()), f64(t.Min()), f64(t.Max()), f64(t.Scale()), f64(t.Offset())))
	}
	units := T("units")
	for _, u := range c.units {
		units.List = append(units.List, T("un", dEnt(u), I(int64(u.Kind())), S(u.Symbol())))
	}
	enums := T("enums")
	for _, e := range c.enums {
		vals := T("vals")
		for _, v := range e.Values() {
			vals.List = append(vals.List, T("v", dEnt(v), I(int64(v.Index()))))
		}
		enums.List = append(enums.List, T("en", dEnt(e), I(int64(e.MinSize())), vals))
	}
	attrs := T("attrs")
	for _, a := range c.attrs {
		var body *SX
		switch a.Type() {
		case acmelib.AttributeTypeString:
			x, _ := a.ToString()
			body = T("str", S(x.DefValue()))
		case acmelib.AttributeTypeInteger:
			x, _ := a.ToInteger()
			body = T("int", I(int64(x.DefValue())), I(int64(x.Min())), I(int64(x.Max())), B(x.IsHexFormat()))
		case acmelib.AttributeTypeFloat:
			x, _ := a.ToFloat()
			body = T("flt", f64(x.DefValue()), f64(x.Min()), f64(x.Max()))
		case acmelib.AttributeTypeEnum:
			x, _ := a.ToEnum()
			body = T("enm", S(x.DefValue()))
			for _, v := range x.Values() {
				body.List = append(body.List, S(v))
			}
		default:
			body = T("unknown")
		}
		attrs.List = append(attrs.List, T("at", dEnt(a), body))
	}
	return T("net", dEnt(n), buses, builders, nodes, types, units, enums, attrs), c
}

// dumpReceived projects the converse of the receiver relation: which interfaces (node entity id, number) list
// which messages as received, over the interfaces of every node the walk met.  The loader registers it at every
// AddReceiver call; the model side derives the expected relation from the receivers of the saved messages.
func dumpReceived(col *collector) *SX { return dumpReceivedOpt(col, false) }

// dumpReceivedOpt with consistentOnly keeps the pairs the message confirms (it lists that interface as receiver):
// the part of the relation that a save carries (the other pairs are finding D22).
func dumpReceivedOpt(col *collector, consistentOnly bool) *SX {
	out := T("received")
	inNet := map[*acmelib.Message]bool{}
	for _, m := range col.msgs {
		inNet[m] = true
	}
	for _, nd := range col.nodes {
		for _, ni := range nd.Interfaces() {
			for _, m := range ni.ReceivedMessages() {
				if !inNet[m] {
					continue // a message that is not (or no longer) part of the network
				}
				if consistentOnly {
					ok := false
					for _, rc := range m.Receivers() {
						if rc == ni {
							ok = true
						}
					}
					if !ok {
						continue
					}
				}
				out.List = append(out.List, T("rm", S(nd.EntityID().String()), I(int64(ni.Number())), S(m.EntityID().String())))
			}
		}
	}
	return out
}
