package main

import (
	"math"

	pb "github.com/squadracorsepolito/acmelib/proto/gen/go/acmelib/v1"
)

// Dump of the protobuf tree in the vocabulary of coq/C12/Proto.v (exact order, nothing sorted).

func pEnt(e *pb.Entity) *SX {
	if e == nil {
		return T("none")
	}
	t := T("none")
	if e.CreateTime != nil {
		t = T("t", I(e.CreateTime.Seconds), I(int64(e.CreateTime.Nanos)))
	}
	return T("pe", S(e.EntityId), I(int64(e.EntityKind)), S(e.Name), S(e.Desc), t)
}

func pAssigns(l []*pb.AttributeAssignment) *SX {
	out := T("pas")
	for _, a := range l {
		var v *SX
		switch x := a.Value.(type) {
		case *pb.AttributeAssignment_ValueString:
			v = T("s", S(x.ValueString))
		case *pb.AttributeAssignment_ValueInt:
			v = T("i", I(int64(x.ValueInt)))
		case *pb.AttributeAssignment_ValueDouble:
			v = T("f", U(math.Float64bits(x.ValueDouble)))
		default:
			v = T("none")
		}
		out.List = append(out.List, T("pa", S(a.EntityId), S(a.AttributeEntityId), v))
	}
	return out
}

func pRefs(tag string, p *pb.SignalPayload) *SX {
	out := T(tag)
	for _, r := range p.GetRefs() {
		out.List = append(out.List, T("ref", S(r.SignalEntityId), U(uint64(r.RelStartBit))))
	}
	return out
}

func pSig(s *pb.Signal) *SX {
	var body *SX
	switch x := s.Signal.(type) {
	case *pb.Signal_Standard:
		body = T("std", S(x.Standard.GetTypeEntityId()), S(x.Standard.GetUnitEntityId()))
	case *pb.Signal_Enum:
		body = T("enum", S(x.Enum.GetEnumEntityId()))
	case *pb.Signal_Multiplexer:
		m := x.Multiplexer
		sigs := T("sigs")
		for _, c := range m.GetSignals() {
			sigs.List = append(sigs.List, pSig(c))
		}
		fixed := T("fixed")
		for _, f := range m.GetFixedSignalEntityIds() {
			fixed.List = append(fixed.List, S(f))
		}
		groups := T("groups")
		for _, g := range m.GetGroups() {
			groups.List = append(groups.List, pRefs("g", g))
		}
		body = T("mux", sigs, fixed, U(uint64(m.GetGroupCount())), U(uint64(m.GetGroupSize())), groups)
	default:
		body = T("none")
	}
	return T("psig", pEnt(s.Entity), I(int64(s.Kind)), I(int64(s.SendType)), U(math.Float64bits(s.StartValue)), pAssigns(s.AttributeAssignments), body)
}

func pMsg(m *pb.Message) *SX {
	sigs := T("sigs")
	for _, s := range m.Signals {
		sigs.List = append(sigs.List, pSig(s))
	}
	payload := T("none")
	if m.Payload != nil {
		payload = pRefs("payload", m.Payload)
	}
	recs := T("recs")
	for _, r := range m.Receivers {
		recs.List = append(recs.List, T("r", S(r.NodeEntityId), U(uint64(r.NodeInterfaceNumber))))
	}
	return T("pmsg", pEnt(m.Entity), sigs, payload, U(uint64(m.SizeByte)), U(uint64(m.MessageId)), U(uint64(m.StaticCanId)),
		B(m.HasStaticCanId), I(int64(m.Priority)), I(int64(m.ByteOrder)), U(uint64(m.CycleTime)), I(int64(m.SendType)),
		U(uint64(m.DelayTime)), U(uint64(m.StartDelayTime)), recs, pAssigns(m.AttributeAssignments))
}

func dumpPNet(n *pb.Network) *SX {
	buses := T("buses")
	for _, b := range n.Buses {
		ifs := T("ifaces")
		for _, ni := range b.NodeInterfaces {
			msgs := T("msgs")
			for _, m := range ni.Messages {
				msgs.List = append(msgs.List, pMsg(m))
			}
			ifs.List = append(ifs.List, T("pif", I(int64(ni.Number)), S(ni.NodeEntityId), msgs))
		}
		buses.List = append(buses.List, T("pbus", pEnt(b.Entity), ifs, U(uint64(b.Baudrate)), I(int64(b.Type)), S(b.CanidBuilderEntityId), pAssigns(b.AttributeAssignments)))
	}
	builders := T("builders")
	for _, cb := range n.CanidBuilders {
		x := T("pcb", pEnt(cb.Entity))
		for _, op := range cb.Operations {
			x.List = append(x.List, T("op", I(int64(op.Kind)), U(uint64(op.From)), U(uint64(op.Len))))
		}
		builders.List = append(builders.List, x)
	}
	nodes := T("nodes")
	for _, nd := range n.Nodes {
		nodes.List = append(nodes.List, T("pnd", pEnt(nd.Entity), U(uint64(nd.NodeId)), U(uint64(nd.InterfaceCount)), pAssigns(nd.AttributeAssignments)))
	}
	types := T("types")
	for _, t := range n.SignalTypes {
		types.List = append(types.List, T("pty", pEnt(t.Entity), I(int64(t.Kind)), U(uint64(t.Size)), B(t.Signed),
			U(math.Float64bits(t.Min)), U(math.Float64bits(t.Max)), U(math.Float64bits(t.Scale)), U(math.Float64bits(t.Offset))))
	}
	units := T("units")
	for _, u := range n.SignalUnits {
		units.List = append(units.List, T("pun", pEnt(u.Entity), I(int64(u.Kind)), S(u.Symbol)))
	}
	enums := T("enums")
	for _, e := range n.SignalEnums {
		vals := T("vals")
		for _, v := range e.Values {
			vals.List = append(vals.List, T("v", pEnt(v.Entity), U(uint64(v.Index))))
		}
		enums.List = append(enums.List, T("pen", pEnt(e.Entity), U(uint64(e.MinSize)), vals))
	}
	attrs := T("attrs")
	for _, a := range n.Attributes {
		var body *SX
		switch x := a.Attribute.(type) {
		case *pb.Attribute_StringAttribute:
			body = T("str", S(x.StringAttribute.GetDefValue()))
		case *pb.Attribute_IntegerAttribute:
			body = T("int", I(int64(x.IntegerAttribute.GetDefValue())), I(int64(x.IntegerAttribute.GetMin())), I(int64(x.IntegerAttribute.GetMax())), B(x.IntegerAttribute.GetIsHexFormat()))
		case *pb.Attribute_FloatAttribute:
			body = T("flt", U(math.Float64bits(x.FloatAttribute.GetDefValue())), U(math.Float64bits(x.FloatAttribute.GetMin())), U(math.Float64bits(x.FloatAttribute.GetMax())))
		case *pb.Attribute_EnumAttribute:
			body = T("enm", S(x.EnumAttribute.GetDefValue()))
			for _, v := range x.EnumAttribute.GetValues() {
				body.List = append(body.List, S(v))
			}
		default:
			body = T("none")
		}
		attrs.List = append(attrs.List, T("pat", pEnt(a.Entity), I(int64(a.Type)), body))
	}
	return T("pnet", pEnt(n.Entity), buses, builders, nodes, types, units, enums, attrs)
}

// maxCounts returns the largest group_count / interface_count of the tree (eager allocations of the loader).
func maxCounts(n *pb.Network) uint32 {
	var mx uint32
	var walk func(s *pb.Signal)
	walk = func(s *pb.Signal) {
		if m := s.GetMultiplexer(); m != nil {
			if m.GroupCount > mx {
				mx = m.GroupCount
			}
			for _, c := range m.Signals {
				walk(c)
			}
		}
	}
	for _, nd := range n.Nodes {
		if nd.InterfaceCount > mx {
			mx = nd.InterfaceCount
		}
	}
	for _, b := range n.Buses {
		for _, ni := range b.NodeInterfaces {
			for _, m := range ni.Messages {
				for _, s := range m.Signals {
					walk(s)
				}
			}
		}
	}
	return mx
}
