package main

import (
	"fmt"
	"math"

	"github.com/squadracorsepolito/acmelib"
)

// world is one randomly built network together with the pools the construction drew from.
type world struct {
	r        *rng
	net      *acmelib.Network
	attrs    []acmelib.Attribute
	types    []*acmelib.SignalType
	units    []*acmelib.SignalUnit
	enums    []*acmelib.SignalEnum
	builders []*acmelib.CANIDBuilder
	nodes    []*acmelib.Node
	buses    []*acmelib.Bus
	msgs     []*acmelib.Message
	sigs     []acmelib.Signal
	ctr      int
	hist     map[string]int // what the construction history contained (evidence histogram)
	maxDepth int
}

func (w *world) name(prefix string) string {
	w.ctr++
	// a small share of deliberately repeated names: the API refuses some of them (ignored),
	// shared definitions may legitimately carry equal names
	if w.r.chance(4) && w.ctr > 3 {
		return fmt.Sprintf("%s_%d", prefix, w.r.below(w.ctr))
	}
	return fmt.Sprintf("%s_%d", prefix, w.ctr)
}

func (w *world) count(k string) { w.hist[k]++ }

var descs = []string{"", "", "desc", "a longer description, with punctuation: (x) [y] {z}", "tab\there", "unicode é中", "quote \" backslash \\"}

func (w *world) desc() string { return descs[w.r.below(len(descs))] }

var floatPool = []float64{0, 1, -1, 0.5, -0.25, 1.5, 100.5, 1e-3, 1e9, -1e9, 3.141592653589793, 1e300, -1e300, 255, 65535,
	math.MaxFloat64, math.SmallestNonzeroFloat64, math.Inf(1), math.Inf(-1)}

func (w *world) float() float64 { return floatPool[w.r.below(len(floatPool))] }

func genWorld(seed uint64, rich bool) *world {
	r := &rng{s: seed}
	w := &world{r: r, hist: map[string]int{}}
	w.net = acmelib.NewNetwork(w.name("net"))
	w.net.SetDesc(w.desc())

	// ---- attributes of the four types
	for i, n := 0, r.rangeInt(2, 7); i < n; i++ {
		nm := w.name("att")
		switch r.below(4) {
		case 0:
			w.attrs = append(w.attrs, acmelib.NewStringAttribute(nm, []string{"", "def", "x y"}[r.below(3)]))
			w.count("attr-string")
		case 1:
			mn := r.rangeInt(-1000, 10)
			mx := mn + r.rangeInt(0, 100000)
			def := mn + r.below(mx-mn+1)
			if r.chance(10) {
				mn, mx, def = math.MinInt32, math.MaxInt32, r.rangeInt(-5, 5)
			}
			a, err := acmelib.NewIntegerAttribute(nm, def, mn, mx)
			if err == nil {
				if r.chance(40) {
					a.SetFormatHex()
				}
				w.attrs = append(w.attrs, a)
				w.count("attr-int")
			}
		case 2:
			mn := float64(r.rangeInt(-100, 0)) / 4
			mx := mn + float64(r.rangeInt(0, 1000))/8
			def := mn + (mx-mn)*float64(r.below(5))/4
			a, err := acmelib.NewFloatAttribute(nm, def, mn, mx)
			if err == nil {
				w.attrs = append(w.attrs, a)
				w.count("attr-float")
			}
		case 3:
			vals := []string{}
			for j, k := 0, r.rangeInt(1, 5); j < k; j++ {
				vals = append(vals, fmt.Sprintf("V%d", r.below(7)))
			}
			a, err := acmelib.NewEnumAttribute(nm, vals...)
			if err == nil {
				w.attrs = append(w.attrs, a)
				w.count("attr-enum")
			}
		}
		if len(w.attrs) > 0 && r.chance(30) {
			// attributes have no SetDesc in the interface; nothing to do
		}
	}

	// ---- signal types, units, enums
	w.types = append(w.types, acmelib.NewFlagSignalType(w.name("flag")))
	for i, n := 0, r.rangeInt(2, 6); i < n; i++ {
		nm := w.name("typ")
		var t *acmelib.SignalType
		var err error
		switch r.below(3) {
		case 0:
			t, err = acmelib.NewIntegerSignalType(nm, r.rangeInt(1, 16), r.chance(50))
		case 1:
			t, err = acmelib.NewDecimalSignalType(nm, r.rangeInt(2, 16), r.chance(50))
		default:
			t, err = acmelib.NewCustomSignalType(nm, r.rangeInt(1, 24), r.chance(50), w.float(), w.float(), w.float(), w.float())
		}
		if err == nil {
			if r.chance(30) {
				t.SetDesc(w.desc())
			}
			if r.chance(15) {
				t.SetScale(w.float())
				t.SetOffset(w.float())
			}
			w.types = append(w.types, t)
			w.count("type")
		}
	}
	for i, n := 0, r.rangeInt(0, 3); i < n; i++ {
		u := acmelib.NewSignalUnit(w.name("unit"), acmelib.SignalUnitKind(r.below(4)), []string{"", "V", "degC", "kW/h"}[r.below(4)])
		u.SetDesc(w.desc())
		w.units = append(w.units, u)
		w.count("unit")
	}
	for i, n := 0, r.rangeInt(1, 3); i < n; i++ {
		e := acmelib.NewSignalEnum(w.name("enum"))
		e.SetDesc(w.desc())
		for j, k := 0, r.rangeInt(0, 5); j < k; j++ {
			v := acmelib.NewSignalEnumValue(w.name("VAL"), r.below(40))
			v.SetDesc(w.desc())
			if err := e.AddValue(v); err != nil {
				w.count("refused-AddValue")
			}
		}
		if r.chance(35) {
			e.SetMinSize(r.rangeInt(1, 8))
			w.count("enum-minsize")
		}
		w.enums = append(w.enums, e)
		w.count("enum")
	}

	// ---- custom CAN-ID builders
	for i, n := 0, r.rangeInt(0, 2); i < n; i++ {
		b := acmelib.NewCANIDBuilder(w.name("builder"))
		b.SetDesc(w.desc())
		for j, k := 0, r.rangeInt(0, 5); j < k; j++ {
			switch r.below(7) {
			case 0:
				b.UseMessagePriority(r.below(30))
			case 1:
				b.UseMessageID(r.below(24), r.rangeInt(0, 12))
			case 2:
				b.UseNodeID(r.below(24), r.rangeInt(0, 8))
			case 3:
				b.UseBitMask(r.below(8), r.rangeInt(0, 29))
			case 4:
				b.UseCAN2A()
			default:
				// any kind with any legal (from, len) at any index: lengths the Use* helpers never produce
				// (a message-priority operation with a length other than 2, zero lengths, from = 31, ...)
				from := []int{0, 1, 7, 11, 28, 29, 30, 31, r.below(32)}[r.below(9)]
				length := []int{0, 1, 2, 3, 32 - from, r.below(33 - from)}[r.below(6)]
				kind := acmelib.CANIDBuilderOpKind(r.below(4))
				if err := b.InsertOperation(kind, from, length, r.below(len(b.Operations())+1)); err == nil {
					w.count("builder-InsertOperation")
					if kind == acmelib.CANIDBuilderOpKindMessagePriority && length != 2 {
						w.count("builder-priority-op-len-not-2")
					}
				}
			}
		}
		w.builders = append(w.builders, b)
		w.count("builder")
	}

	// ---- nodes and buses
	for i, n := 0, r.rangeInt(1, 4); i < n; i++ {
		nd := acmelib.NewNode(w.name("node"), acmelib.NodeID(r.below(12)), r.rangeInt(1, 3))
		nd.SetDesc(w.desc())
		if r.chance(20) {
			nd.AddInterface()
		}
		w.nodes = append(w.nodes, nd)
	}
	for i, n := 0, r.rangeInt(1, 3); i < n; i++ {
		b := acmelib.NewBus(w.name("bus"))
		b.SetDesc(w.desc())
		if err := w.net.AddBus(b); err != nil {
			w.count("refused-AddBus")
			continue
		}
		b.SetBaudrate([]int{0, 125000, 500000, 1000000, 4294967295}[r.below(5)])
		b.SetType(acmelib.BusTypeCAN2A)
		if len(w.builders) > 0 && r.chance(50) {
			b.SetCANIDBuilder(w.builders[r.below(len(w.builders))])
			w.count("bus-custom-builder")
		} else if r.chance(40) {
			// the builder the bus was created with, edited in place
			cb := b.CANIDBuilder()
			switch r.below(4) {
			case 0:
				cb.RemoveOperation(r.below(3))
			case 1:
				cb.InsertOperation(acmelib.CANIDBuilderOpKind(r.below(4)), r.below(20), r.below(12), r.below(len(cb.Operations())+1))
			case 2:
				cb.RemoveAllOperations()
			case 3:
				cb.UseMessagePriority(r.below(28))
				cb.SetDesc(w.desc())
			}
			w.count("bus-default-builder-edited-in-place")
		} else {
			w.count("bus-default-builder")
		}
		w.buses = append(w.buses, b)
	}
	attached := []*acmelib.NodeInterface{}
	all := []*acmelib.NodeInterface{}
	for _, nd := range w.nodes {
		for _, ni := range nd.Interfaces() {
			all = append(all, ni)
			if len(w.buses) == 0 || !r.chance(75) || ni.ParentBus() != nil {
				continue
			}
			b := w.buses[r.below(len(w.buses))]
			already := false
			for _, x := range b.NodeInterfaces() {
				if x.Node() == nd {
					already = true
				}
			}
			if already {
				continue
			}
			if err := b.AddNodeInterface(ni); err != nil {
				w.count("refused-AddNodeInterface")
				continue
			}
			attached = append(attached, ni)
			w.count("iface-attached")
		}
	}
	nodesOnTwoBuses := 0
	for _, nd := range w.nodes {
		k := 0
		for _, ni := range nd.Interfaces() {
			if ni.ParentBus() != nil {
				k++
			}
		}
		if k >= 2 {
			nodesOnTwoBuses++
		}
	}
	w.hist["node-on-several-buses"] += nodesOnTwoBuses

	// ---- messages
	for _, ni := range attached {
		for i, n := 0, r.rangeInt(0, 3); i < n; i++ {
			m := acmelib.NewMessage(w.name("msg"), acmelib.MessageID(r.below(60)), r.rangeInt(1, 8))
			m.SetDesc(w.desc())
			sent := ni.SentMessages()
			if r.chance(30) {
				// static CAN-ID, sometimes 0 (has_static must be carried separately from the value), often the
				// message id of a non-static message of the same interface (ids and static ids are separate spaces)
				id := acmelib.CANID(r.below(2048))
				if r.chance(20) {
					id = 0
				}
				if r.chance(30) {
					// the full uint32 range: extended-frame flag (bit 31), bits 29 and 30, ids that differ only above bit 28
					base := uint32([]int{0x123, 0x7FF, 0x1ABCDE, r.below(2048)}[r.below(4)])
					id = acmelib.CANID(base | []uint32{0x80000000, 0x20000000, 0x40000000, 0xE0000000, 0x1FFFF800, 0}[r.below(6)])
					w.count("msg-static-canid-beyond-29-bits")
				}
				if len(sent) > 0 && r.chance(50) {
					other := sent[r.below(len(sent))]
					if !other.HasStaticCANID() {
						id = acmelib.CANID(other.ID())
						w.count("msg-static-canid-equals-other-message-id")
					}
				}
				if err := m.SetStaticCANID(id); err == nil {
					w.count("msg-static-canid")
				}
			} else if len(sent) > 0 && r.chance(30) {
				// ... and a non-static message whose id is the static CAN-ID of an earlier message
				other := sent[r.below(len(sent))]
				if other.HasStaticCANID() {
					m = acmelib.NewMessage(m.Name(), acmelib.MessageID(other.GetCANID()), m.SizeByte())
					m.SetDesc(w.desc())
					w.count("msg-id-equals-other-static-canid")
				}
			}
			if err := ni.AddSentMessage(m); err != nil {
				w.count("refused-AddSentMessage")
				continue
			}
			m.SetPriority(acmelib.MessagePriority(r.below(4)))
			if r.chance(40) {
				m.SetByteOrder(acmelib.MessageByteOrderBigEndian)
				w.count("msg-big-endian")
			}
			// every optional field independently of the others (all 8 zero / non-zero combinations of cycle time,
			// delay time and start delay time occur)
			if r.chance(50) {
				m.SetCycleTime(r.rangeInt(1, 1000))
				w.count("msg-cycle-time")
			}
			if r.chance(40) {
				m.SetSendType(acmelib.MessageSendType(r.below(5)))
			}
			if r.chance(50) {
				m.SetDelayTime(r.rangeInt(1, 50))
				w.count("msg-delay-time")
			}
			if r.chance(50) {
				m.SetStartDelayTime(r.rangeInt(1, 50))
				w.count("msg-start-delay-time")
			}
			for j, k := 0, r.below(3); j < k && len(all) > 0; j++ {
				rec := all[r.below(len(all))]
				if err := m.AddReceiver(rec); err == nil {
					w.count("receiver")
					if rec.ParentBus() == nil {
						w.count("receiver-unattached-iface")
					}
				}
			}
			w.fillMessage(m, rich)
			w.msgs = append(w.msgs, m)
			w.count("msg")
		}
	}

	// ---- attribute assignments on every kind of entity
	assign := func(ent acmelib.AttributableEntity, kind string) {
		for j, k := 0, r.below(3); j < k && len(w.attrs) > 0; j++ {
			att := w.attrs[r.below(len(w.attrs))]
			var val any
			switch att.Type() {
			case acmelib.AttributeTypeString:
				val = []string{"", "v", "some value"}[r.below(3)]
			case acmelib.AttributeTypeInteger:
				ia, _ := att.ToInteger()
				val = ia.Min() + r.below(ia.Max()-ia.Min()+1)
			case acmelib.AttributeTypeFloat:
				fa, _ := att.ToFloat()
				val = fa.Min() + (fa.Max()-fa.Min())*float64(r.below(9))/8
			case acmelib.AttributeTypeEnum:
				ea, _ := att.ToEnum()
				vs := ea.Values()
				val = vs[r.below(len(vs))]
			}
			if err := ent.AssignAttribute(att, val); err == nil {
				w.count("assign-" + kind + "-" + att.Type().String())
			}
		}
	}
	for _, b := range w.buses {
		assign(b, "bus")
	}
	for _, nd := range w.nodes {
		assign(nd, "node")
	}
	for _, m := range w.msgs {
		assign(m, "msg")
	}
	for _, s := range w.sigs {
		assign(s, "sig")
	}
	w.editAfterConstruction()
	return w
}

// editAfterConstruction changes entities that are already in use through their setters, with non-default values:
// what a save must carry is the current state of every field, not what the constructors computed.
func (w *world) editAfterConstruction() {
	r := w.r
	for _, t := range w.types {
		if !r.chance(45) {
			continue
		}
		w.count("edited-signal-type")
		if r.chance(60) {
			t.SetMin(float64(r.rangeInt(-500, 50)) + []float64{0, 0.5, 0.25}[r.below(3)])
		}
		if r.chance(60) {
			t.SetMax(float64(r.rangeInt(51, 100000)) + []float64{0, 0.5}[r.below(2)])
		}
		if r.chance(40) {
			t.SetScale([]float64{0.5, 2, 0.001, -1, 10}[r.below(5)])
		}
		if r.chance(40) {
			t.SetOffset([]float64{-40, 0.5, 100, 1e6}[r.below(4)])
		}
		if r.chance(30) {
			t.UpdateSigned(!t.Signed())
		}
		if r.chance(30) {
			t.SetName(w.name("typ_renamed"))
		}
	}
	for _, u := range w.units {
		if r.chance(50) {
			u.SetKind(acmelib.SignalUnitKind(r.below(4)))
			u.SetSymbol([]string{"A", "rpm", "m/s^2", ""}[r.below(4)])
			if r.chance(50) {
				u.SetName(w.name("unit_renamed"))
			}
			w.count("edited-signal-unit")
		}
	}
	for _, e := range w.enums {
		if r.chance(40) {
			e.UpdateName(w.name("enum_renamed"))
			w.count("edited-signal-enum")
		}
		for _, v := range e.Values() {
			if r.chance(20) {
				if err := v.UpdateName(w.name("VAL_renamed")); err == nil {
					w.count("edited-enum-value-name")
				}
			}
		}
	}
	for _, b := range w.buses {
		if r.chance(30) {
			if err := b.UpdateName(w.name("bus_renamed")); err == nil {
				w.count("edited-bus-name")
			}
		}
		if r.chance(30) {
			b.SetBaudrate([]int{250000, 800000, 1, 4294967295}[r.below(4)])
		}
	}
	for _, nd := range w.nodes {
		if r.chance(25) {
			if err := nd.UpdateName(w.name("node_renamed")); err == nil {
				w.count("edited-node-name")
			}
		}
		if r.chance(20) {
			if err := nd.UpdateID(acmelib.NodeID(20 + r.below(200))); err == nil {
				w.count("edited-node-id")
			}
		}
	}
	for _, m := range w.msgs {
		if r.chance(25) {
			if err := m.UpdateName(w.name("msg_renamed")); err == nil {
				w.count("edited-message-name")
			}
		}
		if r.chance(20) && !m.HasStaticCANID() {
			if err := m.UpdateID(acmelib.MessageID(100 + r.below(900))); err == nil {
				w.count("edited-message-id")
			}
		}
		if r.chance(20) {
			m.SetPriority(acmelib.MessagePriority(r.below(4)))
		}
		if r.chance(15) {
			m.SetCycleTime(r.rangeInt(0, 5000))
		}
		if r.chance(15) {
			m.SetSendType(acmelib.MessageSendType(r.below(5)))
		}
		if r.chance(15) {
			m.SetDelayTime(r.rangeInt(0, 99))
		}
		if r.chance(15) {
			m.SetStartDelayTime(r.rangeInt(0, 99))
		}
	}
	for _, sg := range w.sigs {
		if r.chance(20) {
			if err := sg.UpdateName(w.name("sig_renamed")); err == nil {
				w.count("edited-signal-name")
			}
		}
		if r.chance(20) {
			sg.SetStartValue(w.float())
			sg.SetSendType(acmelib.SignalSendType(r.below(8)))
		}
	}
	if r.chance(30) {
		w.net.UpdateName(w.name("net_renamed"))
	}
}

// newSignal creates a signal of a random kind whose size is at most maxBits (nil if impossible).
func (w *world) newSignal(maxBits int, depth int, rich bool) acmelib.Signal {
	r := w.r
	if maxBits < 1 {
		return nil
	}
	kind := r.below(100)
	var sig acmelib.Signal
	switch {
	case kind < 50 || !rich:
		cands := []*acmelib.SignalType{}
		for _, t := range w.types {
			if t.Size() <= maxBits {
				cands = append(cands, t)
			}
		}
		if len(cands) == 0 {
			return nil
		}
		s, err := acmelib.NewStandardSignal(w.name("std"), cands[r.below(len(cands))])
		if err != nil {
			return nil
		}
		if len(w.units) > 0 && r.chance(50) {
			s.SetUnit(w.units[r.below(len(w.units))])
		}
		sig = s
		w.count("sig-standard")
	case kind < 72:
		cands := []*acmelib.SignalEnum{}
		for _, e := range w.enums {
			if e.GetSize() <= maxBits {
				cands = append(cands, e)
			}
		}
		if len(cands) == 0 {
			return nil
		}
		s, err := acmelib.NewEnumSignal(w.name("ens"), cands[r.below(len(cands))])
		if err != nil {
			return nil
		}
		sig = s
		w.count("sig-enum")
	default:
		if depth >= 3 || maxBits < 4 {
			return nil
		}
		count := []int{1, 2, 2, 3, 4, 4, 8}[r.below(7)]
		sel := 1
		for (1 << sel) < count {
			sel++
		}
		if maxBits-sel < 2 {
			return nil
		}
		gsize := r.rangeInt(2, maxBits-sel)
		m, err := acmelib.NewMultiplexerSignal(w.name("mux"), count, gsize)
		if err != nil {
			return nil
		}
		sig = m
		w.count("sig-mux")
		if depth+1 > w.maxDepth {
			w.maxDepth = depth + 1
		}
	}
	sig.SetDesc(w.desc())
	if r.chance(40) {
		sig.SetSendType(acmelib.SignalSendType(r.below(8)))
	}
	if r.chance(40) {
		sig.SetStartValue(w.float())
	}
	w.sigs = append(w.sigs, sig)
	return sig
}

func (w *world) fillMux(m *acmelib.MultiplexerSignal, depth int, rich bool) {
	r := w.r
	for i, n := 0, r.rangeInt(0, 5); i < n; i++ {
		pos := r.below(m.GroupSize())
		c := w.newSignal(m.GroupSize()-pos, depth+1, rich)
		if c == nil {
			continue
		}
		before := c.Kind() == acmelib.SignalKindMultiplexer && r.chance(50)
		if before {
			cm, _ := c.ToMultiplexer()
			w.fillMux(cm, depth+1, rich)
		}
		var err error
		if r.chance(30) {
			err = m.InsertSignal(c, pos)
			if err == nil {
				w.count("mux-fixed-child")
			}
		} else {
			ids := []int{}
			for g := 0; g < m.GroupCount(); g++ {
				if r.chance(45) {
					ids = append(ids, g)
				}
			}
			if len(ids) == 0 {
				ids = append(ids, r.below(m.GroupCount()))
			}
			err = m.InsertSignal(c, pos, ids...)
			if err == nil {
				if len(ids) > 1 {
					w.count("mux-multigroup-child")
				} else {
					w.count("mux-group-child")
				}
			}
		}
		if err != nil {
			w.count("refused-mux-InsertSignal")
			continue
		}
		if !before && c.Kind() == acmelib.SignalKindMultiplexer {
			cm, _ := c.ToMultiplexer()
			w.fillMux(cm, depth+1, rich)
		}
	}
}

func (w *world) fillMessage(m *acmelib.Message, rich bool) {
	r := w.r
	bits := m.SizeByte() * 8
	for i, n := 0, r.rangeInt(0, 5); i < n; i++ {
		useAppend := r.chance(50)
		pos := r.below(bits)
		room := bits - pos
		if useAppend {
			room = bits
			if sg := m.Signals(); len(sg) > 0 {
				last := sg[len(sg)-1]
				room = bits - (last.GetRelativeStartPos() + last.GetSize())
			}
		}
		s := w.newSignal(room, 0, rich)
		if s == nil {
			continue
		}
		before := s.Kind() == acmelib.SignalKindMultiplexer && r.chance(50)
		if before {
			sm, _ := s.ToMultiplexer()
			w.fillMux(sm, 1, rich)
		}
		var err error
		if useAppend {
			err = m.AppendSignal(s)
		} else {
			err = m.InsertSignal(s, pos)
		}
		if err != nil {
			w.count("refused-msg-InsertSignal")
			continue
		}
		if !before && s.Kind() == acmelib.SignalKindMultiplexer {
			sm, _ := s.ToMultiplexer()
			w.fillMux(sm, 1, rich)
		}
	}
}
