package main

import (
	"fmt"
	"math"

	"github.com/squadracorsepolito/acmelib"
)

// genFlat builds a network bottom-up (signals into the detached message, the message into the
// detached interface, the interface into the detached bus, the bus into the network; the order
// LoadNetwork uses) and logs every successful API call as an op of the builder model
// coq/C12/Builder.v.  The driver replays `build` on the log and compares the result with the
// projection of the network (record B).  Calls that Go refuses are not part of the sequence: the
// ops of a message / interface / bus are buffered and dropped when its attach call is refused.
//
// Values in the log are the arguments passed to the calls; entity ids and creation times are read
// back from the created object (they are drawn by the library).
type flatGen struct {
	w     *world
	attrs []acmelib.Attribute
}

func sxAssignVal(v any) *SX {
	switch x := v.(type) {
	case int:
		return T("i", I(int64(x)))
	case float64:
		return T("f", f64(x))
	case string:
		return T("s", S(x))
	}
	return T("unknown")
}

// assignSome performs 0-2 AssignAttribute calls and returns the log of the successful ones.
func (g *flatGen) assignSome(ent acmelib.AttributableEntity, kind string) *SX {
	r := g.w.r
	out := T("as")
	for j, k := 0, r.below(3); j < k && len(g.attrs) > 0; j++ {
		att := g.attrs[r.below(len(g.attrs))]
		var val any
		switch att.Type() {
		case acmelib.AttributeTypeString:
			val = []string{"", "v", "some value"}[r.below(3)]
		case acmelib.AttributeTypeInteger:
			ia, _ := att.ToInteger()
			val = ia.Min() + r.below(ia.Max()-ia.Min()+3) - 1 // sometimes just outside the bounds: refused
		case acmelib.AttributeTypeFloat:
			fa, _ := att.ToFloat()
			val = fa.Min() + (fa.Max()-fa.Min())*float64(r.below(9))/8
		case acmelib.AttributeTypeEnum:
			ea, _ := att.ToEnum()
			vs := ea.Values()
			val = vs[r.below(len(vs))]
		}
		if err := ent.AssignAttribute(att, val); err == nil {
			out.List = append(out.List, T("a", S(att.EntityID().String()), sxAssignVal(val)))
			g.w.count("assign-" + kind + "-" + att.Type().String())
		} else {
			g.w.count("flat-refused-AssignAttribute")
		}
	}
	return out
}

func sxBuilder(cb *acmelib.CANIDBuilder) *SX {
	x := T("cb", dEnt(cb))
	for _, op := range cb.Operations() {
		x.List = append(x.List, T("op", I(int64(op.Kind())), I(int64(op.From())), I(int64(op.Len()))))
	}
	return x
}

func genFlat(seed uint64) (*world, *SX) {
	r := &rng{s: seed}
	w := &world{r: r, hist: map[string]int{}}
	g := &flatGen{w: w}
	w.count("flat-network-with-op-log")
	w.net = acmelib.NewNetwork(w.name("net"))
	w.net.SetDesc(w.desc())
	ops := T("ops", dEnt(w.net))
	emit := func(dst *SX, o *SX) { dst.List = append(dst.List, o) }

	// ---- definitions
	for i, n := 0, r.rangeInt(1, 5); i < n; i++ {
		nm := w.name("att")
		switch r.below(4) {
		case 0:
			d := []string{"", "def", "x y"}[r.below(3)]
			a := acmelib.NewStringAttribute(nm, d)
			g.attrs = append(g.attrs, a)
			emit(ops, T("defattr", dEnt(a), T("str", S(d))))
			w.count("attr-string")
		case 1:
			mn := r.rangeInt(-1000, 10)
			mx := mn + r.rangeInt(-3, 100000) // sometimes min > max: refused
			def := mn + r.below(mx-mn+3) - 1  // sometimes outside: refused
			a, err := acmelib.NewIntegerAttribute(nm, def, mn, mx)
			if err != nil {
				w.count("flat-refused-NewIntegerAttribute")
				continue
			}
			hx := r.chance(40)
			if hx {
				a.SetFormatHex()
			}
			g.attrs = append(g.attrs, a)
			emit(ops, T("defattr", dEnt(a), T("int", I(int64(def)), I(int64(mn)), I(int64(mx)), B(hx))))
			w.count("attr-int")
		case 2:
			mn := float64(r.rangeInt(-100, 0)) / 4
			mx := mn + float64(r.rangeInt(-2, 1000))/8
			def := mn + (mx-mn)*float64(r.below(6))/4
			a, err := acmelib.NewFloatAttribute(nm, def, mn, mx)
			if err != nil {
				w.count("flat-refused-NewFloatAttribute")
				continue
			}
			g.attrs = append(g.attrs, a)
			emit(ops, T("defattr", dEnt(a), T("flt", f64(def), f64(mn), f64(mx))))
			w.count("attr-float")
		case 3:
			vals := []string{}
			for j, k := 0, r.rangeInt(0, 5); j < k; j++ {
				vals = append(vals, fmt.Sprintf("V%d", r.below(6)))
			}
			a, err := acmelib.NewEnumAttribute(nm, vals...)
			if err != nil {
				w.count("flat-refused-NewEnumAttribute")
				continue
			}
			g.attrs = append(g.attrs, a)
			body := T("enm", S(""))
			for _, v := range vals {
				body.List = append(body.List, S(v))
			}
			emit(ops, T("defattr", dEnt(a), body))
			w.count("attr-enum")
		}
	}
	for i, n := 0, r.rangeInt(2, 5); i < n; i++ {
		nm := w.name("typ")
		var t *acmelib.SignalType
		var err error
		switch r.below(4) {
		case 0:
			t = acmelib.NewFlagSignalType(nm)
		case 1:
			t, err = acmelib.NewIntegerSignalType(nm, r.rangeInt(0, 16), r.chance(50)) // size 0: refused
		case 2:
			t, err = acmelib.NewDecimalSignalType(nm, r.rangeInt(2, 16), r.chance(50))
		default:
			t, err = acmelib.NewCustomSignalType(nm, r.rangeInt(1, 24), r.chance(50), w.float(), w.float(), w.float(), w.float())
		}
		if err != nil {
			w.count("flat-refused-NewSignalType")
			continue
		}
		t.SetDesc(w.desc())
		if r.chance(15) {
			t.SetScale(w.float())
			t.SetOffset(w.float())
		}
		w.types = append(w.types, t)
		emit(ops, T("deftype", T("ty", dEnt(t), I(int64(t.Kind())), I(int64(t.Size())), B(t.Signed()), f64(t.Min()), f64(t.Max()), f64(t.Scale()), f64(t.Offset()))))
		w.count("type")
	}
	for i, n := 0, r.rangeInt(0, 2); i < n; i++ {
		kind := acmelib.SignalUnitKind(r.below(4))
		sym := []string{"", "V", "degC", "kW/h"}[r.below(4)]
		u := acmelib.NewSignalUnit(w.name("unit"), kind, sym)
		u.SetDesc(w.desc())
		w.units = append(w.units, u)
		emit(ops, T("defunit", T("un", dEnt(u), I(int64(kind)), S(sym))))
		w.count("unit")
	}
	for i, n := 0, r.rangeInt(1, 2); i < n; i++ {
		e := acmelib.NewSignalEnum(w.name("enum"))
		e.SetDesc(w.desc())
		vals := T("vals")
		for j, k := 0, r.rangeInt(0, 5); j < k; j++ {
			idx := r.below(12)
			v := acmelib.NewSignalEnumValue(w.name("VAL"), idx)
			v.SetDesc(w.desc())
			if err := e.AddValue(v); err != nil {
				w.count("refused-AddValue")
				continue
			}
			vals.List = append(vals.List, T("v", dEnt(v), I(int64(idx))))
		}
		ms := e.MinSize()
		if r.chance(35) {
			ms = r.rangeInt(1, 8)
			e.SetMinSize(ms)
			w.count("enum-minsize")
		}
		w.enums = append(w.enums, e)
		emit(ops, T("defenum", dEnt(e), I(int64(ms)), vals))
		w.count("enum")
	}
	for i, n := 0, r.rangeInt(1, 3); i < n; i++ {
		id := r.below(12)
		cnt := r.rangeInt(1, 3)
		nd := acmelib.NewNode(w.name("node"), acmelib.NodeID(id), cnt)
		nd.SetDesc(w.desc())
		asg := g.assignSome(nd, "node")
		w.nodes = append(w.nodes, nd)
		emit(ops, T("defnode", dEnt(nd), I(int64(id)), I(int64(cnt)), asg))
	}
	custom := []*acmelib.CANIDBuilder{}
	for i, n := 0, r.rangeInt(0, 1); i < n; i++ {
		b := acmelib.NewCANIDBuilder(w.name("builder"))
		b.SetDesc(w.desc())
		b.UseMessagePriority(r.below(28)).UseMessageID(r.below(16), r.rangeInt(1, 10)).UseNodeID(r.below(8), r.rangeInt(1, 6))
		custom = append(custom, b)
		emit(ops, T("defbuilder", sxBuilder(b)))
		w.count("builder")
	}

	// ---- structure, bottom-up
	allIfaces := []*acmelib.NodeInterface{}
	for _, nd := range w.nodes {
		allIfaces = append(allIfaces, nd.Interfaces()...)
	}
	used := map[*acmelib.NodeInterface]bool{}
	for bi, nb := 0, r.rangeInt(1, 3); bi < nb; bi++ {
		busOps := T("buf")
		b := acmelib.NewBus(w.name("bus"))
		b.SetDesc(w.desc())
		baud := []int{0, 125000, 500000, 1000000}[r.below(4)]
		b.SetBaudrate(baud)
		builder := b.CANIDBuilder()
		if len(custom) > 0 && r.chance(50) {
			builder = custom[r.below(len(custom))]
			b.SetCANIDBuilder(builder)
			w.count("bus-custom-builder")
		} else {
			emit(busOps, T("defbuilder", sxBuilder(builder)))
			w.count("bus-default-builder")
		}
		basg := g.assignSome(b, "bus")
		emit(busOps, T("newbus", dEnt(b), I(int64(baud)), S(builder.EntityID().String()), basg))

		for ii, ni := 0, r.rangeInt(0, 3); ii < ni && len(allIfaces) > 0; ii++ {
			nif := allIfaces[r.below(len(allIfaces))]
			if used[nif] {
				continue // every interface object is attached once (attaching twice is finding D20)
			}
			ifOps := T("buf")
			emit(ifOps, T("newiface", S(nif.Node().EntityID().String()), I(int64(nif.Number()))))
			for mi, nm := 0, r.rangeInt(0, 3); mi < nm; mi++ {
				msgOps := T("buf")
				id := r.below(40)
				size := r.rangeInt(1, 9) // 9 bytes: refused by AddNodeInterface
				m := acmelib.NewMessage(w.name("msg"), acmelib.MessageID(id), size)
				m.SetDesc(w.desc())
				has, static := false, 0
				if r.chance(30) {
					static = r.below(64)
					if r.chance(30) {
						static = int(uint32(static) | []uint32{0x80000000, 0x20000000, 0xE0000000}[r.below(3)])
					}
					if err := m.SetStaticCANID(acmelib.CANID(static)); err == nil {
						has = true
						w.count("msg-static-canid")
					} else {
						static = 0
					}
				}
				prio := r.below(4)
				m.SetPriority(acmelib.MessagePriority(prio))
				bo := 0
				if r.chance(40) {
					m.SetByteOrder(acmelib.MessageByteOrderBigEndian)
					bo = int(acmelib.MessageByteOrderBigEndian)
					w.count("msg-big-endian")
				}
				cyc, send, del, sdel := 0, 0, 0, 0
				if r.chance(50) {
					cyc = r.rangeInt(1, 1000)
					m.SetCycleTime(cyc)
				}
				if r.chance(40) {
					send = r.below(5)
					m.SetSendType(acmelib.MessageSendType(send))
				}
				if r.chance(50) {
					del = r.rangeInt(1, 50)
					m.SetDelayTime(del)
				}
				if r.chance(50) {
					sdel = r.rangeInt(1, 50)
					m.SetStartDelayTime(sdel)
				}
				masg := g.assignSome(m, "msg")
				emit(msgOps, T("newmsg", T("msg", dEnt(m), I(int64(id)), I(int64(size)), I(int64(static)), B(has), I(int64(prio)),
					I(int64(bo)), I(int64(cyc)), I(int64(send)), I(int64(del)), I(int64(sdel)), T("recs"), T("sigs"), T("as")), masg))

				for si, ns := 0, r.rangeInt(0, 5); si < ns; si++ {
					var s acmelib.Signal
					var body func(h *SX) *SX
					if r.chance(65) {
						t := w.types[r.below(len(w.types))]
						ss, err := acmelib.NewStandardSignal(w.name("std"), t)
						if err != nil {
							continue
						}
						unit := ""
						if len(w.units) > 0 && r.chance(50) {
							u := w.units[r.below(len(w.units))]
							ss.SetUnit(u)
							unit = u.EntityID().String()
						}
						s = ss
						tid := t.EntityID().String()
						body = func(h *SX) *SX { return T("std", h, S(tid), S(unit)) }
						w.count("sig-standard")
					} else {
						e := w.enums[r.below(len(w.enums))]
						es, err := acmelib.NewEnumSignal(w.name("ens"), e)
						if err != nil {
							continue
						}
						s = es
						eid := e.EntityID().String()
						body = func(h *SX) *SX { return T("enum", h, S(eid)) }
						w.count("sig-enum")
					}
					s.SetDesc(w.desc())
					sendT, start := 0, 0.0
					if r.chance(40) {
						sendT = r.below(8)
						s.SetSendType(acmelib.SignalSendType(sendT))
					}
					if r.chance(40) {
						start = w.float()
						if start == 0 && math.Signbit(start) {
							start = 0
						}
						s.SetStartValue(start)
					}
					sasg := g.assignSome(s, "sig")
					pos := r.below(size*8 + 2) // sometimes outside the message: refused
					if err := m.InsertSignal(s, pos); err != nil {
						w.count("refused-msg-InsertSignal")
						continue
					}
					w.sigs = append(w.sigs, s)
					head := T("h", dEnt(s), I(int64(sendT)), f64(start), T("as"), I(0))
					emit(msgOps, T("insert", body(head), sasg, I(int64(pos))))
				}

				if err := nif.AddSentMessage(m); err != nil {
					w.count("refused-AddSentMessage")
					continue
				}
				recs := T("recs")
				for j, k := 0, r.below(3); j < k; j++ {
					rec := allIfaces[r.below(len(allIfaces))]
					if err := m.AddReceiver(rec); err == nil {
						recs.List = append(recs.List, T("r", S(rec.Node().EntityID().String()), I(int64(rec.Number()))))
						w.count("receiver")
					} else {
						w.count("flat-refused-AddReceiver")
					}
				}
				emit(msgOps, T("addsent", recs))
				ifOps.List = append(ifOps.List, msgOps.List[1:]...)
				w.msgs = append(w.msgs, m)
				w.count("msg")
			}
			used[nif] = true
			if err := b.AddNodeInterface(nif); err != nil {
				w.count("refused-AddNodeInterface")
				continue
			}
			emit(ifOps, T("addiface"))
			busOps.List = append(busOps.List, ifOps.List[1:]...)
			w.count("iface-attached")
		}
		if err := w.net.AddBus(b); err != nil {
			w.count("refused-AddBus")
			continue
		}
		emit(busOps, T("addbus"))
		ops.List = append(ops.List, busOps.List[1:]...)
		w.buses = append(w.buses, b)
	}
	return w, ops
}
