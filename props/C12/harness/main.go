package main

import (
	"fmt"
	"io"
	"log"
	"os"
	"runtime"
	"strconv"
	"strings"
)

// panicSite names the innermost acmelib function on the panicking stack (called from the
// deferred recover, so the frames of the panic are still there).
func panicSite() string {
	pcs := make([]uintptr, 64)
	n := runtime.Callers(2, pcs)
	frames := runtime.CallersFrames(pcs[:n])
	for {
		fr, more := frames.Next()
		if strings.Contains(fr.Function, "squadracorsepolito/acmelib.") && !strings.Contains(fr.Function, "/proto/") {
			fn := fr.Function[strings.LastIndex(fr.Function, "acmelib.")+len("acmelib."):]
			return fn
		}
		if !more {
			break
		}
	}
	return "unknown"
}

func envInt(name string, def int) int {
	if v := os.Getenv(name); v != "" {
		if n, err := strconv.Atoi(v); err == nil {
			return n
		}
	}
	return def
}

func main() {
	log.SetOutput(io.Discard) // loader.go prints debug lines on refused assignments
	if len(os.Args) < 3 {
		fmt.Fprintln(os.Stderr, "usage: harness c12|c13 <out-file>   (VERIF_SEED, VERIF_CASES, VERIF_REPLAY)")
		os.Exit(2)
	}
	seed := uint64(20260930)
	if v := os.Getenv("VERIF_SEED"); v != "" {
		if n, err := strconv.ParseUint(v, 10, 64); err == nil {
			seed = n
		}
	}
	switch os.Args[1] {
	case "c12":
		rs, has := uint64(0), false
		if v := os.Getenv("VERIF_REPLAY"); v != "" {
			if n, err := strconv.ParseUint(v, 10, 64); err == nil {
				rs, has = n, true
			}
		}
		runC12(seed, envInt("VERIF_CASES", 150), os.Args[2], rs, has)
	case "c13one":
		if len(os.Args) < 4 {
			os.Exit(2)
		}
		runC13One(os.Args[2], os.Args[3])
	case "c13":
		runC13(seed, envInt("VERIF_CASES", 2000), os.Args[2], os.Getenv("VERIF_REPLAY"))
	default:
		os.Exit(2)
	}
}
