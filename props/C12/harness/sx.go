package main

import (
	"encoding/hex"
	"sort"
	"strconv"
	"strings"
)

// SX is an s-expression: an atom or a list. The text form is shared with the OCaml driver.
type SX struct {
	Atom string
	List []*SX
	IsL  bool
}

func A(s string) *SX       { return &SX{Atom: s} }
func L(items ...*SX) *SX   { return &SX{List: items, IsL: true} }
func T(tag string, items ...*SX) *SX {
	return &SX{List: append([]*SX{A(tag)}, items...), IsL: true}
}
func S(s string) *SX  { return A("s" + hex.EncodeToString([]byte(s))) }
func I(n int64) *SX   { return A(strconv.FormatInt(n, 10)) }
func U(n uint64) *SX  { return A(strconv.FormatUint(n, 10)) }
func B(b bool) *SX {
	if b {
		return A("1")
	}
	return A("0")
}

func (x *SX) write(b *strings.Builder) {
	if !x.IsL {
		b.WriteString(x.Atom)
		return
	}
	b.WriteByte('(')
	for i, it := range x.List {
		if i > 0 {
			b.WriteByte(' ')
		}
		it.write(b)
	}
	b.WriteByte(')')
}

func (x *SX) String() string {
	var b strings.Builder
	x.write(&b)
	return b.String()
}

var unordered = map[string]bool{"buses": true, "ifaces": true, "msgs": true, "builders": true, "nodes": true,
	"types": true, "units": true, "enums": true, "attrs": true, "as": true, "pas": true, "recs": true,
	"children": true, "vals": true, "received": true}

// Canon sorts the children of the lists whose order is not observable (same rule as the driver).
func Canon(x *SX) *SX {
	if !x.IsL {
		return x
	}
	out := make([]*SX, len(x.List))
	for i, it := range x.List {
		out[i] = Canon(it)
	}
	if len(out) > 0 && !out[0].IsL && unordered[out[0].Atom] {
		rest := out[1:]
		keys := make([]string, len(rest))
		for i, it := range rest {
			keys[i] = it.String()
		}
		idx := make([]int, len(rest))
		for i := range idx {
			idx[i] = i
		}
		sort.SliceStable(idx, func(a, b int) bool { return keys[idx[a]] < keys[idx[b]] })
		sorted := make([]*SX, len(rest))
		for i, j := range idx {
			sorted[i] = rest[j]
		}
		out = append([]*SX{out[0]}, sorted...)
	}
	return &SX{List: out, IsL: true}
}

// Diff returns the first differing place of two canonical expressions ("" if equal).
func Diff(path string, a, b *SX) string {
	if !a.IsL && !b.IsL {
		if a.Atom == b.Atom {
			return ""
		}
		return path + ": " + a.Atom + " vs " + b.Atom
	}
	if a.IsL != b.IsL {
		return path + ": atom vs list"
	}
	if len(a.List) != len(b.List) {
		return path + ": " + strconv.Itoa(len(a.List)) + " vs " + strconv.Itoa(len(b.List)) + " items"
	}
	tag := ""
	if len(a.List) > 0 && !a.List[0].IsL {
		tag = a.List[0].Atom
	}
	for i := range a.List {
		if d := Diff(path+"/"+tag+"["+strconv.Itoa(i)+"]", a.List[i], b.List[i]); d != "" {
			return d
		}
	}
	return ""
}

// DiffAll collects every differing place of two canonical expressions (at most 20).
func DiffAll(path string, a, b *SX, acc []string) []string {
	if len(acc) >= 20 {
		return acc
	}
	if !a.IsL && !b.IsL {
		if a.Atom != b.Atom {
			acc = append(acc, path+": "+a.Atom+" vs "+b.Atom)
		}
		return acc
	}
	if a.IsL != b.IsL {
		return append(acc, path+": atom vs list")
	}
	if len(a.List) != len(b.List) {
		return append(acc, path+": "+strconv.Itoa(len(a.List))+" vs "+strconv.Itoa(len(b.List))+" items")
	}
	tag := ""
	if len(a.List) > 0 && !a.List[0].IsL {
		tag = a.List[0].Atom
	}
	for i := range a.List {
		acc = DiffAll(path+"/"+tag+"["+strconv.Itoa(i)+"]", a.List[i], b.List[i], acc)
	}
	return acc
}

// SplitMix64: every random choice of the harness derives from VERIF_SEED.
type rng struct{ s uint64 }

func (r *rng) next() uint64 {
	r.s += 0x9E3779B97F4A7C15
	z := r.s
	z = (z ^ (z >> 30)) * 0xBF58476D1CE4E5B9
	z = (z ^ (z >> 27)) * 0x94D049BB133111EB
	return z ^ (z >> 31)
}
func (r *rng) below(n int) int {
	if n <= 0 {
		return 0
	}
	return int(r.next() % uint64(n))
}
func (r *rng) chance(pct int) bool { return r.below(100) < pct }
func (r *rng) rangeInt(lo, hi int) int { return lo + r.below(hi-lo+1) }
