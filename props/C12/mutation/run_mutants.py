#!/usr/bin/env python3
"""Mutation self-test for C12 / C13 (development aid, not a registered command).
Applies small semantic mutants to a scratch worktree of /repo, checks that the repository's own
test suite still passes (the mutant is invisible to it) and that the quick tier of the property's
check flags it.  Usage: run_mutants.py [worktree]   (default /tmp/wt/C12, reset to /repo main first)."""
import os, subprocess, sys, json, time

WT = sys.argv[1] if len(sys.argv) > 1 else "/tmp/wt/C12"
VERIF = os.path.dirname(os.path.dirname(os.path.dirname(os.path.dirname(os.path.abspath(__file__)))))
ENV = dict(os.environ, GOFLAGS="-mod=mod", GOPROXY="off")
ENV.pop("GOTOOLCHAIN", None); ENV.pop("GOSUMDB", None)

def sh(cmd, cwd=None, env=None, timeout=1800):
    p = subprocess.run(cmd, cwd=cwd, env=env or ENV, shell=True, stdout=subprocess.PIPE, stderr=subprocess.STDOUT, timeout=timeout)
    return p.returncode, p.stdout.decode("utf-8", "replace")

# (id, property, file, old, new, description)
MUTANTS = [
 ("m1", "C12", "saver.go", "pMsg.DelayTime = uint32(msg.delayTime)", "// delay time not saved", "saver: a message field (delay time) is not saved"),
 ("m2", "C12", "loader.go", "msg.SetDelayTime(int(pMsg.DelayTime))", "msg.SetStartDelayTime(int(pMsg.DelayTime))", "loader: delay time loaded into the start-delay setter"),
 ("m3", "C12", "saver.go", "pMsg.HasStaticCanId = msg.hasStaticCANID", "pMsg.HasStaticCanId = msg.hasStaticCANID && msg.staticCANID != 0", "saver: static CAN-ID dropped when it is 0"),
 ("m4", "C12", "saver.go", "NodeInterfaceNumber: uint32(rec.number),", "NodeInterfaceNumber: 0,", "saver: receivers saved by node (interface number lost)"),
 ("m5", "C12", "saver.go", "if encoding&SaveEncodingText == SaveEncodingText {", "if encoding&(SaveEncodingText|SaveEncodingJSON) != 0 {", "SaveNetwork: text encoding written when only JSON is requested"),
 ("m6", "C12", "loader.go", "sig.SetStartValue(pSig.StartValue)", "_ = pSig.StartValue", "loader: signal start value not restored"),
 ("m7", "C12", "saver.go", "pSigEnum.MinSize = uint32(sigEnum.minSize)", "pSigEnum.MinSize = 0", "saver: enum minimum size not saved"),
 ("m8", "C12", "loader.go", "bus.SetCANIDBuilder(canIDBuilder)", "_ = canIDBuilder", "loader: custom CAN-ID builder looked up but not set (D29 reverted)"),
 ("m9", "C12", "saver.go", "RelStartBit:    uint32(sig.GetRelativeStartPos()),", "RelStartBit:    uint32(sig.GetStartBit()),", "saver: absolute instead of relative start bit in payload refs"),
 ("n1", "C13", "loader.go", "\tif pEnt == nil {\n\t\treturn nil, &ErrIsRequired{Item: entKind.String() + \" entity\"}\n\t}\n", "", "loader: nil check of the entity sub-message removed"),
 ("n2", "C13", "loader.go", "\tdefault:\n\t\treturn nil, &ErrMissingOneofField{OneofField: \"signal\"}\n\t}\n\n\tswitch pSig.SendType {", "\t}\n\n\tswitch pSig.SendType {", "loader: missing signal oneof no longer reported"),
 ("n3", "C13", "loader.go", "\t\tif err := bus.AddNodeInterface(nodeInt); err != nil {\n\t\t\treturn nil, err\n\t\t}", "\t\tbus.AddNodeInterface(nodeInt)", "loader: error of AddNodeInterface swallowed"),
 ("n4", "C13", "loader.go", "\tif _, ok := l.entityIDs[pEnt.EntityId]; ok {", "\tif _, ok := l.entityIDs[pEnt.EntityId]; ok && false {", "loader: duplicate entity id check disabled"),
 ("n5", "C13", "loader.go", "\tif nodeInt.hasParentBus() {", "\tif nodeInt.hasParentBus() && false {", "loader: interface-listed-twice check disabled"),
 ("n6", "C13", "loader.go", "pSigPayload.GetRefs()", "pSigPayload.Refs", "loader: nil-safe payload getter replaced by the field access"),
 ("n7", "C13", "loader.go", "\tif !hasDefValue {", "\tif !hasDefValue && len(values) == 0 {", "loader: default-not-among-values check weakened"),
 ("n8", "C13", "loader.go", "\t\tif err := msg.AddReceiver(recNodeInt); err != nil {\n\t\t\treturn err\n\t\t}", "\t\tmsg.AddReceiver(recNodeInt)", "loader: error of AddReceiver swallowed"),
]

def main():
    only = set(os.environ.get("MUTANTS", "").split(",")) - {""}
    results = []
    sh("git checkout -q . && git reset -q --hard main", cwd=WT)
    for mid, prop, fn, old, new, desc in MUTANTS:
        if only and mid not in only:
            continue
        path = os.path.join(WT, fn)
        src = open(path).read()
        if src.count(old) < 1 or (src.count(old) != 1 and mid != "m9"):
            results.append((mid, prop, desc, "NOT-APPLICABLE (%d matches)" % src.count(old), "", 0)); continue
        open(path, "w").write(src.replace(old, new))
        t0 = time.time()
        rc, out = sh("gofmt -l . >/dev/null; go build ./... && go vet . >/dev/null 2>&1; go test -count=1 ./... 2>&1 | tail -8", cwd=WT)
        suite_ok = "FAIL" not in out and "ok  \tgithub.com/squadracorsepolito/acmelib\t" in out
        if not suite_ok:
            verdict, sig = "SUITE-CATCHES-IT (not a useful mutant)", out[-300:]
        else:
            env = dict(ENV, VERIF_REPO=WT)
            rc2, out2 = sh("./check %s --tier quick" % prop, cwd=VERIF, env=env)
            viol = [l for l in out2.split("\n") if l.startswith("VIOLATION") or l.startswith("  (")]
            verdict = "CAUGHT" if rc2 != 0 and viol else "MISSED"
            sig = " | ".join(l.strip()[:160] for l in viol[:4])
        results.append((mid, prop, desc, verdict, sig, round(time.time() - t0, 1)))
        open(path, "w").write(src)
        print(mid, prop, verdict, sig[:300], flush=True)
    sh("git checkout -q .", cwd=WT)
    json.dump([dict(id=a, property=b, mutant=c, verdict=d, signature=e, seconds=f) for a, b, c, d, e, f in results],
              open(os.path.join(os.path.dirname(os.path.abspath(__file__)), "results.json"), "w"), indent=1)

if __name__ == "__main__":
    main()
