//go:build verif

package acmelib

// Add-only accessors for the C12/C13 projection (injected with `go build -tags verif -overlay`;
// never committed to the repository).  Two facts of the model are not reachable through the
// public API: whether a bus still uses its own default CAN-ID builder, and whether a multiplexed
// signal is a fixed one (a signal inserted into every group by id is not).

// VerifBusHasDefaultCANIDBuilder reports bus.isDefCANIDBuilder.
func VerifBusHasDefaultCANIDBuilder(b *Bus) bool { return b.isDefCANIDBuilder }

// VerifMuxIsFixed reports whether the signal with the given id is in mux.fixedSignals.
func VerifMuxIsFixed(ms *MultiplexerSignal, id EntityID) bool { return ms.fixedSignals.hasKey(id) }
