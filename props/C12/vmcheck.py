"""vm_compute cross-check (DESIGN §3.3) shared by C12 and C13 (thorough tier).

A sample of the records of this run's case file (the projections observed on the Go side: N = network
built through the API, P = protobuf tree unmarshalled from the written bytes, L = outcome of
LoadNetwork) is embedded verbatim in a generated Coq file; `Eval vm_compute` of
`Acme.C12.VmCheck.check_cases` re-does the comparison of the OCaml driver inside Coq (parse the records
into the model's types, run save / load, print, compare) and must print `[]`.  For that sample neither
extraction nor the OCaml driver is trusted; what remains is this purely syntactic translation of the
s-expressions (parentheses -> `L [...]`, decimal tokens -> `Nz`, other tokens -> `A "..."`), which the
Coq side validates by printing every parsed record back (`sx_eqb (sx_net n) x`).

Negative test (every run): the same file with one observed number changed must NOT print `[]`."""
import os
import re
import subprocess
import time

import vlib

TOKEN = re.compile(r"[()]|[^\s()]+")
DEC = re.compile(r"^-?[0-9]+$")


def sx_to_coq(text):
    out = []
    stack = []      # number of items emitted at each open list
    for tok in TOKEN.findall(text):
        if tok == ")":
            stack.pop()
            out.append("]")
            continue
        if stack:
            if stack[-1]:
                out.append("; ")
            stack[-1] += 1
        if tok == "(":
            out.append("L [")
            stack.append(0)
        elif DEC.match(tok):
            out.append("Nz (%s)" % tok)
        else:
            out.append('A "%s"' % tok.replace('"', '""'))
    if stack:
        raise ValueError("unbalanced record")
    return "".join(out)


def read_cases(path, want, max_bytes, need_n, skip_cost=None):
    """Group the records of a case file by case id: {id: {"N": sexp or None, "P": {enc: sexp}, "L": {enc: sexp}}}.
    Returns `want` complete cases (evenly spaced over the first 40*want+400 of the file) whose records are at
    most max_bytes long in total."""
    cases, order = {}, []
    with open(path, encoding="utf-8", errors="replace") as f:
        for line in f:
            line = line.rstrip("\n")
            if len(line) < 4 or line[0] not in "NPL" or line[1] != " " or not line.endswith(")"):
                continue
            kind, rest = line[0], line[2:]
            cid, _, rest = rest.partition(" ")
            c = cases.get(cid)
            if c is None:
                c = cases[cid] = {"N": None, "P": {}, "L": {}, "bytes": 0}
                order.append(cid)
            c["bytes"] += len(rest)
            if kind == "N":
                c["N"] = rest
            else:
                enc, _, sx = rest.partition(" ")
                c[kind][enc] = sx
            if len(order) > 40 * want + 400:
                break
    picked = []
    for cid in order:
        c = cases[cid]
        pairs = [(c["P"][e], c["L"][e]) for e in c["P"] if e in c["L"]]
        if not pairs or (need_n and c["N"] is None) or c["bytes"] > max_bytes:
            continue
        if skip_cost and any(skip_cost(p) for p, _ in pairs):
            continue
        picked.append((cid, c["N"], pairs))
    if len(picked) > want:      # evenly spaced over what was read (a mix of generator phases and outcomes)
        step = len(picked) / float(want)
        picked = [picked[int(i * step)] for i in range(want)]
    return picked


def huge_counts(psx):
    """True when a tree holds a number of 5 or more digits in a size / count position, or many groups: the
    list-based model is quadratic there (same exclusion as the driver's cost bound)."""
    return psx.count("(g ") > 60 or re.search(r"\(mux \(sigs.*?\) \(fixed.*?\) [0-9]{4,} ", psx) is not None


def cases_v(cases):
    parts = ["From Coq Require Import ZArith List String.\nFrom Acme.C12 Require Import VmCheck.\n"
             "Import ListNotations.\nOpen Scope string_scope.\nOpen Scope Z_scope.\n"]
    names = []
    for i, (cid, n, pairs) in enumerate(cases):
        nm = "case_%d" % i
        names.append('("%s", %s)' % (cid.replace('"', ""), nm))
        nterm = "Some (%s)" % sx_to_coq(n) if n is not None else "None"
        pterm = "; ".join("(%s, %s)" % (sx_to_coq(p), sx_to_coq(l)) for p, l in pairs)
        parts.append("Definition %s : option sx * list (sx * sx) := (%s, [%s]).\n" % (nm, nterm, pterm))
    parts.append("Definition all_cases := [%s].\n" % "; ".join(names))
    parts.append("Eval vm_compute in (List.length all_cases, check_cases all_cases).\n")
    return "".join(parts)


def tamper(cases):
    """Change one observed number of the first L record that holds a loaded network (or flip the first
    outcome): the cross-check must report it."""
    out = [list(c) for c in cases]
    for c in out:
        pairs = list(c[2])
        for j, (p, l) in enumerate(pairs):
            m = re.search(r"\(msg \(e [^()]*\(t -?[0-9]+ -?[0-9]+\)\) ([0-9]+) ", l)
            if m:
                l2 = l[:m.start(1)] + str(int(m.group(1)) + 1) + l[m.end(1):]
                pairs[j] = (p, l2)
                c[2] = pairs
                return [tuple(x) for x in out], "message id %s -> %d in an observed loaded network of case %s" % (m.group(1), int(m.group(1)) + 1, c[0])
        for j, (p, l) in enumerate(pairs):
            if l == "(err)":
                pairs[j] = (p, "(ok (net))")
                c[2] = pairs
                return [tuple(x) for x in out], "outcome err -> ok in case %s" % c[0]
    return None, "no record to tamper with"


def coqc(vfile, timeout):
    t0 = time.time()
    try:
        p = subprocess.run(["coqc", "-R", vlib.COQ, "Acme", "-w", vlib.COQ_WARN, vfile], cwd=os.path.dirname(vfile),
                           stdout=subprocess.PIPE, stderr=subprocess.STDOUT, timeout=timeout)
        return p.returncode, p.stdout.decode("utf-8", "replace"), time.time() - t0
    except subprocess.TimeoutExpired:
        return 124, "[coqc timeout after %ss]" % timeout, time.time() - t0


RESULT = re.compile(r"=\s*\((\d+)%nat,\s*(.*?)\)\s*:\s*nat \*", re.S)


def verdict(out):
    """(number of cases evaluated, mismatch term) from the output of the Eval; (None, text) if absent."""
    m = RESULT.search(out)
    if not m:
        return None, out[-800:]
    return int(m.group(1)), re.sub(r"\s+", " ", m.group(2)).strip()


def cross_check(ctx, pid, case_file, want, need_n, max_bytes=120000, timeout=900):
    """Runs the cross-check and the negative test; records coverage; raises violations."""
    cases = read_cases(case_file, want, max_bytes, need_n, skip_cost=huge_counts)
    cov = {"cases": len(cases)}
    ctx.coverage["vm_compute_cross_check"] = cov
    if not cases:
        ctx.violation(pid.lower() + "-vmcompute-no-cases", "no case of this run could be embedded for the vm_compute cross-check",
                      {}, found_input=False)
        return
    d = os.path.join(ctx.scratch, "vmcheck_" + pid)
    os.makedirs(d, exist_ok=True)
    f = os.path.join(d, "cases_%s.v" % pid)
    open(f, "w").write(cases_v(cases))
    rc, out, secs = coqc(f, timeout)
    n, mism = verdict(out)
    cov.update({"records": sum((1 if c[1] is not None else 0) + 2 * len(c[2]) for c in cases),
                "source_bytes": os.path.getsize(f), "coqc_s": round(secs, 1), "evaluated": n, "mismatches": mism if n is not None else "n/a",
                "what": "Eval vm_compute of Acme.C12.VmCheck.check_cases on the records observed in this run, embedded verbatim; "
                        "expected []: no extraction / OCaml in the trusted base for this sample"})
    if rc != 0 or n != len(cases) or mism != "[]":
        ctx.violation(pid.lower() + "-vmcompute-cross-check",
                      "vm_compute cross-check of %d cases does not evaluate to [] (rc=%s): %s" % (len(cases), rc, (mism or out)[-1200:]),
                      {"cases_file": f, "coqc_output": out[-3000:]}, found_input=False)
    # negative test: a tampered observation must be reported
    tcases, how = tamper(cases[:8])
    cov["negative_test"] = how
    if tcases is None:
        return
    ft = os.path.join(d, "cases_%s_tampered.v" % pid)
    open(ft, "w").write(cases_v(tcases))
    rc2, out2, _ = coqc(ft, timeout)
    n2, mism2 = verdict(out2)
    cov["negative_test_result"] = (mism2 or "")[:300]
    if rc2 != 0 or n2 is None or mism2 == "[]":
        ctx.violation(pid.lower() + "-vmcompute-negative-test",
                      "the vm_compute cross-check did not report a tampered observation (%s): %s" % (how, (mism2 or out2)[-600:]),
                      {"cases_file": ft}, found_input=False)
