"""C13 — loading untrusted or inconsistent saves fails cleanly: error, or a network satisfying the
invariants; never a panic.

Proof: coq/Properties/C13.v over the loader model coq/C12/Load.v (load_total, load_ok_wf).
Tie: the Go harness of props/C12/harness (mode c13) mutates valid saves at the protobuf-tree level
(delete a sub-message, duplicate, retarget an id, change a oneof arm/kind, out-of-range numbers,
empty value lists, overlapping positions, duplicate keys, ...), writes each mutant in the three
encodings, adds byte/character-level mutants and random bytes, and runs acmelib.LoadNetwork on
each under recover() and a watchdog.  Outcome classes: error / ok + invariants (shared vinv
evaluators + id uniqueness) / PANIC / HANG.  Every input the decoder accepts is also run through
the extracted Coq loader and the two outcomes (and loaded networks) are compared."""
import importlib.util
import json
import os
import re
import vlib

PID = "C13"
HERE = os.path.dirname(os.path.abspath(__file__))
C12 = os.path.join(vlib.VERIF, "props", "C12")


def _c12():
    spec = importlib.util.spec_from_file_location("check_C12_lib", os.path.join(C12, "check.py"))
    mod = importlib.util.module_from_spec(spec)
    spec.loader.exec_module(mod)
    return mod


def run(ctx):
    ctx.level = "proof"
    c12 = _c12()
    status = vlib.proof_status(PID, extra_targets=["C12/Extract.v", "C12/VmCheck.v"])
    ctx.proof_gate(status)
    drv = c12.build_driver()
    exe, blog = c12.build_harness(ctx)
    if exe is None:
        ctx.violation("harness-build-failed", "Go harness does not build against the repository: " + blog[-800:],
                      {"log": blog[-3000:]}, found_input=False)
        ctx.coverage.update({"evaluations": 0})
        return
    quick = ctx.tier == "quick"
    env = vlib.goenv()
    ncases = 2400 if quick else 250000
    env.update({"VERIF_SEED": str(ctx.seed), "VERIF_CASES": str(ncases), "VERIF_WATCHDOG_S": "10" if quick else "20",
                "VERIF_DRIVER_BUDGET_S": "30" if quick else "1200"})
    if not quick:
        env["VERIF_TINY_ALL"] = "1"     # every input of length 0, 1 and 2 in the three encodings
    if ctx.replay:
        r = json.load(open(ctx.replay))
        inp = (r.get("replay") or {}).get("input")
        if inp:
            env["VERIF_REPLAY"] = inp
    # The harness is a memory-limited child with a wall-clock budget.  An input that brings the child down
    # (unrecoverable Go fatal error such as out of memory, or a kill by the timeout) was logged before the call:
    # it is reported, and a new child resumes right after it.
    import time
    t_start = time.time()
    total_budget = 75 if quick else 1500
    parts, outs, deaths, log = [], [], 0, ""
    skip_until = None
    while True:
        left = total_budget - (time.time() - t_start)
        if left < 3 or deaths > 12:
            break
        out = os.path.join(ctx.scratch, "c13_cases_%d.txt" % len(outs))
        outs.append(out)
        env["VERIF_BUDGET_S"] = str(int(left))
        if skip_until:
            env["VERIF_SKIP_UNTIL"] = skip_until
        rc, log = c12.run_limited([exe, "c13", out], env=env, timeout=int(left) + 25)
        if rc == 0 and os.path.exists(out + ".summary"):
            parts.append(c12.parse_summary(out + ".summary"))
            break
        # the child died
        deaths += 1
        if os.path.exists(out + ".partial"):
            parts.append(c12.parse_summary(out + ".partial"))
        last = ""
        if os.path.exists(out + ".progress"):
            last = open(out + ".progress", errors="replace").read().strip()
        f = last.split(" ", 3)
        if len(f) < 3:
            ctx.violation("impl-run-failed", "harness died before the first input (rc=%s): %s" % (rc, log[-600:]),
                          {"log": log[-3000:]}, found_input=False)
            break
        cid, enc, hexdata = f[0], f[1], f[2]
        descr = f[3] if len(f) > 3 else ""
        m = re.search(r"fatal error: [^\n]*", log)
        why = m.group(0) if m else ("killed by the watchdog" if rc == 124 else "rc=%s" % rc)
        site = "unknown"
        for fr in re.findall(r"github\.com/squadracorsepolito/acmelib\.([\w.()*]+)\(", log):
            if not fr.startswith("LoadNetwork"):
                site = fr
                break
        kind = "out-of-memory" if "out of memory" in why or "cannot allocate" in why else ("timeout" if rc == 124 else "fatal")
        ctx.violation("c13-fatal@%s:%s" % (site, kind),
                      "LoadNetwork(%s) brings the process down (%s, memory limit %d GiB) in %s; input (%d bytes): %s" %
                      (enc, why, c12.MEM_LIMIT >> 30, site, len(hexdata) // 2, descr[:300]),
                      {"input": "%s %s" % (enc, hexdata), "format": "<encoding> <hex bytes>", "how": "./check C13 --replay <this file>",
                       "detail": descr, "log_tail": log[-1500:]})
        if ctx.replay:
            break
        skip_until = "%s %s" % (cid, enc)
    if not parts:
        ctx.coverage.update({"evaluations": 0})
        ctx.violation("impl-run-failed", "harness produced no summary: " + log[-600:], {"log": log[-3000:]}, found_input=False)
        return
    summ = c12.merge_summaries(parts)
    summ["hist"]["harness-children-killed-and-resumed"] = deaths
    finished = bool(outs) and os.path.exists(outs[-1] + ".summary")
    if not ctx.replay and deaths > 12:
        ctx.violation("c13-harness-died-repeatedly", "the harness child died %d times; the run was cut short after input %s" % (deaths, skip_until),
                      {"log": log[-3000:]}, found_input=False)
    for sig, replay, desc in summ["fails"]:
        ctx.violation(sig, "C13 fails on the implementation: " + desc[:700],
                      {"input": replay, "format": "<encoding> <hex bytes>", "how": "./check C13 --replay <this file>", "detail": desc})
    allcases = os.path.join(ctx.scratch, "c13_all_cases.txt")
    with open(allcases, "wb") as fo:
        for o in outs:
            if os.path.exists(o):
                data = open(o, "rb").read()
                fo.write(data if data.endswith(b"\n") or not data else data + b"\n")
    rc2, mlog = c12.run_limited([drv, allcases], env=env, timeout=70 if quick else 3000)
    m = re.search(r"CHECKS (\d+) MISMATCHES (\d+) WFFAIL (\d+)", mlog)
    checks, mism, wff = (int(m.group(1)), int(m.group(2)), int(m.group(3))) if m else (0, -1, -1)
    m2 = re.search(r"LOADS ok (\d+) err (\d+)", mlog)
    m3 = re.search(r"WFSKIP (\d+)", mlog)
    m4 = re.search(r"MODELSKIP (\d+)", mlog)
    if checks <= 0 and not ctx.replay:
        ctx.violation("c13-no-model-checks", "the model side of the check did not run (driver rc=%s): %s" % (rc2, mlog[-600:]),
                      {"driver_output": mlog[-3000:]}, found_input=False)
    want = c12.count_records(allcases)
    if not ctx.replay:
        prob = c12.driver_count_problem(mlog, want)
        ends_expected = 1 if finished else 0
        if prob or want["END"] != ends_expected:
            ctx.violation("c13-driver-count", "model side incomplete: %s (END markers: %d, expected %d)" % (prob or "counts agree", want["END"], ends_expected),
                          {"driver_output": mlog[-2000:]}, found_input=False)
        # every leg has a floor (half of an undisturbed run): inputs evaluated, inputs the model compared
        floor_ev = ncases // 2 if quick else ncases * 4 // 10
        floor_cases = ncases // 5      # mutated trees + byte-level cases are 40 % of VERIF_CASES; half of that
        if summ.get("cases", 0) < floor_cases:
            ctx.violation("c13-too-few-evaluations", "only %d mutated trees / byte-level cases were generated (floor %d); harness finished: %s"
                          % (summ.get("cases", 0), floor_cases, finished), {}, found_input=False)
        if summ.get("evaluations", 0) < floor_ev or want["L"] < floor_ev * 8 // 10 or checks < floor_ev * 7 // 10:
            ctx.violation("c13-too-few-evaluations", "the run covered too little: %d inputs evaluated (floor %d), %d load records (floor %d), %d compared by the model (floor %d); "
                          "harness finished: %s, children killed: %d" % (summ.get("evaluations", 0), floor_ev, want["L"], floor_ev * 8 // 10, checks, floor_ev * 7 // 10, finished, deaths),
                          {}, found_input=False)
        ctx.min_evaluations = floor_ev
    known_sigs = {k["signature"] for k in ctx.known_open}
    new_fails = [f for f in summ["fails"] if f[0] not in known_sigs]
    if (mism != 0 or wff != 0) and not new_fails:
        first = "\n".join(l for l in mlog.split("\n") if l.startswith(("MISMATCH", "MODELRT", "WFFAIL", "DRIVERERR")))[:1500]
        ctx.violation("c13-correspondence", "loader model and implementation disagree (%s mismatches, %s model-loaded networks not well-formed); "
                      "the theorems of Properties/C13.v no longer speak about this code: %s" % (mism, wff, first),
                      {"correspondence": "props/C13 load outcome / loaded network comparison", "driver_output": mlog[:4000]}, found_input=False)
    if ctx.replay:
        print(log[-1500:])
        print(mlog[-3000:])
    ctx.coverage["budget_exhausted"] = bool(summ["hist"].get("budget-exhausted")) or "BUDGET exhausted" in mlog
    hist = summ["hist"]
    ctx.coverage.update({
        "evaluations": summ.get("evaluations", 0),
        "mutated_trees_and_byte_cases": summ.get("cases", 0),
        "distinct_nontrivial": summ.get("nontrivial", 0),
        "rule": "evaluation = one guarded LoadNetwork call on one input (encoding, bytes). Inputs: valid saves of generated "
                "networks mutated at the protobuf-tree level by 1-3 of 29 mutation kinds (incl. huge size / count fields alone and jointly, loaded in memory-limited one-shot children) and written in wire, JSON and text; "
                "byte/character-level mutants of valid saves per encoding; random byte strings; every input of length 0 and 1, the 2-byte inputs (all of them in the thorough tier), 1-3 byte prefixes of valid saves and of a byte order mark. Every successfully loaded network is also used under recover (GetCANID, builder operations, Decode, ExportBus, String, SaveNetwork). "
                "non-trivial = distinct input that the decoder accepts (it reaches the loader proper and is also run through "
                "the Coq loader model)",
        "distribution": {k: v for k, v in hist.items() if not k.startswith("base-")},
        "base_networks_histogram": {k[5:]: v for k, v in hist.items() if k.startswith("base-")},
        "model_checks": checks,
        "model_mismatches": mism,
        "model_wf_failures": wff,
        "model_loads": {"ok": int(m2.group(1)), "err": int(m2.group(2))} if m2 else {},
        "model_skipped_above_cost_bound": int(m4.group(1)) if m4 else 0,
        "wfb_reevaluation_skipped_large_group_count": int(m3.group(1)) if m3 else 0,
        "property_predicate_failures": sorted(s for s, _, _ in summ["fails"]),
        "samples": summ["samples"][:3] or ["(no sample)"],
        "exhaustive": False,
        "trusted_base": [
            "Coq 8.16.1 kernel (coqc; coqchk in the thorough tier)",
            ("axioms: none (Print Assumptions: Closed under the global context)" if not status["axioms"] else "axioms: " + ", ".join(status["axioms"])),
            "extraction (ExtrOcamlBasic, ExtrOcamlString) + OCaml 4.13.1 + props/C12/driver/c12_driver.ml",
            "thorough tier: a sample of the inputs is re-checked by Eval vm_compute inside Coq (coq/C12/VmCheck.v, props/C12/vmcheck.py): for that sample extraction, OCaml and the driver are not trusted",
            "Go harness props/C12/harness (mutators, guarded runner with recover + 20 s watchdog, projection) and the shared invariant evaluators props/common/vinv",
            "the protobuf decoders (wire/JSON/text) are not modelled: the loader model starts at the decoded message tree; absence of panics inside the decoders is observed by the run only",
            "absence of Go panics is established by exploration, not by the theorem (the model is total by construction)",
        ],
    })
    ctx.assumptions = [
        "every child runs under RLIMIT_AS = 4 GiB, a per-input watchdog and a wall-clock budget; an input that kills the child is a violation (c13-fatal@<site>:<kind>)",
        "which of several failing checks is reported (Go map iteration order) is not compared, only error vs success and the loaded network",
        "inputs whose flattened multiplexer tree exceeds 6000 signals (group count x fixed members) are judged on the Go side only: the list based model is quadratic there (count in coverage.model_skipped_above_cost_bound)",
    ]
    if ctx.tier == "thorough" or os.environ.get("VERIF_VMCHECK"):
        spec = importlib.util.spec_from_file_location("c12_vmcheck", os.path.join(C12, "vmcheck.py"))
        vm = importlib.util.module_from_spec(spec)
        spec.loader.exec_module(vm)
        vm.cross_check(ctx, PID, allcases, want=150, need_n=False, max_bytes=60000)
    if ctx.tier == "thorough":
        ok, chk = vlib.coqchk(PID)
        ctx.coverage["coqchk"] = "ok" if ok else "FAILED"
        ctx.coverage["coqchk_tail"] = chk[-1500:]
        if not ok:
            ctx.proof_problems = (getattr(ctx, "proof_problems", []) or []) + ["coqchk failed: " + chk[-500:]]
