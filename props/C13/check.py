"""C13 — loading untrusted or inconsistent saves fails cleanly: error, or a network satisfying the
invariants; never a panic.

Proof: coq/Properties/C13.v over the loader model coq/C12/Load.v (load_total, load_ok_wf).
Tie: the Go harness of props/C12/harness (mode c13) mutates valid saves at the protobuf-tree level
(delete a sub-message, duplicate, retarget an id, change a oneof arm/kind, out-of-range numbers,
empty value lists, overlapping positions, duplicate keys, ...), writes each mutant in the three
encodings, adds byte/character-level mutants and random bytes, and runs acmelib.LoadNetwork on
each under recover() and a watchdog.  Outcome classes: error / ok + invariants (shared vinv
evaluators + id uniqueness) / PANIC / HANG.  Every input the decoder accepts is also run through
the extracted Coq loader and the two outcomes (and loaded networks) are compared."""
import importlib.util
import json
import os
import re
import vlib

PID = "C13"
HERE = os.path.dirname(os.path.abspath(__file__))
C12 = os.path.join(vlib.VERIF, "props", "C12")


def _c12():
    spec = importlib.util.spec_from_file_location("check_C12_lib", os.path.join(C12, "check.py"))
    mod = importlib.util.module_from_spec(spec)
    spec.loader.exec_module(mod)
    return mod


def run(ctx):
    ctx.level = "proof"
    c12 = _c12()
    status = vlib.proof_status(PID, extra_targets=["C12/Extract.v"])
    ctx.proof_gate(status)
    drv = vlib.build_ocaml_driver("c12_driver", os.path.join(vlib.COQ, "extracted"),
                                  os.path.join(C12, "driver", "c12_driver.ml"), only=["c12_model"])
    exe, blog = c12.build_harness(ctx)
    if exe is None:
        ctx.violation("harness-build-failed", "Go harness does not build against the repository: " + blog[-800:],
                      {"log": blog[-3000:]}, found_input=False)
        ctx.coverage.update({"evaluations": 0})
        return
    out = os.path.join(ctx.scratch, "c13_cases.txt")
    env = vlib.goenv()
    ncases = 2400 if ctx.tier == "quick" else 100000
    env.update({"VERIF_SEED": str(ctx.seed), "VERIF_CASES": str(ncases)})
    if ctx.replay:
        r = json.load(open(ctx.replay))
        inp = (r.get("replay") or {}).get("input")
        if inp:
            env["VERIF_REPLAY"] = inp
    rc, log = vlib.sh([exe, "c13", out], env=env, timeout=3400)
    if rc != 0 or not os.path.exists(out + ".summary"):
        # the process died (unrecoverable fatal error / kill): the last logged input is the culprit
        last = ""
        if os.path.exists(out + ".progress"):
            lines = open(out + ".progress").read().strip().split("\n")
            last = lines[-1] if lines else ""
        m = re.search(r"fatal error: .*|panic: .*|signal: .*", log)
        parts = last.split(" ", 2)
        ctx.violation("c13-process-died", "LoadNetwork brought the process down (%s) on input %s" % (m.group(0) if m else "rc=%d" % rc, last[:200]),
                      {"input": " ".join(parts[1:]) if len(parts) == 3 else "", "log": log[-2000:]}, found_input=bool(last))
        ctx.coverage.update({"evaluations": 0})
        return
    summ = c12.parse_summary(out + ".summary")
    for sig, replay, desc in summ["fails"]:
        ctx.violation(sig, "C13 fails on the implementation: " + desc[:700],
                      {"input": replay, "format": "<encoding> <hex bytes>", "how": "./check C13 --replay <this file>", "detail": desc})
    rc2, mlog = vlib.sh([drv, out], timeout=3400)
    m = re.search(r"CHECKS (\d+) MISMATCHES (\d+) WFFAIL (\d+)", mlog)
    checks, mism, wff = (int(m.group(1)), int(m.group(2)), int(m.group(3))) if m else (0, -1, -1)
    m2 = re.search(r"LOADS ok (\d+) err (\d+)", mlog)
    m3 = re.search(r"WFSKIP (\d+)", mlog)
    m4 = re.search(r"MODELSKIP (\d+)", mlog)
    known_sigs = {k["signature"] for k in ctx.known_open}
    new_fails = [f for f in summ["fails"] if f[0] not in known_sigs]
    if (mism != 0 or wff != 0) and not new_fails:
        first = "\n".join(l for l in mlog.split("\n") if l.startswith(("MISMATCH", "MODELRT", "WFFAIL", "DRIVERERR")))[:1500]
        ctx.violation("c13-correspondence", "loader model and implementation disagree (%s mismatches, %s model-loaded networks not well-formed); "
                      "the theorems of Properties/C13.v no longer speak about this code: %s" % (mism, wff, first),
                      {"correspondence": "props/C13 load outcome / loaded network comparison", "driver_output": mlog[:4000]}, found_input=False)
    if ctx.replay:
        print(log[-1500:])
        print(mlog[-3000:])
    hist = summ["hist"]
    ctx.coverage.update({
        "evaluations": summ.get("evaluations", 0),
        "mutated_trees_and_byte_cases": summ.get("cases", 0),
        "distinct_nontrivial": summ.get("nontrivial", 0),
        "rule": "evaluation = one guarded LoadNetwork call on one input (encoding, bytes). Inputs: valid saves of generated "
                "networks mutated at the protobuf-tree level by 1-3 of 21 mutation kinds and written in wire, JSON and text; "
                "byte/character-level mutants of valid saves per encoding; random byte strings; the empty input. "
                "non-trivial = distinct input that the decoder accepts (it reaches the loader proper and is also run through "
                "the Coq loader model)",
        "distribution": {k: v for k, v in hist.items() if not k.startswith("base-")},
        "base_networks_histogram": {k[5:]: v for k, v in hist.items() if k.startswith("base-")},
        "model_checks": checks,
        "model_mismatches": mism,
        "model_wf_failures": wff,
        "model_loads": {"ok": int(m2.group(1)), "err": int(m2.group(2))} if m2 else {},
        "model_skipped_above_cost_bound": int(m4.group(1)) if m4 else 0,
        "wfb_reevaluation_skipped_large_group_count": int(m3.group(1)) if m3 else 0,
        "property_predicate_failures": sorted(s for s, _, _ in summ["fails"]),
        "samples": summ["samples"][:3] or ["(no sample)"],
        "exhaustive": False,
        "trusted_base": [
            "Coq 8.16.1 kernel (coqc; coqchk in the thorough tier)",
            ("axioms: none (Print Assumptions: Closed under the global context)" if not status["axioms"] else "axioms: " + ", ".join(status["axioms"])),
            "extraction (ExtrOcamlBasic, ExtrOcamlString) + OCaml 4.13.1 + props/C12/driver/c12_driver.ml",
            "Go harness props/C12/harness (mutators, guarded runner with recover + 20 s watchdog, projection) and the shared invariant evaluators props/common/vinv",
            "the protobuf decoders (wire/JSON/text) are not modelled: the loader model starts at the decoded message tree; absence of panics inside the decoders is observed by the run only",
            "absence of Go panics is established by exploration, not by the theorem (the model is total by construction)",
        ],
    })
    ctx.assumptions = [
        "group_count and interface_count <= 65536: the loader allocates one layout / interface per unit eagerly (inputs above the bound are skipped and counted under 'skipped-count-above-2^16')",
        "which of several failing checks is reported (Go map iteration order) is not compared, only error vs success and the loaded network",
        "inputs whose flattened multiplexer tree exceeds 6000 signals (group count x fixed members) are judged on the Go side only: the list based model is quadratic there (count in coverage.model_skipped_above_cost_bound)",
    ]
    if ctx.tier == "thorough":
        ok, chk = vlib.coqchk(PID)
        ctx.coverage["coqchk"] = "ok" if ok else "FAILED"
        ctx.coverage["coqchk_tail"] = chk[-1500:]
        if not ok:
            ctx.proof_problems = (getattr(ctx, "proof_problems", []) or []) + ["coqchk failed: " + chk[-500:]]
