"""C14 — CAN-IDs are the documented function of static id, builder, priority and ids.
Proof: coq/Properties/C14.v (model coq/C14/Model.v).  Tie: props/C14/harness (a Go module using
only acmelib's public API, built against the repo under check on every run) generates builder
edit histories and message/node/bus histories, records what the implementation did, and evaluates
the property formulas directly; props/C14/driver recomputes every observation with the extracted
Coq model."""
import json
import os
import re

import vlib

PID = "C14"


def build_harness(ctx):
    hdir = vlib.go_harness_dir(ctx.prop_dir, ctx.scratch)
    exe = os.path.join(ctx.scratch, "c14h")
    rc, log = vlib.sh(["go", "build", "-o", exe, "."], cwd=hdir, env=vlib.goenv(), timeout=900)
    return (exe if rc == 0 else None), log


def run_impl(ctx, exe, replay_case=None):
    out = os.path.join(ctx.scratch, "cases.txt")
    env = vlib.goenv()
    env.update({"VERIF_OUT": out, "VERIF_SEED": str(ctx.seed), "VERIF_TIER": ctx.tier})
    if replay_case:
        env["VERIF_REPLAY_CASE"] = replay_case
    rc, log = vlib.sh([exe], env=env, timeout=2400)
    return rc, log, out


def parse_summary(path):
    d = {"hist": {}, "propfail": {}, "samples": []}
    if not os.path.exists(path):
        return d
    for line in open(path):
        p = line.rstrip("\n").split(" ", 2)
        if p[0] == "hist":
            d["hist"][p[1]] = int(p[2])
        elif p[0] == "PROPFAIL":
            d["propfail"][p[1]] = p[2]
        elif p[0] == "SAMPLE":
            d["samples"].append(line.rstrip("\n")[7:][:700])
        else:
            d[p[0]] = int(p[1])
    return d


KIND = {"0": "KPriority", "1": "KMessageID", "2": "KNodeID", "3": "KBitMask", "u": "KUnknown"}


def vm_cross_check(ctx, out, limit=400):
    """Thorough tier: re-evaluate a sample of the implementation's Calculate results inside Coq
    (vm_compute on the very definitions the theorems are about; no extraction, no OCaml)."""
    rows = []
    with open(out) as f:
        for i, line in enumerate(f):
            if i % 37 != 0 or not line.startswith("B;"):
                continue
            parts = line.rstrip("\n").split(";")
            if len(parts) != 4 or "#" not in parts[3]:
                continue
            eobs, cobs = parts[3].split("#", 1)
            ops_s = eobs.split("/")[-1].split("|", 1)[1] if eobs else "-"
            ops = []
            if ops_s != "-":
                for o in ops_s.split(","):
                    k, fr, ln = o.split(".")
                    ops.append("mkOp %s (%s) (%s)" % (KIND[k], fr, ln))
            for t, c in zip(parts[2].split(), cobs.split("/")):
                p, m, n = t.split(":")
                rows.append("([%s], %s, %s, %s, %s)" % ("; ".join(ops), p, m, n, c.split("=")[0]))
            if len(rows) >= limit:
                break
    if not rows:
        return True, "no rows"
    src = os.path.join(ctx.scratch, "c14_cross.v")
    with open(src, "w") as f:
        f.write("From Coq Require Import ZArith List Bool.\nFrom Acme.C14 Require Import Model.\nImport ListNotations.\nOpen Scope Z_scope.\n")
        f.write("Definition rows : list (list op * Z * Z * Z * Z) := [\n  " + ";\n  ".join(rows) + "].\n")
        f.write("Definition bad := filter (fun r => match r with (ops, p, m, n, e) => negb (calculate ops p m n =? e) end) rows.\n")
        f.write("Definition nbad := Eval vm_compute in length bad.\nPrint nbad.\n")
    rc, log = vlib.sh(["coqc", "-R", vlib.COQ, "Acme", src], cwd=ctx.scratch, timeout=900)
    ok = rc == 0 and re.search(r"nbad\s*=\s*0%?\w*\s*\n?\s*:\s*nat", log) is not None
    return ok, "%d rows; %s" % (len(rows), log[-300:])


def run(ctx):
    ctx.level = "proof"
    status = vlib.proof_status(PID, extra_targets=["C14/Extract.v"])
    ctx.proof_gate(status)
    drv = vlib.build_ocaml_driver("c14_driver", os.path.join(vlib.COQ, "extracted"),
                                  os.path.join(ctx.prop_dir, "driver", "c14_driver.ml"), only=["c14_model"])
    replay_case = None
    if ctx.replay:
        r = json.load(open(ctx.replay))
        replay_case = (r.get("replay") or {}).get("case")

    exe, blog = build_harness(ctx)
    if exe is None:
        ctx.violation("c14-harness-build", "the public-API harness no longer builds against the repository: " + blog[-800:],
                      {"log": blog[-3000:]}, found_input=False)
        ctx.coverage.update({"evaluations": 0})
        return
    rc, log, out = run_impl(ctx, exe, replay_case)
    if rc != 0 or not os.path.exists(out + ".summary"):
        m = re.search(r"(panic: .*|fatal error: .*)", log)
        ctx.violation("c14-impl-run-failed", "harness run failed (%s): %s" % (m.group(0) if m else "rc=%d" % rc, log[-600:]),
                      {"log": log[-3000:]}, found_input=bool(m))
        ctx.coverage.update({"evaluations": 0})
        return
    summ = parse_summary(out + ".summary")
    rc2, mlog = vlib.sh([drv, out], timeout=2400)
    m = re.search(r"CASES (\d+) MISMATCHES (\d+)", mlog)
    mism = int(m.group(2)) if m else -1
    compared = int(m.group(1)) if m else -1
    ctx.min_evaluations = 2000000 if ctx.tier == "thorough" else 60000
    if not ctx.replay and (rc2 != 0 or compared != summ.get("cases", -2)):
        # zero-comparison guard: the driver must have read, to the END marker, exactly the cases the harness generated
        ctx.violation("c14-driver-count", "the model driver compared %d cases (rc %d), the harness generated %s: %s"
                      % (compared, rc2, summ.get("cases"), mlog[-300:]), {"driver_output": mlog[-2000:]}, found_input=False)

    # property-level failures on the implementation (a concrete failing input each)
    for kind, d in sorted(summ["propfail"].items()):
        detail, _, case = d.partition("; case ")
        ctx.violation("c14-" + kind, "acmelib breaks C14 (%s): %s" % (kind, detail),
                      {"case": case, "detail": detail, "how": "./check C14 --replay <this file>"})
    known = {k["signature"] for k in ctx.known_open}
    new_propfail = [k for k in summ["propfail"] if "c14-" + k not in known]
    if mism != 0 and not new_propfail:
        # model and implementation disagree although every property formula the harness evaluates
        # holds (this can only concern shapes the property does not constrain, e.g. unvalidated
        # from/len passed to Use*): the theorems no longer describe this code
        first = re.search(r"MISMATCH \d+\n  case =(.*)\n  impl =(.*)\n  model=(.*)", mlog)
        fam = first.group(1)[:1] if first else "?"
        ctx.violation("c14-correspondence-" + fam,
                      "model and implementation disagree on %s case(s); the theorems of Properties/C14.v no longer speak "
                      "about this code. first: %s" % (mism, first.group(0)[:900] if first else mlog[-500:]),
                      {"case": first.group(1) if first else None, "correspondence": "props/C14 observation comparison",
                       "driver_output": mlog[:3000]}, found_input=False)
    if ctx.replay:
        print(open(out).read()[:4000])
        print(mlog)

    ctx.coverage.update({
        "evaluations": summ.get("evaluations", 0),
        "cases": summ.get("cases", 0),
        "distinct_cases": summ.get("distinct", 0),
        "distinct_nontrivial": summ.get("nontrivial", 0),
        "rule": "evaluations = Calculate/CalculatePartials calls on a (priority, id, node id) triple + GetCANID observations, every "
                "one compared with the Coq model and with the property formula evaluated in Go. Cases: all 4 x 560 legal single "
                "operations (through InsertOperation, alone and after an operation that makes the previous value an arbitrary "
                "32-bit word) x boundary/random 32-bit triples; the same shapes through Use*; every pair of boundary ints as "
                "unvalidated (from, len) through Use*; all boundary combinations of (from, len, index) for InsertOperation and "
                "RemoveOperation on builders of 0/1/3 operations; builders ending in UseCAN2A; seeded random edit histories with "
                "lists of at most 8 operations; message/node/bus/builder-pool histories visiting every attachment state through every "
                "detach path of the public API, with builders made by InsertOperation, shared by two buses and replaced mid-history; "
                "at the end of each history whose final state is expressible the network is saved (wire) and loaded and GetCANID of "
                "every message is compared with the original (and, for the observed message, with the model). "
                "non-trivial = distinct case in which, for a B case, some operation changed the running value on some triple with "
                "all operations legal, or, for a W case, at least two attachment states were seen and the bus builder was applied",
        "distribution": summ["hist"],
        "model_mismatches": mism,
        "property_predicate_failures": sorted(summ["propfail"]),
        "samples": summ["samples"][:8],
        "exhaustive": False,
        "trusted_base": [
            "Coq 8.16.1 kernel (coqc; coqchk in the thorough tier); vm_compute only in two closed Examples and the thorough cross-check",
            "axioms: none (Print Assumptions: Closed under the global context)" if not status["axioms"] else "axioms: " + ", ".join(status["axioms"]),
            "extraction (ExtrOcamlBasic only, no Extract Constant/Inductive of our own) + OCaml 4.13.1 + props/C14/driver/c14_driver.ml (zarith for decimal I/O)",
            "Go harness props/C14/harness/main.go (generators, observation printer, the property formulas written with 64-bit arithmetic and bit by bit)",
            "model coq/C14/Model.v is a hand-written restatement of canid_builder.go and Message.GetCANID; tied by the observation-level correspondence above; uint32 conversion/shift semantics written explicitly",
        ],
    })
    ctx.assumptions = [
        "Go int is 64 bits (from/len/index are ints; the model is total over Z and the uint32 conversion absorbs the int64 wrap of 32-len)",
        "the success paths of SetStaticCANID/UpdateID/AddSentMessage/RemoveSentMessage/AddNodeInterface/RemoveNodeInterface are as modelled in wstep (their bookkeeping is the subject of C04-C06); refusals observed in the run leave both sides unchanged",
        "Bus.SetCANIDBuilder(nil) installs a new default builder (bus.go since d47e551); modelled (WSetBuilderNil, world_nil_builder) and generated",
    ]
    if ctx.tier == "thorough":
        ok, chk = vlib.coqchk(PID)
        ctx.coverage["coqchk"] = "ok" if ok else "FAILED"
        ctx.coverage["coqchk_tail"] = chk[-1500:]
        if not ok:
            ctx.proof_problems = (getattr(ctx, "proof_problems", []) or []) + ["coqchk failed: " + chk[-500:]]
        okx, xlog = vm_cross_check(ctx, out)
        ctx.coverage["vm_compute_cross_check"] = ("ok: " if okx else "FAILED: ") + xlog[:200]
        if not okx:
            ctx.violation("c14-vm-cross-check", "Calculate results of the implementation differ from `Eval vm_compute` of the model inside Coq "
                          "(or the cross-check file no longer compiles): " + xlog[-600:], {"log": xlog[-2000:]}, found_input=False)
