(* Correspondence driver for C14: reads the case file written by the Go harness
   (props/C14/harness), recomputes every observation with the extracted Coq model
   (coq/extracted/c14_model.ml) and prints one MISMATCH block per disagreeing case.
     B;<edits>;<triples>;<obs>
     W;<mid>:<nid>;<npool>;<wops>;<obs>;L=<CAN-ID of the message after save + load | - | skip>
     D;<operations of the default builder of a new bus>                              *)
module BZ = Z   (* zarith; the extracted model defines its own module Z *)
open C14_model

let rec pos_of_z (n : BZ.t) : positive =
  if BZ.equal n BZ.one then XH
  else if BZ.testbit n 0 then XI (pos_of_z (BZ.shift_right n 1))
  else XO (pos_of_z (BZ.shift_right n 1))

let coqz_of_z (n : BZ.t) : z =
  if BZ.sign n = 0 then Z0 else if BZ.sign n > 0 then Zpos (pos_of_z n) else Zneg (pos_of_z (BZ.neg n))

let rec z_of_pos = function
  | XH -> BZ.one
  | XO p -> BZ.shift_left (z_of_pos p) 1
  | XI p -> BZ.succ (BZ.shift_left (z_of_pos p) 1)

let z_of_coqz = function Z0 -> BZ.zero | Zpos p -> z_of_pos p | Zneg p -> BZ.neg (z_of_pos p)
let cz s = coqz_of_z (BZ.of_string s)
let zs z = BZ.to_string (z_of_coqz z)
let rec nat_of_int n = if n <= 0 then O else S (nat_of_int (n - 1))

let kind_of s = match s with
  | "0" -> KPriority | "1" -> KMessageID | "2" -> KNodeID | "3" -> KBitMask | _ -> KUnknown
let kind_str = function
  | KPriority -> "0" | KMessageID -> "1" | KNodeID -> "2" | KBitMask -> "3" | KUnknown -> "u"

(* ArgumentError.Name of a refused InsertOperation / RemoveOperation, in the order the code checks *)
let err_flag = function ErrFrom -> "Efrom" | ErrLength -> "Elength" | ErrOpIndex -> "EopIndex"

let ops_str ops =
  if ops = [] then "-"
  else String.concat "," (List.map (fun o -> Printf.sprintf "%s.%s.%s" (kind_str o.op_kind) (zs o.op_from) (zs o.op_len)) ops)

(* an edit token, fields separated by `sep` *)
let parse_edit sep tok : edit =
  match String.split_on_char sep tok with
  | ["U"; k; f; l] ->
    let k = kind_of k in
    (* UseMessagePriority has a fixed length of 2 *)
    EUse (k, cz f, (if k = KPriority then cz "2" else cz l))
  | ["A"] -> EUse (KBitMask, cz "0", cz "11")
  | ["I"; k; f; l; i] -> EInsert (kind_of k, cz f, cz l, cz i)
  | ["R"; i] -> ERemove (cz i)
  | ["X"] -> ERemoveAll
  | _ -> failwith ("bad edit " ^ tok)

let fields s = List.filter (fun x -> x <> "") (String.split_on_char ' ' s)

let run_b edits_s triples_s =
  let edits = List.map (parse_edit ':') (fields edits_s) in
  let ops = ref [] in
  let eobs = List.map (fun e ->
      match apply_edit !ops e with
      | Ok l -> ops := l; "K|" ^ ops_str l
      | Err er -> err_flag er ^ "|" ^ ops_str !ops) edits in
  let cobs = List.map (fun t ->
      match String.split_on_char ':' t with
      | [p; m; n] ->
        let p = cz p and m = cz m and n = cz n in
        let c = calculate !ops p m n in
        let ps = calculate_partials !ops p m n in
        zs c ^ "=" ^ String.concat "," (List.map zs ps)
      | _ -> failwith "bad triple") (fields triples_s) in
  String.concat "/" eobs ^ "#" ^ String.concat "/" cobs


(* the model predicts every refusal (`accepted`); nothing is copied from the implementation *)
let run_w ids npool wops_s =
  let mid, nid, sib, n2, bigid, st2, gw = match String.split_on_char ':' ids with
    | [a; b; c; d; e; f; g] -> cz a, cz b, cz c, cz d, cz e, (if f = "-1" then None else Some (cz f)), cz g
    | _ -> failwith "bad ids" in
  let pool = List.init (int_of_string npool) (fun _ -> []) in
  let w = ref (init_world mid nid sib n2 bigid gw st2 pool) in
  let toks = fields wops_s in
  let obs = List.map (fun tok ->
      let parts = String.split_on_char ':' tok in
      let nat s = nat_of_int (int_of_string s) in
      let o, edit_flag =
        match parts with
        | "Ed" :: i :: rest ->
          let e = parse_edit ',' (String.concat ":" rest) in
          let b = nth (nat i) !w.w_builders [] in
          WEdit (nat i, e), Some (match apply_edit b e with Ok _ -> "K" | Err er -> err_flag er)
        | ["P"; v] -> WSetPriority (cz v), None
        | ["S"; v] -> WSetStatic (cz v), None
        | ["D"; v] -> WUpdateID (cz v), None
        | ["N"; v] -> WNodeID (cz v), None
        | ["At"] -> WAttach, None
        | ["De"] -> WDetach, None
        | ["DeA"] -> WDetachAll, None
        | ["Bg+"] -> WBigAdd, None
        | ["Bg-"] -> WBigRemove, None
        | ["Ba"] -> WBusAdd, None
        | ["Br"] -> WBusRemove, None
        | ["BrA"] -> WBusRemoveAll, None
        | ["Ri"] -> WRemoveInterface, None
        | ["Na"] -> WNetAdd, None
        | ["Nr"] -> WNetRemove, None
        | ["Ba2"] -> WBusAdd2, None
        | ["Br2"] -> WBusRemove2, None
        | ["SbB"; i] -> WSetBuilderB (nat i), None
        | ["Sb"; i] -> WSetBuilder (nat i), None
        | ["SbN"] -> WSetBuilderNil, None
        | _ -> failwith ("bad wop " ^ tok) in
      let flag = match edit_flag with
        | Some f -> f
        | None -> if accepted !w o then "K" else "E" in
      w := wstep !w o;
      Printf.sprintf "%s:%s:%s:%s:%d:%s:%s" flag (zs (world_can_id !w)) (zs !w.w_id) (zs !w.w_prio)
        (if !w.w_has_static then 1 else 0) (zs !w.w_node_id) (zs (gateway_can_id !w))) toks in
  (* the save / load leg: the message is saved iff it is attached to an interface that is on the
     bus, and then keeps its CAN-ID *)
  let loaded = if !w.w_attached && !w.w_on_bus then zs (world_can_id !w) else "-" in
  String.concat "/" obs, loaded

let () =
  let ic = open_in Sys.argv.(1) in
  let n = ref 0 and bad = ref 0 and end_seen = ref (-1) in
  (try while true do
      let line = input_line ic in
      if String.length line >= 4 && String.sub line 0 4 = "END " then begin
        end_seen := int_of_string (String.sub line 4 (String.length line - 4));
        raise End_of_file
      end;
      incr n;
      let impl, model =
        match String.split_on_char ';' line with
        | ["B"; e; t; obs] -> obs, run_b e t
        | ["W"; ids; np; ops; obs; l] ->
          let mobs, mloaded = run_w ids np ops in
          if l = "L=skip" then obs, mobs
          else obs ^ ";" ^ l, mobs ^ ";L=" ^ mloaded
        | ["W"; ids; np; ops; obs] -> obs, fst (run_w ids np ops)
        | ["D"; obs] -> obs, ops_str default_ops
        | _ -> "PANIC-OR-MALFORMED", "(model is total)" in
      if impl <> model then begin
        incr bad;
        if !bad <= 20 then begin
          let input = (match String.rindex_opt line ';' with Some i -> String.sub line 0 i | None -> line) in
          Printf.printf "MISMATCH %d\n  case =%s\n  impl =%s\n  model=%s\n" !n input impl model
        end
      end
    done with End_of_file -> ());
  if !end_seen <> !n then begin
    Printf.printf "NO-VALID-END-MARKER (END says %d, %d cases read): the case file is truncated or not a C14 case file\n" !end_seen !n;
    exit 3
  end;
  Printf.printf "CASES %d MISMATCHES %d\n" !n !bad
