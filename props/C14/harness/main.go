// Harness for property C14 (CAN-IDs).  Uses only the PUBLIC API of acmelib.
//
// It generates cases from VERIF_SEED, runs them on the implementation, writes one line per case
// (inputs ; observations) to VERIF_OUT for the extracted Coq model (props/C14/driver) and
// evaluates the C14 property formulas directly on the implementation's own results (PROPFAIL
// lines in VERIF_OUT.summary).
//
//	B;<edits>;<triples>;<obs>      builder history: edits applied to a fresh NewCANIDBuilder,
//	                               then Calculate / CalculatePartials on every triple
//	W;<mid>:<nid>;<npool>;<wops>;<obs>;L=<v>   message / node / bus / builder-pool history with
//	                               Message.GetCANID observed after every step; then the network
//	                               is saved (wire encoding) and loaded again and <v> is GetCANID
//	                               of the message in the loaded network (`-` when the message is
//	                               not attached to a bus and hence not saved, `skip` when the
//	                               final state is not expressible in a save file)
package main

import (
	"bufio"
	"bytes"
	"errors"
	"fmt"
	"math"
	"os"
	"sort"
	"strconv"
	"strings"

	"github.com/squadracorsepolito/acmelib"
)

// ---------------------------------------------------------------- PRNG (SplitMix64)
type rng struct{ s uint64 }

func (r *rng) next() uint64 {
	r.s += 0x9E3779B97F4A7C15
	z := r.s
	z = (z ^ (z >> 30)) * 0xBF58476D1CE4E5B9
	z = (z ^ (z >> 27)) * 0x94D049BB133111EB
	return z ^ (z >> 31)
}
func (r *rng) below(n int) int { return int(r.next() % uint64(n)) }

var bnd32 = []uint32{0, 1, 2, 3, 4, 7, 8, 15, 16, 0x7F, 0x80, 0x7FF, 0x800, 0xFFFF, 0x10000,
	0x7FFFFFFF, 0x80000000, 0xFFFFFFFE, 0xFFFFFFFF, 0xAAAAAAAA, 0x55555555, 0xDEADBEEF}

func (r *rng) val32() uint32 {
	switch r.below(6) {
	case 0, 1:
		return bnd32[r.below(len(bnd32))]
	case 2:
		return uint32(1) << uint(r.below(32))
	case 3:
		return uint32((uint64(1) << uint(r.below(33))) - 1)
	default:
		return uint32(r.next())
	}
}

type triple struct{ p, m, n uint32 }

func (r *rng) triple() triple { return triple{r.val32(), r.val32(), r.val32()} }

// ---------------------------------------------------------------- edits of a builder
type edit struct {
	c                 byte // 'U' Use*, 'A' UseCAN2A, 'I' InsertOperation, 'R' RemoveOperation, 'X' RemoveAllOperations
	k, from, len, idx int
}

func (e edit) String() string {
	switch e.c {
	case 'U':
		return fmt.Sprintf("U:%d:%d:%d", e.k, e.from, e.len)
	case 'A':
		return "A"
	case 'I':
		return fmt.Sprintf("I:%d:%d:%d:%d", e.k, e.from, e.len, e.idx)
	case 'R':
		return fmt.Sprintf("R:%d", e.idx)
	}
	return "X"
}

type mop struct{ k, from, len int } // harness-side mirror of an operation (what was requested)

func opsString(b *acmelib.CANIDBuilder) string {
	ops := b.Operations()
	if len(ops) == 0 {
		return "-"
	}
	parts := make([]string, len(ops))
	for i, o := range ops {
		k := "u" // any kind outside the four constants
		if o.Kind() >= 0 && o.Kind() <= 3 {
			k = strconv.Itoa(int(o.Kind()))
		}
		parts[i] = fmt.Sprintf("%s.%d.%d", k, o.From(), o.Len())
	}
	return strings.Join(parts, ",")
}

// errFlag is what is compared with the model's prediction: K (accepted) or E followed by the
// name of the argument an ArgumentError blames (the code checks from, then length, then opIndex).
func errFlag(err error) string {
	if err == nil {
		return "K"
	}
	var ae *acmelib.ArgumentError
	if errors.As(err, &ae) {
		return "E" + ae.Name
	}
	return "E?"
}

// applyEdit runs the edit on the implementation; returns whether it was accepted.
func applyEdit(b *acmelib.CANIDBuilder, e edit) (bool, error) {
	switch e.c {
	case 'U':
		switch e.k {
		case 0:
			b.UseMessagePriority(e.from)
		case 1:
			b.UseMessageID(e.from, e.len)
		case 2:
			b.UseNodeID(e.from, e.len)
		default:
			b.UseBitMask(e.from, e.len)
		}
		return true, nil
	case 'A':
		b.UseCAN2A()
		return true, nil
	case 'I':
		err := b.InsertOperation(acmelib.CANIDBuilderOpKind(e.k), e.from, e.len, e.idx)
		return err == nil, err
	case 'R':
		err := b.RemoveOperation(e.idx)
		return err == nil, err
	default:
		b.RemoveAllOperations()
		return true, nil
	}
}

// ---------------------------------------------------------------- property formulas, evaluated in Go
func legalOp(o mop) bool {
	return o.from >= 0 && o.from <= 31 && o.len >= 0 && o.len <= 32-o.from
}

// specOp: the documented function of one (legal) operation, written with 64-bit arithmetic so
// that no shift reaches the word size.
func specOp(o mop, prev uint32, t triple) uint32 {
	var src uint64
	switch o.k {
	case 0:
		src = uint64(t.p)
	case 1:
		src = uint64(t.m)
	case 2:
		src = uint64(t.n)
	case 3:
		mask := ((uint64(1) << uint(o.len)) - 1) << uint(o.from)
		return uint32(uint64(prev) & mask & 0xFFFFFFFF)
	default:
		return prev
	}
	v := (src % (uint64(1) << uint(o.len))) << uint(o.from)
	return prev | uint32(v&0xFFFFFFFF)
}

// specOpBits: the same statement bit by bit.
func specOpBits(o mop, prev uint32, t triple) uint32 {
	var src uint32
	switch o.k {
	case 0:
		src = t.p
	case 1:
		src = t.m
	case 2:
		src = t.n
	}
	var res uint32
	for i := 0; i < 32; i++ {
		pb := prev>>uint(i)&1 == 1
		in := o.from <= i && i < o.from+o.len
		var bit bool
		switch {
		case o.k == 3:
			bit = pb && in
		case o.k >= 0 && o.k <= 2:
			bit = pb || (in && src>>uint(i-o.from)&1 == 1)
		default:
			bit = pb
		}
		if bit {
			res |= 1 << uint(i)
		}
	}
	return res
}

// ---------------------------------------------------------------- output / bookkeeping
type state struct {
	w        *bufio.Writer
	hist     map[string]int
	propfail map[string]string
	distinct map[string]bool
	cases    int
	evals    int
	nontriv  int
	samples  []string
}

func (s *state) fail(kind, detail string) {
	if old, ok := s.propfail[kind]; !ok || len(detail) < len(old) {
		s.propfail[kind] = detail
	}
}

func (s *state) emit(line, input string, nontrivial bool) {
	s.cases++
	if !s.distinct[input] {
		s.distinct[input] = true
		if nontrivial {
			s.nontriv++
		}
	}
	fmt.Fprintln(s.w, line)
}

// ---------------------------------------------------------------- B cases
func (s *state) runB(family string, edits []edit, triples []triple) {
	es := make([]string, len(edits))
	for i, e := range edits {
		es[i] = e.String()
	}
	ts := make([]string, len(triples))
	for i, t := range triples {
		ts[i] = fmt.Sprintf("%d:%d:%d", t.p, t.m, t.n)
	}
	input := "B;" + strings.Join(es, " ") + ";" + strings.Join(ts, " ")
	s.hist["B/"+family]++
	defer func() {
		if r := recover(); r != nil {
			s.fail("panic-builder", fmt.Sprintf("panic %v in case %s", r, input))
			s.emit(input+";PANIC", input, false)
		}
	}()

	b := acmelib.NewCANIDBuilder("b")
	mirror := []mop{}
	var obs []string
	for _, e := range edits {
		before := len(b.Operations())
		resync := false
		ok, err := applyEdit(b, e)
		obs = append(obs, errFlag(err)+"|"+opsString(b))
		// --- property: validation and positional behaviour, against the harness's own mirror
		switch e.c {
		case 'U':
			l := e.len
			if e.k == 0 {
				l = 2
			}
			mirror = append(mirror, mop{e.k, e.from, l})
			s.hist["edit/use"]++
		case 'A':
			mirror = append(mirror, mop{3, 0, 11})
			s.hist["edit/can2a"]++
		case 'I':
			// 32-from cannot overflow once from is known to be in 0..31
			want := e.from >= 0 && e.from <= 31 && e.len >= 0 && e.len <= 32-e.from && e.idx >= 0 && e.idx <= before
			if want != ok {
				s.fail("insert-validation", fmt.Sprintf("InsertOperation(kind=%d, from=%d, len=%d, idx=%d) on %d ops: accepted=%v, bounds hold=%v; case %s", e.k, e.from, e.len, e.idx, before, ok, want, input))
				resync = true
			}
			if want {
				nm := append([]mop{}, mirror[:e.idx]...)
				nm = append(nm, mop{e.k, e.from, e.len})
				mirror = append(nm, mirror[e.idx:]...)
			}
			if ok {
				s.hist["edit/insert-ok"]++
			} else {
				var ae *acmelib.ArgumentError
				if !errors.As(err, &ae) || !errors.Is(err, acmelib.ErrOutOfBounds) {
					s.fail("insert-error-kind", fmt.Sprintf("InsertOperation refusal is not ArgumentError/ErrOutOfBounds: %v; case %s", err, input))
				}
				s.hist["edit/insert-refused"]++
			}
		case 'R':
			want := e.idx >= 0 && e.idx < before
			if want != ok {
				s.fail("remove-validation", fmt.Sprintf("RemoveOperation(%d) on %d ops: accepted=%v, bounds hold=%v; case %s", e.idx, before, ok, want, input))
				resync = true
			}
			if want {
				mirror = append(append([]mop{}, mirror[:e.idx]...), mirror[e.idx+1:]...)
			}
			if ok {
				s.hist["edit/remove-ok"]++
			} else {
				var ae *acmelib.ArgumentError
				if !errors.As(err, &ae) || !errors.Is(err, acmelib.ErrOutOfBounds) {
					s.fail("remove-error-kind", fmt.Sprintf("RemoveOperation refusal is not ArgumentError/ErrOutOfBounds: %v; case %s", err, input))
				}
				s.hist["edit/remove-refused"]++
			}
		default:
			mirror = mirror[:0]
			s.hist["edit/remove-all"]++
		}
		// the operation list must be the positional result
		got := b.Operations()
		same := len(got) == len(mirror)
		for i := 0; same && i < len(got); i++ {
			same = int(got[i].Kind()) == mirror[i].k && got[i].From() == mirror[i].from && got[i].Len() == mirror[i].len
		}
		if !same {
			if !resync {
				kind := "ops-after-" + string(e.c)
				s.fail(kind, fmt.Sprintf("after %s the operations are [%s], positional result is %v; case %s", e, opsString(b), mirror, input))
			}
			// resynchronise so that one defect is reported once per case
			mirror = mirror[:0]
			for _, o := range got {
				mirror = append(mirror, mop{int(o.Kind()), o.From(), o.Len()})
			}
		}
	}

	allLegal := true
	for _, o := range mirror {
		if !legalOp(o) {
			allLegal = false
		}
	}
	if allLegal {
		s.hist["oplist/all-legal"]++
	} else {
		s.hist["oplist/has-illegal-shape"]++
	}
	s.hist[fmt.Sprintf("oplist/len=%d", min(len(mirror), 9))]++
	endsCan2A := len(mirror) > 0 && mirror[len(mirror)-1] == mop{3, 0, 11}

	nontrivial := false
	var cobs []string
	for _, t := range triples {
		s.evals++
		c := uint32(b.Calculate(acmelib.MessagePriority(t.p), acmelib.MessageID(t.m), acmelib.NodeID(t.n)))
		ps := b.CalculatePartials(acmelib.MessagePriority(t.p), acmelib.MessageID(t.m), acmelib.NodeID(t.n))
		pstr := make([]string, len(ps))
		for i, p := range ps {
			pstr[i] = strconv.FormatUint(uint64(p), 10)
		}
		cobs = append(cobs, fmt.Sprintf("%d=%s", c, strings.Join(pstr, ",")))
		// --- property: partials
		if len(ps) != len(mirror) {
			s.fail("partials-length", fmt.Sprintf("CalculatePartials returned %d values for %d operations; case %s", len(ps), len(mirror), input))
		} else if len(ps) > 0 && uint32(ps[len(ps)-1]) != c {
			s.fail("partials-last", fmt.Sprintf("last partial %d != Calculate %d for (%d,%d,%d); case %s", ps[len(ps)-1], c, t.p, t.m, t.n, input))
		}
		if len(mirror) == 0 && c != 0 {
			s.fail("calculate-empty", fmt.Sprintf("Calculate on no operations = %d, want 0; case %s", c, input))
		}
		// --- property: each step is the documented function of its operation (legal shapes)
		if allLegal && len(ps) == len(mirror) {
			prev := uint32(0)
			for i, o := range mirror {
				want := specOp(o, prev, t)
				wantBits := specOpBits(o, prev, t)
				if want != wantBits {
					panic("harness: the two forms of the specification disagree")
				}
				if uint32(ps[i]) != want {
					kind := "calc-op-value"
					if o.k == 3 {
						kind = "calc-op-mask"
					}
					s.fail(kind, fmt.Sprintf("op %d (kind=%d from=%d len=%d) on prev=%#x with (p=%#x,id=%#x,node=%#x): got %#x, documented %#x; case %s", i, o.k, o.from, o.len, prev, t.p, t.m, t.n, uint32(ps[i]), want, input))
					break
				}
				if uint32(ps[i]) != prev {
					nontrivial = true
				}
				prev = want
			}
			if prev != c && len(ps) == len(mirror) {
				s.fail("calculate-fold", fmt.Sprintf("Calculate=%#x but applying the operations in order from 0 gives %#x for (%#x,%#x,%#x); case %s", c, prev, t.p, t.m, t.n, input))
			}
		}
		if endsCan2A && c >= 1<<11 {
			s.fail("can2a-11bit", fmt.Sprintf("builder ending in UseCAN2A gives %#x >= 2^11; case %s", c, input))
		}
	}
	line := input + ";" + strings.Join(obs, "/") + "#" + strings.Join(cobs, "/")
	if len(s.samples) < 6 && (s.cases%1777 == 5) {
		s.samples = append(s.samples, line)
	}
	s.emit(line, input, nontrivial)
}

// ---------------------------------------------------------------- W cases
type wop struct {
	c string // P S D N At De DeA Bg+ Bg- Ba Br BrA Ri Na Nr Ba2 Br2 Sb SbB SbN Ed
	v uint32
	i int
	e edit
}

func (o wop) String() string {
	switch o.c {
	case "P", "S", "D", "N":
		return fmt.Sprintf("%s:%d", o.c, o.v)
	case "Sb", "SbB":
		return fmt.Sprintf("%s:%d", o.c, o.i)
	case "Ed":
		return fmt.Sprintf("Ed:%d:%s", o.i, strings.ReplaceAll(o.e.String(), ":", ","))
	}
	return o.c
}

// ids of the sibling message (same interface) and of the second node: the library refuses an
// operation that would duplicate them, and the model predicts that
const (
	sibID     = 0x0ABCDE77
	node2ID   = 0x3C3C3C3D
	bigID     = 0x0BADBAD1 // message id of the oversized (9-byte) message
	static2ID = 0x155      // static CAN-ID of the second node's message (when it has one)
	gwID      = 0x0000065A // id of the message sent through the node's second (gateway) interface
)

func (s *state) runW(mid, nid uint32, npool int, ops []wop) {
	os_ := make([]string, len(ops))
	for i, o := range ops {
		os_[i] = o.String()
	}
	// the second node's message has a static CAN-ID in every second history (from the message id)
	static2 := int64(-1)
	if mid%2 == 0 {
		static2 = static2ID
	}
	input := fmt.Sprintf("W;%d:%d:%d:%d:%d:%d:%d;%d;%s", mid, nid, sibID, node2ID, bigID, static2, gwID, npool, strings.Join(os_, " "))
	s.hist["W/history"]++
	defer func() {
		if r := recover(); r != nil {
			s.fail("panic-getcanid", fmt.Sprintf("panic %v in case %s", r, input))
			s.emit(input+";PANIC", input, false)
		}
	}()

	msg := acmelib.NewMessage("msg", acmelib.MessageID(mid), 8)
	// the node is a gateway: its second interface sends a message of its own on another bus
	node := acmelib.NewNode("node", acmelib.NodeID(nid), 2)
	iface := node.Interfaces()[0]
	gwIface := node.Interfaces()[1]
	bus := acmelib.NewBus("bus")
	net := acmelib.NewNetwork("net")
	busG := acmelib.NewBus("busG")
	gwMsg := acmelib.NewMessage("gwmsg", acmelib.MessageID(gwID), 8)
	if err := gwIface.AddSentMessage(gwMsg); err != nil {
		panic("harness: " + err.Error())
	}
	if err := busG.AddNodeInterface(gwIface); err != nil {
		panic("harness: " + err.Error())
	}
	if err := net.AddBus(busG); err != nil {
		panic("harness: " + err.Error())
	}
	gwOnBus, ifaceGone := true, false
	// a sibling message on the same interface and a bystander node/interface/message: they make the
	// remove-all paths remove more than one thing and are checked by the Go predicate only
	sib := acmelib.NewMessage("msg3", acmelib.MessageID(sibID), 8)
	if err := iface.AddSentMessage(sib); err != nil {
		panic("harness: " + err.Error())
	}
	node2 := acmelib.NewNode("node2", acmelib.NodeID(node2ID), 1)
	iface2 := node2.Interfaces()[0]
	msg2 := acmelib.NewMessage("msg2", acmelib.MessageID(0x00012345), 8)
	if static2 >= 0 {
		if err := msg2.SetStaticCANID(acmelib.CANID(static2)); err != nil {
			panic("harness: " + err.Error())
		}
	}
	if err := iface2.AddSentMessage(msg2); err != nil {
		panic("harness: " + err.Error())
	}
	// an oversized message: a CAN 2.0A bus refuses an interface that sends it, and an interface on
	// such a bus refuses the message
	big := acmelib.NewMessage("big", acmelib.MessageID(bigID), 9)
	bigAttached := false
	sibAttached, onBus2 := true, false
	// a second bus of the same network that can share a builder with the first one
	busB := acmelib.NewBus("busB")
	node3 := acmelib.NewNode("node3", acmelib.NodeID(0x2B), 1)
	msg4 := acmelib.NewMessage("msg4", acmelib.MessageID(0x00000077), 8)
	msg4.SetPriority(acmelib.MessagePriority(mid % 4))
	if err := node3.Interfaces()[0].AddSentMessage(msg4); err != nil {
		panic("harness: " + err.Error())
	}
	if err := busB.AddNodeInterface(node3.Interfaces()[0]); err != nil {
		panic("harness: " + err.Error())
	}
	if err := net.AddBus(busB); err != nil {
		panic("harness: " + err.Error())
	}
	inNet, riUsed := false, false
	// a bus keeps its own default builder until SetCANIDBuilder is called on it
	ownDefault := map[string]bool{"bus": true, "busB": true}
	pool := []*acmelib.CANIDBuilder{bus.CANIDBuilder()}
	for i := 0; i < npool; i++ {
		pool = append(pool, acmelib.NewCANIDBuilder(fmt.Sprintf("pool_%d", i)))
	}
	// pool[0] is the bus's own default builder; SetCANIDBuilder(nil) appends further default
	// builders; pristine: a default builder nobody has edited so far
	pristine := map[int]bool{0: true}
	curBuilder := 0

	// ledger of what the harness did successfully
	hasStatic, static := false, uint32(0)
	attached, onBus := false, false
	statesSeen := map[string]bool{}
	computed := false
	var obs []string
	for _, o := range ops {
		var err error
		switch o.c {
		case "P":
			msg.SetPriority(acmelib.MessagePriority(o.v))
		case "S":
			err = msg.SetStaticCANID(acmelib.CANID(o.v))
			if err == nil {
				hasStatic, static = true, o.v
			}
		case "D":
			err = msg.UpdateID(acmelib.MessageID(o.v))
			if err == nil {
				hasStatic, static = false, 0
			}
		case "N":
			err = node.UpdateID(acmelib.NodeID(o.v))
		case "At":
			err = iface.AddSentMessage(msg)
			if err == nil {
				attached = true
			}
		case "De":
			err = iface.RemoveSentMessage(msg.EntityID())
			if err == nil {
				attached = false
			}
		case "DeA":
			iface.RemoveAllSentMessages()
			attached, sibAttached, bigAttached = false, false, false
		case "Bg+":
			err = iface.AddSentMessage(big)
			if err == nil {
				bigAttached = true
			}
		case "Bg-":
			err = iface.RemoveSentMessage(big.EntityID())
			if err == nil {
				bigAttached = false
			}
		case "BrA":
			bus.RemoveAllNodeInterfaces()
			onBus, onBus2 = false, false
		case "Ri":
			// interface number 0: the observed one first, then (renumbered) the gateway one
			err = node.RemoveInterface(0)
			if err == nil {
				if !ifaceGone {
					onBus, ifaceGone = false, true
				} else {
					gwOnBus = false
				}
				riUsed = true
			}
		case "Na":
			err = net.AddBus(bus)
			if err == nil {
				inNet = true
			}
		case "Nr":
			err = net.RemoveBus(bus.EntityID())
			if err == nil {
				inNet = false
			}
		case "SbB":
			busB.SetCANIDBuilder(pool[o.i])
			ownDefault["busB"] = false
		case "SbN":
			// nil: the bus goes back to a (new) default builder, reachable through CANIDBuilder()
			bus.SetCANIDBuilder(nil)
			if bus.CANIDBuilder() == nil {
				s.fail("nil-builder-not-replaced", fmt.Sprintf("after SetCANIDBuilder(nil) the bus has no builder; case %s", input))
				panic("bus without builder")
			}
			pool = append(pool, bus.CANIDBuilder())
			curBuilder = len(pool) - 1
			pristine[curBuilder] = true
			ownDefault["bus"] = true
		case "Ba2":
			err = bus.AddNodeInterface(iface2)
			if err == nil {
				onBus2 = true
			}
		case "Br2":
			err = bus.RemoveNodeInterface(node2.EntityID())
			if err == nil {
				onBus2 = false
			}
		case "Ba":
			err = bus.AddNodeInterface(iface)
			if err == nil {
				onBus = true
			}
		case "Br":
			err = bus.RemoveNodeInterface(node.EntityID())
			if err == nil {
				onBus = false
			}
		case "Sb":
			bus.SetCANIDBuilder(pool[o.i])
			curBuilder = o.i
			ownDefault["bus"] = false
		case "Ed":
			_, err = applyEdit(pool[o.i], o.e)
			pristine[o.i] = false
		}
		flag := "K"
		if err != nil {
			flag = "E"
			if o.c == "Ed" {
				flag = errFlag(err)
			}
			s.hist["wop/"+o.c+"-refused"]++
		} else {
			s.hist["wop/"+o.c]++
		}
		s.evals++
		got := uint32(msg.GetCANID())
		hs := 0
		if msg.HasStaticCANID() {
			hs = 1
		}
		obs = append(obs, fmt.Sprintf("%s:%d:%d:%d:%d:%d:%d", flag, got, uint32(msg.ID()), uint32(msg.Priority()), hs, uint32(node.ID()), uint32(gwMsg.GetCANID())))

		// --- property: the case split of GetCANID, on the implementation's own public state
		sender := msg.SenderNodeInterface()
		if (sender != nil) != attached || msg.HasStaticCANID() != hasStatic || (iface.ParentBus() != nil) != onBus {
			s.fail("attachment-state", fmt.Sprintf("after %s: sender!=nil %v (did attach: %v), HasStaticCANID %v (set: %v), on bus %v (added: %v); case %s", o, sender != nil, attached, msg.HasStaticCANID(), hasStatic, iface.ParentBus() != nil, onBus, input))
		}
		var want uint32
		var st string
		switch {
		case hasStatic:
			want, st = static, "static"
		case !attached:
			want, st = uint32(msg.ID()), "detached"
		case !onBus:
			want, st = uint32(msg.ID()), "interface-without-bus"
		default:
			st = "on-bus"
			computed = true
			want = uint32(bus.CANIDBuilder().Calculate(msg.Priority(), msg.ID(), node.ID()))
		}
		if attached && onBus && hasStatic {
			st = "static-on-bus"
		} else if attached && hasStatic {
			st = "static-on-interface"
		}
		if st == "on-bus" && pristine[curBuilder] {
			s.hist["getcanid/on-bus-default-builder"]++
			if got >= 1<<11 {
				s.fail("default-11bit", fmt.Sprintf("after %s: GetCANID=%#x >= 2^11 with the bus's default builder [%s]; case %s", o, got, opsString(bus.CANIDBuilder()), input))
			}
		}
		statesSeen[st] = true
		s.hist["getcanid/"+st]++
		// the sibling (same interface) and the bystander (other node) follow the same case split
		for _, other := range []struct {
			who      string
			m        *acmelib.Message
			n        *acmelib.Node
			att, bus bool
			onb      *acmelib.Bus
		}{{"sibling", sib, node, sibAttached, onBus, bus}, {"bystander", msg2, node2, true, onBus2, bus}, {"second-bus", msg4, node3, true, true, busB}, {"oversized", big, node, bigAttached, onBus, bus}, {"gateway", gwMsg, node, true, gwOnBus, busG}} {
			ow, ost := uint32(other.m.ID()), "detached"
			if other.att {
				ost = "interface-without-bus"
				if other.bus {
					ost = "on-bus"
					ow = uint32(other.onb.CANIDBuilder().Calculate(other.m.Priority(), other.m.ID(), other.n.ID()))
				}
			}
			if other.who == "bystander" && static2 >= 0 {
				ow, ost = uint32(static2), "static"
			}
			if og := uint32(other.m.GetCANID()); og != ow {
				s.fail("getcanid-"+other.who+"-"+ost, fmt.Sprintf("after %s: GetCANID of the %s message (state %s) = %#x, documented %#x; case %s", o, other.who, ost, og, ow, input))
			}
			if (other.m.SenderNodeInterface() != nil) != other.att || (other.att && (other.m.SenderNodeInterface().ParentBus() != nil) != other.bus) {
				s.fail("attachment-state-"+other.who, fmt.Sprintf("after %s: the %s message has sender %v / parent bus differing from what was done (attached %v, on bus %v); case %s", o, other.who, other.m.SenderNodeInterface() != nil, other.att, other.bus, input))
			}
		}
		if got != want {
			s.fail("getcanid-"+st, fmt.Sprintf("after %s (state %s): GetCANID=%#x, documented %#x (id=%#x prio=%#x node=%#x builder=[%s]); case %s", o, st, got, want, uint32(msg.ID()), uint32(msg.Priority()), uint32(node.ID()), opsString(bus.CANIDBuilder()), input))
		}
	}
	// ---- save / load leg: every message of the loaded network has the CAN-ID of the original
	loaded := "skip"
	reason := ""
	switch {
	case riUsed:
		reason = "node-interface-removed" // the node no longer owns the interface that sits on the bus
	default:
		for _, m := range []*acmelib.Message{msg, sib, msg2, msg4} {
			if m.Priority() > 3 {
				reason = "priority-not-expressible"
			}
		}
		for _, b := range []*acmelib.Bus{bus, busB} {
			for _, o := range b.CANIDBuilder().Operations() {
				if o.Kind() < 0 || o.Kind() > 3 {
					reason = "unknown-op-kind-not-expressible"
				}
			}
		}
	}
	if reason != "" {
		s.hist["saveload/skipped-"+reason]++
	} else {
		if !inNet {
			if err := net.AddBus(bus); err != nil {
				panic("harness: " + err.Error())
			}
		}
		loaded = s.saveLoad(net, msg, attached && onBus, ownDefault, input)
	}
	line := input + ";" + strings.Join(obs, "/") + ";L=" + loaded
	if len(s.samples) < 8 && s.hist["W/history"]%400 == 7 {
		s.samples = append(s.samples, line)
	}
	s.emit(line, input, len(statesSeen) >= 2 && computed)
}

// canIDsOf lists GetCANID of every message reachable in the network, keyed by bus/node/message
// name, and the operations of each bus's builder.
func canIDsOf(n *acmelib.Network) (map[string]uint32, map[string]string) {
	ids, builders := map[string]uint32{}, map[string]string{}
	for _, b := range n.Buses() {
		builders[b.Name()] = opsString(b.CANIDBuilder())
		for _, ni := range b.NodeInterfaces() {
			for _, m := range ni.SentMessages() {
				ids[b.Name()+"/"+ni.Node().Name()+"/"+m.Name()] = uint32(m.GetCANID())
			}
		}
	}
	return ids, builders
}

// saveLoad saves the network (wire encoding) into a buffer, loads it again and compares GetCANID
// of every message.  A disagreement is a defect of the saver/loader (property C12) that surfaces
// in C14's observable: the signatures say so (saveload-c12-...).
func (s *state) saveLoad(net *acmelib.Network, primary *acmelib.Message, primarySaved bool, ownDefault map[string]bool, input string) string {
	s.hist["saveload/done"]++
	var buf bytes.Buffer
	if err := acmelib.SaveNetwork(net, acmelib.SaveEncodingWire, &buf, nil, nil); err != nil {
		s.fail("saveload-c12-save-error", fmt.Sprintf("SaveNetwork failed: %v; case %s", err, input))
		return "save-error"
	}
	ln, err := acmelib.LoadNetwork(&buf, acmelib.SaveEncodingWire)
	if err != nil {
		s.fail("saveload-c12-load-error", fmt.Sprintf("LoadNetwork of the network just saved failed: %v; case %s", err, input))
		return "load-error"
	}
	primaryKnown := false
	orig, obuilders := canIDsOf(net)
	got, lbuilders := canIDsOf(ln)
	s.hist["saveload/messages-compared"] += len(orig)
	for k, v := range orig {
		w, ok := got[k]
		bus := strings.SplitN(k, "/", 2)[0]
		switch {
		case !ok:
			s.fail("saveload-c12-message-lost", fmt.Sprintf("message %s is missing from the loaded network; case %s", k, input))
		case w != v && ownDefault[bus] && lbuilders[bus] == "2.0.4,1.4.7,3.0.11":
			// the bus still has the default builder it was created with, but that builder was edited
			// through Bus.CANIDBuilder(): the saver writes no builder for such a bus
			s.fail("saveload-c12-default-builder-edits-not-saved", fmt.Sprintf("message %s: GetCANID %#x before save, %#x after load; the bus's own default builder had been edited to [%s] and is loaded as the pristine default; case %s", k, v, w, obuilders[bus], input))
			if k == "bus/node/"+primary.Name() {
				primaryKnown = true
			}
		case w != v && obuilders[bus] != lbuilders[bus]:
			s.fail("saveload-c12-builder-ops", fmt.Sprintf("message %s: GetCANID %#x before save, %#x after load; the builder of its bus was [%s] and is loaded as [%s]; case %s", k, v, w, obuilders[bus], lbuilders[bus], input))
		case w != v:
			s.fail("saveload-c12-canid-differs", fmt.Sprintf("message %s: GetCANID %#x before save, %#x after load (same builder operations [%s]); case %s", k, v, w, obuilders[bus], input))
		}
	}
	for k := range got {
		if _, ok := orig[k]; !ok {
			s.fail("saveload-c12-message-invented", fmt.Sprintf("loaded network has message %s that the original does not; case %s", k, input))
		}
	}
	if !primarySaved {
		return "-"
	}
	_ = primaryKnown
	if v, ok := got["bus/node/"+primary.Name()]; ok {
		return strconv.FormatUint(uint64(v), 10)
	}
	return "missing"
}

// ---------------------------------------------------------------- generators
var bndInt = []int{math.MinInt64, math.MinInt64 + 1, -(1 << 32) - 1, -(1 << 32), -(1 << 32) + 1, -(1 << 31), -64, -33, -32, -31, -1,
	0, 1, 2, 11, 30, 31, 32, 33, 34, 63, 64, 65, 1 << 31, (1 << 32) - 32, (1 << 32) - 1, 1 << 32, (1 << 32) + 1, (1 << 32) + 31, (1 << 32) + 32, (1 << 32) + 33, math.MaxInt64 - 1, math.MaxInt64}

func (r *rng) legalShape() (int, int) {
	from := r.below(32)
	switch r.below(4) {
	case 0:
		return from, 32 - from
	case 1:
		return from, 0
	default:
		return from, r.below(33 - from)
	}
}

func (r *rng) anyInt() int {
	switch r.below(3) {
	case 0:
		return bndInt[r.below(len(bndInt))]
	case 1:
		return r.below(70) - 3
	default:
		return int(r.next())
	}
}

func (r *rng) randomEdit(curLen int, illegalPct int) edit {
	illegal := r.below(100) < illegalPct
	switch x := r.below(10); {
	case x < 3: // Use*
		k := r.below(4)
		f, l := r.legalShape()
		if k == 0 && f > 30 {
			f = r.below(31)
		}
		if illegal {
			f, l = r.anyInt(), r.anyInt()
		}
		return edit{c: 'U', k: k, from: f, len: l}
	case x < 4:
		return edit{c: 'A'}
	case x < 8: // InsertOperation
		k := r.below(4)
		if r.below(25) == 0 {
			k = []int{4, -1, 7, 1 << 40}[r.below(4)]
		}
		f, l := r.legalShape()
		idx := r.below(curLen + 1)
		if illegal {
			switch r.below(4) {
			case 0:
				f = []int{-1, 32, 33, math.MinInt64, math.MaxInt64, r.anyInt()}[r.below(6)]
			case 1:
				l = []int{-1, 32 - f + 1, 33, math.MinInt64, math.MaxInt64, r.anyInt()}[r.below(6)]
			case 2:
				idx = []int{-1, curLen + 1, curLen + 2, math.MinInt64, math.MaxInt64}[r.below(5)]
			default:
				f, l, idx = r.anyInt(), r.anyInt(), r.anyInt()
			}
		}
		return edit{c: 'I', k: k, from: f, len: l, idx: idx}
	case x < 9 || curLen == 0: // RemoveOperation
		idx := 0
		if curLen > 0 {
			idx = r.below(curLen)
		}
		if illegal || curLen == 0 {
			idx = []int{-1, curLen, curLen + 1, math.MinInt64, math.MaxInt64}[r.below(5)]
		}
		return edit{c: 'R', idx: idx}
	default:
		if r.below(4) == 0 {
			return edit{c: 'X'}
		}
		return edit{c: 'R', idx: r.below(curLen)}
	}
}

func main() {
	out := os.Getenv("VERIF_OUT")
	if out == "" {
		fmt.Fprintln(os.Stderr, "VERIF_OUT not set")
		os.Exit(2)
	}
	seed, _ := strconv.ParseUint(os.Getenv("VERIF_SEED"), 10, 64)
	thorough := os.Getenv("VERIF_TIER") == "thorough"
	f, err := os.Create(out)
	if err != nil {
		panic(err)
	}
	s := &state{w: bufio.NewWriterSize(f, 1<<20), hist: map[string]int{}, propfail: map[string]string{}, distinct: map[string]bool{}}
	r := &rng{s: seed ^ 0xC14C14C14}

	if rp := os.Getenv("VERIF_REPLAY_CASE"); rp != "" {
		replay(s, rp)
	} else {
		generate(s, r, thorough)
	}

	// END marker: the driver refuses a case file without it (truncated / wrong file)
	fmt.Fprintf(s.w, "END %d\n", s.cases)
	if err := s.w.Flush(); err != nil {
		panic(err)
	}
	if err := f.Close(); err != nil {
		panic(err)
	}
	sf, err := os.Create(out + ".summary")
	if err != nil {
		panic(err)
	}
	sw := bufio.NewWriter(sf)
	fmt.Fprintf(sw, "cases %d\nevaluations %d\nnontrivial %d\ndistinct %d\n", s.cases, s.evals, s.nontriv, len(s.distinct))
	keys := make([]string, 0, len(s.hist))
	for k := range s.hist {
		keys = append(keys, k)
	}
	sort.Strings(keys)
	for _, k := range keys {
		fmt.Fprintf(sw, "hist %s %d\n", k, s.hist[k])
	}
	for k, v := range s.propfail {
		fmt.Fprintf(sw, "PROPFAIL %s %s\n", k, strings.ReplaceAll(v, "\n", " "))
	}
	for _, l := range s.samples {
		fmt.Fprintf(sw, "SAMPLE %s\n", l)
	}
	if err := sw.Flush(); err != nil {
		panic(err)
	}
	if err := sf.Close(); err != nil {
		panic(err)
	}
}

func generate(s *state, r *rng, thorough bool) {
	// the default builder of a new bus, as the implementation constructs it
	s.emit("D;"+opsString(acmelib.NewBus("bus").CANIDBuilder()), "D", false)
	nTrip, nIllegalTrip, nRandom, nWorld := 12, 3, 4000, 2500
	if thorough {
		nTrip, nIllegalTrip, nRandom, nWorld = 400, 16, 400000, 200000
	}

	// (a) all 4 x 560 legal single operations, alone (prev = 0) and after a seeding operation that
	//     makes prev an arbitrary 32-bit value
	for k := 0; k < 4; k++ {
		for from := 0; from <= 31; from++ {
			for l := 0; l <= 32-from; l++ {
				for seeded := 0; seeded < 2; seeded++ {
					var edits []edit
					if seeded == 1 {
						sk := 1
						if k == 1 {
							sk = 2
						}
						edits = append(edits, edit{c: 'U', k: sk, from: 0, len: 32})
					}
					// priority operations have a fixed length through UseMessagePriority: every
					// length is reached through InsertOperation
					edits = append(edits, edit{c: 'I', k: k, from: from, len: l, idx: seeded})
					ts := make([]triple, nTrip)
					for i := range ts {
						ts[i] = r.triple()
					}
					ts[0] = triple{0xFFFFFFFF, 0xFFFFFFFF, 0xFFFFFFFF}
					s.runB("single-legal", edits, ts)
				}
			}
		}
	}
	// the same shapes through the Use* constructors (kind 0 only has len 2)
	for k := 0; k < 4; k++ {
		for from := 0; from <= 31; from++ {
			for l := 0; l <= 32-from; l++ {
				if k == 0 && l != 2 {
					continue
				}
				ts := []triple{{0xFFFFFFFF, 0xFFFFFFFF, 0xFFFFFFFF}, r.triple(), r.triple()}
				sk := 1
				if k == 1 {
					sk = 2
				}
				s.runB("single-use", []edit{{c: 'U', k: sk, from: 0, len: 32}, {c: 'U', k: k, from: from, len: l}}, ts)
			}
		}
	}
	// (b) unvalidated (from, len) through Use*: every pair of boundary ints
	for k := 0; k < 4; k++ {
		for _, from := range bndInt {
			for _, l := range bndInt {
				if k == 0 && l != 2 {
					continue
				}
				ts := make([]triple, nIllegalTrip)
				for i := range ts {
					ts[i] = r.triple()
				}
				ts[0] = triple{0xFFFFFFFF, 0xFFFFFFFF, 0xFFFFFFFF}
				sk := 1
				if k == 1 {
					sk = 2
				}
				s.runB("use-boundary-ints", []edit{{c: 'U', k: sk, from: 0, len: 32}, {c: 'U', k: k, from: from, len: l}}, ts)
			}
		}
	}
	// (c) InsertOperation: all boundary combinations of (from, len, index) on builders of 0, 1, 3 ops
	froms := []int{math.MinInt64, -1, 0, 1, 30, 31, 32, 33, math.MaxInt64}
	for _, n := range []int{0, 1, 3} {
		base := []edit{}
		for i := 0; i < n; i++ {
			base = append(base, edit{c: 'U', k: 1 + i%3, from: 3 * i, len: 5})
		}
		kk := 0
		for _, from := range froms {
			lens := []int{math.MinInt64, -1, 0, 1, 31 - from, 32 - from, 33 - from, 32, 33, math.MaxInt64}
			if from == math.MinInt64 || from == math.MaxInt64 {
				lens = []int{math.MinInt64, -1, 0, 1, 32, 33, math.MaxInt64}
			}
			for _, l := range lens {
				for _, idx := range []int{math.MinInt64, -1, 0, n - 1, n, n + 1, n + 2, math.MaxInt64} {
					kk++
					edits := append(append([]edit{}, base...), edit{c: 'I', k: kk % 4, from: from, len: l, idx: idx})
					s.runB("insert-boundary", edits, []triple{r.triple(), {0xFFFFFFFF, 0xFFFFFFFF, 0xFFFFFFFF}})
				}
			}
		}
		// (d) RemoveOperation boundary indexes
		for _, idx := range []int{math.MinInt64, -2, -1, 0, 1, n - 2, n - 1, n, n + 1, math.MaxInt64} {
			edits := append(append([]edit{}, base...), edit{c: 'R', idx: idx})
			s.runB("remove-boundary", edits, []triple{r.triple(), {0xFFFFFFFF, 0xFFFFFFFF, 0xFFFFFFFF}})
		}
	}
	// the default builder's shape and builders ending in UseCAN2A
	for i := 0; i < 300; i++ {
		edits := []edit{{c: 'U', k: 2, from: 0, len: 4}, {c: 'U', k: 1, from: 4, len: 7}, {c: 'A'}}
		if i >= 100 {
			edits = nil
			for j, n := 0, r.below(6); j < n; j++ {
				f, l := r.legalShape()
				k := 1 + r.below(3)
				edits = append(edits, edit{c: 'U', k: k, from: f, len: l})
			}
			edits = append(edits, edit{c: 'A'})
		}
		s.runB("can2a", edits, []triple{r.triple(), r.triple(), r.triple(), {0xFFFFFFFF, 0xFFFFFFFF, 0xFFFFFFFF}})
	}
	// (e) random edit histories, lists up to 8 operations
	for i := 0; i < nRandom; i++ {
		var edits []edit
		cur := 0
		n := 1 + r.below(12)
		illegalPct := []int{0, 0, 10, 30}[r.below(4)]
		for j := 0; j < n; j++ {
			e := r.randomEdit(cur, illegalPct)
			if cur >= 8 && (e.c == 'U' || e.c == 'A' || e.c == 'I') {
				e = edit{c: 'R', idx: r.below(cur)}
			}
			edits = append(edits, e)
			// track the length the list will have (the harness knows the validation rule)
			switch e.c {
			case 'U', 'A':
				cur++
			case 'I':
				if e.from >= 0 && e.from <= 31 && e.len >= 0 && e.len <= 32-e.from && e.idx >= 0 && e.idx <= cur {
					cur++
				}
			case 'R':
				if e.idx >= 0 && e.idx < cur {
					cur--
				}
			case 'X':
				cur = 0
			}
		}
		s.runB("random-history", edits, []triple{r.triple(), r.triple(), r.triple(), r.triple()})
	}
	// (f) world histories: all attachment states of the message
	for i := 0; i < nWorld; i++ {
		npool := 1 + r.below(3)
		var ops []wop
		attached, onBus := false, false
		riUsed, inNet, onBus2, big := false, false, false, false
		lens := make([]int, npool+1)
		lens[0] = 3
		n := 4 + r.below(14)
		// half of the histories start with custom builders made through InsertOperation with
		// arbitrary legal (from, len) for every kind (a priority operation of length != 2 can only
		// be made this way) and put one of them on the bus
		if r.below(2) == 0 {
			for bi := 1; bi <= npool; bi++ {
				for k, cnt := 0, 1+r.below(3); k < cnt; k++ {
					f, l := r.legalShape()
					kind := r.below(4)
					if k == 0 && r.below(2) == 0 {
						kind = 0
					}
					ops = append(ops, wop{c: "Ed", i: bi, e: edit{c: 'I', k: kind, from: f, len: l, idx: r.below(lens[bi] + 1)}})
					lens[bi]++
				}
			}
			ops = append(ops, wop{c: "Sb", i: 1 + r.below(npool)})
		}
		for j := 0; j < n; j++ {
			switch x := r.below(20); {
			case x < 2:
				if r.below(3) > 0 {
					ops = append(ops, wop{c: "P", v: uint32(r.below(4))}) // the four named priorities
				} else {
					ops = append(ops, wop{c: "P", v: r.val32()})
				}
			case x < 4:
				ops = append(ops, wop{c: "S", v: r.val32()})
			case x < 6:
				ops = append(ops, wop{c: "D", v: r.val32()})
			case x < 8:
				ops = append(ops, wop{c: "N", v: r.val32()})
			case x < 11:
				// every detach path of a message, then re-attach
				if attached {
					c := []string{"De", "De", "DeA"}[r.below(3)]
					if c == "DeA" {
						big = false
					}
					ops = append(ops, wop{c: c})
				} else {
					ops = append(ops, wop{c: "At"})
				}
				attached = !attached
			case x < 14:
				// every detach path of an interface, then re-attach
				if onBus {
					c := []string{"Br", "Br", "BrA", "BrA", "Ri"}[r.below(5)]
					if c == "Ri" {
						if riUsed {
							c = "BrA"
						}
						riUsed = true
					}
					if c == "BrA" {
						onBus2 = false
					}
					ops = append(ops, wop{c: c})
				} else if riUsed {
					// the node no longer owns the interface: it is not put on a bus again
					ops = append(ops, wop{c: "P", v: uint32(r.below(4))})
					onBus = !onBus
				} else {
					if big {
						ops = append(ops, wop{c: "Bg-"})
						big = false
					}
					ops = append(ops, wop{c: "Ba"})
				}
				onBus = !onBus
			case x == 14 && r.below(3) == 0:
				// operations the library must REFUSE in this state (the model predicts it), or whose
				// acceptance makes a later one collide
				switch r.below(11) {
				case 7, 8:
					// AddNodeInterface refused because the interface carries an oversized message
					// (and AddSentMessage of that message refused once the interface is on a bus)
					if !onBus && !riUsed {
						if !big {
							ops = append(ops, wop{c: "Bg+"})
							big = true
						}
						ops = append(ops, wop{c: "Ba"})
						if r.below(2) == 0 {
							ops = append(ops, wop{c: "Bg-"})
							big = false
						}
					} else {
						ops = append(ops, wop{c: "Bg+"})
					}
				case 9:
					// the static CAN-ID the second node's message may hold: SetStaticCANID /
					// AddNodeInterface / AddSentMessage are refused when it is already on the bus
					ops = append(ops, wop{c: "S", v: static2ID})
					if !onBus2 {
						ops = append(ops, wop{c: "Ba2"})
						onBus2 = true
					}
				case 10:
					if big {
						ops = append(ops, wop{c: "Bg-"})
						big = false
					} else {
						ops = append(ops, wop{c: "D", v: bigID})
					}
				case 0:
					if attached {
						ops = append(ops, wop{c: "At"})
					} else {
						ops = append(ops, wop{c: "De"})
					}
				case 1:
					if onBus && !riUsed {
						ops = append(ops, wop{c: "Ba"})
					} else {
						ops = append(ops, wop{c: "Br"})
					}
				case 2:
					if inNet {
						ops = append(ops, wop{c: "Na"})
					} else {
						ops = append(ops, wop{c: "Nr"})
					}
				case 3:
					if onBus2 {
						ops = append(ops, wop{c: "Ba2"})
					} else {
						ops = append(ops, wop{c: "Br2"})
					}
				case 4:
					if riUsed {
						// the second RemoveInterface takes the gateway interface, a third is refused
						ops = append(ops, wop{c: "Ri"})
					} else {
						ops = append(ops, wop{c: "N", v: node2ID})
					}
				case 5:
					ops = append(ops, wop{c: "D", v: sibID})
				default:
					ops = append(ops, wop{c: "N", v: node2ID})
				}
			case x == 14:
				if r.below(2) == 0 {
					if inNet {
						ops = append(ops, wop{c: "Nr"})
					} else {
						ops = append(ops, wop{c: "Na"})
					}
					inNet = !inNet
				} else {
					if onBus2 {
						ops = append(ops, wop{c: "Br2"})
					} else {
						ops = append(ops, wop{c: "Ba2"})
					}
					onBus2 = !onBus2
				}
			case x < 16:
				// replace the builder of the bus mid-history; the second bus may share it
				switch r.below(6) {
				case 0, 1:
					ops = append(ops, wop{c: "SbB", i: r.below(len(lens))})
				case 2:
					ops = append(ops, wop{c: "SbN"})
					lens = append(lens, 3) // the new default builder has three operations
				default:
					ops = append(ops, wop{c: "Sb", i: r.below(len(lens))})
				}
			default:
				bi := r.below(len(lens))
				e := r.randomEdit(lens[bi], 10)
				if lens[bi] >= 8 && (e.c == 'U' || e.c == 'A' || e.c == 'I') {
					e = edit{c: 'R', idx: r.below(lens[bi])}
				}
				switch e.c {
				case 'U', 'A':
					lens[bi]++
				case 'I':
					if e.from >= 0 && e.from <= 31 && e.len >= 0 && e.len <= 32-e.from && e.idx >= 0 && e.idx <= lens[bi] {
						lens[bi]++
					}
				case 'R':
					if e.idx >= 0 && e.idx < lens[bi] {
						lens[bi]--
					}
				case 'X':
					lens[bi] = 0
				}
				ops = append(ops, wop{c: "Ed", i: bi, e: e})
			}
		}
		// most histories end attached to the bus, so that the save / load leg has something to say
		if r.below(10) < 6 {
			if !attached {
				ops = append(ops, wop{c: "At"})
			}
			if !onBus && !riUsed {
				if big {
					ops = append(ops, wop{c: "Bg-"})
				}
				ops = append(ops, wop{c: "Ba"})
			}
		}
		s.runW(r.val32(), r.val32(), npool, ops)
	}
}

// ---------------------------------------------------------------- replay of one case line (input part)
func atoi(x string) int {
	v, err := strconv.ParseInt(x, 10, 64)
	if err != nil {
		panic("bad int " + x)
	}
	return int(v)
}

func parseEdit(tok string, sep string) edit {
	p := strings.Split(tok, sep)
	switch p[0] {
	case "U":
		return edit{c: 'U', k: atoi(p[1]), from: atoi(p[2]), len: atoi(p[3])}
	case "A":
		return edit{c: 'A'}
	case "I":
		return edit{c: 'I', k: atoi(p[1]), from: atoi(p[2]), len: atoi(p[3]), idx: atoi(p[4])}
	case "R":
		return edit{c: 'R', idx: atoi(p[1])}
	}
	return edit{c: 'X'}
}

func replay(s *state, line string) {
	f := strings.Split(line, ";")
	switch f[0] {
	case "B":
		var edits []edit
		for _, t := range strings.Fields(f[1]) {
			edits = append(edits, parseEdit(t, ":"))
		}
		var ts []triple
		for _, t := range strings.Fields(f[2]) {
			p := strings.Split(t, ":")
			ts = append(ts, triple{uint32(atoi(p[0])), uint32(atoi(p[1])), uint32(atoi(p[2]))})
		}
		s.runB("replay", edits, ts)
	case "W":
		ids := strings.Split(f[1], ":")
		var ops []wop
		for _, t := range strings.Fields(f[3]) {
			p := strings.SplitN(t, ":", 3)
			switch p[0] {
			case "P", "S", "D", "N":
				ops = append(ops, wop{c: p[0], v: uint32(atoi(p[1]))})
			case "Sb", "SbB":
				ops = append(ops, wop{c: p[0], i: atoi(p[1])})
			case "Ed":
				ops = append(ops, wop{c: "Ed", i: atoi(p[1]), e: parseEdit(p[2], ",")})
			default:
				ops = append(ops, wop{c: p[0]})
			}
		}
		s.runW(uint32(atoi(ids[0])), uint32(atoi(ids[1])), atoi(f[2]), ops)
	}
}
