#!/usr/bin/env python3
"""Mutation self-test for C14 (development aid, not a registered command).
Applies small semantic mutants of the anchored code to a scratch worktree of /repo (never to
/repo), checks that `go test ./...` still passes there (i.e. the test-suite does not see the
mutant) and that `VERIF_REPO=<worktree> ./check C14 --tier quick` reports a VIOLATION.
usage: mutate.py <worktree>   (git -C /repo worktree add -b mut-C14 /tmp/wt/C14 main)"""
import os, subprocess, sys, time

MUTANTS = [
    ("insert-len-bound-off-by-one", "canid_builder.go", "if length < 0 || length > 32-from {", "if length < 0 || length > 33-from {"),
    ("insert-index-bound-excludes-append", "canid_builder.go", "if opIndex < 0 || opIndex > len(b.operations) {", "if opIndex < 0 || opIndex >= len(b.operations) {"),
    ("insert-from-31-refused", "canid_builder.go", "if from < 0 || from > 31 {", "if from < 0 || from >= 31 {"),
    ("insert-error-names-from-as-length", "canid_builder.go", "\tif from < 0 || from > 31 {\n\t\treturn &ArgumentError{\n\t\t\tName: \"from\",", "\tif from < 0 || from > 31 {\n\t\treturn &ArgumentError{\n\t\t\tName: \"length\","),
    ("remove-refusal-not-out-of-bounds-name", "canid_builder.go", "\tif opIndex < 0 || opIndex >= len(b.operations) {\n\t\treturn &ArgumentError{\n\t\t\tName: \"opIndex\",", "\tif opIndex < 0 || opIndex >= len(b.operations) {\n\t\treturn &ArgumentError{\n\t\t\tName: \"index\","),
    ("mask-becomes-or", "canid_builder.go", "canID &= (mask << uint32(op.from))", "canID |= (mask << uint32(op.from))"),
    ("mask-not-shifted", "canid_builder.go", "canID &= (mask << uint32(op.from))", "canID &= mask"),
    ("value-mask-width-31", "canid_builder.go", "\tmask := uint32(0xFFFFFFFF) >> uint32(32-op.len)\n\ttmpVal &= mask", "\tmask := uint32(0x7FFFFFFF) >> uint32(31-op.len)\n\ttmpVal &= mask"),
    ("partials-one-short", "canid_builder.go", "\treturn canIDs\n}", "\tif len(canIDs) > 1 {\n\t\treturn canIDs[:len(canIDs)-1]\n\t}\n\treturn canIDs\n}"),
    ("partials-start-from-1", "canid_builder.go", "\tprevCANID := CANID(0)", "\tprevCANID := CANID(1)"),
    ("priority-len-3", "canid_builder.go", "newCANIDBuilderOp(CANIDBuilderOpKindMessagePriority, from, 2)", "newCANIDBuilderOp(CANIDBuilderOpKindMessagePriority, from, 3)"),
    ("node-id-uses-message-id", "canid_builder.go", "\t\ttmpVal = uint32(nodeID)", "\t\ttmpVal = uint32(msgID)"),
    ("remove-deletes-next", "canid_builder.go", "slices.Delete(b.operations, opIndex, opIndex+1)", "slices.Delete(b.operations, max(opIndex-1, 0), max(opIndex-1, 0)+1)"),
    ("getcanid-static-ignored-when-attached", "message.go", "\tif m.hasStaticCANID {\n\t\treturn m.staticCANID\n\t}\n\n\tif !m.hasSenderNodeInt() {", "\tif m.hasStaticCANID && !m.hasSenderNodeInt() {\n\t\treturn m.staticCANID\n\t}\n\n\tif !m.hasSenderNodeInt() {"),
    ("getcanid-no-bus-uses-builder-zero", "message.go", "\tif !nodeInt.hasParentBus() {\n\t\treturn CANID(m.id)\n\t}\n\n\treturn nodeInt.parentBus.canIDBuilder.Calculate", "\tif !nodeInt.hasParentBus() {\n\t\treturn CANID(m.id) & 0x7FF\n\t}\n\n\treturn nodeInt.parentBus.canIDBuilder.Calculate"),
    ("getcanid-node-id-dropped", "message.go", "canIDBuilder.Calculate(m.priority, m.id, nodeInt.node.id)", "canIDBuilder.Calculate(m.priority, m.id, 0)"),
    ("default-builder-8-bit-id", "canid_builder.go", "UseNodeID(0, 4).UseMessageID(4, 7).UseCAN2A()", "UseNodeID(0, 4).UseMessageID(4, 8)"),
]

def sh(cmd, cwd=None, env=None):
    p = subprocess.run(cmd, cwd=cwd, env=env, shell=True, stdout=subprocess.PIPE, stderr=subprocess.STDOUT)
    return p.returncode, p.stdout.decode("utf-8", "replace")

def main(pid, mutants):
    wt = sys.argv[1]
    only = sys.argv[2:]
    env = dict(os.environ, GOFLAGS="-mod=mod", GOPROXY="off")
    env.pop("GOTOOLCHAIN", None); env.pop("GOSUMDB", None)
    verif = os.path.dirname(os.path.dirname(os.path.dirname(os.path.abspath(__file__))))
    res = []
    for name, file, old, new in mutants:
        if only and name not in only:
            continue
        sh("git checkout -q -- . && git clean -fdq", cwd=wt)
        p = os.path.join(wt, file)
        src = open(p).read()
        if src.count(old) != 1:
            res.append((name, "PATTERN-NOT-UNIQUE(%d)" % src.count(old), "", 0)); continue
        open(p, "w").write(src.replace(old, new))
        rc_t, out_t = sh("go build ./... && go test -count=1 ./... 2>&1 | tail -5", cwd=wt, env=env)
        tests = "tests-pass" if rc_t == 0 and "FAIL" not in out_t else "TESTS-FAIL"
        t0 = time.time()
        rc, out = sh("./check %s --tier quick" % pid, cwd=verif, env=dict(env, VERIF_REPO=wt))
        viol = [l for l in out.splitlines() if l.startswith("VIOLATION") or l.startswith("  (")]
        res.append((name, tests, "CAUGHT" if rc != 0 and viol else "MISSED", time.time() - t0))
        print("%-45s %-11s %-7s %5.1fs  %s" % (name, tests, res[-1][2], res[-1][3], " | ".join(v[:150] for v in viol[:4])), flush=True)
    sh("git checkout -q -- . && git clean -fdq", cwd=wt)
    print("caught %d / %d" % (sum(1 for r in res if r[2] == "CAUGHT"), len(res)))

if __name__ == "__main__":
    main("C14", MUTANTS)
