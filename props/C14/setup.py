import os, sys
import vlib
def setup():
    here = os.path.dirname(os.path.abspath(__file__))
    vlib.build_ocaml_driver("c14_driver", os.path.join(vlib.COQ, "extracted"),
                            os.path.join(here, "driver", "c14_driver.ml"), only=["c14_model"])
