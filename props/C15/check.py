"""C15 — exports are deterministic functions of the model.
Proof: coq/Properties/C15.v over coq/C15/Model.v (getters with a map-iteration oracle; Markdown =
the complete C16 block model; saver / DBC exporter = order skeletons).  Tie: the Go harness
(props/C15/harness, public API only) builds generated networks with deliberately tied sort keys
and (A) exports DBC / Markdown / wire 25x (50x) in one process while cycling runtime.GOMAXPROCS,
(D) ExportNetwork (file per bus) for 1..9 buses under GOMAXPROCS 1/2/3/4/8/16, (E) histories with reads
interleaved with changes against a read-free twin and the model's own reload,
(B) rebuilds the specification in a permuted construction order, (C) reloads the saved bytes after
permuting every map-like repeated field; all outputs are compared byte for byte (the property
predicate).  The process is started under GOMAXPROCS = 1, 2, 3, 4, 8, 16 and the id-free outputs are
compared across the three processes.  The extracted Coq model is run on the raw network (map-like
fields in arbitrary order) under the identity, reversing and rotating oracle and its Markdown
blocks / save order / DBC order are compared with the implementation's."""
import json
import os
import re
import vlib

PID = "C15"
PROCS = (1, 2, 3, 4, 8, 16)
# model-level mutators compared with the Go methods on (before, after) dumps of single changes
TIED_MUTATORS = ("mut_bus_name", "mut_node_id", "mut_msg_name", "mut_msg_id", "mut_msg_static")


def build_harness(ctx):
    hdir = vlib.go_harness_dir(ctx.prop_dir, ctx.scratch)
    exe = os.path.join(ctx.scratch, "c15h")
    rc, log = vlib.sh(["go", "build", "-o", exe, "."], cwd=hdir, env=vlib.goenv(), timeout=900)
    return (exe if rc == 0 else None), log, hdir


def run_impl(ctx, exe, hdir, procs, case=None):
    out = os.path.join(ctx.scratch, "cases-%d.txt" % procs)
    sdir = os.path.join(ctx.scratch, "files-%d" % procs)
    os.makedirs(sdir, exist_ok=True)
    env = vlib.goenv()
    env.update({"VERIF_SCRATCH": sdir, "VERIF_OUT": out, "VERIF_SEED": str(ctx.seed), "VERIF_TIER": ctx.tier, "GOMAXPROCS": str(procs)})
    if case is not None:
        env["VERIF_CASE"] = str(case)
    rc, log = vlib.sh([exe], cwd=hdir, env=env, timeout=2400)
    return rc, log, out


def parse_summary(path):
    d = {"hist": {}, "propfail": {}, "samples": []}
    if not os.path.exists(path):
        return d
    for line in open(path):
        p = line.rstrip("\n").split(" ", 2)
        if p[0] == "hist":
            d["hist"][p[1]] = int(p[2])
        elif p[0] == "PROPFAIL":
            d["propfail"][p[1]] = p[2]
        elif p[0] == "sample":
            d["samples"].append(line[7:].strip()[:800])
        else:
            d[p[0]] = int(p[1])
    return d


def vm_cross_check(ctx, drv, out, n, extra_targets):
    """DESIGN 3.3: a sample of the cases with their OBSERVED outputs is written as Coq terms by the
    driver and the model is evaluated inside Coq with vm_compute; every check must be true."""
    ok, log = vlib.coq_build(targets=extra_targets)
    vfile = os.path.join(ctx.scratch, "sample_%s.v" % PID)
    vlib.sh([drv, out, "--coq", vfile, str(n)], timeout=1200)
    if not ok or not os.path.exists(vfile):
        return {"status": "not-run", "detail": (log or "")[-300:]}
    with vlib.Lock("coq"):
        rc, res = vlib.sh(["coqc", "-R", vlib.COQ, "Acme", vfile], cwd=ctx.scratch, timeout=1800)
    m = re.search(r"M =\s*\[([^\]]*)\]", res.replace("\n", " "))
    vals = [v.strip() for v in m.group(1).split(";")] if m and m.group(1).strip() else []
    good = rc == 0 and vals and all(v == "true" for v in vals)
    if not good:
        ctx.violation("%s-vm-compute-cross-check" % PID.lower(),
                      "the model evaluated inside Coq (vm_compute) disagrees with the observed outputs of the sample, or the sample "
                      "does not compile: %s" % res[-600:], {"coqc_output": res[-3000:]}, found_input=False)
    return {"status": "ok" if good else "FAILED", "checks": len(vals), "all_true": bool(good)}


def run(ctx):
    ctx.level = "proof"
    status = vlib.proof_status(PID, extra_targets=["C15/Extract.v"])
    ctx.proof_gate(status)
    drv = vlib.build_ocaml_driver("c15_driver", os.path.join(vlib.COQ, "extracted"),
                                  os.path.join(ctx.prop_dir, "driver", "c15_driver.ml"), only=["c15_model"])
    case = None
    procs_list = PROCS
    if ctx.replay:
        r = json.load(open(ctx.replay))
        rep = r.get("replay") or {}
        case = rep.get("case")
        if rep.get("seed") is not None:
            ctx.seed = int(rep["seed"])
        if rep.get("tier"):
            ctx.tier = rep["tier"]
        if rep.get("gomaxprocs"):
            procs_list = (int(rep["gomaxprocs"]),)
    exe, blog, hdir = build_harness(ctx)
    if exe is None:
        ctx.violation("impl-run-failed", "harness build failed: " + blog[-800:], {"log": blog[-3000:]}, found_input=False)
        ctx.coverage.update({"evaluations": 0})
        return
    summaries, digests, mism_total, evals, hist = {}, {}, 0, 0, {}
    wf_checked = wf_false = 0
    driver_total = written_total = 0
    first_out = None
    mut_cmp, mut_moved = {}, {}
    import concurrent.futures as cf
    with cf.ThreadPoolExecutor(max_workers=len(procs_list)) as ex:
        runs = dict(zip(procs_list, ex.map(lambda p: run_impl(ctx, exe, hdir, p, case), procs_list)))
    for procs in procs_list:
        rc, log, out = runs[procs]
        if ctx.replay:
            print(log)
        if rc != 0 or not os.path.exists(out + ".summary"):
            m = re.search(r"panic: .*", log)
            ctx.violation("impl-run-failed", "harness run failed under GOMAXPROCS=%d (%s): %s" % (procs, m.group(0) if m else "rc=%d" % rc, log[-600:]),
                          {"log": log[-3000:], "gomaxprocs": procs}, found_input=bool(m))
            ctx.coverage.update({"evaluations": 0})
            return
        summ = parse_summary(out + ".summary")
        summaries[procs] = summ
        evals += summ.get("evaluations", 0)
        for k, v in summ["hist"].items():
            hist[k] = hist.get(k, 0) + v
        digests[procs] = dict(l.split() for l in open(out + ".digest") if l.strip())
        for kind, d in sorted(summ["propfail"].items()):
            idx, detail = d.split(" ## ", 1)
            ctx.violation("c15-" + kind, "export is not a deterministic function of the model (%s, GOMAXPROCS=%d): %s" % (kind, procs, detail),
                          {"case": int(idx), "seed": ctx.seed, "tier": ctx.tier, "gomaxprocs": procs, "detail": detail,
                           "how": "./check C15 --replay <this file> regenerates case <case> from <seed>, repeats the exports and prints them"})
        # model correspondence
        rc2, mlog = vlib.sh([drv, out] + (["-v"] if ctx.replay else []), timeout=2400)
        m = re.search(r"CASES (\d+) MISMATCHES (\d+)", mlog)
        mism = int(m.group(2)) if m else -1
        mism_total += abs(mism)
        w = re.search(r"WFCHECKED (\d+) WFFALSE (\d+)", mlog)
        if w:
            wf_checked += int(w.group(1))
            wf_false += int(w.group(2))
        if ctx.replay:
            print(mlog)
        new_fail = [k for k in summ["propfail"] if not any(o["signature"] == "c15-" + k for o in ctx.known_open)]
        driver_cases = int(m.group(1)) if m else -1
        written = summ.get("written", -2)
        driver_total += max(driver_cases, 0)
        written_total += max(written, 0)
        if (driver_cases != written or "DRIVER-ERROR" in mlog) and not new_fail:
            ctx.violation("c15-correspondence-count", "GOMAXPROCS=%d: the driver compared %d cases, the harness wrote %d%s: the correspondence "
                          "was not carried out on every case" % (procs, driver_cases, written,
                                                                 (" (" + re.search(r"DRIVER-ERROR.*", mlog).group(0) + ")") if "DRIVER-ERROR" in mlog else ""),
                          {"driver_output": mlog[:2000], "gomaxprocs": procs}, found_input=False)
        if mism != 0 and not new_fail:
            first = re.search(r"MISMATCH case (\d+) \[(\w+)\].*(\n  .*){0,2}", mlog)
            ctx.violation("c15-correspondence-" + (first.group(2) if first else "driver"),
                          "model and implementation disagree on %s comparison(s); the theorems of Properties/C15.v no longer "
                          "speak about this code: %s" % (mism, (first.group(0) if first else mlog[-500:])[:900]),
                          {"case": int(first.group(1)) if first else None, "seed": ctx.seed, "tier": ctx.tier,
                           "gomaxprocs": procs, "driver_output": mlog[:3000]}, found_input=False)
        # the mutator tie: model-level mutators against the Go methods on (before, after) dumps
        rc3, tlog = vlib.sh([drv, "--mut", out + ".mut"], timeout=2400)
        if ctx.replay:
            print(tlog)
        for mm in re.finditer(r"MUTCMP (\S+) (\d+)", tlog):
            mut_cmp[mm.group(1)] = mut_cmp.get(mm.group(1), 0) + int(mm.group(2))
        for mm in re.finditer(r"MUTMOVED (\S+) (\d+)", tlog):
            mut_moved[mm.group(1)] = mut_moved.get(mm.group(1), 0) + int(mm.group(2))
        tm = re.search(r"MUTTRIPLES (\d+) MUTBAD (\d+)", tlog)
        triples = int(tm.group(1)) if tm else -1
        if not new_fail:
            for mm in re.finditer(r"MUTMISMATCH (\S+) triple (\d+) .*", tlog):
                ctx.violation("c15-mutator-model:" + mm.group(1),
                              "GOMAXPROCS=%d: the model-level mutator %s of coq/C15 and the Go method disagree on a single change of the "
                              "history leg (dump before -> mutator vs dump after; a refused change must leave the dump unchanged), so "
                              "wf_net_preserved / wf_net_preserved_more do not speak about this code: %s" % (procs, mm.group(1), mm.group(0)[:700]),
                              {"seed": ctx.seed, "tier": ctx.tier, "gomaxprocs": procs, "driver_output": tlog[:3000]}, found_input=False)
            if triples != summ.get("muttriples", -2) or "DRIVER-ERROR" in tlog or (tm and int(tm.group(2)) and "MUTMISMATCH" not in tlog):
                ctx.violation("c15-mutator-tie-count", "GOMAXPROCS=%d: the driver compared %d (before, change, after) triples, the harness wrote %d%s"
                              % (procs, triples, summ.get("muttriples", -2),
                                 (" (" + re.search(r"DRIVER-ERROR.*", tlog).group(0) + ")") if "DRIVER-ERROR" in tlog else ""),
                              {"driver_output": tlog[:2000], "gomaxprocs": procs}, found_input=False)
        if first_out is None:
            first_out = out
    # the same specifications exported by processes with different GOMAXPROCS
    cross = 0
    if len(digests) > 1:
        base = digests[procs_list[0]]
        for procs in procs_list[1:]:
            for idx, h in sorted(digests[procs].items(), key=lambda kv: int(kv[0])):
                cross += 1
                if base.get(idx) != h:
                    ctx.violation("c15-gomaxprocs-differs",
                                  "case %s: DBC / Markdown / canonical wire output differs between a process with GOMAXPROCS=%d and one with GOMAXPROCS=%d"
                                  % (idx, procs_list[0], procs),
                                  {"case": int(idx), "seed": ctx.seed, "tier": ctx.tier, "gomaxprocs": procs})
                    break
    # every leg must have been exercised: a clause that silently drops out is not a pass
    if not ctx.replay:
        legs = {"repetitions": "evaluations", "rebuilds": "rebuilds", "reloads": "reloads", "exportnetwork-files": "networkfiles",
                "histories": "histories", "interleaved-formats": "interleaves", "boundary-resaves": "boundaries",
                "shared-writer-saves": "sharedwrites", "cold-exportnetwork-files": "coldfiles",
                "extreme-enum-indexes": "extremeenums",
                "foreign-activity-between-exports": "foreignacts"}
        any_new = any(not any(o["signature"] == "c15-" + k for o in ctx.known_open) for s_ in summaries.values() for k in s_["propfail"])
        for leg, key in sorted(legs.items()):
            for procs, s_ in sorted(summaries.items()):
                floor = max(1, s_.get("cases", 0) // 3)
                # legs whose size does not grow with the number of cases have their own floor
                floor = {"cold-exportnetwork-files": 30, "extreme-enum-indexes": 500}.get(leg, floor)
                if s_.get(key, 0) < floor and not any_new:
                    ctx.violation("c15-leg-not-exercised-" + leg,
                                  "GOMAXPROCS=%d: the %s leg made %d comparisons for %d cases (floor %d); loads failed: %d - the clause was "
                                  "not explored, so it is not shown" % (procs, leg, s_.get(key, 0), s_.get("cases", 0), floor, s_.get("loadfailed", 0)),
                                  {"gomaxprocs": procs, "summary": {k: v for k, v in s_.items() if isinstance(v, int)}}, found_input=False)
                    break
    # every mutator that is claimed to be tied must have been compared (accepted changes that moved an entry)
    if not ctx.replay:
        any_new = any(not any(o["signature"] == "c15-" + k for o in ctx.known_open) for s_ in summaries.values() for k in s_["propfail"])
        for mut in TIED_MUTATORS:
            if mut_moved.get(mut, 0) == 0 and not any_new:
                ctx.violation("c15-mutator-tie-not-exercised:" + mut,
                              "no accepted, state-changing %s was compared with the Go method in this run (comparisons: %s)" % (mut, mut_cmp),
                              {"comparisons": mut_cmp, "moved": mut_moved}, found_input=False)
    s0 = summaries[procs_list[0]]
    ctx.min_evaluations = 3000 if ctx.tier == "quick" else 50000
    ctx.coverage.update({
        "evaluations": evals + cross,
        "cases_per_process": s0.get("cases", 0),
        "processes_gomaxprocs": list(procs_list),
        "repetitions_per_case": s0.get("reps", 0),
        "rebuilds_permuted_order": sum(s.get("rebuilds", 0) for s in summaries.values()),
        "reloads_permuted_save": sum(s.get("reloads", 0) for s in summaries.values()),
        "loads_failed_skipped": sum(s.get("loadfailed", 0) for s in summaries.values()),
        "cross_process_comparisons": cross,
        "export_network_files_compared": sum(s.get("networkfiles", 0) for s in summaries.values()),
        "history_comparisons": sum(s.get("histories", 0) for s in summaries.values()),
        "shared_writer_saves": sum(s.get("sharedwrites", 0) for s in summaries.values()),
        "cold_export_network_files": sum(s.get("coldfiles", 0) for s in summaries.values()),
        "foreign_activity_comparisons": sum(s.get("foreignacts", 0) for s in summaries.values()),
        "extreme_enum_index_comparisons": sum(s.get("extremeenums", 0) for s in summaries.values()),
        "boundary_resave_comparisons": sum(s.get("boundaries", 0) for s in summaries.values()),
        "cases_written": written_total, "cases_compared_by_driver": driver_total,
        "interleaved_format_exports": sum(s.get("interleaves", 0) for s in summaries.values()),
        "distinct_nontrivial": s0.get("nontrivial", 0),
        "distinct_cases": s0.get("distinct", 0),
        "rule": "cases = seeded random networks (4 of 5 with deliberately tied sort keys: same-named types / units / enums / "
                "attributes / CAN-ID builders, types of equal size, nodes with equal ids on different buses, a static CAN-ID equal "
                "to a sibling's message id, same-named receivers); evaluations = export triples (DBC of every bus, Markdown, wire) "
                "compared byte for byte: repetitions on the unchanged model under runtime.GOMAXPROCS 1/4/16, rebuilds in a permuted "
                "construction order (wire modulo the renaming entity id -> first-occurrence index, create_time dropped), reloads of "
                "the save with every map-like repeated field permuted, ExportNetwork of networks with 1..9 buses under runtime.GOMAXPROCS "
                "1/2/3/4/8/16 (every file against ExportBus of its bus), histories (build, read, then Node.UpdateID / UpdateName / "
                "Bus.UpdateName / remove+re-add / Message.UpdateID / SetStaticCANID / priority / renames ... with exports, String() "
                "and getter calls between every two changes) against a fresh build with the same changes and no reads and against "
                "the model's own reload, exports before / after unrelated library activity (generated foreign DBC texts - own and "
                "neighbouring exports, unchanged or perturbed per section: foreign NS_ symbols, attributes, value tables, comments, nodes, "
                "duplicated / dropped / truncated lines - handed to ImportDBCFile, an independent copy loaded and exported), and the same specification across processes started with GOMAXPROCS=1,2,3,4,8,16; every "
                "case (and every post-history state) also compared with the Coq model under three oracles; non-trivial = distinct case "
                "(hash of its Markdown + DBC) in which at least one bus lists two definitions / messages with a tied sort key",
        "distribution": hist,
        "model_mismatches": mism_total,
        "mutator_tie_comparisons": dict(sorted(mut_cmp.items())),
        "mutator_tie_state_changing": dict(sorted(mut_moved.items())),
        "wf_net_hypothesis": "wf_netb (proved sound for wf_net) evaluated by the driver on %d raw networks dumped through the getters "
                             "(initial and post-history states): false on %d" % (wf_checked, wf_false),
        "property_predicate_failures": sorted(set(k for s in summaries.values() for k in s["propfail"])),
        "samples": s0["samples"][:2],
        "exhaustive": False,
        "trusted_base": [
            "Coq 8.16.1 kernel (coqc; coqchk in the thorough tier)",
            "axioms: none (Print Assumptions: Closed under the global context)" if not status["axioms"] else "axioms: " + ", ".join(status["axioms"]),
            "extraction (ExtrOcamlBasic + ExtrOcamlString; the polymorphic oracle is passed through Obj.magic) + OCaml 4.13.1 + props/C15/driver/c15_driver.ml",
            "Go harness props/C15/harness (generator, builder, byte comparison, canonical renaming of the wire encoding, protobuf field permutation, DBC / wire order projections)",
            "model coq/C15/Model.v: getters = oracle permutation + stable sort by the Go comparator's key; saver and DBC exporter are ORDER SKELETONS "
            "(which entity is listed where), the content of each record is not modelled (props/C15/NOTES.md); Markdown is the complete block model of C16",
            "not modelled: Go's proto.Marshal (the messages have no map fields; repeated fields are emitted in slice order), dbc.Write (writes its slices in order), "
            "pdqsort instability (subsumed by the oracle: any outcome of an unstable sort is the stable sort of some permutation)",
        ],
    })
    ctx.assumptions = ["entity ids are part of the model: where two map entries have equal names the getters fall back to the entity id, so a rebuild with "
                       "fresh random ids is compared only when no such tie exists; the reload (same ids, permuted file) covers the others",
                       "LoadNetwork failures (loader defects, C12/C13) are skipped and counted, not judged here"]
    if ctx.tier == "thorough":
        ctx.coverage["vm_compute_cross_check"] = vm_cross_check(ctx, drv, first_out, 8, ["C15/ModelChk.v"])
        ok, chk = vlib.coqchk(PID)
        ctx.coverage["coqchk"] = "ok" if ok else "FAILED"
        ctx.coverage["coqchk_tail"] = chk[-1500:]
        if not ok:
            ctx.proof_problems = (getattr(ctx, "proof_problems", []) or []) + ["coqchk failed: " + chk[-500:]]
